"""C11 — factorisations reconstruct the input and have the promised structure."""
import math
from fractions import Fraction

from .common import Failure, f2h, h2f, parse_reply, vec
from . import c01 as H
from .c01 import (exact_chol_verdict, Dy, dy, blocks, finite, inf_norm, isqrt_exact, bareiss_det, exact_residual, exact_matmul_resid,
                  EPS, col)

ID = "C11"
BIN = "c11"
PROOF_MODULES = ["Compute.Props.C11"]
REQUIRED_THEOREMS = [
    "Cv.C11.cholesky_shape", "Cv.C11.cholesky_cell_rejects_iff", "Cv.C11.lu_pivots_perm", "Cv.C11.det_spec", "Cv.C11.lu_det_spec", "Cv.C11.parity_legacy_wrong",
    "Cv.C11.parity_correct_le6", "Cv.C11.matrix_lu_eq_slice", "Cv.C11.matrix_luSolve_eq_slice",
    "Cv.C11.matrix_cholesky_eq_slice", "Cv.C11.matrix_forward_eq_slice", "Cv.C11.matrix_backward_eq_slice", "Cv.C11.cholesky_rejects_indefinite_witness",
]
RULE = ("orders 1..32 x {SPD to cond 1e8, symmetric indefinite with positive diagonal (float and integer), dense, "
        "structured inputs (exactly lower/upper triangular, diagonal, bidiagonal, Hessenberg, arrow, permuted triangular with dominant / dominated / zero diagonals), adversarial pivot columns, extreme power-of-two scale with scaling-invariance pairs, every factorisation at powers of four 4^k (|k| 26..480) with exact factor-scaling pairs, mixed-scale diagonals, singular PSD B*B^T, sparse SPD (arrowhead, banded, block), integer, singular, rank-deficient, zero leading pivot, permutation matrices, triangular} x "
        "{lu, cholesky, det, lu_det, triangular solves, cholesky_solve, lu_solve} in slice and Matrix form, "
        "plus permutation vectors up to length 40 for ipiv_parity; non-trivial = distinct (op, class, order)")
EXHAUSTIVE = {"quick": False, "thorough": False}
NOT_PROVED = [
    "floating-point rounding of the reconstruction residuals (decided per run by the exact-arithmetic oracle)",
    "P*A = L*U and L*L^T = A in exact arithmetic for every order (T-B)",
    "lu_multipliers_le_one (|l_ij| <= 1) as a theorem for every order (checked exactly by the oracle on every generated lu)",
    "ipiv_parity = sign for permutations longer than 6 (exhaustive kernel check up to 6; oracle up to 40), "
    "and that its inner loop never exhausts the model's fuel (never observed; the driver would answer `! diverged`)",
]
TRUSTED = [
    "is_square modelled with an exact integer square root (f32 sqrt is exact below 2^24 elements)",
    "numpy eigenvalue estimate, used only to classify generated symmetric matrices as clearly definite / clearly indefinite",
]
ASSUMPTIONS = ["default cargo features (no blas/lapack)", "matrix element count < 2^24"]

C_LU = 100.0      # max observed < 0.5
C_CHOL = 200.0    # max observed 0.9
C_DET = 100.0     # max observed < 0.5
C_TRI = 100.0

STATS = H.STATS


# ---------------------------------------------------------------- generators
def g_singular(rng, n):
    A = [float(rng.randint(-5, 5)) for _ in range(n * n)] if rng.chance(0.5) else [rng.normal() for _ in range(n * n)]
    if n >= 2:
        k = rng.randint(0, n - 1)
        m = rng.randint(0, n - 1)
        if m == k:
            m = (k + 1) % n
        how = rng.randint(0, 2)
        for j in range(n):
            if how == 0:
                A[k * n + j] = A[m * n + j]           # two equal rows
            elif how == 1:
                A[j * n + k] = 0.0                    # a zero column
            else:
                A[k * n + j] = 2.0 * A[m * n + j]     # exactly proportional rows
    else:
        A[0] = 0.0
    return A


def g_rankdef(rng, n):
    r = rng.randint(0, max(n - 1, 0))
    U = [[float(rng.randint(-3, 3)) for _ in range(r)] for _ in range(n)]
    V = [[float(rng.randint(-3, 3)) for _ in range(n)] for _ in range(r)]
    return [float(sum(U[i][k] * V[k][j] for k in range(r))) for i in range(n) for j in range(n)]


def g_zerolead(rng, n):
    A = [rng.normal() if rng.chance(0.5) else float(rng.randint(-4, 4)) for _ in range(n * n)]
    A[0] = 0.0
    if n >= 3 and rng.chance(0.5):
        A[n + 1] = 0.0
        A[1] = 0.0 if rng.chance(0.3) else A[1]
    return A


def g_perm(rng, n):
    p = rng.shuffle(list(range(n)))
    return [1.0 if p[i] == j else 0.0 for i in range(n) for j in range(n)]


def g_lower(rng, n, unit=False):
    return [((1.0 if unit else rng.choice([-1.0, 1.0]) * rng.uniform(0.5, 2.0)) if i == j else
             (rng.normal() / 2 if j < i else 0.0)) for i in range(n) for j in range(n)]


def g_upper(rng, n):
    L = g_lower(rng, n)
    return [L[j * n + i] for i in range(n) for j in range(n)]


LU_CLASSES = {
    "dense": H.g_dense, "int": H.g_int, "singular": g_singular, "rankdef": g_rankdef, "zerolead": g_zerolead,
    "advpivot": H.g_advpivot, "extreme": H.g_extreme, "perm": g_perm, "tri": H.g_tri, "tinypivot": H.g_tinypivot, "graded": H.g_graded, "diagdom": H.g_diagdom,
    "spd": H.g_spd,
}
CHOL_CLASSES = {
    "psd_singular": H.g_psd_singular, "arrow_spd": H.g_arrow_spd, "band_spd": H.g_band_spd, "block_spd": H.g_block_spd,
    "spd": H.g_spd, "graded_spd": lambda r, n: H.g_graded(r, n, 8, True), "diagdom_sym": lambda r, n: H.g_diagdom(r, n, True),
    "symindef": H.g_symindef, "symindef_int": H.g_symindef_int, "dense": H.g_dense,
    "spd_int": lambda r, n: spd_int(r, n),
}


def spd_int(rng, n):
    G = [[rng.randint(-3, 3) for _ in range(n)] for _ in range(n)]
    return [float(sum(G[k][i] * G[k][j] for k in range(n)) + (1 if i == j else 0)) for i in range(n) for j in range(n)]


# ---------------------------------------------------------------- generic strata (tools/GENERIC_STRATA.md)
def int_scale(A):
    """A = Aint * 2^k exactly with integer Aint -> (Aint, k), else None"""
    nz = [v for v in A if v != 0]
    if not nz or not finite(A):
        return None
    parts = []
    for v in A:
        if v == 0:
            parts.append((0, 0))
            continue
        m, e = dy(v)
        while m % 2 == 0:
            m //= 2
            e += 1
        parts.append((m, e))
    k = min(e for m, e in parts if m != 0)
    ints = [m << (e - k) if m else 0 for m, e in parts]
    if max(abs(v) for v in ints) >= 2 ** 200:
        return None
    return ints, k


def g_rank1(rng, n):
    u = [rng.randint(-4, 4) for _ in range(n)]
    v = [rng.randint(-4, 4) for _ in range(n)]
    if rng.chance(0.3):
        u[0] = 0
    return [float(u[i] * v[j]) for i in range(n) for j in range(n)]


def packed_lu(rng, n):
    Lu = g_lower(rng, n, unit=True)
    Uu = g_upper(rng, n)
    return [Lu[i] if (i // n) > (i % n) else Uu[i] for i in range(n * n)]


def strata(rng, tier, lines, cover):
    def cnt(k):
        cover[k] = cover.get(k, 0) + 1

    iv = lambda p: "%d %s" % (len(p), " ".join(map(str, p))) if p else "0"
    for rep in range(1 if tier == "quick" else 4):
        for n in H.BOUNDARY_N:
            cnt("strata:order=%d" % n)
            b = [rng.normal() for _ in range(n)]
            # factorisations at the unrolled-dot boundaries; rank-1 / rank-deficient / zero integer matrices
            for A in (H.g_dense(rng, n), g_rank1(rng, n), g_rankdef(rng, n), [0.0] * (n * n), H.g_special(rng, n)):
                lines.append("both_lu " + vec(A))
            lines.append("mdet %d %d %s" % (n, n, vec(g_rank1(rng, n))))
            for S in (H.g_spd(rng, n), H.g_band_spd(rng, n), spd_int(rng, n)):
                lines.append("both_chol " + vec(S))
            L, U = g_lower(rng, n), g_upper(rng, n)
            Lp = [abs(v) if i // n == i % n else v for i, v in enumerate(L)]
            lines.append("both_tri fwd %s %s" % (vec(L), vec(b)))
            lines.append("both_tri bwd %s %s" % (vec(U), vec(b)))
            lines.append("both_tri chol_solve %s %s" % (vec(Lp), vec(b)))
            # solves with an explicit factor: Vector and Matrix right-hand sides with nsys != n, nsys > n, nsys = 1
            opts = [1, 2, 3, n + 1, 8, 9] + ([n - 1] if n > 2 else []) + ([2 * n] if n <= 9 else [])
            ncol = rng.choice([c for c in opts if c != n])
            S = [rng.normal() for _ in range(n * ncol)]
            f, piv = packed_lu(rng, n), rng.shuffle(list(range(n)))
            lines.append("mlu_solve_m %d %d %s %s %d %d %s" % (n, n, vec(f), iv(piv), n, ncol, vec(S)))
            lines.append("mlu_solve_v %d %d %s %s %s" % (n, n, vec(f), iv(piv), vec(b)))
            lines.append("lu_solve %s %s %s" % (vec(f), iv(piv), vec(b)))
            lines.append("mchol_solve_m %d %d %s %d %d %s" % (n, n, vec(Lp), n, ncol, vec(S)))
            lines.append("mchol_solve_v %d %d %s %s" % (n, n, vec(Lp), vec(b)))
            lines.append("chol_solve %s %s" % (vec(Lp), vec(b)))
        # determinant of non-singular matrices at tiny / huge exact power-of-two scale, and graded diagonals
        for k in (-53, -60, -100, -200, -400, 60, 200):
            n = rng.randint(2, 8)
            A = H.g_int(rng, n)
            cnt("strata:det-scale")
            lines.append("mdet %d %d %s" % (n, n, vec([math.ldexp(v, k) for v in A])))
            lines.append("both_lu " + vec([math.ldexp(v, k) for v in A]))
        for n in (2, 3, 5):
            D = [0.0] * (n * n)
            for i in range(n):
                D[i * n + i] = math.ldexp(float(rng.randint(1, 5)), -60 * i)
            if n > 2:
                D[1] = 1.0
            lines.append("mdet %d %d %s" % (n, n, vec(D)))
        # threshold bands: the epsilon of the symmetry assert, the `<= 0` tests, `-0` / NaN in the triangular asserts
        for n, A in H.eps_band_matrices(rng):
            cnt("strata:threshold")
            lines.append("both_chol " + vec(A))
            lines.append("mis_pd %d %d %s" % (n, n, vec(A)))
        for n in (2, 5):
            b = [rng.normal() for _ in range(n)]
            L = g_lower(rng, n)
            L[n - 1] = -0.0                                   # (0, n-1): -0 above the diagonal is still triangular
            lines.append("both_tri fwd %s %s" % (vec(L), vec(b)))
            lines.append("mis_lower %d %d %s" % (n, n, vec(L)))
            L[n - 1] = float("nan")                           # NaN != 0: not triangular for the Matrix form
            lines.append("mfwd %d %d %s %s" % (n, n, vec(L), vec(b)))
            lines.append("mis_lower %d %d %s" % (n, n, vec(L)))


# ---------------------------------------------------------------- structured inputs (round-11 seed C11y)
def g_structured(rng, n, shape, mode, ints):
    """exactly structured matrices: lower / upper triangular, diagonal, bidiagonal, Hessenberg, arrow, permuted triangular;
    mode 'dom' = dominant diagonal, 'sub' = off-diagonal entries larger than the diagonal (pivoting must exchange rows),
    'zero' = some zeros on the diagonal"""
    def off():
        v = float(rng.randint(2, 9) * rng.choice([-1, 1])) if ints else rng.choice([-1.0, 1.0]) * rng.uniform(1.5, 6.0)
        return v if mode != "dom" else v / 16.0
    def dia():
        return float(rng.choice([-1, 1])) * (float(rng.randint(1, 2)) if ints else rng.uniform(0.2, 1.0)) * (8.0 if mode == "dom" else 1.0)
    A = [0.0] * (n * n)
    for i in range(n):
        for j in range(n):
            keep = {"lower": j < i, "upper": j > i, "diag": False, "bidiag": j == i - 1, "hess": j < i or j == i + 1,
                    "arrow": (i == n - 1 and j < i) or (j == n - 1 and i < j) if False else (i == n - 1 and j < i),
                    "permtri": j < i}[shape]
            if keep and (shape in ("bidiag", "arrow") or rng.chance(0.8)):
                A[i * n + j] = off()
        A[i * n + i] = dia()
    if mode == "zero":
        for _ in range(rng.randint(1, max(1, n // 3))):
            q = rng.randint(0, n - 1)
            A[q * n + q] = 0.0
    if shape == "permtri":
        perm = rng.shuffle(list(range(n)))
        A = [A[perm[i] * n + j] for i in range(n) for j in range(n)]
    return A


def structured_strata(rng, tier, lines, cover):
    def cnt(k):
        cover[k] = cover.get(k, 0) + 1

    shapes = ["lower", "upper", "diag", "bidiag", "hess", "arrow", "permtri"]
    for rep in range(1 if tier == "quick" else 4):
        for n in range(2, 13):
            for si, shape in enumerate(shapes):
                mode = ["dom", "sub", "zero"][(n + si + rep) % 3]
                if shape == "lower":
                    mode = ["sub", "sub", "dom", "zero"][(n + rep) % 4]
                ints = (n + si) % 2 == 0
                A = g_structured(rng, n, shape, mode, ints)
                cnt("structured:%s:%s" % (shape, mode))
                lines.append("# structured %s %s n=%d" % (shape, mode, n))
                lines.append("both_lu " + vec(A))
                lines.append("mlu %d %d %s" % (n, n, vec(A)))
                lines.append("mdet %d %d %s" % (n, n, vec(A)))
                if si % 2 == 0:
                    lines.append("lu " + vec(A))
                    piv = rng.shuffle(list(range(n)))
                    lines.append("mlu_det %d %d %s %d %s" % (n, n, vec(A), n, " ".join(map(str, piv))))
                if shape in ("lower", "bidiag", "arrow", "diag") and mode != "zero":
                    # the SPD matrix with this (sign-normalised) factor: Cholesky must return a lower-triangular factor of it
                    L = [abs(v) if q // n == q % n else (v if (q % n) < (q // n) else 0.0) for q, v in enumerate(A)]
                    S = [math.fsum(L[i * n + k2] * L[j * n + k2] for k2 in range(n)) for i in range(n) for j in range(n)]
                    for i in range(n):
                        for j in range(i):
                            S[i * n + j] = S[j * n + i]
                    lines.append("both_chol " + vec(S))


def _c11y_corpus():
    """round-11 seed C11y: exactly lower-triangular matrices whose sub-diagonal entries exceed the diagonal in every column —
    partial pivoting must exchange rows; slice lu and Matrix::lu must agree and |L| <= 1"""
    a3 = [1., 0., 0., 4., 1., 0., -3., 5., 1.]
    a5 = [0.5, 0, 0, 0, 0, 2, 0.25, 0, 0, 0, -3, 1, 0.5, 0, 0, 1, -4, 2, 1, 0, 6, 3, -5, 7, 2]
    return ["both_lu " + vec(a3), "both_lu " + vec([float(v) for v in a5])]


CRATE_SPD4 = [6., 3., 4., 8., 3., 6., 5., 1., 4., 5., 10., 7., 8., 1., 7., 25.]   # test_cholesky of the crate
SCALE4 = [-26, -30, -50, -100, -250, -480, 50, 250, 480]                       # exponents k of 4^k


def _c11w_corpus():
    """round-10 seed C11w: a perfectly conditioned SPD matrix in tiny units (diagonal <= f64::EPSILON) must still factor,
    to exactly 2^k times the factor of the unscaled matrix"""
    return ["chol_pair %s %s" % (vec(CRATE_SPD4), vec([math.ldexp(v, -60) for v in CRATE_SPD4])),
            "chol_pair %s %s" % (vec(CRATE_SPD4), vec([math.ldexp(v, -200) for v in CRATE_SPD4]))]


def scale_strata(rng, tier, lines, cover):
    """every factorisation at powers of four: 4^k A has Cholesky factor 2^k L(A) exactly, LU factors P, L unchanged and
    U scaled; plus mixed-scale diagonals"""
    def cnt(k):
        cover[k] = cover.get(k, 0) + 1

    for rep in range(1 if tier == "quick" else 4):
        for n in range(1, 13):
            k = SCALE4[(n + rep) % len(SCALE4)]
            k2 = SCALE4[(n + rep + 4) % len(SCALE4)]
            cnt("scale4:%d" % k)
            S = rng.choice([H.g_spd, lambda r, m: H.g_diagdom(r, m, True), spd_int, H.g_band_spd])(rng, n)
            Ss = [math.ldexp(v, 2 * k) for v in S]
            lines.append("# scale stratum n=%d 4^%d" % (n, k))
            lines.append("chol_pair %s %s" % (vec(S), vec(Ss)))
            lines.append("both_chol " + vec(Ss))
            lines.append("mchol %d %d %s" % (n, n, vec(Ss)))
            lines.append("chol " + vec([math.ldexp(v, 2 * k2) for v in S]))
            G = rng.choice([H.g_dense, H.g_int, H.g_diagdom])(rng, n)
            Gs = [math.ldexp(v, 2 * k) for v in G]
            lines.append("lu_pair %s %s" % (vec(G), vec(Gs)))
            lines.append("mdet %d %d %s" % (n, n, vec(Gs)))
            lines.append("mlu %d %d %s" % (n, n, vec(Gs)))
            # triangular solves and solves from an explicit factor at that scale
            b = [math.ldexp(rng.normal(), 2 * k) for _ in range(n)]
            L = [math.ldexp(v, k) for v in g_lower(rng, n)]
            U = [L[j * n + i] for i in range(n) for j in range(n)]
            Lp = [abs(v) if i // n == i % n else v for i, v in enumerate(L)]
            lines.append("both_tri fwd %s %s" % (vec(L), vec(b)))
            lines.append("both_tri bwd %s %s" % (vec(U), vec(b)))
            lines.append("both_tri chol_solve %s %s" % (vec(Lp), vec(b)))
            piv = rng.shuffle(list(range(n)))
            f = [math.ldexp(v, 2 * k) if (i // n) <= (i % n) else v for i, v in enumerate(packed_lu(rng, n))]
            lines.append("mlu_det %d %d %s %d %s" % (n, n, vec(f), n, " ".join(map(str, piv))))
            lines.append("lu_solve %s %d %s %s" % (vec(f), n, " ".join(map(str, piv)), vec(b)))
        # mixed-scale diagonals: SPD, diagonal, the factor is the exact square root
        for d in ([1.0, 1e-20, 1e-36], [1e-36, 1.0, 1e-20], [1e-17], [4.0 ** -30, 1.0], [1e-300, 1e300, 1.0, 2.0 ** -1000],
                  [rng.loguniform(1e-40, 1e40) for _ in range(rng.randint(2, 8))]):
            m = len(d)
            D = [d[i] if i == j else 0.0 for i in range(m) for j in range(m)]
            cnt("scale4:mixed-diagonal")
            lines.append("both_chol " + vec(D))
            lines.append("both_lu " + vec(D))
            lines.append("mdet %d %d %s" % (m, m, vec(D)))


def corpus():
    one, two, z = f2h(1.0), f2h(2.0), f2h(0.0)
    a = "4 %s %s %s %s" % (one, two, two, one)                    # F02: indefinite, positive diagonal
    cyc = [0, 1, 0, 0, 0, 0, 1, 0, 0, 0, 0, 1, 1, 0, 0, 0]         # F03: 4-cycle permutation matrix, det = -1
    c = "16 " + " ".join(f2h(float(v)) for v in cyc)
    return ["chol " + a, "mchol 2 2 " + a, "both_chol " + a, "parity 4 1 2 3 0", "mdet 4 4 " + c,
            "mlu_det 4 4 %s 4 1 2 3 0" % ("16 " + " ".join(f2h(float(i // 4 == i % 4)) for i in range(16))),
            "both_lu " + c] + _c11w_corpus() + _c11y_corpus()


def gen(rng, tier):
    lines, cover = [], {}

    def cnt(k):
        cover[k] = cover.get(k, 0) + 1

    N = 220 if tier == "quick" else 3000
    lu_names, ch_names = sorted(LU_CLASSES), sorted(CHOL_CLASSES)
    for it in range(N):
        n = H.order(rng, tier)
        if it < 64:
            n = 1 + it % 32
        cls = lu_names[it % len(lu_names)]
        na = rng.randint(3, 16) if cls == "advpivot" else (rng.randint(2, 12) if cls == "extreme" else n)
        A = LU_CLASSES[cls](rng, na)
        n0, n = n, na
        cnt("lu:" + cls)
        cnt("order:%d" % n)
        lines.append("# lu cls=%s n=%d" % (cls, n))
        lines.append("both_lu " + vec(A))
        lines.append("mdet %d %d %s" % (n, n, vec(A)))
        if it % 4 == 0:
            lines.append("lu " + vec(A))
            lines.append("mlu %d %d %s" % (n, n, vec(A)))
        if cls == "advpivot":
            lines.append("mlu %d %d %s" % (n, n, vec(A)))
            lines.append("lu " + vec(A))
        n = n0
        cls2 = ch_names[it % len(ch_names)]
        S = CHOL_CLASSES[cls2](rng, n)
        cnt("chol:" + cls2)
        lines.append("# chol cls=%s n=%d" % (cls2, n))
        lines.append("both_chol " + vec(S))
        if it % 4 == 1:
            lines.append("chol " + vec(S))
            lines.append("mchol %d %d %s" % (n, n, vec(S)))
            lines.append("mis_pd %d %d %s" % (n, n, vec(S)))
        # triangular solves
        b = [rng.normal() for _ in range(n)]
        L = g_lower(rng, n)
        U = g_upper(rng, n)
        k = it % 3
        if k == 0:
            lines.append("both_tri fwd %s %s" % (vec(L), vec(b)))
            lines.append("mis_lower %d %d %s" % (n, n, vec(L)))
        elif k == 1:
            lines.append("both_tri bwd %s %s" % (vec(U), vec(b)))
            lines.append("mis_upper %d %d %s" % (n, n, vec(U)))
        else:
            Lp = [abs(v) if i // n == i % n else v for i, v in enumerate(L)]
            lines.append("both_tri chol_solve %s %s" % (vec(Lp), vec(b)))
        if it % 6 == 0:
            # a non-triangular matrix: the Matrix forms must reject it
            D = H.g_dense(rng, n)
            lines.append("both_tri %s %s %s" % (rng.choice(["fwd", "bwd", "chol_solve"]), vec(D), vec(b)))
            lines.append("mis_lower %d %d %s" % (n, n, vec(D)))
            lines.append("mis_upper %d %d %s" % (n, n, vec(D)))
            lines.append("mdiag %d %d %s" % (n, n, vec(D)))
        # packed LU + permutation vector for lu_solve / lu_det
        Lu = g_lower(rng, n, unit=True)
        Uu = g_upper(rng, n)
        packed = [Lu[i] if (i // n) > (i % n) else Uu[i] for i in range(n * n)]
        piv = rng.shuffle(list(range(n)))
        pv = "%d %s" % (n, " ".join(map(str, piv))) if n else "0"
        lines.append("both_lu_solve %s %s %s" % (vec(packed), pv, vec(b)))
        lines.append("mlu_det %d %d %s %s" % (n, n, vec(packed), pv))
        # permutation vectors
        m = rng.randint(0, 40)
        p = rng.shuffle(list(range(m)))
        lines.append("parity %d %s" % (m, " ".join(map(str, p))) if m else "parity 0")
        if it % 5 == 0 and m >= 2:
            q = list(p)
            how = rng.randint(0, 2)
            if how == 0:
                q[rng.randint(0, m - 1)] = q[rng.randint(0, m - 1)]      # maybe a duplicate
            elif how == 1:
                q[rng.randint(0, m - 1)] = m + rng.randint(0, 3)         # out of range
            else:
                q[rng.randint(0, m - 1)] = -1 - rng.randint(0, 3)        # negative
            lines.append("parity %d %s" % (m, " ".join(map(str, q))))
    # exact power-of-two scaling: the factorisation of A * 2^k is the factorisation of A, scaled
    for it in range(N // 4):
        nn = rng.randint(2, 12)
        base = H.g_extreme_base(rng, nn)
        nn = H.isqrt_exact(len(base))
        k = rng.choice(H.SCALE_EXPS)
        cnt("scale:%d" % k)
        lines.append("lu_pair %s %s" % (vec(base), vec([math.ldexp(v, k) for v in base])))
    strata(rng, tier, lines, cover)
    scale_strata(rng, tier, lines, cover)
    structured_strata(rng, tier, lines, cover)
    for a in ([4.0, 2.0, 2.0, 1.0], [1.0, 1.0, 1.0, 1.0], [0.0]):   # C11e witnesses: exactly zero last pivot
        lines.append("both_chol " + vec(a))
    z = f2h(0.0)
    for l in ["lu 0", "chol 0", "lu 2 %s %s" % (z, z), "chol 3 %s %s %s" % (z, z, z), "mlu 2 3 6 " + " ".join([z] * 6),
              "mchol 0 0 0", "mlu 0 0 0", "mdet 0 0 0", "fwd 0 0", "bwd 0 0", "chol_solve 0 0",
              "mfwd 3 2 6 %s 3 %s" % (" ".join([f2h(1.0), z, f2h(2.0), f2h(1.0), f2h(3.0), f2h(4.0)]), " ".join([f2h(1.0)] * 3)),
              "mfwd 2 3 6 %s 2 %s" % (" ".join([f2h(1.0), z, z, f2h(2.0), f2h(1.0), z]), " ".join([f2h(1.0)] * 2)),
              "mbwd 3 2 6 %s 3 %s" % (" ".join([f2h(1.0), f2h(2.0), z, f2h(1.0), z, z]), " ".join([f2h(1.0)] * 3)),
              "mbwd 2 3 6 %s 2 %s" % (" ".join([f2h(1.0), f2h(2.0), f2h(2.0), z, f2h(1.0), f2h(3.0)]), " ".join([f2h(1.0)] * 2)),
              "mis_upper 3 1 3 %s" % " ".join([f2h(1.0), z, z]), "mis_upper 3 1 3 %s" % " ".join([f2h(1.0), f2h(1.0), z]),
              "mis_lower 1 3 3 %s" % " ".join([f2h(1.0), z, z]), "mdiag 2 3 6 " + " ".join([f2h(float(i)) for i in range(6)]),
              "lu_solve 4 %s 2 0 1 3 %s %s %s" % (" ".join([f2h(1.0)] * 4), z, z, z), "lu_solve 4 %s 3 0 1 1 2 %s %s" % (" ".join([f2h(1.0)] * 4), z, z),
              "lu_solve 4 %s 1 1 2 %s %s" % (" ".join([f2h(1.0), z, z, f2h(1.0)]), f2h(3.0), f2h(5.0)),
              "lu_solve 4 %s 2 0 2 2 %s %s" % (" ".join([f2h(1.0)] * 4), z, z),
              "mlu_solve_m 2 2 4 %s 2 1 0 2 0 0" % " ".join([f2h(1.0), z, z, f2h(1.0)]),
              "mlu_solve_m 2 2 4 %s 2 1 0 2 3 6 %s" % (" ".join([f2h(1.0), z, f2h(0.5), f2h(2.0)]), " ".join(f2h(float(i)) for i in range(6))),
              "mchol_solve_m 2 2 4 %s 2 3 6 %s" % (" ".join([f2h(1.0), z, f2h(0.5), f2h(2.0)]), " ".join(f2h(float(i)) for i in range(6)))]:
        lines.append(l)
    return lines, cover


# ---------------------------------------------------------------- oracle
def _stat(k, v):
    if v == v and v > STATS.get(k, 0.0):
        STATS[k] = v


def perm_sign(p):
    seen, s = [False] * len(p), 1
    for i in range(len(p)):
        if not seen[i]:
            k, ln = i, 0
            while not seen[k]:
                seen[k] = True
                k = p[k]
                ln += 1
            if ln % 2 == 0:
                s = -s
    return s


def is_perm(p):
    return sorted(p) == list(range(len(p)))


def sym_class(A, n):
    """'spd' (clearly, cond <= ~1e9), 'indef' (clearly not positive definite), 'nonsym', or None (no claim)"""
    if not finite(A):
        return None
    if any(abs(A[i * n + j] - A[j * n + i]) > EPS for i in range(n) for j in range(i)):
        return "nonsym"
    if any(A[i * n + j] != A[j * n + i] for i in range(n) for j in range(i)):
        return None
    if n == 0:
        return None
    import numpy as np
    M = np.array(A, dtype=float).reshape(n, n)
    w = np.linalg.eigvalsh(M)
    nrm = float(np.max(np.abs(w))) or 1.0
    cls = "spd" if w[0] > 1e-9 * nrm else ("indef" if w[0] < -1e-9 * nrm else None)
    if cls and n <= 16 and all(v == int(v) and abs(v) < 1e6 for v in A):
        # integer matrices: confirm exactly with Sylvester's criterion (leading principal minors)
        Ai = [int(v) for v in A]
        minors = [bareiss_det([Ai[i * n + j] for i in range(k) for j in range(k)], k) for k in range(1, n + 1)]
        exact_pd = all(m > 0 for m in minors)
        if exact_pd != (cls == "spd"):
            return None
    return cls


def rvec(t, pos):
    k = int(t[pos])
    return [h2f(x) for x in t[pos + 1:pos + 1 + k]], pos + 1 + k


def rints(t, pos):
    k = int(t[pos])
    return [int(x) for x in t[pos + 1:pos + 1 + k]], pos + 1 + k


def check_lu(fails, i, key, A, n, f_t, p_t):
    f = [h2f(x) for x in f_t]
    piv = [int(x) for x in p_t]
    if len(f) != n * n or not is_perm(piv):
        fails.append(Failure(i, key, "lu: pivot vector %r is not a permutation of 0..%d" % (piv[:12], n - 1)))
        return
    if not finite(A) or max((abs(v) for v in A), default=0) > 2.0 ** 1000:
        return
    if not finite(f):
        fails.append(Failure(i, key, "lu: non-finite factor for finite input (order %d)" % n))
        return
    for r in range(n):
        for c in range(r):
            if abs(f[r * n + c]) > 1.0:
                fails.append(Failure(i, key, "lu: multiplier l[%d,%d] = %r exceeds 1 in magnitude" % (r, c, f[r * n + c])))
                return
    L = [f[r * n + c] if c < r else (1.0 if c == r else 0.0) for r in range(n) for c in range(n)]
    U = [f[r * n + c] if c >= r else 0.0 for r in range(n) for c in range(n)]
    PA = [A[piv[r] * n + c] for r in range(n) for c in range(n)]
    res = exact_matmul_resid(L, U, PA, n)
    absLU = max((sum(sum(abs(L[r * n + k]) * abs(U[k * n + c]) for k in range(n)) for c in range(n)) for r in range(n)), default=0.0)
    scale = inf_norm(A, n) + absLU
    ratio = 0.0 if res == 0 else (res / (n * EPS * scale) if scale > 0 else float("inf"))
    _stat("lu:resid", ratio)
    if ratio > C_LU:
        fails.append(Failure(i, key, "lu: |P*A - L*U| = %.3g = %.3g * n*eps*(|A|+||L||U||) (order %d)" % (res, ratio, n)))


def check_chol(fails, i, key, A, n, l_t):
    L = [h2f(x) for x in l_t]
    if len(L) != n * n or not finite(L):
        fails.append(Failure(i, key, "cholesky: non-finite or mis-sized factor (order %d)" % n))
        return
    for r in range(n):
        if not L[r * n + r] > 0:
            fails.append(Failure(i, key, "cholesky: diagonal entry %d is %r, not positive" % (r, L[r * n + r])))
            return
        for c in range(r + 1, n):
            if L[r * n + c] != 0.0:
                fails.append(Failure(i, key, "cholesky: entry (%d,%d) above the diagonal is %r" % (r, c, L[r * n + c])))
                return
    Lt = [L[c * n + r] for r in range(n) for c in range(n)]
    res = exact_matmul_resid(L, Lt, A, n)
    scale = inf_norm(A, n)
    ratio = 0.0 if res == 0 else (res / (n * EPS * scale) if scale > 0 else float("inf"))
    _stat("chol:resid", ratio)
    if ratio > C_CHOL:
        fails.append(Failure(i, key, "cholesky: |L*L^T - A| = %.3g = %.3g * n*eps*|A| (order %d)" % (res, ratio, n)))


def check_tri(fails, i, key, what, T, n, x_t, b):
    x = [h2f(v) for v in x_t]
    if len(x) != n or not finite(x):
        fails.append(Failure(i, key, "%s: non-finite or mis-sized solution" % what))
        return
    res = exact_residual(T, n, x, b, 1)[0]
    scale = inf_norm(T, n) * max((abs(v) for v in x), default=0.0) + max((abs(v) for v in b), default=0.0)
    ratio = 0.0 if res == 0 else (res / (n * EPS * scale) if scale > 0 else float("inf"))
    _stat("tri:" + what, ratio)
    if ratio > C_TRI:
        fails.append(Failure(i, key, "%s: |T*x - b| = %.3g = %.3g * n*eps*(|T||x|+|b|) (order %d)" % (what, res, ratio, n)))


def oracle(lines, impl):
    fails = []
    for i, (l, rep) in enumerate(zip(lines, impl)):
        t = l.split()
        if not t or t[0].startswith("#"):
            continue
        op = t[0]
        st, toks = parse_reply(rep)
        if st == "skip":
            continue
        if st not in ("ok", "panic"):
            fails.append(Failure(i, op + ":reply", "unexpected reply %r" % rep[:80]))
            continue
        if op in ("both_lu", "lu", "mlu"):
            A, _ = rvec(t, 1 if op != "mlu" else 3)
            n = isqrt_exact(len(A))
            if op == "mlu" and (int(t[1]) != int(t[2]) or int(t[1]) * int(t[2]) != len(A)):
                if st != "panic":
                    fails.append(Failure(i, "mlu:shape", "Matrix::lu accepted a non-square matrix"))
                continue
            if n is None:
                if st != "panic":
                    fails.append(Failure(i, op + ":shape", "lu accepted a non-square array"))
                continue
            key = "%s:n=%d" % (op, n)
            if st != "ok":
                fails.append(Failure(i, key, "%s panicked on a square matrix of order %d" % (op, n)))
                continue
            if op == "both_lu":
                bl = blocks(toks)
                if len(bl) != 4 or any(b is None for b in bl):
                    fails.append(Failure(i, key, "lu panicked on a square matrix of order %d" % n))
                    continue
                if bl[0] != bl[2] or bl[1] != bl[3]:
                    fails.append(Failure(i, key, "slice lu and Matrix::lu return different factors or pivots (order %d)" % n))
                check_lu(fails, i, key, A, n, bl[0], bl[1])
                if bl[0] != bl[2] or bl[1] != bl[3]:
                    check_lu(fails, i, key, A, n, bl[2], bl[3])   # judge the Matrix factors on their own too
            elif op == "lu":
                bl = blocks(toks)
                check_lu(fails, i, key, A, n, bl[0], bl[1])
            else:
                bl = blocks(toks[2:])
                check_lu(fails, i, key, A, n, bl[0], bl[1])
        elif op == "lu_pair":
            A, p = rvec(t, 1)
            B, _ = rvec(t, p)
            n = isqrt_exact(len(A))
            if n is None or len(B) != len(A) or st != "ok":
                continue
            key = "lu_pair:n=%d" % n
            bl = blocks(toks)
            if len(bl) != 8 or any(b is None for b in bl):
                fails.append(Failure(i, key, "lu panicked on a square matrix of order %d" % n))
                continue
            for (mat, o, tag) in ((A, 0, "unscaled"), (B, 4, "scaled")):
                if bl[o] != bl[o + 2] or bl[o + 1] != bl[o + 3]:
                    fails.append(Failure(i, key, "slice lu and Matrix::lu return different factors or pivots on the %s matrix (order %d)" % (tag, n)))
                    check_lu(fails, i, key, mat, n, bl[o + 2], bl[o + 3])
                check_lu(fails, i, key, mat, n, bl[o], bl[o + 1])
            nz = [(a, b) for a, b in zip(A, B) if a != 0]
            if not nz or any((a == 0) != (b == 0) for a, b in zip(A, B)):
                continue
            k = math.frexp(nz[0][1])[1] - math.frexp(nz[0][0])[1]
            if any(math.ldexp(a, k) != b for a, b in zip(A, B)):
                continue
            for o, tag in ((0, "slice lu"), (2, "Matrix::lu")):
                f0 = [h2f(x) for x in bl[o]]
                f1 = [h2f(x) for x in bl[4 + o]]
                # every non-zero value of both factorisations and every |l||u| product must be comfortably normal
                vals = [abs(v) for v in f0 + f1 if v != 0]
                lo = min(vals, default=1.0)
                lmin = min((abs(f0[r * n + c]) for r in range(n) for c in range(r) if f0[r * n + c] != 0), default=1.0)
                if lo * min(lmin, 1.0) < 2.0 ** -960 or max(vals, default=1.0) > 2.0 ** 1000:
                    continue
                if bl[o + 1] != bl[4 + o + 1]:
                    fails.append(Failure(i, key, "%s: pivots change under exact scaling by 2^%d: %s vs %s (order %d)" % (tag, k, bl[o + 1][:8], bl[4 + o + 1][:8], n)))
                    continue
                for r in range(n):
                    for c in range(n):
                        e = f0[r * n + c] if c < r else math.ldexp(f0[r * n + c], k)
                        if f1[r * n + c] != e:
                            fails.append(Failure(i, key, "%s: entry (%d,%d) of the factor of A*2^%d is %r, expected %r (order %d)" % (tag, r, c, k, f1[r * n + c], e, n)))
                            break
                    else:
                        continue
                    break
        elif op == "chol_pair":
            A, p = rvec(t, 1)
            B, _ = rvec(t, p)
            n = isqrt_exact(len(A))
            if n is None or len(B) != len(A) or st != "ok" or n == 0:
                continue
            key = "chol_pair:n=%d" % n
            bl = blocks(toks)
            if len(bl) != 4:
                fails.append(Failure(i, key, "chol_pair: %d blocks" % len(bl)))
                continue
            for (mat, o, tag) in ((A, 0, "unscaled"), (B, 2, "scaled")):
                cls = sym_class(mat, n)
                for what, r in (("cholesky", bl[o]), ("Matrix::cholesky", bl[o + 1])):
                    if cls == "spd":
                        if r is None:
                            fails.append(Failure(i, key, "%s rejected the %s positive-definite matrix (order %d, max entry %.3g)" % (what, tag, n, max(abs(v) for v in mat))))
                        else:
                            check_chol(fails, i, key, mat, n, r)
                    elif cls in ("indef", "nonsym") and r is not None:
                        fails.append(Failure(i, key, "%s accepted a %s matrix that is %s" % (what, tag, cls)))
                if cls is not None and bl[o] != bl[o + 1]:
                    fails.append(Failure(i, key, "slice cholesky and Matrix::cholesky differ on the %s matrix (order %d)" % (tag, n)))
            # exact scaling by a power of four: the factor scales by the exact power of two
            nz = [(a, b) for a, b in zip(A, B) if a != 0]
            if not nz or any((a == 0) != (b == 0) for a, b in zip(A, B)) or not finite(A) or not finite(B):
                continue
            k2 = math.frexp(nz[0][1])[1] - math.frexp(nz[0][0])[1]
            if k2 % 2 or any(math.ldexp(a, k2) != b for a, b in zip(A, B)):
                continue
            for o, what in ((0, "cholesky"), (1, "Matrix::cholesky")):
                r0, r1 = bl[o], bl[2 + o]
                if (r0 is None) != (r1 is None):
                    fails.append(Failure(i, key, "%s: the verdict changes under exact scaling by 4^%d (%s vs %s, order %d)"
                                         % (what, k2 // 2, "factor" if r0 else "rejected", "factor" if r1 else "rejected", n)))
                    continue
                if r0 is None:
                    continue
                f0 = [h2f(x) for x in r0]
                f1 = [h2f(x) for x in r1]
                small = min(abs(v) for v in f0 + f1 if v != 0)
                big = max(abs(v) for v in A + B)
                if small < 2.0 ** -500 or big > 2.0 ** 1000:
                    continue      # products of factor entries could be subnormal / overflow: rounding may legitimately differ
                for q in range(n * n):
                    e = math.ldexp(f0[q], k2 // 2)
                    if f1[q] != e:
                        fails.append(Failure(i, key, "%s: entry %d of the factor of 4^%d * A is %r, expected exactly 2^%d * %r (order %d)"
                                             % (what, q, k2 // 2, f1[q], k2 // 2, f0[q], n)))
                        break
        elif op in ("both_chol", "chol", "mchol"):
            A, _ = rvec(t, 1 if op != "mchol" else 3)
            n = isqrt_exact(len(A))
            if op == "mchol" and (int(t[1]) != int(t[2]) or int(t[1]) * int(t[2]) != len(A)):
                continue
            if n is None:
                if st != "panic":
                    fails.append(Failure(i, op + ":shape", "cholesky accepted a non-square array"))
                continue
            key = "%s:n=%d" % (op, n)
            cls = sym_class(A, n)
            if op == "both_chol":
                if st != "ok":
                    fails.append(Failure(i, key, "both_chol: request panicked"))
                    continue
                bl = blocks(toks)
                results = [("cholesky", bl[0]), ("Matrix::cholesky", bl[1])]
                if bl[0] != bl[1] and cls is not None:
                    fails.append(Failure(i, key, "slice cholesky and Matrix::cholesky differ (order %d)" % n))
            elif op == "chol":
                results = [("cholesky", toks[1:] if st == "ok" else None)]
            else:
                results = [("Matrix::cholesky", toks[3:] if st == "ok" else None)]
            verdict = exact_chol_verdict(A, n) if n else None
            if n and finite(A) and all((A[a * n + b] == 0) for a in range(n) for b in range(n) if a != b) and all(A[a * n + a] > 0 for a in range(n)):
                expd = [f2h(math.sqrt(A[q])) if q // n == q % n else f2h(0.0) for q in range(n * n)]
                for what, r in results:
                    if r is None:
                        fails.append(Failure(i, key, "%s rejected a diagonal matrix with positive diagonal %r" % (what, [A[a * n + a] for a in range(n)][:6])))
                    elif list(r) != expd:
                        fails.append(Failure(i, key, "%s of a positive diagonal matrix is not the exact square root of its diagonal" % what))
                continue
            for what, r in results:
                if r is not None and finite(A) and len(r) == n * n and any(not (h2f(r[d * n + d]) > 0) for d in range(n)):
                    fails.append(Failure(i, key, "%s returned a factor whose diagonal is not positive (order %d)" % (what, n)))
                elif verdict == "reject" and r is not None:
                    fails.append(Failure(i, key, "%s accepted a matrix that is not positive definite: the (exactly representable) sweep meets a pivot <= 0 (order %d)" % (what, n)))
                elif verdict == "accept" and r is None and what == "cholesky":
                    fails.append(Failure(i, key, "%s rejected a matrix whose exact sweep has only positive pivots (order %d)" % (what, n)))
                elif r is not None and not finite([h2f(v) for v in r]) and finite(A):
                    fails.append(Failure(i, key, "%s returned a non-finite factor instead of rejecting the input (order %d)" % (what, n)))
                elif cls == "spd":
                    if r is None:
                        fails.append(Failure(i, key, "%s rejected a positive-definite matrix of order %d" % (what, n)))
                    else:
                        check_chol(fails, i, key, A, n, r)
                elif cls in ("indef", "nonsym") and r is not None:
                    fails.append(Failure(i, key, "%s accepted a matrix that is %s (order %d)" % (what, "indefinite" if cls == "indef" else "not symmetric", n)))
        elif op == "mdet":
            r, c = int(t[1]), int(t[2])
            A, _ = rvec(t, 3)
            if r != c or r * c != len(A):
                continue
            n = r
            key = "mdet:n=%d" % n
            if st != "ok":
                fails.append(Failure(i, key, "det panicked on a square matrix of order %d" % n))
                continue
            d = h2f(toks[0])
            isc = int_scale(A) if n and n <= 16 else None
            if isc is not None and not (all(v == int(v) and abs(v) < 1e6 for v in A)):
                # A = Aint * 2^k: the exact determinant is det(Aint) * 2^(k n)
                Ai, k = isc
                exq = Fraction(bareiss_det(Ai, n)) * Fraction(2) ** (k * n)
                Af = [float(v) for v in Ai] if max(abs(v) for v in Ai) < 2 ** 900 else None
                if Af is not None and exq != 0 and Fraction(1, 10 ** 290) < abs(exq) < Fraction(10 ** 290):
                    cond = H.cond_inf(Af, n)
                    if cond < 1e12:
                        rel = abs(Fraction(d) - exq) / abs(exq) if math.isfinite(d) else float("inf")
                        ratio = float(rel) / (n * n * EPS * max(cond, 1.0))
                        _stat("det-scaled", ratio)
                        if ratio > C_DET:
                            fails.append(Failure(i, key, "det = %r, exact determinant %.17g (relative error %.3g = %.3g * n^2*eps*cond, order %d)"
                                                 % (d, float(exq), float(rel), ratio, n), repr(float(exq))))
            elif n and all(v == int(v) and abs(v) < 1e6 for v in A):
                ex = bareiss_det([int(v) for v in A], n)
                had = 1.0
                for rr in range(n):
                    had *= math.sqrt(sum(v * v for v in A[rr * n:(rr + 1) * n])) or 1.0
                cond = H.cond_inf(A, n) if ex != 0 else 0.0
                if cond == float("inf"):
                    cond = 0.0
                tol = n * n * EPS * (had + abs(float(ex)) * cond)
                err = abs(float(d - ex)) if math.isfinite(d) else float("inf")
                ratio = 0.0 if err == 0 else err / tol
                _stat("det", ratio)
                if ratio > C_DET:
                    fails.append(Failure(i, key, "det = %r, exact determinant %d (error %.3g = %.3g * n^2*eps*(Hadamard+|det|cond), order %d)" % (d, ex, err, ratio, n), str(ex)))
        elif op == "mlu_det":
            r, c = int(t[1]), int(t[2])
            A, p = rvec(t, 3)
            piv, _ = rints(t, p)
            if r != c or r * c != len(A):
                continue
            n = r
            key = "mlu_det:n=%d" % n
            if not is_perm(piv):
                continue
            if st != "ok":
                fails.append(Failure(i, key, "lu_det panicked on a permutation vector"))
                continue
            pr = 1.0
            for k in range(n):
                pr *= A[k * n + k]
            exp = f2h(pr * float(perm_sign(piv)))
            if toks[0] != exp:
                fails.append(Failure(i, key, "lu_det = %s, expected prod(diag) * sign = %s" % (toks[0], exp), exp))
        elif op == "parity":
            p, _ = rints(t, 1)
            key = "parity:len=%d" % len(p)
            if is_perm(p):
                exp = str(perm_sign(p))
                if st != "ok" or toks != [exp]:
                    fails.append(Failure(i, key, "ipiv_parity(%r) = %s, expected %s" % (p[:12], rep[:12], exp), exp))
            elif st != "panic":
                fails.append(Failure(i, key, "ipiv_parity accepted %r, which is not a permutation" % (p[:12],)))
        elif op == "both_tri":
            kind = t[1]
            T, p = rvec(t, 2)
            b, _ = rvec(t, p)
            n = isqrt_exact(len(T))
            if n is None or len(b) != n or n == 0 or st != "ok":
                continue
            key = "tri:%s:n=%d" % (kind, n)
            bl = blocks(toks)
            lower = all(T[r * n + c] == 0 for r in range(n) for c in range(r + 1, n))
            upper = all(T[r * n + c] == 0 for r in range(n) for c in range(r))
            tri = upper if kind == "bwd" else lower
            nz = all(T[r * n + r] != 0 for r in range(n))
            if tri and nz and finite(T) and finite(b):
                if bl[0] is None or bl[1] is None:
                    fails.append(Failure(i, key, "%s panicked on a triangular system of order %d" % (kind, n)))
                    continue
                if bl[0] != bl[1]:
                    fails.append(Failure(i, key, "slice and Matrix %s differ (order %d)" % (kind, n)))
                if kind in ("fwd", "bwd"):
                    check_tri(fails, i, key, kind, T, n, bl[0], b)
            elif not tri and bl[1] is not None:
                fails.append(Failure(i, key, "Matrix %s accepted a matrix that is not triangular" % kind))
        elif op == "both_lu_solve":
            if st != "ok":
                continue
            bl = blocks(toks)
            f, p = rvec(t, 1)
            piv, p = rints(t, p)
            n = isqrt_exact(len(f))
            if n and is_perm(piv) and len(piv) == n and (bl[0] is None or bl[0] != bl[1]):
                fails.append(Failure(i, "lu_solve:n=%d" % n, "slice lu_solve and Matrix::lu_solve differ or panicked (order %d)" % n))
        elif op in ("mlu_solve_m", "mlu_solve_v", "lu_solve", "mchol_solve_m", "mchol_solve_v", "chol_solve"):
            pos = 1
            if op.startswith("m"):
                r, c = int(t[1]), int(t[2])
                pos = 3
            f, pos = rvec(t, pos)
            n = isqrt_exact(len(f))
            if op.startswith("m") and (r != c or r * c != len(f)):
                continue
            if not n or not finite(f):
                continue
            lu_kind = "lu" in op
            piv = None
            if lu_kind:
                piv, pos = rints(t, pos)
                if not is_perm(piv) or len(piv) != n:
                    continue
            if op.endswith("_m"):
                br, bc = int(t[pos]), int(t[pos + 1])
                S, pos = rvec(t, pos + 2)
                if br != n or br * bc != len(S) or bc == 0:
                    continue
                ncol = bc
                X = [h2f(v) for v in toks[3:]] if st == "ok" else None
            else:
                S, pos = rvec(t, pos)
                if len(S) != n:
                    continue
                ncol = 1
                X = [h2f(v) for v in toks[1:]] if st == "ok" else None
            if lu_kind:
                Lm = [f[a * n + b] if b < a else (1.0 if a == b else 0.0) for a in range(n) for b in range(n)]
                Um = [f[a * n + b] if b >= a else 0.0 for a in range(n) for b in range(n)]
                ok_in = all(f[a * n + a] != 0 for a in range(n))
            else:
                if any(f[a * n + b] != 0 for a in range(n) for b in range(a + 1, n)):
                    continue
                Lm = f
                Um = [f[b * n + a] for a in range(n) for b in range(n)]
                ok_in = all(f[a * n + a] != 0 for a in range(n))
            if not ok_in or not finite(S):
                continue
            key = "%s:n=%d" % (op, n)
            if X is None or len(X) != n * ncol or not finite(X):
                fails.append(Failure(i, key, "%s panicked or returned non-finite values on a factor with non-zero diagonal (order %d)" % (op, n)))
                continue
            # A' = fl(L*U) (entry error <= eps |L||U|, far inside the tolerance), right-hand side P*S
            Ap = [math.fsum(Lm[a * n + k2] * Um[k2 * n + b] for k2 in range(n)) for a in range(n) for b in range(n)]
            absLU = max(sum(sum(abs(Lm[a * n + k2]) * abs(Um[k2 * n + b]) for k2 in range(n)) for b in range(n)) for a in range(n))
            PS = [S[(piv[a] if piv else a) * ncol + c2] for a in range(n) for c2 in range(ncol)]
            res = exact_residual(Ap, n, X, PS, ncol)
            for c2 in range(ncol):
                scale = absLU * max(abs(v) for v in col(X, n, ncol, c2)) + max(abs(v) for v in col(PS, n, ncol, c2))
                ratio = 0.0 if res[c2] == 0 else (res[c2] / (n * EPS * scale) if scale > 0 else float("inf"))
                _stat("factored:" + op, ratio)
                if ratio > C_TRI:
                    fails.append(Failure(i, key, "%s: column %d has |L U x - P b| = %.3g = %.3g * n*eps*(||L||U|| |x| + |b|) (order %d)" % (op, c2, res[c2], ratio, n)))
                    break
        elif op in ("mis_upper", "mis_lower"):
            r, c = int(t[1]), int(t[2])
            A, _ = rvec(t, 3)
            if r != c or r * c != len(A) or st != "ok":
                continue
            n = r
            exp = all(not (A[a * n + b] != 0) for a in range(n) for b in (range(a) if op == "mis_upper" else range(a + 1, n)))
            if toks != ["1" if exp else "0"]:
                fails.append(Failure(i, op, "%s returned %s, expected %d" % (op, toks, exp)))
        elif op == "mdiag":
            r, c = int(t[1]), int(t[2])
            if st == "ok" and r * c == int(t[3]):
                exp = [t[4 + k * c + k] for k in range(min(r, c))]
                if toks[1:] != exp:
                    fails.append(Failure(i, op, "diag of a %dx%d matrix is wrong" % (r, c)))
    H.dump_stats("C11")
    return fails


def nontrivial(line, reply):
    t = line.split()
    if not t or t[0].startswith("#") or reply.startswith("#"):
        return None
    return " ".join(t[:3]) if t[0] in ("both_tri",) or t[0].startswith("m") else " ".join(t[:2])

# --- deep theorems (second pass; modules written in their own files, wired here by the lead)
PROOF_MODULES = PROOF_MODULES + ['Compute.Props.C11Lu', 'Compute.Props.C11LuDet', 'Compute.Lemmas.ParityLemmas', 'Compute.Props.C11Parity']
REQUIRED_THEOREMS = REQUIRED_THEOREMS + ['Cv.C11Lu.lu_residual', 'Cv.C11Lu.lu_correct', 'Cv.C11Lu.lu_correct_iff', 'Cv.C11Lu.lu_correct_ordered', 'Cv.C11Lu.lu_multipliers_le_one', 'Cv.C11Lu.lu_residual_witness', 'Cv.C11Lu.lu_correct_matrix', 'Cv.C11Lu.lu_det', 'Cv.C11Lu.matrix_det_correct', 'Cv.C11.ipivParity_sign', 'Cv.C11.ipivParity_perm', 'Cv.C11.parity_correct_all', 'Cv.C11.parity_fuel_sufficient', 'Cv.C11.parity_never_diverges', 'Cv.C11.ipivParity_ok_iff', 'Cv.C11.det_sign_correct']
_np = list(NOT_PROVED)
_np[1] = 'L*L^T = A in exact arithmetic (Cholesky) - being proved separately (Props/C01Solve); P*A = L*U IS proved for every order and every input (Props/C11Lu: lu_residual, lu_correct, lu_correct_iff, lu_correct_ordered)'
_np[2] = None
_np[3] = None
NOT_PROVED = [x for x in _np if x is not None]

# --- deep theorems (2: Cholesky correctness)
PROOF_MODULES = PROOF_MODULES + ['Compute.Props.C01Solve']
REQUIRED_THEOREMS = REQUIRED_THEOREMS + ['Cv.C01Solve.cholesky_correct', 'Cv.C01Solve.cholesky_correct_real', 'Cv.C01Solve.cholesky_cells', 'Cv.C01Solve.choleskySolve_spec', 'Cv.C01Solve.cholesky_complete', 'Cv.C01Solve.cholesky_posDef']
_np = list(NOT_PROVED)
_np = [(None if 'L*L^T = A in exact arithmetic (Cholesky)' in str(x) else x) for x in _np]
NOT_PROVED = [x for x in _np if x is not None]

# --- deep theorems (RoundingLU)
PROOF_MODULES = PROOF_MODULES + ['Compute.Props.RoundingLU', 'Compute.Lemmas.FactorRounding', 'Compute.Lemmas.FactorRoundingLu', 'Compute.Lemmas.FactorRoundingLuStruct', 'Compute.Lemmas.FactorRoundingLuSolveStruct']
REQUIRED_THEOREMS = REQUIRED_THEOREMS + ['Cv.RoundingLU.cholesky_backward_error', 'Cv.RoundingLU.cholesky_backward_error_symm', 'Cv.RoundingLU.lu_backward_error', 'Cv.RoundingLU.lu_multipliers_le_one_rounded', 'Cv.FactorRounding.cholLoops_backward_error']
NOT_PROVED = [x for x in NOT_PROVED if not any(k in str(x) for k in ('floating-point rounding of the reconstruction residuals',))]
NOT_PROVED = NOT_PROVED + ["reconstruction residuals in floating point: PROVED in the standard model (Props/RoundingLU): |L L^T - A| <= gamma_(n+1)|L||L^T| and |L U - P A| <= gamma_n |L||U| for the computed factors; the oracle's norm-wise tolerance c n eps ||A|| additionally relies on the (unproved) growth factor"]

# --- source tie, in-place mutation / nested loops / decision trees (tools/rs2lean.py mut=True: regenerated from /repo/src into
# Generated/SrcC11Mut.lean and proved equal to the hand model in Props/SrcTieC11Mut.lean)
from . import srctie
srctie.wire_mut(globals(), 'C11')

# --- deep theorems (Rounding6: end-to-end residual / backward-error bounds in the standard model, wired by the lead)
PROOF_MODULES = PROOF_MODULES + [m for m in ['Compute.Lemmas.Rounding6', 'Compute.Props.Rounding6'] if m not in PROOF_MODULES]
REQUIRED_THEOREMS = REQUIRED_THEOREMS + ['Cv.Rounding6.chol_weight_le']

# --- review round (property owner): determinant clause closed, universal rejection theorem, honest rational sqrt in the witnesses
PROOF_MODULES = PROOF_MODULES + [m for m in ['Compute.Props.C11Review', 'Compute.Props.C01', 'Compute.Props.C01Review'] if m not in PROOF_MODULES]
REQUIRED_THEOREMS = REQUIRED_THEOREMS + [t for t in [
    'Cv.C11Review.matrix_det_eq_det', 'Cv.C11Review.matrix_lu_det_eq_det', 'Cv.C11Review.PAmat_eq_submatrix',
    'Cv.C11Review.posDef_of_cholFactor', 'Cv.C11Review.cholesky_rejects_not_posDef', 'Cv.C11Review.cholesky_rejects_not_posDef_real',
    'Cv.C11Lu.lu_pivots_ne_zero_iff_det', 'Cv.C11.cholesky_panics_unless_symmetric',
    'Cv.C01.forwardSubstitution_spec', 'Cv.C01.backwardSubstitution_spec', 'Cv.C01.ratSqrt_witness',
    'Cv.C11.matrix_forward_eq_slice', 'Cv.C11.matrix_backward_eq_slice'] if t not in REQUIRED_THEOREMS]
NOT_PROVED = list(NOT_PROVED) + [
    "L.L^T = A (cholesky_correct) needs the hypothesis SqrtExactOn (sqrt squares back on the n pivots; true over R, cholesky_correct_real); for input that is symmetric only up to "
    "eps = 2^-52 (accepted by the assert) only the lower triangle of L.L^T = A is proved; the universal rejection theorem needs sqrt positive and exact on positives (true over R)",
    "is_square: the Rust code takes an f32 square root; the model uses the exact integer square root. They agree for every length below 2^24 "
    "(at 2^24+1 Rust answers Ok(4096) and the model panics); theorems quantifying over the length hold for the code only for fewer than 2^24 elements",
    "Matrix::lu, Matrix::det, lu_det, the Matrix substitutions, ipiv_parity, is_symmetric and is_square are hand-modelled and tied by run-time bit-exact correspondence only (the slice-level routines are additionally regenerated from the Rust text)",
]

# --- review repairs in the Rounding layer (renamed stdmodel_* theorems, underflow-aware variants, genuine FlModel instance; wired by the lead)
PROOF_MODULES = PROOF_MODULES + [m for m in ['Compute.Lemmas.FlModelGrid', 'Compute.Props.RoundingGrid'] if m not in PROOF_MODULES]
REQUIRED_THEOREMS = REQUIRED_THEOREMS + [t for t in ['Cv.FlModel.grid_abs_sub_le', 'Cv.FlModel.grid_idem', 'Cv.FlModel.grid_mono', 'Cv.FlModel.grid_rnd_one', 'Cv.FlModel.grid_rnd_natCast', 'Cv.FlModel.grid_rnd_dyadic', 'Cv.FlModel.f64grid_u', 'Cv.FlModel.f64grid_mono'] if t not in REQUIRED_THEOREMS]
NOT_PROVED = list(NOT_PROVED) + ['FlModel has a genuine instance, FlModel.grid p (radix 2, p digits, round to nearest, unbounded exponent; f64grid has u = 2^-53), proved to satisfy the standard model and to be idempotent and monotone, with integers <= 2^p and dyadics exact (Lemmas/FlModelGrid); headline rounding theorems are instantiated on it (Props/RoundingGrid); overflow and underflow remain outside the model']

# --- FINAL (second review round, property owner): complete literal lists; supersedes every earlier NOT_PROVED / TRUSTED / ASSUMPTIONS edit above
PROOF_MODULES = PROOF_MODULES + [m for m in ['Compute.Lemmas.Decomp'] if m not in PROOF_MODULES]
REQUIRED_THEOREMS = REQUIRED_THEOREMS + [t for t in [
    'Cv.C11.det_none_iff', 'Cv.LA.isMatrix_eq_some_iff', 'Cv.LA.isSquare_eq_some_iff',
    'Cv.C11Review.det_PAmat_eq'] if t not in REQUIRED_THEOREMS]
NOT_PROVED = [
    "the growth factor of partial pivoting behind the oracle's norm-wise tolerance c n eps ||A||: NOT proved. Proved in the standard model (Props/RoundingLU, valid without overflow/underflow; LU: when no "
    "computed pivot is zero): |L L^T - A| <= gamma_(n+1)|L||L^T| and |L U - P A| <= gamma_n |L||U| for the computed factors; the model has a genuine instance (FlModel.grid, unbounded exponent; "
    "Lemmas/FlModelGrid, Props/RoundingGrid); overflow and underflow remain outside it",
    "L.L^T = A (cholesky_correct) needs the hypothesis SqrtExactOn (sqrt squares back on the n pivots; true over R, cholesky_correct_real); for input that is symmetric only up to eps = 2^-52 "
    "(accepted by the assert) only the lower triangle of L.L^T = A is proved; the universal rejection theorem (cholesky_rejects_not_posDef) needs sqrt positive and exact on positives (true over R) "
    "and exact symmetry",
    "is_square: the Rust code takes an f32 square root; the model uses the exact integer square root. They agree for every length below 2^24 (at 2^24+1 Rust answers Ok(4096) and the model panics); "
    "theorems quantifying over the length hold for the code only for fewer than 2^24 elements",
    "Matrix::lu, Matrix::det, lu_det, the Matrix substitutions, ipiv_parity, is_symmetric and is_square are hand-modelled and tied by run-time bit-exact correspondence only (the slice-level routines are "
    "additionally regenerated from the Rust text)",
]
TRUSTED = [
    "is_square modelled with an exact integer square root (f32 sqrt is exact below 2^24 elements)",
    "standard model of floating-point arithmetic (Lemmas/FlModel) as the link between the rounding theorems and IEEE binary64 - valid only without overflow/underflow",
    "numpy eigenvalue estimate, used only to classify generated symmetric matrices as clearly definite / clearly indefinite (integer matrices: confirmed exactly by Sylvester minors or by an exact rational Cholesky sweep)",
]
ASSUMPTIONS = ["default cargo features (no blas/lapack)", "matrix element count < 2^24"]

# --- round 10 (property owner): scale equivariance of the Cholesky sweep
PROOF_MODULES = PROOF_MODULES + [m for m in ['Compute.Props.C11Scale'] if m not in PROOF_MODULES]
REQUIRED_THEOREMS = REQUIRED_THEOREMS + [t for t in [
    'Cv.C11Scale.cholLoops_scale', 'Cv.C11Scale.cholLoops_scale_none_iff', 'Cv.C11Scale.cholCell_sc',
    'Cv.C11Scale.cholLoops_scale_real'] if t not in REQUIRED_THEOREMS]
