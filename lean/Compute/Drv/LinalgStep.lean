import Compute.Drv.Common
import Compute.Model.Scalar
import Compute.Model.Solve
import Compute.Model.MatrixLinalg
/-
Shared line handler of the C01 / C11 drivers (`cv_c01`, `cv_c11`): the model of
src/linalg/{utils,decomposition/*,array/matrix}.rs at `Float`.

Requests (vec = `len h1 … hlen`, ints = `len i1 … ilen`, mat = `r c vec`):
  solve vec vec | solve_sys vec vec | invert vec | lu vec | lu_solve vec ints vec | chol vec |
  chol_solve vec vec | fwd vec vec | bwd vec vec | issym vec | ispd vec | r2c vec n | c2r vec n |
  tr vec n | parity ints |
  msolve_v mat vec | msolve_m mat mat | minv mat | mlu mat | mlu_solve_v mat ints vec |
  mlu_solve_m mat ints mat | mchol mat | mchol_solve_v mat vec | mchol_solve_m mat mat | mfwd mat vec |
  mbwd mat vec | mdet mat | mlu_det mat ints | mis_upper mat | mis_lower mat | mdiag mat | mis_sym mat |
  mis_pd mat
Composite (blocks `P` or vec per entry point): entries vec vec | inverses vec | routes vec vec |
  both_lu vec | lu_pair vec vec | both_chol vec | chol_pair vec vec | both_tri fwd|bwd|chol_solve vec vec | both_lu_solve vec ints vec
Replies: vec, `vec ints` (lu), mat, `mat ints` (mlu), a float, `0|1`, `1|-1`, or `! panic`.
-/
open Cv Cv.LA

namespace Cv.LinalgDrv


def showInts (xs : List Int) : String :=
  if xs.isEmpty then "0" else toString xs.length ++ " " ++ " ".intercalate (xs.map toString)

def showMat (m : Mat Float) : String := s!"{m.nrows} {m.ncols} {showVec m.data}"

def rVec (r : Option (List Float)) : String :=
  match r with | some x => ok (showVec x) | none => panicked
def rMat (r : Option (Mat Float)) : String :=
  match r with | some x => ok (showMat x) | none => panicked
def rBool (r : Option Bool) : String :=
  match r with | some x => ok (showBool x) | none => panicked
def rFloat (r : Option Float) : String :=
  match r with | some x => ok (showFloat x) | none => panicked

/-- pivots arrive as `i32`; a negative one indexes out of range (panic) wherever it is used -/
def natPiv (p : List Int) : Option (List Nat) :=
  if p.any (· < 0) then none else some (p.map Int.toNat)

/-- `Matrix::new` runs in the executor too, so a bad shape is a panic of the request -/
def pMatRaw : P (Nat × Nat × List Float) := do
  let r ← pNat; let c ← pNat; let d ← pVec; pure (r, c, d)

def withMat (x : Nat × Nat × List Float) (k : Mat Float → String) : String :=
  match M.new x.2.2 x.1 x.2.1 with
  | some m => k m
  | none => panicked


/-! composite requests: several entry points on the same input, one block per result
(`P` = that call panicked, otherwise `len h1 … hlen`) -/
def blk (r : Option (List Float)) : String := match r with | some x => showVec x | none => "P"
def blkM (r : Option (Mat Float)) : String := match r with | some x => showVec x.data | none => "P"
def blkI (r : Option (List Nat)) : String := match r with | some x => showInts (x.map Int.ofNat) | none => "P"
def joinB (bs : List String) : String := ok (" ".intercalate bs)

def sq (d : List Float) : Option (Mat Float) := do let n ← isSquare d.length; M.new d n n
def colOf (b : List Float) (nsys c : Nat) : List Float := (List.range (b.length / nsys)).map fun i => rd b (i * nsys + c)

/-- slice `lu` and `Matrix::lu` of the same square array: factor, pivots, factor, pivots -/
def luBlocks (a : List Float) : List String :=
  let r1 := lu a
  let r2 := do let m ← sq a; M.lu m
  [blk (r1.map (·.1)), blkI (r1.map (·.2)), blkM (r2.map (·.1)), blkI (r2.map (·.2))]

def composite (args : List String) : Option String :=
  match args with
  | "entries" :: rest => some <| withArgs (do let a ← pVec; let b ← pVec; pure (a, b)) rest fun (a, b) =>
      match isSquare a.length with
      | none => panicked
      | some n =>
        let nsys := if n = 0 then 0 else b.length / n
        let cols := (List.range nsys).map fun c => colOf b nsys c
        joinB ([blk (solveSys a b)] ++ cols.map (fun bc => blk (solve a bc)) ++
          [blkM (do let m ← sq a; let s ← M.new b n nsys; M.solveM m s)] ++
          cols.map (fun bc => blk (do let m ← sq a; M.solveV m bc)))
  | "inverses" :: rest => some <| withArgs pVec rest fun a =>
      match isSquare a.length with
      | none => panicked
      | some n =>
        joinB [blk (invertMatrix a), blk (solveSys a (identity n)), blkM (do let m ← sq a; M.inv m),
               blkM (do let m ← sq a; M.solveM m (M.eye n))]
  | "routes" :: rest => some <| withArgs (do let a ← pVec; let b ← pVec; pure (a, b)) rest fun (a, b) =>
      joinB [blk (solve a b), blk (do let (f, p) ← lu a; luSolve f p b), blk (do let l ← cholesky a; choleskySolve l b)]
  | "both_lu" :: rest => some <| withArgs pVec rest fun a => joinB (luBlocks a)
  | "lu_pair" :: rest => some <| withArgs (do let a ← pVec; let b ← pVec; pure (a, b)) rest fun (a, b) =>
      joinB (luBlocks a ++ luBlocks b)
  | "both_chol" :: rest => some <| withArgs pVec rest fun a =>
      joinB [blk (cholesky a), blkM (do let m ← sq a; M.cholesky m)]
  | "chol_pair" :: rest => some <| withArgs (do let a ← pVec; let b ← pVec; pure (a, b)) rest fun (a, b) =>
      joinB [blk (cholesky a), blkM (do let m ← sq a; M.cholesky m), blk (cholesky b), blkM (do let m ← sq b; M.cholesky m)]
  | "both_tri" :: kind :: rest => some <| withArgs (do let a ← pVec; let b ← pVec; pure (a, b)) rest fun (a, b) =>
      match kind with
      | "fwd" => joinB [blk (forwardSubstitution a b), blk (do let m ← sq a; M.forwardSubstitution m b)]
      | "bwd" => joinB [blk (backwardSubstitution a b), blk (do let m ← sq a; M.backwardSubstitution m b)]
      | "chol_solve" => joinB [blk (choleskySolve a b), blk (do let m ← sq a; M.choleskySolveV m b)]
      | _ => badOp
  | "both_lu_solve" :: rest => some <| withArgs (do let f ← pVec; let p ← pIntVec; let b ← pVec; pure (f, p, b)) rest
      fun (f, p, b) =>
        let r1 := if f.length ≠ b.length * b.length then none else do let p ← natPiv p; luSolve f p b
        let r2 := do
          let m ← sq f
          if m.nrows ≠ b.length then none else
          let p ← natPiv p
          M.luSolveV m p b
        joinB [blk r1, blk r2]
  | _ => none

def step (args : List String) : String :=
  match composite args with
  | some r => r
  | none =>
  match args with
  | "solve" :: rest => withArgs (do let a ← pVec; let b ← pVec; pure (a, b)) rest fun (a, b) => rVec (solve a b)
  | "solve_sys" :: rest => withArgs (do let a ← pVec; let b ← pVec; pure (a, b)) rest fun (a, b) => rVec (solveSys a b)
  | "invert" :: rest => withArgs pVec rest fun a => rVec (invertMatrix a)
  | "lu" :: rest => withArgs pVec rest fun a =>
      match lu a with
      | some (f, p) => ok (showVec f ++ " " ++ showInts (p.map Int.ofNat))
      | none => panicked
  | "lu_solve" :: rest => withArgs (do let f ← pVec; let p ← pIntVec; let b ← pVec; pure (f, p, b)) rest
      fun (f, p, b) =>
        -- the length assert comes first, then the pivots are used as indices
        if f.length ≠ b.length * b.length then panicked
        else match natPiv p with
          | some p => rVec (luSolve f p b)
          | none => panicked
  | "chol" :: rest => withArgs pVec rest fun a => rVec (cholesky a)
  | "chol_solve" :: rest => withArgs (do let a ← pVec; let b ← pVec; pure (a, b)) rest fun (a, b) => rVec (choleskySolve a b)
  | "fwd" :: rest => withArgs (do let a ← pVec; let b ← pVec; pure (a, b)) rest fun (a, b) => rVec (forwardSubstitution a b)
  | "bwd" :: rest => withArgs (do let a ← pVec; let b ← pVec; pure (a, b)) rest fun (a, b) => rVec (backwardSubstitution a b)
  | "issym" :: rest => withArgs pVec rest fun a => rBool (isSymmetric a)
  | "ispd" :: rest => withArgs pVec rest fun a => rBool (isPositiveDefinite a)
  | "r2c" :: rest => withArgs (do let a ← pVec; let n ← pNat; pure (a, n)) rest fun (a, n) => rVec (rowToColMajor a n)
  | "c2r" :: rest => withArgs (do let a ← pVec; let n ← pNat; pure (a, n)) rest fun (a, n) => rVec (colToRowMajor a n)
  | "tr" :: rest => withArgs (do let a ← pVec; let n ← pNat; pure (a, n)) rest fun (a, n) => rVec (transpose a n)
  | "parity" :: rest => withArgs pIntVec rest fun p =>
      match ipivParity p with
      | .ok s => ok (toString s)
      | .panic => panicked
      | .diverged => diverged
  | "msolve_v" :: rest => withArgs (do let m ← pMatRaw; let b ← pVec; pure (m, b)) rest fun (m, b) =>
      withMat m fun m => rVec (M.solveV m b)
  | "msolve_m" :: rest => withArgs (do let m ← pMatRaw; let s ← pMatRaw; pure (m, s)) rest fun (m, s) =>
      withMat m fun m => withMat s fun s => rMat (M.solveM m s)
  | "minv" :: rest => withArgs pMatRaw rest fun m => withMat m fun m => rMat (M.inv m)
  | "mlu" :: rest => withArgs pMatRaw rest fun m => withMat m fun m =>
      match M.lu m with
      | some (f, p) => ok (showMat f ++ " " ++ showInts (p.map Int.ofNat))
      | none => panicked
  | "mlu_solve_v" :: rest => withArgs (do let m ← pMatRaw; let p ← pIntVec; let b ← pVec; pure (m, p, b)) rest
      fun (m, p, b) => withMat m fun m =>
        if m.nrows ≠ m.ncols ∨ m.nrows ≠ b.length then panicked
        else match natPiv p with
          | some p => rVec (M.luSolveV m p b)
          | none => panicked
  | "mlu_solve_m" :: rest => withArgs (do let m ← pMatRaw; let p ← pIntVec; let s ← pMatRaw; pure (m, p, s)) rest
      fun (m, p, s) => withMat m fun m => withMat s fun s =>
        -- with no columns the pivots are never read
        if s.ncols = 0 then rMat (M.luSolveM m [] s)
        else if m.nrows ≠ m.ncols ∨ m.nrows ≠ s.nrows then panicked
        else match natPiv p with
          | some p => rMat (M.luSolveM m p s)
          | none => panicked
  | "mchol" :: rest => withArgs pMatRaw rest fun m => withMat m fun m => rMat (M.cholesky m)
  | "mchol_solve_v" :: rest => withArgs (do let m ← pMatRaw; let b ← pVec; pure (m, b)) rest fun (m, b) =>
      withMat m fun m => rVec (M.choleskySolveV m b)
  | "mchol_solve_m" :: rest => withArgs (do let m ← pMatRaw; let s ← pMatRaw; pure (m, s)) rest fun (m, s) =>
      withMat m fun m => withMat s fun s => rMat (M.choleskySolveM m s)
  | "mfwd" :: rest => withArgs (do let m ← pMatRaw; let b ← pVec; pure (m, b)) rest fun (m, b) =>
      withMat m fun m => rVec (M.forwardSubstitution m b)
  | "mbwd" :: rest => withArgs (do let m ← pMatRaw; let b ← pVec; pure (m, b)) rest fun (m, b) =>
      withMat m fun m => rVec (M.backwardSubstitution m b)
  | "mdet" :: rest => withArgs pMatRaw rest fun m => withMat m fun m => rFloat (M.det m)
  | "mlu_det" :: rest => withArgs (do let m ← pMatRaw; let p ← pIntVec; pure (m, p)) rest fun (m, p) =>
      withMat m fun m => rFloat (M.luDet m p)
  | "mis_upper" :: rest => withArgs pMatRaw rest fun m => withMat m fun m => rBool (M.isUpperTriangular m)
  | "mis_lower" :: rest => withArgs pMatRaw rest fun m => withMat m fun m => rBool (M.isLowerTriangular m)
  | "mdiag" :: rest => withArgs pMatRaw rest fun m => withMat m fun m => ok (showVec (M.diag m))
  | "mis_sym" :: rest => withArgs pMatRaw rest fun m => withMat m fun m => ok (showBool (M.isSymmetric m))
  | "mis_pd" :: rest => withArgs pMatRaw rest fun m => withMat m fun m => ok (showBool (M.isPositiveDefinite m))
  | _ => badOp

end Cv.LinalgDrv
