import Compute.Props.C05
import Compute.Props.Rounding3
import Compute.Model.Shape
import Compute.Props.SrcTieC04Loops
import Compute.Props.SrcTieC15Mut
/-
C05 — additions after the independent review (review-a.md, C05 B1–B5, C).

* B1  the EXACT condition under which each entry point returns a value.  `is_matrix` divides by the row count, so
      an operand with `0` rows panics even when the product is conformable: `matmul` returns a value iff both row
      counts are positive, divide the lengths, and the inner dimensions agree (`matmul_isSome_iff`, same for the
      blocked kernel with `0 < bsize`, for the three `Dot` operand kinds on well-formed operands), with the
      `= none` side for zero rows stated separately and witnessed on conformable operands.
* B2  `dotMV_rejects`, `dotVM_rejects`.
* B3  bridges between the hand models used by the whole-function source tie of `matmul` / `matmul_blocked`
      (`Cv.isMatrix`, `Cv.transpose`) and the regenerated source translations of `is_matrix` and `transpose`.
* B5  forward error of Matrix·Vector, Vector·Matrix and Vector·Vector in the standard model.
* C   examples that instantiate the hypotheses of the headline theorems (not evaluations of the model),
      joint satisfiability of `u = 2⁻⁵³ ∧ Idem`.
-/
namespace Cv.C05
open Cv Cv.C05W Cv.C05L Cv.DotT

/-! ## B1. exact "returns a value iff" -/

section iff
variable {α : Type} [Inhabited α]

theorem isMatrix_isSome_iff (a : List α) (r : Nat) : (isMatrix a r).isSome ↔ 0 < r ∧ r ∣ a.length := by
  constructor
  · intro h
    cases hm : isMatrix a r with
    | none => simp [hm] at h
    | some c => obtain ⟨h1, h2⟩ := isMatrix_some hm; exact ⟨h1, ⟨c, h2⟩⟩
  · rintro ⟨h1, ⟨c, h2⟩⟩
    simp [isMatrix_of_len h2 h1]

/-- `is_matrix(m, 0)` panics (`m.len() / 0`), whatever the length — also for the empty slice. -/
theorem isMatrix_zero_rows (a : List α) : isMatrix a 0 = none := isMatrix_zero a

variable [Add α] [Mul α] [Zero α]

/-- **B1 (slice kernels).** `matmul` returns a value **iff** both row counts are positive and divide the lengths and
the inner dimensions (after the flags) agree.  `a.length / ra`, `b.length / rb` are the column counts. -/
theorem matmul_isSome_iff (a b : List α) (ra rb : Nat) (ta tb : Bool) :
    (matmul a b ra rb ta tb).isSome ↔
      (0 < ra ∧ ra ∣ a.length) ∧ (0 < rb ∧ rb ∣ b.length) ∧
        (if ta then ra else a.length / ra) = (if tb then b.length / rb else rb) := by
  by_cases hA : 0 < ra ∧ ra ∣ a.length
  · by_cases hB : 0 < rb ∧ rb ∣ b.length
    · obtain ⟨hra, ca, ha⟩ := hA
      obtain ⟨hrb, cb, hb⟩ := hB
      have e1 : a.length / ra = ca := by rw [ha, Nat.mul_div_cancel_left _ hra]
      have e2 : b.length / rb = cb := by rw [hb, Nat.mul_div_cancel_left _ hrb]
      rw [e1, e2]
      by_cases hin : (if ta then ra else ca) = (if tb then cb else rb)
      · obtain ⟨c, h1, _⟩ := matmul_entry a b ra ca rb cb ta tb ha hb hra hrb hin
        simp [h1, hin, hra, hrb, ha, hb]
      · rw [matmul_rejects a b ra ca rb cb ta tb ha hb hra hrb hin]
        simp [hin]
    · rw [(matmul_rejects_malformed a b ra rb ta tb 1 (Or.inr hB)).1]; simp [hB]
  · rw [(matmul_rejects_malformed a b ra rb ta tb 1 (Or.inl hA)).1]; simp [hA]

/-- Same for `matmul_blocked`, with the additional `0 < bsize` (`n / bsize` panics for 0). -/
theorem matmulBlocked_isSome_iff (a b : List α) (ra rb : Nat) (ta tb : Bool) (bsize : Nat) :
    (matmulBlocked a b ra rb ta tb bsize).isSome ↔
      0 < bsize ∧ (0 < ra ∧ ra ∣ a.length) ∧ (0 < rb ∧ rb ∣ b.length) ∧
        (if ta then ra else a.length / ra) = (if tb then b.length / rb else rb) := by
  by_cases hbs : 0 < bsize
  · by_cases hA : 0 < ra ∧ ra ∣ a.length
    · by_cases hB : 0 < rb ∧ rb ∣ b.length
      · obtain ⟨hra, ca, ha⟩ := hA
        obtain ⟨hrb, cb, hb⟩ := hB
        have e1 : a.length / ra = ca := by rw [ha, Nat.mul_div_cancel_left _ hra]
        have e2 : b.length / rb = cb := by rw [hb, Nat.mul_div_cancel_left _ hrb]
        rw [e1, e2]
        by_cases hin : (if ta then ra else ca) = (if tb then cb else rb)
        · obtain ⟨c, h1, _⟩ := matmulBlocked_entry a b ra ca rb cb ta tb bsize hbs ha hb hra hrb hin
          simp [h1, hin, hra, hrb, ha, hb, hbs]
        · rw [matmulBlocked_rejects a b ra ca rb cb ta tb bsize ha hb hra hrb hin]
          simp [hin]
      · rw [(matmul_rejects_malformed a b ra rb ta tb bsize (Or.inr hB)).2]; simp [hB]
    · rw [(matmul_rejects_malformed a b ra rb ta tb bsize (Or.inl hA)).2]; simp [hA]
  · have : bsize = 0 := by omega
    subst this
    rw [matmulBlocked_bsize_zero]; simp

/-- **B1 (`= none` side).** An operand with `0` rows makes both kernels panic — conformable or not. -/
theorem matmul_zero_rows (a b : List α) (ra rb : Nat) (ta tb : Bool) (bsize : Nat) (h : ra = 0 ∨ rb = 0) :
    matmul a b ra rb ta tb = none ∧ matmulBlocked a b ra rb ta tb bsize = none := by
  apply matmul_rejects_malformed
  rcases h with h | h
  · exact Or.inl (by omega)
  · exact Or.inr (by omega)

/-- The mathematically conformable `(2×0)·(0×3)` and `(0×3)·(3×2)` panic; zero *columns* with positive row counts
do not: `(3×0)ᵀ·(3×0)` is the empty `0×0` product and `(2×0)·(3×0)ᵀ` the `2×3` zero matrix. -/
example : matmul ([] : List Int) [] 2 0 false false = none ∧
    matmul ([] : List Int) [1, 2, 3, 4, 5, 6] 0 3 false false = none ∧
    matmul ([] : List Int) [] 3 3 true false = some [] ∧
    matmul ([] : List Int) [] 2 3 false true = some [0, 0, 0, 0, 0, 0] := by decide +kernel

/-- **B1 (`Dot`, Matrix·Matrix).** On well-formed operands a method returns a value iff both have at least one row and
the inner dimensions agree. -/
theorem dotMM_isSome_iff (meth : Meth) (s o : Mat α) (hs : s.WF) (ho : o.WF) :
    (dotMM meth s o).isSome ↔ 0 < s.nrows ∧ 0 < o.nrows ∧
      (if flagA meth then s.nrows else s.ncols) = (if flagB meth then o.ncols else o.nrows) := by
  rw [dotMM_unfold]
  by_cases hin : (if flagA meth then s.nrows else s.ncols) = (if flagB meth then o.ncols else o.nrows)
  · rw [if_pos hin]
    by_cases hr : 0 < s.nrows ∧ 0 < o.nrows
    · obtain ⟨c, h1, h2, _⟩ := matmul_entry s.data o.data s.nrows s.ncols o.nrows o.ncols (flagA meth) (flagB meth)
        hs ho hr.1 hr.2 hin
      simp [h1, matrixNew, h2, hr, hin]
    · have hz : s.nrows = 0 ∨ o.nrows = 0 := by omega
      rw [(matmul_zero_rows s.data o.data s.nrows o.nrows (flagA meth) (flagB meth) 1 hz).1]
      simp only [Option.isSome_none, Bool.false_eq_true, false_iff]
      intro h; exact hr ⟨h.1, h.2.1⟩
  · rw [if_neg hin]; simp [hin]

/-- Zero rows on either side: every Matrix·Matrix method panics (no well-formedness needed). -/
theorem dotMM_zero_rows (meth : Meth) (s o : Mat α) (h : s.nrows = 0 ∨ o.nrows = 0) : dotMM meth s o = none := by
  rw [dotMM_unfold]
  by_cases hin : (if flagA meth then s.nrows else s.ncols) = (if flagB meth then o.ncols else o.nrows)
  · rw [if_pos hin, (matmul_zero_rows s.data o.data s.nrows o.nrows (flagA meth) (flagB meth) 1 h).1]
  · rw [if_neg hin]

/-- the conformable, well-formed `(2×0)·(0×3)` through the trait: panic -/
example : (⟨[], 2, 0⟩ : Mat Int).WF ∧ (⟨[], 0, 3⟩ : Mat Int).WF ∧
    dotMM .dot (⟨[], 2, 0⟩ : Mat Int) ⟨[], 0, 3⟩ = none := by decide +kernel

/-! ## B2. rejection for Matrix·Vector and Vector·Matrix -/

/-- the Matrix·Matrix method a Matrix·Vector method delegates to (flag on the vector dropped) -/
def mvInner : Meth → Meth | .dot => .dot | .dotT => .dot | .tDot => .tDot | .tDotT => .tDot
/-- the Matrix·Matrix method a Vector·Matrix method delegates to -/
def vmInner : Meth → Meth | .dot => .dot | .tDot => .dot | .dotT => .dotT | .tDotT => .dotT

theorem dotMV_eq' (meth : Meth) (s : Mat α) (v : List α) :
    dotMV meth s v = (dotMM (mvInner meth) s ⟨v, v.length, 1⟩).map (·.data) := by
  rw [dotMV_eq]; cases meth <;> rfl

theorem dotVM_eq' (meth : Meth) (v : List α) (o : Mat α) :
    dotVM meth v o = (dotMM (vmInner meth) ⟨v, 1, v.length⟩ o).map (·.data) := by
  rw [dotVM_eq]; cases meth <;> rfl

theorem flags_mvInner (meth : Meth) : flagA (mvInner meth) = flagA meth ∧ flagB (mvInner meth) = false := by
  cases meth <;> exact ⟨rfl, rfl⟩

theorem flags_vmInner (meth : Meth) : flagA (vmInner meth) = false ∧ flagB (vmInner meth) = flagB meth := by
  cases meth <;> exact ⟨rfl, rfl⟩

/-- `dotMM_rejects` for every scalar type (the version in `Props/C05` is stated under `CommSemiring`) -/
theorem dotMM_rejects' (meth : Meth) (s o : Mat α)
    (hin : (if flagA meth then s.nrows else s.ncols) ≠ (if flagB meth then o.ncols else o.nrows)) :
    dotMM meth s o = none := by
  rw [dotMM_unfold, if_neg hin]

/-- **dotMV_rejects.** A vector whose length differs from the contracted dimension of `op(M)` makes every
Matrix·Vector method panic (in particular lengths that are multiples of it). -/
theorem dotMV_rejects (meth : Meth) (s : Mat α) (v : List α)
    (hin : (if flagA meth then s.nrows else s.ncols) ≠ v.length) : dotMV meth s v = none := by
  rw [dotMV_eq', dotMM_rejects']
  · rfl
  · obtain ⟨hA, hB⟩ := flags_mvInner meth
    rw [hA, hB]; simpa using hin

/-- **dotVM_rejects.** -/
theorem dotVM_rejects (meth : Meth) (v : List α) (o : Mat α)
    (hin : v.length ≠ (if flagB meth then o.ncols else o.nrows)) : dotVM meth v o = none := by
  rw [dotVM_eq', dotMM_rejects']
  · rfl
  · obtain ⟨hA, hB⟩ := flags_vmInner meth
    rw [hA, hB]; simpa using hin

/-- **B1 (`Dot`, Matrix·Vector).** Value iff the matrix has a row, the vector is non-empty (it is promoted to a
`len × 1` matrix, whose row count is `len`) and its length is the contracted dimension. -/
theorem dotMV_isSome_iff (meth : Meth) (s : Mat α) (v : List α) (hs : s.WF) :
    (dotMV meth s v).isSome ↔ 0 < s.nrows ∧ 0 < v.length ∧ (if flagA meth then s.nrows else s.ncols) = v.length := by
  rw [dotMV_eq', Option.isSome_map]
  obtain ⟨hA, hB⟩ := flags_mvInner meth
  rw [dotMM_isSome_iff _ s ⟨v, v.length, 1⟩ hs (by simp [Mat.WF]), hA, hB]
  simp

/-- **B1 (`Dot`, Vector·Matrix).** The promoted vector is `1 × len` (one row, even when empty): value iff the matrix has
a row and the length is the contracted dimension — an empty vector against a `k × 0` matrix with `dot_t` gives `k` zeros. -/
theorem dotVM_isSome_iff (meth : Meth) (v : List α) (o : Mat α) (ho : o.WF) :
    (dotVM meth v o).isSome ↔ 0 < o.nrows ∧ v.length = (if flagB meth then o.ncols else o.nrows) := by
  rw [dotVM_eq', Option.isSome_map]
  obtain ⟨hA, hB⟩ := flags_vmInner meth
  rw [dotMM_isSome_iff _ ⟨v, 1, v.length⟩ o (by simp [Mat.WF]) ho, hA, hB]
  simp

example : dotVM .dotT ([] : List Int) ⟨[], 3, 0⟩ = some [0, 0, 0] ∧ dotMV .dot (⟨[], 2, 0⟩ : Mat Int) [] = none ∧
    dotVM .dot ([] : List Int) ⟨[], 0, 3⟩ = none := by decide +kernel

end iff

/-! ## B3. bridges for the whole-function source tie

`Props/SrcTieC05Mut2` proves the regenerated `matmul` / `matmul_blocked` equal to the model, with `is_matrix(..).unwrap()`
spelled `Cv.isMatrix` and `transpose` spelled `Cv.transpose`.  Both spellings are themselves equal to the regenerated
translations of those two functions (`Generated/SrcC04Loops.lean`, `Generated/SrcC15Mut.lean`). -/

section bridges
variable {α : Type} [Add α] [Sub α] [Mul α] [Div α] [Neg α] [Zero α] [One α] [NatCast α] [IntCast α]
  [LT α] [DecidableLT α] [LE α] [DecidableLE α] [BEq α] [Cv.Transc α] [Inhabited α]

omit [Add α] [Sub α] [Mul α] [Div α] [Neg α] [Zero α] [One α] [NatCast α] [IntCast α]
  [LT α] [DecidableLT α] [LE α] [DecidableLE α] [BEq α] [Cv.Transc α] [Inhabited α] in
/-- the `is_matrix(..).unwrap()` of the shape model (C15) is the one of the product model -/
theorem isMatrixU_bridge (a : List α) (r : Nat) : Cv.Shape.isMatrixU a.length r = Cv.isMatrix a r := by
  unfold Cv.Shape.isMatrixU Cv.Shape.isMatrix Cv.isMatrix
  by_cases h0 : r = 0
  · simp [h0]
  · by_cases h1 : r * (a.length / r) = a.length <;> simp [h0, h1]

omit [Add α] [Sub α] [Mul α] [Div α] [Neg α] [Zero α] [One α] [NatCast α] [IntCast α]
  [LT α] [DecidableLT α] [LE α] [DecidableLE α] [BEq α] [Cv.Transc α] in
/-- the two hand models of `transpose` coincide -/
theorem transpose_bridge (a : List α) (r : Nat) : Cv.transpose a r = Cv.Shape.transposeData a r := by
  unfold Cv.transpose Cv.Shape.transposeData Cv.Shape.isMatrixU Cv.Shape.isMatrix Cv.isMatrix Cv.transposeCore
  by_cases h0 : r = 0
  · simp [h0]
  · by_cases h1 : r * (a.length / r) = a.length <;> simp [h0, h1]

/-- **B3.** The translation of the source text of `is_matrix` (regenerated on every run) is `Cv.isMatrix`. -/
theorem isMatrix_src (a : List α) (r : Nat) : Cv.Src.C04Loops.isMatrix a r = Cv.isMatrix a r := by
  rw [Cv.SrcTie.C04Loops.isMatrix_eq]
  unfold Cv.isMatrix
  by_cases h0 : r = 0
  · simp [h0]
  · by_cases h1 : r * (a.length / r) = a.length <;> simp [h0, h1]

/-- **B3.** The translation of the source text of `transpose` (regenerated on every run) is `Cv.transpose`. -/
theorem transpose_src (a : List α) (r : Nat) : Cv.Src.C15Mut.transpose a r = Cv.transpose a r := by
  rw [Cv.SrcTie.C15Mut.transpose_eq, transpose_bridge]

end bridges

/-! ## B5. forward error of the remaining `Dot` kinds (standard model of floating-point arithmetic) -/

section rounding
open Cv.FlModel Cv.Rounding Cv.Rounding3
variable {M : FlModel}

/-- **Matrix·Vector**: entry `i` of `M.meth(v)` is within `γ_l·Σ_k |op(M)[i,k]||v[k]|` of `Σ_k op(M)[i,k]·v[k]`
(`exactCell … i 0` / `absCell … i 0` with the vector as the `l × 1` right operand). -/
theorem dotMV_error (hid : M.Idem) (meth : Meth) (s : Mat (Fl M)) (v : List (Fl M)) (hs : s.WF)
    (hsr : 0 < s.nrows) (hv : 0 < v.length)
    (hin : (if flagA meth then s.nrows else s.ncols) = v.length) (h : (v.length : ℝ) * M.u < 1) :
    ∃ r, dotMV meth s v = some r ∧ r.length = (if flagA meth then s.ncols else s.nrows) ∧
      ∀ i, i < r.length →
        |(r[i]!).val - exactCell s.data v s.ncols 1 (flagA meth) false v.length i 0| ≤
          M.γ v.length * absCell s.data v s.ncols 1 (flagA meth) false v.length i 0 := by
  rw [dotMV_eq']
  obtain ⟨hA, hB⟩ := flags_mvInner meth
  generalize mvInner meth = inner at hA hB
  obtain ⟨r, h1, h2, h3, h4, h5⟩ := dotMM_error hid inner s ⟨v, v.length, 1⟩ hs (by simp [Mat.WF]) hsr hv
    (by rw [hA, hB]; simpa using hin) (by rw [hA, hin]; exact h)
  rw [hA] at h2; rw [hB] at h3
  simp only [Bool.false_eq_true, if_false] at h3
  have hl : r.data.length = (if flagA meth then s.ncols else s.nrows) := by
    have := h4; simp only [Mat.WF] at this; rw [this, h2, h3]; simp
  refine ⟨r.data, by simp [h1], hl, ?_⟩
  intro i hi
  have := h5 i 0 (by rw [h2, ← hl]; exact hi) (by rw [h3]; omega)
  simp only [Mat.get, h3, Nat.mul_one, Nat.add_zero] at this
  rw [hA, hB, hin] at this
  exact this

/-- **Vector·Matrix**: entry `j` of `v.meth(M)` is within `γ_l·Σ_k |v[k]||op(M)[k,j]|` of `Σ_k v[k]·op(M)[k,j]`
(the vector as the `1 × l` left operand). -/
theorem dotVM_error (hid : M.Idem) (meth : Meth) (v : List (Fl M)) (o : Mat (Fl M)) (ho : o.WF)
    (hor : 0 < o.nrows) (hin : v.length = (if flagB meth then o.ncols else o.nrows))
    (h : (v.length : ℝ) * M.u < 1) :
    ∃ r, dotVM meth v o = some r ∧ r.length = (if flagB meth then o.nrows else o.ncols) ∧
      ∀ j, j < r.length →
        |(r[j]!).val - exactCell v o.data v.length o.ncols false (flagB meth) v.length 0 j| ≤
          M.γ v.length * absCell v o.data v.length o.ncols false (flagB meth) v.length 0 j := by
  rw [dotVM_eq']
  obtain ⟨hA, hB⟩ := flags_vmInner meth
  generalize vmInner meth = inner at hA hB
  obtain ⟨r, h1, h2, h3, h4, h5⟩ := dotMM_error hid inner ⟨v, 1, v.length⟩ o (by simp [Mat.WF]) ho (by simp) hor
    (by rw [hA, hB]; simpa using hin) (by rw [hA]; simpa using h)
  rw [hA] at h2; rw [hB] at h3
  simp only [Bool.false_eq_true, if_false] at h2
  have hl : r.data.length = (if flagB meth then o.nrows else o.ncols) := by
    have := h4; simp only [Mat.WF] at this; rw [this, h2, h3]; simp
  refine ⟨r.data, by simp [h1], hl, ?_⟩
  intro j hj
  have := h5 0 j (by rw [h2]; omega) (by rw [h3, ← hl]; exact hj)
  simp only [Mat.get, Nat.zero_mul, Nat.zero_add] at this
  rw [hA, hB] at this
  simpa using this

/-- **Vector·Vector** (all four method names): `|x.meth(y) − Σ xᵢyᵢ| ≤ γ_n·Σ|xᵢyᵢ|` for equal lengths. -/
theorem dotVV_error (hid : M.Idem) (meth : Meth) (x y : List (Fl M)) (hxy : x.length = y.length)
    (h : x.length * M.u < 1) :
    ∃ r, dotVV meth x y = some r ∧
      |r.val - (prods x y).sum| ≤ M.γ x.length * ((prods x y).map (|·|)).sum := by
  refine ⟨dot8 x y, ?_, dot8_error hid x y hxy h⟩
  rw [dotVV_eq]; simp [dot?, hxy]

/-- joint satisfiability of the hypotheses of `stdmodel_matmul_note` and of the error theorems at `f64`'s unit roundoff:
an idempotent model with `u = 2⁻⁵³` exists. -/
example : ∃ M : FlModel, M.u = 1 / 2 ^ 53 ∧ M.Idem :=
  ⟨FlModel.bump 3 (1 / 2 ^ 53) (by norm_num) (by norm_num), rfl, FlModel.bump_idem _ _ _ _⟩

end rounding

/-! ## C. the headline theorems applied (every hypothesis discharged on concrete operands) -/

section instances

/-- `matmul_spec` at both flags on the F12 shapes `(2×3)ᵀ·(4×2)ᵀ`. -/
example : ∃ c, matmul ([1, 2, 3, 4, 5, 6] : List Int) [1, 2, 3, 4, 5, 6, 7, 8] 2 4 true true = some c ∧
    c.length = 3 * 4 ∧ c[1 * 4 + 2]! = ∑ k ∈ Finset.range 2,
      opEntry ([1, 2, 3, 4, 5, 6] : List Int) 3 true 1 k * opEntry ([1, 2, 3, 4, 5, 6, 7, 8] : List Int) 2 true k 2 := by
  obtain ⟨c, h1, h2, h3⟩ := matmul_spec ([1, 2, 3, 4, 5, 6] : List Int) [1, 2, 3, 4, 5, 6, 7, 8] 2 3 4 2 true true
    (by decide) (by decide) (by decide) (by decide) (by decide)
  exact ⟨c, h1, h2, h3 1 2 (by decide) (by decide)⟩

/-- `matmul_rejects` / `matmulBlocked_rejects` on `(2×3)·(4×2)` -/
example : matmul ([1, 2, 3, 4, 5, 6] : List Int) [1, 2, 3, 4, 5, 6, 7, 8] 2 4 false false = none ∧
    matmulBlocked ([1, 2, 3, 4, 5, 6] : List Int) [1, 2, 3, 4, 5, 6, 7, 8] 2 4 false false 2 = none :=
  ⟨matmul_rejects _ _ 2 3 4 2 false false (by decide) (by decide) (by decide) (by decide) (by decide),
   matmulBlocked_rejects _ _ 2 3 4 2 false false 2 (by decide) (by decide) (by decide) (by decide) (by decide)⟩

/-- `matmulBlocked_eq` at `Int`, both flags, block size 3 -/
example : matmulBlocked ([1, 2, 3, 4, 5, 6] : List Int) [1, 2, 3, 4, 5, 6, 7, 8] 2 4 true true 3 =
    matmul ([1, 2, 3, 4, 5, 6] : List Int) [1, 2, 3, 4, 5, 6, 7, 8] 2 4 true true :=
  matmulBlocked_eq Int.mul_comm _ _ 2 4 true true 3 (by decide)

/-- `matmulBlocked_spec` -/
example : ∃ c, matmulBlocked ([1, 2, 3, 4, 5, 6] : List Int) [1, 2, 3, 4, 5, 6, 7, 8] 2 4 true true 2 = some c ∧
    c.length = 3 * 4 := by
  obtain ⟨c, h1, h2, _⟩ := matmulBlocked_spec ([1, 2, 3, 4, 5, 6] : List Int) [1, 2, 3, 4, 5, 6, 7, 8] 2 3 4 2 true true 2
    (by decide) (by decide) (by decide) (by decide) (by decide) (by decide)
  exact ⟨c, h1, h2⟩

/-- `xtx_spec` on a `2×3` matrix: symmetric `3×3` -/
example : ∃ c, xtx ([1, 2, 3, 4, 5, 6] : List Int) 2 = some c ∧ c.length = 3 * 3 ∧ c[0 * 3 + 2]! = c[2 * 3 + 0]! := by
  obtain ⟨c, h1, h2, _, h4⟩ := xtx_spec ([1, 2, 3, 4, 5, 6] : List Int) 2 3 (by decide) (by decide)
  exact ⟨c, h1, h2, h4 0 2 (by decide) (by decide)⟩

/-- `transpose_get` -/
example : ∃ t, transpose ([1, 2, 3, 4, 5, 6] : List Int) 2 = some t ∧ t[2 * 2 + 1]! = ([1, 2, 3, 4, 5, 6] : List Int)[1 * 3 + 2]! := by
  obtain ⟨t, h1, _, h3⟩ := transpose_get ([1, 2, 3, 4, 5, 6] : List Int) 2 3 (by decide) (by decide)
  exact ⟨t, h1, h3 1 2 (by decide) (by decide)⟩

/-- `dotMM_spec`, `dotMV_spec`, `dotVM_spec` -/
example : ∃ r, dotMM .tDotT (⟨[1, 2, 3, 4, 5, 6], 2, 3⟩ : Mat Int) ⟨[1, 2, 3, 4, 5, 6, 7, 8], 4, 2⟩ = some r ∧
    r.nrows = 3 ∧ r.ncols = 4 := by
  obtain ⟨r, h1, h2, h3, _⟩ := dotMM_spec .tDotT (⟨[1, 2, 3, 4, 5, 6], 2, 3⟩ : Mat Int) ⟨[1, 2, 3, 4, 5, 6, 7, 8], 4, 2⟩
    (by decide) (by decide) (by decide) (by decide) (by decide)
  exact ⟨r, h1, h2, h3⟩
example : ∃ r, dotMV .tDotT (⟨[1, 2, 3, 4, 5, 6], 2, 3⟩ : Mat Int) [1, 10] = some r ∧ r.length = 3 := by
  obtain ⟨r, h1, h2, _⟩ := dotMV_spec .tDotT (⟨[1, 2, 3, 4, 5, 6], 2, 3⟩ : Mat Int) [1, 10]
    (by decide) (by decide) (by decide) (by decide)
  exact ⟨r, h1, h2⟩
example : ∃ r, dotVM .tDotT ([1, 10, 100] : List Int) (⟨[1, 2, 3, 4, 5, 6], 2, 3⟩ : Mat Int) = some r ∧ r.length = 2 := by
  obtain ⟨r, h1, h2, _⟩ := dotVM_spec .tDotT ([1, 10, 100] : List Int) (⟨[1, 2, 3, 4, 5, 6], 2, 3⟩ : Mat Int)
    (by decide) (by decide) (by decide)
  exact ⟨r, h1, h2⟩

/-- the rejection theorems of B2 on a vector whose length is a multiple of the contracted dimension -/
example : dotMV .dot (⟨[1, 2, 3, 4, 5, 6], 2, 3⟩ : Mat Int) [1, 2, 3, 4, 5, 6] = none ∧
    dotVM .dot ([1, 2, 3, 4] : List Int) (⟨[1, 2, 3, 4, 5, 6], 2, 3⟩ : Mat Int) = none :=
  ⟨dotMV_rejects _ _ _ (by decide), dotVM_rejects _ _ _ (by decide)⟩

/-- the exact iff, both directions used -/
example : (matmul ([1, 2, 3, 4, 5, 6] : List Int) [1, 2, 3, 4, 5, 6, 7, 8] 2 4 true true).isSome ∧
    ¬ (matmul ([] : List Int) [] 2 0 false false).isSome := by
  constructor
  · rw [matmul_isSome_iff]; decide
  · rw [matmul_isSome_iff]; decide

end instances

end Cv.C05
