// C01 / C11 executor: every public way of solving, inverting and factorising in `compute::linalg`
// (slice level: utils.rs + decomposition/*; Matrix level: array/matrix.rs).  Protocol: see
// /verif/lean/Compute/Drv/LinalgStep.lean.  (`c11.rs` includes this file.)
use compute::linalg::{
    backward_substitution, cholesky, cholesky_solve, col_to_row_major, forward_substitution,
    invert_matrix, ipiv_parity, is_positive_definite, is_symmetric, lu, lu_solve, row_to_col_major,
    solve, solve_sys, transpose, Matrix, Solve, Vector,
};
use cvexec::*;

fn ints(t: &mut Toks) -> R<Vec<i32>> {
    let n = t.usize()?;
    (0..n).map(|_| t.i32()).collect()
}

struct RawMat(usize, usize, Vec<f64>);

fn rawmat(t: &mut Toks) -> R<RawMat> {
    let r = t.usize()?;
    let c = t.usize()?;
    let d = t.vec()?;
    Ok(RawMat(r, c, d))
}

fn mk(m: RawMat) -> Matrix {
    Matrix::new(m.2, m.0 as i32, m.1 as i32)
}

fn show_ints(p: &[i32]) -> String {
    if p.is_empty() {
        "0".to_string()
    } else {
        format!("{} {}", p.len(), p.iter().map(|x| x.to_string()).collect::<Vec<_>>().join(" "))
    }
}

fn show_mat(m: &Matrix) -> String {
    format!("{} {} {}", m.nrows, m.ncols, show_vec(&m.data))
}


use std::panic::{catch_unwind, AssertUnwindSafe};

/// one block of a composite reply: `P` when the call panicked
fn blk(f: impl FnOnce() -> String) -> String {
    catch_unwind(AssertUnwindSafe(f)).unwrap_or_else(|_| "P".to_string())
}

fn isqrt(len: usize) -> Option<usize> {
    (0..=len).find(|n| n * n == len)
}

fn sq(d: &[f64]) -> Matrix {
    let n = isqrt(d.len()).expect("square");
    Matrix::new(d.to_vec(), n as i32, n as i32)
}

/// slice `lu` and `Matrix::lu` of the same array: factor, pivots, factor, pivots (`P` = panicked)
fn lu_blocks(a: &[f64]) -> Vec<String> {
    let r1 = catch_unwind(AssertUnwindSafe(|| lu(a)));
    let r2 = catch_unwind(AssertUnwindSafe(|| sq(a).lu()));
    let mut bs = Vec::new();
    match r1 {
        Ok((f, p)) => {
            bs.push(show_vec(&f));
            bs.push(show_ints(&p));
        }
        Err(_) => {
            bs.push("P".to_string());
            bs.push("P".to_string());
        }
    }
    match r2 {
        Ok((f, p)) => {
            bs.push(show_vec(&f.data));
            bs.push(show_ints(&p));
        }
        Err(_) => {
            bs.push("P".to_string());
            bs.push("P".to_string());
        }
    }
    bs
}

fn composite(op: &str, t: &mut Toks) -> R<Option<String>> {
    let out = match op {
        "entries" => {
            let a = t.vec()?;
            let b = t.vec()?;
            t.end()?;
            let n = match isqrt(a.len()) {
                Some(n) => n,
                None => panic!("not square"),
            };
            let nsys = if n == 0 { 0 } else { b.len() / n };
            let cols: Vec<Vec<f64>> = (0..nsys)
                .map(|c| (0..b.len() / nsys).map(|i| b[i * nsys + c]).collect())
                .collect();
            let mut bs = vec![blk(|| show_vec(&solve_sys(&a, &b)))];
            for c in &cols {
                bs.push(blk(|| show_vec(&solve(&a, c))));
            }
            bs.push(blk(|| {
                let m = sq(&a);
                let s = Matrix::new(b.clone(), n as i32, nsys as i32);
                show_vec(&m.solve(&s).data)
            }));
            for c in &cols {
                bs.push(blk(|| show_vec(&sq(&a).solve(&Vector::from(c.clone())))));
            }
            bs.join(" ")
        }
        "inverses" => {
            let a = t.vec()?;
            t.end()?;
            let n = match isqrt(a.len()) {
                Some(n) => n,
                None => panic!("not square"),
            };
            let mut id = vec![0.; n * n];
            for i in 0..n {
                id[i * n + i] = 1.;
            }
            vec![
                blk(|| show_vec(&invert_matrix(&a))),
                blk(|| show_vec(&solve_sys(&a, &id))),
                blk(|| show_vec(&sq(&a).inv().data)),
                blk(|| show_vec(&sq(&a).solve(&Matrix::eye(n)).data)),
            ]
            .join(" ")
        }
        "routes" => {
            let a = t.vec()?;
            let b = t.vec()?;
            t.end()?;
            vec![
                blk(|| show_vec(&solve(&a, &b))),
                blk(|| {
                    let (f, p) = lu(&a);
                    show_vec(&lu_solve(&f, &p, &b))
                }),
                blk(|| show_vec(&cholesky_solve(&cholesky(&a), &b))),
            ]
            .join(" ")
        }
        "both_lu" => {
            let a = t.vec()?;
            t.end()?;
            lu_blocks(&a).join(" ")
        }
        "lu_pair" => {
            let a = t.vec()?;
            let b = t.vec()?;
            t.end()?;
            let mut bs = lu_blocks(&a);
            bs.extend(lu_blocks(&b));
            bs.join(" ")
        }
        "both_chol" => {
            let a = t.vec()?;
            t.end()?;
            vec![blk(|| show_vec(&cholesky(&a))), blk(|| show_vec(&sq(&a).cholesky().data))].join(" ")
        }
        "chol_pair" => {
            let a = t.vec()?;
            let b = t.vec()?;
            t.end()?;
            vec![
                blk(|| show_vec(&cholesky(&a))),
                blk(|| show_vec(&sq(&a).cholesky().data)),
                blk(|| show_vec(&cholesky(&b))),
                blk(|| show_vec(&sq(&b).cholesky().data)),
            ]
            .join(" ")
        }
        "both_tri" => {
            let kind = t.tok()?;
            let a = t.vec()?;
            let b = t.vec()?;
            t.end()?;
            match kind {
                "fwd" => vec![
                    blk(|| show_vec(&forward_substitution(&a, &b))),
                    blk(|| show_vec(&sq(&a).forward_substitution(&b))),
                ],
                "bwd" => vec![
                    blk(|| show_vec(&backward_substitution(&a, &b))),
                    blk(|| show_vec(&sq(&a).backward_substitution(&b))),
                ],
                "chol_solve" => vec![
                    blk(|| show_vec(&cholesky_solve(&a, &b))),
                    blk(|| show_vec(&sq(&a).cholesky_solve(&Vector::from(b.clone())))),
                ],
                _ => return Err(BadOp),
            }
            .join(" ")
        }
        "both_lu_solve" => {
            let f = t.vec()?;
            let p = ints(t)?;
            let b = t.vec()?;
            t.end()?;
            vec![
                blk(|| show_vec(&lu_solve(&f, &p, &b))),
                blk(|| show_vec(&sq(&f).lu_solve(&p, &Vector::from(b.clone())))),
            ]
            .join(" ")
        }
        _ => return Ok(None),
    };
    Ok(Some(ok(out)))
}

fn step(_: &mut (), t: &mut Toks) -> R<String> {
    let op = t.tok()?;
    if let Some(r) = composite(op, t)? {
        return Ok(r);
    }
    let out = match op {
        "solve" | "solve_sys" | "chol_solve" | "fwd" | "bwd" => {
            let a = t.vec()?;
            let b = t.vec()?;
            t.end()?;
            let x: Vec<f64> = match op {
                "solve" => solve(&a, &b),
                "solve_sys" => solve_sys(&a, &b),
                "chol_solve" => cholesky_solve(&a, &b),
                "fwd" => forward_substitution(&a, &b),
                _ => backward_substitution(&a, &b),
            };
            show_vec(&x)
        }
        "invert" | "chol" => {
            let a = t.vec()?;
            t.end()?;
            let x = if op == "invert" { invert_matrix(&a) } else { cholesky(&a) };
            show_vec(&x)
        }
        "lu" => {
            let a = t.vec()?;
            t.end()?;
            let (f, p) = lu(&a);
            format!("{} {}", show_vec(&f), show_ints(&p))
        }
        "lu_solve" => {
            let f = t.vec()?;
            let p = ints(t)?;
            let b = t.vec()?;
            t.end()?;
            show_vec(&lu_solve(&f, &p, &b))
        }
        "issym" | "ispd" => {
            let a = t.vec()?;
            t.end()?;
            show_bool(if op == "issym" { is_symmetric(&a) } else { is_positive_definite(&a) }).to_string()
        }
        "r2c" | "c2r" | "tr" => {
            let a = t.vec()?;
            let n = t.usize()?;
            t.end()?;
            match op {
                "r2c" => show_vec(&row_to_col_major(&a, n)),
                "c2r" => show_vec(&col_to_row_major(&a, n)),
                _ => show_vec(&transpose(&a, n)),
            }
        }
        "parity" => {
            let p = ints(t)?;
            t.end()?;
            ipiv_parity(&p).to_string()
        }
        "msolve_v" | "mchol_solve_v" | "mfwd" | "mbwd" => {
            let m = rawmat(t)?;
            let b = t.vec()?;
            t.end()?;
            let m = mk(m);
            let x: Vector = match op {
                "msolve_v" => m.solve(&Vector::from(b)),
                "mchol_solve_v" => m.cholesky_solve(&Vector::from(b)),
                "mfwd" => m.forward_substitution(&b),
                _ => m.backward_substitution(&b),
            };
            show_vec(&x)
        }
        "msolve_m" | "mchol_solve_m" => {
            let m = rawmat(t)?;
            let s = rawmat(t)?;
            t.end()?;
            let m = mk(m);
            let s = mk(s);
            let x: Matrix = if op == "msolve_m" { m.solve(&s) } else { m.cholesky_solve(&s) };
            show_mat(&x)
        }
        "minv" | "mchol" => {
            let m = rawmat(t)?;
            t.end()?;
            let m = mk(m);
            show_mat(&if op == "minv" { m.inv() } else { m.cholesky() })
        }
        "mlu" => {
            let m = rawmat(t)?;
            t.end()?;
            let (f, p) = mk(m).lu();
            format!("{} {}", show_mat(&f), show_ints(&p))
        }
        "mlu_solve_v" => {
            let m = rawmat(t)?;
            let p = ints(t)?;
            let b = t.vec()?;
            t.end()?;
            show_vec(&mk(m).lu_solve(&p, &Vector::from(b)))
        }
        "mlu_solve_m" => {
            let m = rawmat(t)?;
            let p = ints(t)?;
            let s = rawmat(t)?;
            t.end()?;
            let m = mk(m);
            let s = mk(s);
            show_mat(&m.lu_solve(&p, &s))
        }
        "mdet" => {
            let m = rawmat(t)?;
            t.end()?;
            show_f(mk(m).det())
        }
        "mlu_det" => {
            let m = rawmat(t)?;
            let p = ints(t)?;
            t.end()?;
            show_f(mk(m).lu_det(&p))
        }
        "mis_upper" | "mis_lower" | "mis_sym" | "mis_pd" => {
            let m = rawmat(t)?;
            t.end()?;
            let m = mk(m);
            show_bool(match op {
                "mis_upper" => m.is_upper_triangular(),
                "mis_lower" => m.is_lower_triangular(),
                "mis_sym" => m.is_symmetric(),
                _ => m.is_positive_definite(),
            })
            .to_string()
        }
        "mdiag" => {
            let m = rawmat(t)?;
            t.end()?;
            show_vec(&mk(m).diag())
        }
        _ => return Err(BadOp),
    };
    Ok(ok(out))
}

fn main() {
    run((), step);
}
