import Compute.Lemmas.LuCorrect
import Mathlib.LinearAlgebra.Matrix.Block
/-
The LU factors as Mathlib matrices: `L * U = P·A` as a matrix identity and
`det (P·A) = ∏ U[k,k]`.
-/
set_option linter.unusedSectionVars false
namespace Cv.LA.Lu
open Finset

section mat
variable {α : Type} [Field α]

/-- unit lower triangular factor as a matrix -/
def Lmat (n : Nat) (f : List α) : Matrix (Fin n) (Fin n) α := Matrix.of fun i k => Lent n f i.1 k.1

/-- upper triangular factor as a matrix -/
def Umat (n : Nat) (f : List α) : Matrix (Fin n) (Fin n) α := Matrix.of fun k j => Uent n f k.1 j.1

/-- the row-permuted input `P·A`: row `i` is row `p[i]` of `a` -/
def PAmat (n : Nat) (a : List α) (p : List Nat) : Matrix (Fin n) (Fin n) α :=
  Matrix.of fun i j => rd a (p.getD i.1 0 * n + j.1)

theorem Lmat_mul_Umat (n : Nat) (a f : List α) (p : List Nat)
    (hLU : ∀ i j, i < n → j < n →
      ∑ k ∈ range n, Lent n f i k * Uent n f k j = rd a (p.getD i 0 * n + j)) :
    Lmat n f * Umat n f = PAmat n a p := by
  ext i j
  simp only [Matrix.mul_apply, Lmat, Umat, PAmat, Matrix.of_apply]
  rw [← hLU i.1 j.1 i.2 j.2, Finset.sum_range (fun k => Lent n f i.1 k * Uent n f k j.1)]

theorem det_Lmat (n : Nat) (f : List α) : (Lmat n f).det = 1 := by
  rw [Matrix.det_of_isLowerTriangular]
  · apply Finset.prod_eq_one
    intro i _
    simp [Lmat, Lent]
  · intro i j hij
    have hij' : i < j := hij
    have h1 : ¬ j < i := not_lt.mpr (le_of_lt hij')
    have h2 : ¬ j = i := fun e => (ne_of_gt hij') e
    have h3 : ¬ j.1 = i.1 := fun e => h2 (Fin.ext e)
    simp [Lmat, Lent, h1, h3]

theorem det_Umat (n : Nat) (f : List α) : (Umat n f).det = ∏ k : Fin n, rd f (k.1 * n + k.1) := by
  rw [Matrix.det_of_isUpperTriangular]
  · apply Finset.prod_congr rfl
    intro i _
    simp [Umat, Uent, ent_def]
  · intro i j hij
    have hij' : j < i := hij
    have h1 : ¬ i ≤ j := not_le.mpr hij'
    simp [Umat, Uent, h1]

/-- `det (P·A) = ∏ U[k,k]` -/
theorem det_PAmat (n : Nat) (a f : List α) (p : List Nat)
    (hLU : ∀ i j, i < n → j < n →
      ∑ k ∈ range n, Lent n f i k * Uent n f k j = rd a (p.getD i 0 * n + j)) :
    (PAmat n a p).det = ∏ k : Fin n, rd f (k.1 * n + k.1) := by
  rw [← Lmat_mul_Umat n a f p hLU, Matrix.det_mul, det_Lmat, det_Umat, one_mul]

end mat
end Cv.LA.Lu
