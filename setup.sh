#!/bin/sh
# Build the framework from files on disk only (offline): for every property claimed in MANIFEST.json the Lean
# theorem modules + model driver and the Rust executor binary.  Each check rebuilds what it needs anyway; this
# just warms the caches (first Mathlib import, cargo dependencies).
cd "$(dirname "$0")"
export CARGO_NET_OFFLINE=true
mkdir -p out evidence
if command -v python3-vt >/dev/null 2>&1; then PY=python3-vt; else PY=python3; fi
IDS=$($PY -c "import json;print(' '.join(c['property_id'] for c in json.load(open('MANIFEST.json'))['checks']))")
RC=0
for id in $IDS; do
  lid=$(echo "$id" | tr 'A-Z' 'a-z')
  MODS=$($PY -c "import sys;sys.path.insert(0,'.');import importlib;m=importlib.import_module('tools.cv.$lid');print(' '.join(m.PROOF_MODULES))" 2>/dev/null)
  (cd lean && lake build $MODS cv_$lid) || { echo "setup: lake build failed for $id"; RC=1; }
  (cd exec && cargo build --offline --bin $lid) || { echo "setup: cargo build failed for $id"; RC=1; }
done
exit $RC
