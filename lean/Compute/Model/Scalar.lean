/-
Scalar interface of the executable model.  Model definitions are polymorphic in the scalar type `α`
through core classes (`Add Sub Mul Div Neg Zero One NatCast LT DecidableLT …`) plus the class
`Transc` below for the transcendental / rounding functions the Rust code calls on `f64`.

* Instance `Float` (this file): used by the compiled drivers; measured bit-identical to Rust `f64`
  for `+ - * / sqrt exp ln pow sin cos tan tanh sinh cosh atan asin acos exp2 log2 log10 floor ceil
  round abs` and for the square-and-multiply `powi` below.
* Instance `ℝ` (only in proof files, with Mathlib) or no instance at all (theorems over fields).

No Mathlib imports here.
-/
namespace Cv

class Transc (α : Type) where
  sqrt : α → α
  exp : α → α
  ln : α → α
  pow : α → α → α
  sin : α → α
  cos : α → α
  tan : α → α
  abs : α → α
  floor : α → α
  ceil : α → α

export Transc (sqrt exp ln pow)

instance : NatCast Float := ⟨Float.ofNat⟩
instance : IntCast Float := ⟨Float.ofInt⟩
instance : Zero Float := ⟨0.0⟩
instance : One Float := ⟨1.0⟩

instance : Transc Float where
  sqrt := Float.sqrt
  exp := Float.exp
  ln := Float.log
  pow := Float.pow
  sin := Float.sin
  cos := Float.cos
  tan := Float.tan
  abs := Float.abs
  floor := Float.floor
  ceil := Float.ceil

@[extern "log1p"] opaque log1pF : Float → Float
@[extern "expm1"] opaque expm1F : Float → Float

/-- Rust's `f64::powi` (LLVM `llvm.powi.f64.i32` → compiler-rt `__powidf2`):
square-and-multiply on `|n|`, reciprocal at the end for negative `n`. -/
def powiNat {α : Type} [Mul α] [One α] (x : α) (n : Nat) : α :=
  let rec go (fuel : Nat) (a : α) (n : Nat) (r : α) : α :=
    match fuel with
    | 0 => r
    | fuel + 1 =>
      let r := if n % 2 = 1 then r * a else r
      let n := n / 2
      if n = 0 then r else go fuel (a * a) n r
  go 64 x n 1

def powi {α : Type} [Mul α] [Div α] [One α] (x : α) (n : Int) : α :=
  let r := powiNat x n.natAbs
  if n < 0 then 1 / r else r

/-- IEEE `max`/`min` as Rust's `f64::max`/`f64::min` (NaN-ignoring: if one side is NaN the other is
returned). -/
def fmax (a b : Float) : Float := if a.isNaN then b else if b.isNaN then a else if a < b then b else a
def fmin (a b : Float) : Float := if a.isNaN then b else if b.isNaN then a else if b < a then b else a

end Cv
