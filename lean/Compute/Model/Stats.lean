import Compute.Model.Scalar
import Compute.Model.Kernels
/-
Model of `src/statistics/{moments,covariance,order,hist}.rs` and of the `Vector` / `Matrix`
wrappers in `src/linalg/array/{vec,matrix}.rs` (C08), polymorphic in the scalar.  Core Lean only.

Conventions
* `Option` = panic (`assert_eq!` on lengths, `usize` underflow of `count - 1`, `n - 1`, division by
  `ncols = 0`; the executor is built with overflow checks).
* `Iterator::sum::<f64>()` folds from `-0.0` (Rust ≥ 1.83; observed on the toolchain of this
  sandbox: `covariance([-0,-0],[1,1]) = -0`); it is modelled as `iterSum` with seed `-0`, which is
  `0` in every ring, so theorems are unaffected while the `Float` instance keeps the sign of zero.
* `f64::min` / `f64::max` ignore a NaN operand and keep the accumulator on ties (observed:
  `min [0,-0] = 0`, `min [-0,0] = -0`); NaN-ness is abstracted by the class `HasNaN`.
* `usize as f64` is `NatCast` (exact below 2^53).
-/
namespace Cv

/-- The scalar has a distinguished set of "not a number" values (IEEE NaN at `Float`). -/
class HasNaN (α : Type) where
  isNaN : α → Bool
  nan : α

instance : HasNaN Float := ⟨Float.isNaN, 0.0 / 0.0⟩

section
variable {α : Type} [Add α] [Sub α] [Mul α] [Div α] [Neg α] [Zero α] [One α] [NatCast α]

/-- `Iterator::sum::<f64>()`: left fold from `-0.0`. -/
def iterSum (l : List α) : α := l.foldl (· + ·) (-0)

/-- `welford_update` (moments.rs:10-19). Aggregate = (count, mean, M2). -/
def welfordUpdate (agg : Nat × α × α) (x : α) : Nat × α × α :=
  let count := agg.1 + 1
  let delta := x - agg.2.1
  let mean := agg.2.1 + delta / (count : α)
  let delta2 := x - mean
  (count, mean, agg.2.2 + delta * delta2)

/-- `welford_statistics` (moments.rs:23-29). -/
def welfordStatistics (data : List α) : Nat × α × α :=
  data.foldl welfordUpdate (0, 0, 0)

/-- `mean` (moments.rs:37): unrolled `utils::sum` divided by the length. -/
def mean (data : List α) : α := sum8 data / (data.length : α)

def welfordMean (data : List α) : α := (welfordStatistics data).2.1

def var (data : List α) : α :=
  let s := welfordStatistics data
  s.2.2 / (s.1 : α)

/-- `sample_var`: `(count - 1) as f64` panics on `usize` underflow for empty data. -/
def sampleVar (data : List α) : Option α :=
  let s := welfordStatistics data
  if s.1 = 0 then none else some (s.2.2 / ((s.1 - 1 : Nat) : α))

def std [Transc α] (data : List α) : α := Transc.sqrt (var data)

def sampleStd [Transc α] (data : List α) : Option α := (sampleVar data).map Transc.sqrt

/-- `Σ_i (x[i] - mean_x) * (y[i] - mean_y)` as the iterator sum of covariance.rs (lengths equal). -/
def coMoment (x y : List α) : α :=
  let mx := mean x
  let my := mean y
  iterSum (List.zipWith (fun a b => (a - mx) * (b - my)) x y)

/-- `covariance` (covariance.rs:6-17). -/
def covariance (x y : List α) : Option α :=
  if x.length = y.length then some (coMoment x y / (x.length : α)) else none

/-- `sample_covariance` (covariance.rs:22-33); `n - 1` underflows for `n = 0`. -/
def sampleCovariance (x y : List α) : Option α :=
  if x.length = y.length then
    if x.length = 0 then none else some (coMoment x y / ((x.length - 1 : Nat) : α))
  else none

/-- Loop body of `sample_covariance_onepass`: state `(sxy, sx, sy)`, shift `(x0, y0)`. -/
def onepassStep (x0 y0 : α) (s : α × α × α) (p : α × α) : α × α × α :=
  let dx := p.1 - x0
  let dy := p.2 - y0
  (s.1 + dx * dy, s.2.1 + dx, s.2.2 + dy)

/-- `sample_covariance_onepass` (covariance.rs:38-50, repaired by F17). -/
def sampleCovarianceOnepass (x y : List α) : Option α :=
  if x.length = y.length then
    match x, y with
    | x0 :: _, y0 :: _ =>
      let s := (List.zip x y).foldl (onepassStep x0 y0) (0, 0, 0)
      some ((s.1 - s.2.1 * s.2.2 / (x.length : α)) / ((x.length - 1 : Nat) : α))
    | _, _ => none
  else none

/-- Loop body of `sample_covariance_online`: state `(meanx, meany, c, n)`; `n` is an `f64`. -/
def onlineStep (s : α × α × α × α) (p : α × α) : α × α × α × α :=
  let n := s.2.2.2 + 1
  let dx := p.1 - s.1
  let dy := p.2 - s.2.1
  let meanx := s.1 + dx / n
  let meany := s.2.1 + dy / n
  (meanx, meany, s.2.2.1 + dx * (p.2 - meany), n)

/-- `sample_covariance_online` (covariance.rs:54-71, repaired by F18). -/
def sampleCovarianceOnline (x y : List α) : Option α :=
  if x.length = y.length then
    let s := (List.zip x y).foldl onlineStep (0, 0, 0, 0)
    some (s.2.2.1 / (s.2.2.2 - 1))
  else none

/-- `hist_bin_centers` (hist.rs:5-7, repaired by F19): `windows(2).map(|w| (w[0] + w[1]) / 2.)`. -/
def histBinCenters : List α → List α
  | a :: b :: rest => (a + b) / ((2 : Nat) : α) :: histBinCenters (b :: rest)
  | _ => []

end

section
variable {α : Type} [LT α] [DecidableLT α] [HasNaN α]

/-- Rust `f64::min`: NaN-ignoring, keeps `a` on ties. -/
def fminG (a b : α) : α :=
  if HasNaN.isNaN a then b else if HasNaN.isNaN b then a else if b < a then b else a

/-- Rust `f64::max`: NaN-ignoring, keeps `a` on ties. -/
def fmaxG (a b : α) : α :=
  if HasNaN.isNaN a then b else if HasNaN.isNaN b then a else if a < b then b else a

/-- `min` (order.rs:4-6): fold of `f64::min` seeded with NaN. -/
def minFold (data : List α) : α := data.foldl fminG HasNaN.nan

/-- `max` (order.rs:9-11). -/
def maxFold (data : List α) : α := data.foldl fmaxG HasNaN.nan

end

section
variable {α : Type} [LT α] [DecidableLT α]

/-- Fold of `argmin` over `enumerate()` starting at index `i`: accumulator `(index, value)`. -/
def argminGo : Nat → Nat × α → List α → Nat × α
  | _, acc, [] => acc
  | i, acc, x :: xs => argminGo (i + 1) (if x < acc.2 then (i, x) else acc) xs

def argmaxGo : Nat → Nat × α → List α → Nat × α
  | _, acc, [] => acc
  | i, acc, x :: xs => argmaxGo (i + 1) (if acc.2 < x then (i, x) else acc) xs

/-- `argmin` (order.rs:14-22) with seed value `big` (`f64::MAX` in the source). -/
def argmin (big : α) (data : List α) : Nat := (argminGo 0 (0, big) data).1

/-- `argmax` (order.rs:25-33) with seed value `small` (`f64::MIN` in the source). -/
def argmax (small : α) (data : List α) : Nat := (argmaxGo 0 (0, small) data).1

/-- `Matrix::argmin` (matrix.rs:485-488): `(am / ncols, am % ncols)`; `ncols = 0` divides by zero. -/
def matArgmin (big : α) (data : List α) (ncols : Nat) : Option (Nat × Nat) :=
  if ncols = 0 then none else
    let am := argmin big data
    some (am / ncols, am % ncols)

def matArgmax (small : α) (data : List α) (ncols : Nat) : Option (Nat × Nat) :=
  if ncols = 0 then none else
    let am := argmax small data
    some (am / ncols, am % ncols)

end

/-- `f64::MAX`, `f64::MIN`. -/
def f64Max : Float := Float.ofBits 0x7FEFFFFFFFFFFFFF
def f64Min : Float := Float.ofBits 0xFFEFFFFFFFFFFFFF

end Cv
