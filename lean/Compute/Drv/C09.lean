import Compute.Drv.Common
import Compute.Model.Scalar
import Compute.Model.Special
/-
Driver for C09 (model at `Float`).  Requests (floats as 16 hex digits):
  `gamma x` | `lngamma x` | `digamma x` | `erf x` | `beta a b`      -> `= y`
  `gammav n x1 … xn` (also lngammav, digammav, erfv)                 -> `= y1 … yn`
  `betav n a1 b1 … an bn`                                            -> `= y1 … yn`
`gamma`, `lngamma`, `erf` are evaluated through the fuelled transcription of the Rust recursion (`gammaF` …) AND
through the closed form (`gammaFn` …); a difference between the two is reported as `! model-mismatch`, fuel
exhaustion as `! diverged`.  `digamma x` with `x < -100000` is `! diverged` on both sides (see exec/src/bin/c09.rs).
-/
open Cv Cv.Special

def sameF (a b : Float) : Bool := showFloat a == showFloat b

/-- `none` = diverged, `some none` = closed form disagrees with the recursion -/
def c09Fun (op : String) : Option (Float → Option (Option Float)) :=
  let both (r : Option Float) (c : Float) : Option (Option Float) :=
    r.map fun y => if sameF y c then some y else none
  match op with
  | "gamma" => some fun x => both (gammaF 8 x) (gammaFn x)
  | "lngamma" => some fun x => both (lnGammaF 8 x) (lnGammaFn x)
  | "erf" => some fun x => both (erfF 8 x) (erfFn x)
  | "digamma" => some fun x =>
      if x < -100000.0 then none else both (digammaF digammaFuel x) (digammaFn x)
  | _ => none

def c09Many (f : Float → Option (Option Float)) (xs : List Float) : String :=
  let rec go (xs : List Float) (acc : List Float) : String :=
    match xs with
    | [] => ok (showFloats acc.reverse)
    | x :: rest =>
      match f x with
      | none => diverged
      | some none => "! model-mismatch"
      | some (some y) => go rest (y :: acc)
  go xs []

def pairs : List Float → List (Float × Float)
  | a :: b :: rest => (a, b) :: pairs rest
  | _ => []

/-- `erfsweep b0 n`: the model's `erf` on the `n` consecutive f32 bit patterns from `b0` and on their negations; reply as in
exec/src/bin/c09.rs: order-independent checksum of all `2n` result bit patterns, `n`, number of arguments where `erf(-x) ≠ -erf(x)` bit
for bit, number with `|erf| > 1`, first such bit pattern. -/
def hex8 (n : Nat) : String :=
  String.ofList ((List.range 8).map fun i => hexChar ((n >>> (4 * (7 - i))) % 16))

structure SweepAcc where
  h : UInt64 := 0
  oddBad : Nat := 0
  boundBad : Nat := 0
  first : Option Nat := none

def rotl32 (x : UInt64) : UInt64 := (x <<< 32) ||| (x >>> 32)

def erfSweepChunk (b0 n : Nat) : SweepAcc := Id.run do
  let mut h : UInt64 := 0
  let mut oddBad : Nat := 0
  let mut boundBad : Nat := 0
  let mut first : Option Nat := none
  for k in [0:n] do
    let bits := b0 + k
    let x : Float := (Float32.ofBits (UInt32.ofNat bits)).toFloat
    let y := (erfFn x : Float)
    let yn := (erfFn (-x) : Float)
    let key : UInt64 := (UInt64.ofNat bits + 1) * 0x9E3779B97F4A7C15
    h := h + (y.toBits ^^^ key) * 0xBF58476D1CE4E5B9 + (yn.toBits ^^^ rotl32 key) * 0x94D049BB133111EB
    let mut bad := false
    if yn.toBits != (-y).toBits then
      oddBad := oddBad + 1
      bad := true
    if !(y.abs <= 1.0) || !(yn.abs <= 1.0) then
      boundBad := boundBad + 1
      bad := true
    if bad && first.isNone then
      first := some bits
  return { h, oddBad, boundBad, first }

/-- The block is cut into 12 chunks evaluated as parallel tasks (the checksum is an order-independent sum). -/
def erfSweep (b0 n : Nat) : String :=
  let parts := 12
  let sz := (n + parts - 1) / parts
  let tasks := (List.range parts).map fun i =>
    let lo := i * sz
    let len := if lo ≥ n then 0 else min sz (n - lo)
    Task.spawn fun _ => erfSweepChunk (b0 + lo) len
  let acc := tasks.foldl (fun (a : SweepAcc) t =>
    let r := t.get
    { h := a.h + r.h, oddBad := a.oddBad + r.oddBad, boundBad := a.boundBad + r.boundBad,
      first := match a.first with | some f => some f | none => r.first }) {}
  let f := match acc.first with
    | some b => hex8 b
    | none => "-"
  ok s!"{natToHex16 acc.h.toNat} {n} {acc.oddBad} {acc.boundBad} {f}"

def c09Step (args : List String) : String :=
  match args with
  | "erfsweep" :: rest =>
    withArgs (do let b0 ← pNat; let n ← pNat; pure (b0, n)) rest fun (b0, n) =>
      if b0 + n > 0x7f800000 then badOp else erfSweep b0 n
  | "beta" :: rest =>
    withArgs (do let a ← pFloat; let b ← pFloat; pure (a, b)) rest fun (a, b) => ok (showFloat (betaFn a b))
  | "betav" :: rest =>
    withArgs (do let n ← pNat; pMany pFloat (2 * n)) rest fun xs =>
      ok (showFloats ((pairs xs).map fun (a, b) => betaFn a b))
  | op :: rest =>
    if op.endsWith "v" then
      match c09Fun ((op.dropEnd 1).toString) with
      | none => badOp
      | some f => withArgs pVec rest fun xs => c09Many f xs
    else
      match c09Fun op with
      | none => badOp
      | some f => withArgs pFloat rest fun x => c09Many f [x]
  | _ => badOp

def main (args : List String) : IO UInt32 := mainWith () (fun _ t => ((), c09Step t)) args
