import Compute.Props.C02
import Compute.Generated.C02Consts
/-
C02 — follow-ups of the independent review (findings A1, B1, B3, B4, B5 of out/review/review-a.md).

* Stability of the log-space densities under an INEXACT `ln_gamma`: `pdf F = pdf RF · exp (log Γ − F.lnGamma)` etc.  No theorem of
  C09 bounds `log Γ − lnGammaFn` for the code's Lanczos sum; these lemmas say exactly how such a gap would propagate
  (a relative factor `exp(gap)`), nothing more.
* MVN: what the constructor guarantees (`mvn_new_facts`), the accessors (`mvn_mean_var`), non-negativity of `pdf`, and the two
  instantiations of `mvn_pdf_formula_partial` the review asked for.
* The generated Euler–Mascheroni rational lies in the same bracket `(1/2, 2/3)` Mathlib proves for the constant.
-/
open scoped Cv.C02
open Cv Cv.Dist ProbabilityTheory

namespace Cv.C02

variable (erf : ℝ → ℝ)

local notation "RF" => realFns erf

/-! ## B3: stability under an inexact `ln_gamma` -/

/-- Gamma: an error `g = log Γ(α) − F.lnGamma α` of the code's `ln_gamma` multiplies the density by `exp g`. -/
theorem gamma_pdf_stability (F : Fns ℝ) (α β x : ℝ) :
    Gamma.pdf F α β x = Gamma.pdf RF α β x * Real.exp (Real.log (Real.Gamma α) - F.lnGamma α) := by
  simp only [Gamma.pdf, realFns, transc_exp, transc_ln]
  split
  · simp
  · rw [← Real.exp_add]; congr 1; ring

/-- ChiSquared: the same with `α = k/2`. -/
theorem chiSquared_pdf_stability (F : Fns ℝ) (k : ℕ) (x : ℝ) :
    ChiSquared.pdf F k x =
      ChiSquared.pdf RF k x * Real.exp (Real.log (Real.Gamma ((k : ℝ) / 2)) - F.lnGamma ((k : ℝ) / 2)) := by
  simp only [ChiSquared.pdf, realFns, transc_exp, transc_ln, two_real]
  split
  · simp
  · rw [← Real.exp_add]; congr 1; ring

/-- Beta: the three `ln_gamma` errors enter with signs `+ − −`. -/
theorem beta_pdf_stability (F : Fns ℝ) (α β x : ℝ) :
    Beta.pdf F α β x = Beta.pdf RF α β x *
      Real.exp ((F.lnGamma (α + β) - Real.log (Real.Gamma (α + β))) - (F.lnGamma α - Real.log (Real.Gamma α))
        - (F.lnGamma β - Real.log (Real.Gamma β))) := by
  simp only [Beta.pdf, realFns, transc_exp]
  split
  · rw [← Real.exp_add]; congr 1; ring
  · simp

/-- Poisson: an error of `ln_gamma (k+1)` multiplies the mass by `exp` of it. -/
theorem poisson_pmf_stability (F : Fns ℝ) (l : ℝ) (k : ℤ) :
    Poisson.pmf F l k = Poisson.pmf RF l k *
      Real.exp (Real.log (Real.Gamma ((k : ℝ) + 1)) - F.lnGamma ((k : ℝ) + 1)) := by
  simp only [Poisson.pmf, realFns, transc_exp, transc_ln]
  split
  · simp
  · rw [← Real.exp_add]; congr 1; ring

/-- The Euler–Mascheroni literal of gumbel.rs (exact rational of the `f64`, regenerated from the source) lies in `(1/2, 2/3)`,
the bracket Mathlib proves for the constant itself; hence `|literal − γ| < 1/6`.  (A sharper bound needs numerical bounds on `γ`
that Mathlib does not have; the 17-digit agreement is checked by the oracle through `Gumbel::mean`.) -/
theorem euler_literal_bracket :
    (1 / 2 : ℝ) < (C02T.eulerNum : ℝ) / (C02T.eulerDen : ℝ) ∧ (C02T.eulerNum : ℝ) / (C02T.eulerDen : ℝ) < 2 / 3 ∧
    |(C02T.eulerNum : ℝ) / (C02T.eulerDen : ℝ) - Real.eulerMascheroniConstant| < 1 / 6 := by
  have h1 : (1 / 2 : ℝ) < (C02T.eulerNum : ℝ) / (C02T.eulerDen : ℝ) := by
    simp only [C02T.eulerNum, C02T.eulerDen]; norm_num
  have h2 : (C02T.eulerNum : ℝ) / (C02T.eulerDen : ℝ) < 2 / 3 := by
    simp only [C02T.eulerNum, C02T.eulerDen]; norm_num
  have g1 := Real.one_half_lt_eulerMascheroniConstant
  have g2 := Real.eulerMascheroniConstant_lt_two_thirds
  refine ⟨h1, h2, ?_⟩
  rw [abs_lt]; constructor <;> linarith

/-! ## B4: the boundary value the code returns for Gamma -/

/-- Gamma at the boundary point `x = 0`: the code returns `0` (open support `(0, ∞)`), for every `F`. -/
theorem gamma_pdf_at_zero (F : Fns ℝ) (α β : ℝ) : Gamma.pdf F α β 0 = 0 :=
  gamma_pdf_zero_of_nonpos F α β 0 le_rfl

/-! ## A1 / B1: multivariate normal -/

/-- **What `MVN::new` guarantees**: the stored mean and covariance are the arguments, the dimensions agree, the covariance
passes `is_symmetric` and `is_positive_definite` (so the assert of `pdf` / `ln_pdf` can never fire on a constructed object), and
the cached fields are the results of `Matrix::cholesky`, `Matrix::inv`, `Matrix::det` on the covariance. -/
theorem mvn_new_facts (mean : List ℝ) (cov : Mat ℝ) (d : MVN ℝ) (h : MVN.new mean cov = some d) :
    d.mean = mean ∧ d.cov = cov ∧ mean.length = cov.ncols ∧ LA.M.isSymmetric cov = true ∧
    LA.M.isPositiveDefinite cov = true ∧ LA.M.cholesky cov = some d.chol ∧ LA.M.inv cov = some d.inv ∧
    LA.M.det cov = some d.det := by
  unfold MVN.new at h
  split at h
  · exact absurd h (by simp)
  · next hsym =>
    split at h
    · exact absurd h (by simp)
    · next hlen =>
      cases hc : LA.M.cholesky cov with
      | none => simp [hc] at h
      | some l =>
        cases hi : LA.M.inv cov with
        | none => simp [hc, hi] at h
        | some ci =>
          cases hd : LA.M.det cov with
          | none => simp [hc, hi, hd] at h
          | some cd =>
            simp only [hc, hi, hd, Option.bind_eq_bind, Option.bind_some, Option.pure_def, Option.some.injEq] at h
            subst h
            have hpd : LA.M.isPositiveDefinite cov = true := by
              by_contra hn
              have : LA.M.cholesky cov = none := by simp [LA.M.cholesky, hn]
              rw [this] at hc; exact absurd hc (by simp)
            refine ⟨rfl, rfl, by simpa using hlen, by simpa using hsym, hpd, rfl, rfl, rfl⟩

/-- `MVN::new` panics on a non-symmetric covariance or a mean of the wrong length. -/
theorem mvn_new_rejects (mean : List ℝ) (cov : Mat ℝ)
    (h : LA.M.isSymmetric cov = false ∨ mean.length ≠ cov.ncols) : MVN.new mean cov = none := by
  unfold MVN.new
  rcases h with h | h
  · simp [h]
  · by_cases hs : LA.M.isSymmetric cov = true
    · simp [hs, h]
    · simp [hs]

/-- **`mean()` and `var()` of the MVN** return the constructor's arguments (stored mean vector, covariance matrix). -/
theorem mvn_mean_var (mean : List ℝ) (cov : Mat ℝ) (d : MVN ℝ) (h : MVN.new mean cov = some d) :
    MVN.meanOf d = mean ∧ MVN.varOf d = cov := by
  obtain ⟨h1, h2, _⟩ := mvn_new_facts mean cov d h
  exact ⟨h1, h2⟩

/-- **MVN density is non-negative** whenever it is a value (any cached determinant, any `F`). -/
theorem mvn_pdf_nonneg (F : Fns ℝ) (d : MVN ℝ) (x : List ℝ) (y : ℝ) (h : MVN.pdf F d x = some y) : 0 ≤ y := by
  unfold MVN.pdf at h
  split at h
  · exact absurd h (by simp)
  · split at h
    · exact absurd h (by simp)
    · cases hq : MVN.quadForm d x with
      | none => simp [hq] at h
      | some q =>
        simp only [hq, Option.bind_eq_bind, Option.bind_some, Option.pure_def, Option.some.injEq] at h
        rw [← h]
        exact div_nonneg (Real.exp_pos _).le (Real.sqrt_nonneg _)

/-- A 1-dimensional object with covariance `[1]`, cached inverse `[1]` and a chosen cached determinant. -/
noncomputable def mvnEx (det : ℝ) : MVN ℝ := ⟨[0], ⟨[1], 1, 1⟩, ⟨[1], 1, 1⟩, det, ⟨[1], 1, 1⟩⟩

theorem mvnEx_pd (det : ℝ) : LA.M.isPositiveDefinite (mvnEx det).cov = true := by
  simp [mvnEx, LA.M.isPositiveDefinite, LA.M.isSymmetric, LA.rd, LA.eps]
  show |(0 : ℝ)| ≤ _
  simp

/-- Non-vacuity of `mvn_pdf_formula_partial`: every hypothesis instantiated (standard normal in dimension 1). -/
example : MVN.pdf RF (mvnEx 1) [0] =
    some (Real.exp (-(1 / 2) * mvnQuad (mvnEx 1) [0] 1) / Real.sqrt ((2 * Real.pi) ^ 1 * 1)) :=
  mvn_pdf_formula_partial erf (mvnEx 1) [0] 1 one_pos (by norm_num) (mvnEx_pd 1) rfl rfl (by simp [mvnEx, Mat.WF]) rfl rfl
    (by simp [mvnEx])

/-- Why the guard `0 < det` is there: with a negative cached determinant the ℝ-model evaluates to `some 0` (`√neg = 0`, `e/0 = 0`)
where Rust returns NaN; the theorem no longer speaks about that object. -/
example : MVN.pdf RF (mvnEx (-1)) [0] = some 0 := by
  obtain ⟨q, hq, _⟩ := mvn_quadForm (mvnEx (-1)) [0] 1 one_pos rfl rfl (by simp [mvnEx, Mat.WF]) rfl rfl
  have hpd := mvnEx_pd (-1)
  have hdet : (mvnEx (-1)).det = -1 := rfl
  have hmean : (mvnEx (-1)).mean = [0] := rfl
  have hsq : Real.sqrt (powi (Dist.two * (RF).pi) ((([0] : List ℝ).length : ℕ) : Int) * (-1)) = 0 := by
    apply Real.sqrt_eq_zero_of_nonpos
    rw [powi_nat _ _ (by norm_num)]
    simp only [realFns, two_real, List.length_singleton, pow_one]
    nlinarith [Real.pi_pos]
  simp only [MVN.pdf, hpd, hq, hdet, hmean, Bool.not_true, Bool.false_eq_true, if_false, ne_eq, not_true_eq_false,
    Option.bind_eq_bind, Option.bind_some, Option.pure_def, transc_sqrt, transc_exp, hsq, div_zero]

end Cv.C02
