import Compute.Model.Interp
import Compute.Lemmas.C16
import Mathlib.Algebra.Order.Field.Basic
import Mathlib.Algebra.Order.Field.Rat
import Mathlib.Tactic.Ring
import Mathlib.Tactic.Linarith
import Mathlib.Tactic.FieldSimp
import Mathlib.Tactic.NormNum
/-
C16 — linear interpolation reproduces knots and honours the out-of-range mode.

Theorems about the model of `src/functions/interpolate.rs` (`Compute/Model/Interp.lean`) over an arbitrary
linearly ordered field, for strictly increasing abscissae, `n ≥ 2` knots and equally many ordinates (`Knots x y`),
every target and every mode.  `interpOne` is the body of the loop over the targets; `interpAll_eq_some_iff`,
`interpAll_eq_none_iff` and `unchecked_eq_some_iff` lift the per-target statements to the whole call.

* `scan_brackets` (+ `bracket_unique`, in `Lemmas/C16.lean`): the scan returns the unique bracketing index.
* `interp_knot`: at a knot the result is exactly the knot's ordinate.
* `interp_inside`, `lineAt_between`: inside the range the result is the value of the line through the two
  neighbouring knots, hence between their ordinates.
* `interp_left_*`, `interp_right_*`: outside the range: panic / the left resp. right fill value / the extension of
  the first resp. last segment's line.  (`interp_right_*` are the statements that failed before the repair F28.)
* `checked_rejects_length`, `checked_rejects_unsorted`, `checked_eq_unchecked`, `panic_mode_rejects`.
-/
namespace Cv.C16
open Cv

section main
variable {α : Type} [Field α] [LinearOrder α] [IsStrictOrderedRing α] [Inhabited α]

theorem lineAt_left (x y : List α) (j : Nat) : lineAt x y j x[j - 1]! = y[j - 1]! := by
  unfold lineAt; rw [sub_self, zero_div, zero_mul, add_zero]

theorem lineAt_right (x y : List α) (j : Nat) (hne : x[j - 1]! ≠ x[j]!) : lineAt x y j x[j]! = y[j]! := by
  unfold lineAt
  have : x[j]! - x[j - 1]! ≠ 0 := sub_ne_zero.2 (Ne.symm hne)
  rw [div_self this]; ring

theorem Knots.bang {x y : List α} (_h : Knots x y) {i : Nat} (hi : i < x.length) : x[i]! = x[i] :=
  getElem!_pos x i hi

theorem Knots.ybang {x y : List α} (h : Knots x y) {i : Nat} (hi : i < x.length) :
    y[i]! = y[i]'(by have := h.len; omega) :=
  getElem!_pos y i (by have := h.len; omega)

/-- **interp_inside (value).** For `x_{i-1} ≤ t ≤ x_i` the result is the value at `t` of the straight line through
the knots `i-1` and `i` — for every mode. -/
theorem interp_inside {x y : List α} (h : Knots x y) (mode : ExtrapMode α) (t : α) (i : Nat)
    (hi0 : 1 ≤ i) (hi : i < x.length) (a1 : x[i - 1] ≤ t) (a2 : t ≤ x[i]) :
    interpOne x y mode t = some (lineAt x y i t) := by
  have h2 := h.two
  have hn : x.length ≠ 0 := by omega
  have hx0 : x[0] ≤ t := le_trans (h.le (Nat.zero_le _) (by omega)) a1
  have hlast : t ≤ x[x.length - 1] := le_trans a2 (h.le (by omega) (by omega))
  have hr : ¬ x[x.length - 1]! < t := by rw [h.bang (by omega)]; exact not_lt.2 hlast
  rcases lt_or_eq_of_le a2 with hlt | heq
  · -- t < x_i : the scan finds i
    have hl : t < x[x.length - 1] := lt_of_lt_of_le hlt (h.le (by omega) (by omega))
    obtain ⟨p0, p1, b1, b2⟩ := scan_brackets h t hx0 hl
    have : idxOf x t = i := bracket_unique h t _ _ p0 p1 hi0 hi b1 b2 a1 hlt
    rw [interpOne_in x y mode t hn (by omega) hr, this]
  · rcases Nat.lt_or_ge i (x.length - 1) with hil | hil
    · -- t = x_i, not the last knot: the scan finds i+1, both segments give y_i
      have hl : t < x[x.length - 1] := by rw [heq]; exact h.lt (by omega) (by omega)
      obtain ⟨p0, p1, b1, b2⟩ := scan_brackets h t hx0 hl
      have : idxOf x t = i + 1 := bracket_unique h t _ _ p0 p1 (by omega) (by omega) b1 b2
        (by simp only [Nat.add_sub_cancel]; exact heq.ge) (by rw [heq]; exact h.lt (by omega) (by omega))
      rw [interpOne_in x y mode t hn (by omega) hr, this]
      have e1 : t = x[i + 1 - 1]! := by rw [h.bang (by omega)]; simpa using heq
      have e2 : t = x[i]! := by rw [h.bang hi]; exact heq
      have hne : x[i - 1]! ≠ x[i]! := by
        rw [h.bang hi, h.bang (by omega)]; exact (h.lt (by omega) hi).ne
      conv_lhs => rw [e1, lineAt_left]
      conv_rhs => rw [e2, lineAt_right x y i hne]
      simp
    · -- t = x_{n-1}
      have hin : i = x.length - 1 := by omega
      have : idxOf x t = x.length - 1 := idxOf_right h t (by rw [heq]; simp [hin])
      rw [interpOne_in x y mode t hn (by omega) hr, this, hin]

/-- **interp_inside (between the neighbouring ordinates).** -/
theorem lineAt_between {x y : List α} (h : Knots x y) (t : α) (i : Nat)
    (hi0 : 1 ≤ i) (hi : i < x.length) (a1 : x[i - 1] ≤ t) (a2 : t ≤ x[i]) :
    min y[i - 1]! y[i]! ≤ lineAt x y i t ∧ lineAt x y i t ≤ max y[i - 1]! y[i]! := by
  unfold lineAt
  rw [h.bang hi, h.bang (by omega : i - 1 < x.length)]
  have hd : 0 < x[i] - x[i - 1] := sub_pos.2 (h.lt (by omega) hi)
  set r := (t - x[i - 1]) / (x[i] - x[i - 1]) with hr
  have r0 : 0 ≤ r := div_nonneg (sub_nonneg.2 a1) hd.le
  have r1 : r ≤ 1 := by rw [hr, div_le_one hd]; linarith
  rcases le_total y[i - 1]! y[i]! with hy | hy
  · rw [min_eq_left hy, max_eq_right hy]
    have d0 : 0 ≤ y[i]! - y[i - 1]! := sub_nonneg.2 hy
    constructor
    · have := mul_nonneg r0 d0; linarith
    · have := mul_le_of_le_one_left d0 r1; linarith
  · rw [min_eq_right hy, max_eq_left hy]
    have d0 : 0 ≤ y[i - 1]! - y[i]! := sub_nonneg.2 hy
    constructor
    · have := mul_le_of_le_one_left d0 r1
      have e : r * (y[i]! - y[i - 1]!) = -(r * (y[i - 1]! - y[i]!)) := by ring
      rw [e]; linarith
    · have := mul_nonneg r0 d0
      have e : r * (y[i]! - y[i - 1]!) = -(r * (y[i - 1]! - y[i]!)) := by ring
      rw [e]; linarith

/-- **interp_knot.** At a knot the result is exactly that knot's ordinate — for every mode. -/
theorem interp_knot {x y : List α} (h : Knots x y) (mode : ExtrapMode α) (k : Nat) (hk : k < x.length) :
    interpOne x y mode x[k] = some (y[k]'(by have := h.len; omega)) := by
  have h2 := h.two
  rcases Nat.eq_zero_or_pos k with hz | hpos
  · subst hz
    rw [interp_inside h mode x[0] 1 (le_refl _) (by omega) (by simp) (h.le (by omega) (by omega))]
    have e : x[0] = x[1 - 1]! := by rw [h.bang (by omega)]
    conv_lhs => rw [e, lineAt_left]
    simp only [Nat.sub_self]; rw [h.ybang (by omega)]
  · rw [interp_inside h mode x[k] k hpos hk (h.le (by omega) hk) (le_refl _)]
    have e : x[k] = x[k]! := (h.bang hk).symm
    have hne : x[k - 1]! ≠ x[k]! := by
      rw [h.bang hk, h.bang (by omega)]; exact (h.lt (by omega) hk).ne
    conv_lhs => rw [e, lineAt_right x y k hne]
    rw [h.ybang hk]

/-! ### Left of the data -/

theorem interpOne_out (x y : List α) (mode : ExtrapMode α) (t : α) (hn : x.length ≠ 0)
    (hc : idxOf x t = 0 ∨ x[x.length - 1]! < t) :
    interpOne x y mode t =
      match mode with
      | .panic => none
      | .fill l r => if idxOf x t = 0 then some l else some r
      | .extrapolate =>
        if idxOf x t = 0 then
          if x.length < 2 then none
          else some ((-((y[1]! - y[0]!) / (x[1]! - x[0]!))) * (x[0]! - t) + y[0]!)
        else some ((y[x.length - 1]! - y[x.length - 2]!) / (x[x.length - 1]! - x[x.length - 2]!)
              * (t - x[x.length - 1]!) + y[x.length - 1]!) := by
  unfold interpOne
  simp only [hn, if_false]
  rw [if_pos (by simpa [idxOf] using hc)]
  rfl

theorem interp_left_panic {x y : List α} (h : Knots x y) (t : α) (ht : t < x[0]'(by have := h.two; omega)) :
    interpOne x y .panic t = none := by
  rw [interpOne_out x y _ t (by have := h.two; omega) (Or.inl (idxOf_left h t ht))]

theorem interp_left_fill {x y : List α} (h : Knots x y) (l r t : α) (ht : t < x[0]'(by have := h.two; omega)) :
    interpOne x y (.fill l r) t = some l := by
  rw [interpOne_out x y _ t (by have := h.two; omega) (Or.inl (idxOf_left h t ht))]
  simp [idxOf_left h t ht]

/-- Left of the data the extrapolate mode continues the line of the first segment. -/
theorem interp_left_extrapolate {x y : List α} (h : Knots x y) (t : α)
    (ht : t < x[0]'(by have := h.two; omega)) :
    interpOne x y .extrapolate t = some (lineAt x y 1 t) := by
  have h2 := h.two
  rw [interpOne_out x y _ t (by omega) (Or.inl (idxOf_left h t ht))]
  simp only [idxOf_left h t ht, if_true, if_neg (by omega : ¬ x.length < 2)]
  unfold lineAt
  have hd : x[1]! - x[0]! ≠ 0 := by
    rw [h.bang (by omega), h.bang (by omega)]; exact sub_ne_zero.2 (h.lt (by omega) (by omega)).ne'
  simp only [Nat.sub_self]
  congr 1
  field_simp
  ring

/-! ### Right of the data -/

theorem right_cond {x y : List α} (h : Knots x y) (t : α) (ht : x[x.length - 1]'(by have := h.two; omega) < t) :
    idxOf x t ≠ 0 ∧ x[x.length - 1]! < t := by
  have h2 := h.two
  refine ⟨?_, by rw [h.bang (by omega)]; exact ht⟩
  rw [idxOf_right h t ht.le]; omega

theorem interp_right_panic {x y : List α} (h : Knots x y) (t : α)
    (ht : x[x.length - 1]'(by have := h.two; omega) < t) : interpOne x y .panic t = none := by
  rw [interpOne_out x y _ t (by have := h.two; omega) (Or.inr (right_cond h t ht).2)]

theorem interp_right_fill {x y : List α} (h : Knots x y) (l r t : α)
    (ht : x[x.length - 1]'(by have := h.two; omega) < t) : interpOne x y (.fill l r) t = some r := by
  rw [interpOne_out x y _ t (by have := h.two; omega) (Or.inr (right_cond h t ht).2)]
  simp [(right_cond h t ht).1]

/-- Right of the data the extrapolate mode continues the line of the last segment. -/
theorem interp_right_extrapolate {x y : List α} (h : Knots x y) (t : α)
    (ht : x[x.length - 1]'(by have := h.two; omega) < t) :
    interpOne x y .extrapolate t = some (lineAt x y (x.length - 1) t) := by
  have h2 := h.two
  rw [interpOne_out x y _ t (by omega) (Or.inr (right_cond h t ht).2)]
  simp only [if_neg (right_cond h t ht).1]
  unfold lineAt
  have e : x.length - 1 - 1 = x.length - 2 := by omega
  rw [e]
  have hd : x[x.length - 1]! - x[x.length - 2]! ≠ 0 := by
    rw [h.bang (by omega), h.bang (by omega)]; exact sub_ne_zero.2 (h.lt (by omega) (by omega)).ne'
  congr 1
  field_simp
  ring

/-! ### The loop over the targets and the checked wrapper -/

theorem interpAll_eq_some_iff (x y : List α) (mode : ExtrapMode α) (ts vs : List α) :
    interpAll x y mode ts = some vs ↔ ts.map (interpOne x y mode) = vs.map some := by
  induction ts generalizing vs with
  | nil => cases vs <;> simp [interpAll]
  | cons t r ih =>
    simp only [interpAll, List.map_cons]
    cases h1 : interpOne x y mode t with
    | none => cases vs <;> simp
    | some v =>
      cases h2 : interpAll x y mode r with
      | none =>
        cases vs with
        | nil => simp
        | cons w ws =>
          simp only [List.map_cons, List.cons.injEq, reduceCtorEq, false_iff, not_and]
          intro _ hc
          have := (ih ws).2 hc
          rw [h2] at this; cases this
      | some us =>
        have := (ih us).1 h2
        cases vs with
        | nil => simp
        | cons w ws =>
          simp only [List.map_cons, List.cons.injEq, Option.some.injEq]
          constructor
          · rintro ⟨rfl, rfl⟩; exact ⟨rfl, this⟩
          · rintro ⟨rfl, hc⟩
            refine ⟨rfl, ?_⟩
            have := (ih ws).2 hc
            rw [h2] at this; cases this; rfl

theorem interpAll_eq_none_iff (x y : List α) (mode : ExtrapMode α) (ts : List α) :
    interpAll x y mode ts = none ↔ ∃ t ∈ ts, interpOne x y mode t = none := by
  induction ts with
  | nil => simp [interpAll]
  | cons t r ih =>
    simp only [interpAll, List.mem_cons, exists_eq_or_imp]
    cases h1 : interpOne x y mode t with
    | none => simp
    | some v =>
      cases h2 : interpAll x y mode r with
      | none => simp only [reduceCtorEq, false_or, true_iff]; exact ih.1 h2
      | some us =>
        simp only [reduceCtorEq, false_or, false_iff]
        intro hc; rw [ih.2 hc] at h2; cases h2

theorem sortedOk_iff (x : List α) :
    sortedOk x = true ↔ ∀ i (hi : i + 1 < x.length), x[i] ≤ x[i + 1] := by
  induction x with
  | nil => simp [sortedOk]
  | cons a r ih =>
    cases r with
    | nil => simp [sortedOk]
    | cons b r' =>
      simp only [sortedOk]
      by_cases hba : b - a < 0
      · rw [if_pos hba]
        simp only [Bool.false_eq_true, false_iff, not_forall]
        exact ⟨0, by simp, by simpa using sub_neg.1 hba⟩
      · rw [if_neg hba, ih]
        have hab : a ≤ b := by rw [sub_neg] at hba; exact not_lt.1 hba
        constructor
        · intro hh i hi
          cases i with
          | zero => simpa using hab
          | succ i =>
            have := hh i (by simpa using hi)
            simp only [List.getElem_cons_succ] at this ⊢; exact this
        · intro hh i hi
          have := hh (i + 1) (by simpa using hi)
          simpa using this

/-- **checked_rejects (lengths).** Mismatched lengths are rejected (by both variants). -/
theorem checked_rejects_length (x y ts : List α) (mode : ExtrapMode α) (h : x.length ≠ y.length) :
    interpChecked x y ts mode = none ∧ interpUnchecked x y ts mode = none := by
  unfold interpChecked interpUnchecked; simp [h]

/-- **checked_rejects (order).** A descending step anywhere in the abscissae is rejected by the checked variant. -/
theorem checked_rejects_unsorted (x y ts : List α) (mode : ExtrapMode α)
    (h : ∃ i, ∃ hi : i + 1 < x.length, x[i + 1] < x[i]) : interpChecked x y ts mode = none := by
  obtain ⟨i, hi, hlt⟩ := h
  have : ¬ sortedOk x = true := by
    rw [sortedOk_iff]; intro hh; exact absurd hlt (not_lt.2 (hh i hi))
  unfold interpChecked
  split
  · rfl
  · split
    · rfl
    · simp [this]

/-- On admissible input the checked variant is the unchecked one. -/
theorem checked_eq_unchecked {x y : List α} (h : Knots x y) (ts : List α) (mode : ExtrapMode α) :
    interpChecked x y ts mode = interpUnchecked x y ts mode := by
  have h2 := h.two
  have hs : sortedOk x = true := by
    rw [sortedOk_iff]; intro i hi; exact (h.lt (Nat.lt_succ_self i) hi).le
  unfold interpChecked
  rw [if_neg (not_not.2 h.len), if_neg (by omega)]
  simp [hs]

/-- Whole-call form: on admissible input with all targets inside `[x₀, x_{n-1}]` or a non-panicking mode the call
returns one value per target, each given by `interpOne`. -/
theorem unchecked_eq_some_iff {x y : List α} (h : Knots x y) (ts vs : List α) (mode : ExtrapMode α) :
    interpUnchecked x y ts mode = some vs ↔ ts.map (interpOne x y mode) = vs.map some := by
  unfold interpUnchecked
  simp [h.len, interpAll_eq_some_iff]

/-- The panic mode aborts the whole call as soon as one target lies outside the data range. -/
theorem panic_mode_rejects {x y : List α} (h : Knots x y) (ts : List α) (t : α) (ht : t ∈ ts)
    (hout : t < x[0]'(by have := h.two; omega) ∨ x[x.length - 1]'(by have := h.two; omega) < t) :
    interpChecked x y ts .panic = none := by
  rw [checked_eq_unchecked h]
  unfold interpUnchecked
  simp only [h.len, ne_eq, not_true_eq_false, if_false]
  rw [interpAll_eq_none_iff]
  refine ⟨t, ht, ?_⟩
  rcases hout with hl | hr
  · exact interp_left_panic h t hl
  · exact interp_right_panic h t hr


/-! ### Whole-call totality -/

/-- Inside the closed data range every mode returns a value. -/
theorem interpOne_isSome_inside {x y : List α} (h : Knots x y) (mode : ExtrapMode α) (t : α)
    (h0 : x[0]'(by have := h.two; omega) ≤ t) (h1 : t ≤ x[x.length - 1]'(by have := h.two; omega)) :
    (interpOne x y mode t).isSome := by
  have h2 := h.two
  rcases lt_or_eq_of_le h1 with hlt | heq
  · obtain ⟨p0, p1, b1, b2⟩ := scan_brackets h t h0 hlt
    rw [interp_inside h mode t _ p0 p1 b1 b2.le]; rfl
  · rw [interp_inside h mode t (x.length - 1) (by omega) (by omega)
      (by rw [heq]; exact h.le (by omega) (by omega)) h1]; rfl

/-- The fill and extrapolate modes return a value for every target. -/
theorem interpOne_isSome_of_not_panic {x y : List α} (h : Knots x y) (mode : ExtrapMode α)
    (hm : mode ≠ .panic) (t : α) : (interpOne x y mode t).isSome := by
  have h2 := h.two
  rcases lt_or_ge t x[0] with hl | hl
  · cases mode with
    | panic => exact absurd rfl hm
    | fill l r => rw [interp_left_fill h l r t hl]; rfl
    | extrapolate => rw [interp_left_extrapolate h t hl]; rfl
  · rcases lt_or_ge x[x.length - 1] t with hr | hr
    · cases mode with
      | panic => exact absurd rfl hm
      | fill l r => rw [interp_right_fill h l r t hr]; rfl
      | extrapolate => rw [interp_right_extrapolate h t hr]; rfl
    · exact interpOne_isSome_inside h mode t hl hr

/-- **Whole call.** On admissible input the checked call returns exactly one value per target, unless the mode is
`Panic` and some target lies outside the data range. -/
theorem checked_total {x y : List α} (h : Knots x y) (mode : ExtrapMode α) (ts : List α)
    (hm : mode ≠ .panic ∨ ∀ t ∈ ts, x[0]'(by have := h.two; omega) ≤ t ∧ t ≤ x[x.length - 1]'(by have := h.two; omega)) :
    ∃ vs, interpChecked x y ts mode = some vs ∧ vs.length = ts.length ∧
      ts.map (interpOne x y mode) = vs.map some := by
  rw [checked_eq_unchecked h]
  cases hr : interpUnchecked x y ts mode with
  | none =>
    exfalso
    unfold interpUnchecked at hr
    simp only [h.len, ne_eq, not_true_eq_false, if_false] at hr
    obtain ⟨t, ht, hn⟩ := (interpAll_eq_none_iff x y mode ts).1 hr
    have : (interpOne x y mode t).isSome := by
      rcases hm with hm | hm
      · exact interpOne_isSome_of_not_panic h mode hm t
      · exact interpOne_isSome_inside h mode t (hm t ht).1 (hm t ht).2
    rw [hn] at this; cases this
  | some vs =>
    have hmap := (unchecked_eq_some_iff h ts vs mode).1 hr
    refine ⟨vs, rfl, ?_, hmap⟩
    have := congrArg List.length hmap
    simpa using this.symm

end main

/-! ### Non-vacuity: the hypotheses are satisfiable, and the witness of the repaired defect F28 -/

theorem knots_example : Knots ([0, 1, 2] : List ℚ) [0, 10, 20] :=
  ⟨rfl, by decide, by decide⟩

example : interpOne ([0, 1, 2] : List ℚ) [0, 10, 20] (.fill (-1) (-2)) 3 = some (-2) :=
  interp_right_fill knots_example _ _ _ (by decide)
example : interpOne ([0, 1, 2] : List ℚ) [0, 10, 20] .panic 3 = none :=
  interp_right_panic knots_example _ (by decide)
example : interpOne ([0, 1, 2] : List ℚ) [0, 10, 20] .extrapolate 3 = some 30 := by
  rw [interp_right_extrapolate knots_example _ (by decide)]; decide +kernel
example : interpOne ([0, 1, 2] : List ℚ) [0, 10, 20] .panic 1 = some 10 :=
  interp_knot knots_example .panic 1 (by decide)
example : interpOne ([0, 1, 2] : List ℚ) [0, 10, 20] .panic (1 / 2) = some 5 := by
  rw [interp_inside knots_example .panic (1 / 2) 1 (by decide) (by decide) (by decide +kernel) (by decide +kernel)]
  decide +kernel
example : interpChecked ([0, 2, 1] : List ℚ) [0, 10, 20] [1] .extrapolate = none :=
  checked_rejects_unsorted _ _ _ _ ⟨1, by decide, by decide⟩

-- every remaining implication, instantiated on the same data (all hypotheses discharged)
example : min ([0, 10, 20] : List ℚ)[0]! [0, 10, 20][1]! ≤ lineAt ([0, 1, 2] : List ℚ) [0, 10, 20] 1 (1 / 2) ∧
    lineAt ([0, 1, 2] : List ℚ) [0, 10, 20] 1 (1 / 2) ≤ max ([0, 10, 20] : List ℚ)[0]! [0, 10, 20][1]! :=
  lineAt_between knots_example (1 / 2) 1 (by decide) (by decide) (by decide +kernel) (by decide +kernel)
example : interpOne ([0, 1, 2] : List ℚ) [0, 10, 20] .panic (-1) = none :=
  interp_left_panic knots_example (-1) (by decide)
example : interpOne ([0, 1, 2] : List ℚ) [0, 10, 20] (.fill 7 8) (-1) = some 7 :=
  interp_left_fill knots_example 7 8 (-1) (by decide)
example : interpOne ([0, 1, 2] : List ℚ) [0, 10, 20] .extrapolate (-1) = some (-10) := by
  rw [interp_left_extrapolate knots_example (-1) (by decide)]; decide +kernel
example : interpOne ([0, 1, 2] : List ℚ) [0, 10, 20] .panic 0 = some 0 :=
  interp_knot knots_example .panic 0 (by decide)
example : interpOne ([0, 1, 2] : List ℚ) [0, 10, 20] (.fill 7 8) 2 = some 20 :=
  interp_knot knots_example (.fill 7 8) 2 (by decide)
example : interpChecked ([0, 1, 2] : List ℚ) [0, 10, 20] [1 / 2, 3] .panic = none :=
  panic_mode_rejects knots_example [1 / 2, 3] 3 (by simp) (Or.inr (by decide))
example : ∃ vs, interpChecked ([0, 1, 2] : List ℚ) [0, 10, 20] [-1, 1 / 2, 3] (.fill 7 8) = some vs ∧ vs.length = 3 := by
  obtain ⟨vs, h1, h2, _⟩ := checked_total knots_example (.fill (7 : ℚ) 8) [-1, 1 / 2, 3] (Or.inl (by simp))
  exact ⟨vs, h1, h2⟩
example : ∃ vs, interpChecked ([0, 1, 2] : List ℚ) [0, 10, 20] [0, 1 / 2, 2] .panic = some vs ∧ vs.length = 3 := by
  obtain ⟨vs, h1, h2, _⟩ := checked_total knots_example .panic [0, 1 / 2, 2] (Or.inr (by
    intro t ht; simp at ht; rcases ht with rfl | rfl | rfl <;> constructor <;> decide +kernel))
  exact ⟨vs, h1, h2⟩
example : (interpChecked ([0, 1, 2] : List ℚ) [0, 10] [1] .extrapolate = none) ∧
    (interpUnchecked ([0, 1, 2] : List ℚ) [0, 10] [1] .extrapolate = none) :=
  checked_rejects_length _ _ _ _ (by decide)
example : interpChecked ([0, 1, 2] : List ℚ) [0, 10, 20] [1, 5] .extrapolate
    = interpUnchecked ([0, 1, 2] : List ℚ) [0, 10, 20] [1, 5] .extrapolate :=
  checked_eq_unchecked knots_example _ _

example := scan_brackets knots_example (3 / 2 : ℚ) (by decide +kernel) (by decide +kernel)
example : (1 : Nat) = 1 :=
  bracket_unique knots_example (1 / 2 : ℚ) 1 1 (by decide) (by decide) (by decide) (by decide)
    (by decide +kernel) (by decide +kernel) (by decide +kernel) (by decide +kernel)
example : idxOf ([0, 1, 2] : List ℚ) (3 / 2) = 2 := by
  obtain ⟨p0, p1, b1, b2⟩ := scan_brackets knots_example (3 / 2 : ℚ) (by decide +kernel) (by decide +kernel)
  exact bracket_unique knots_example (3 / 2 : ℚ) _ 2 p0 p1 (by decide) (by decide) b1 b2 (by decide +kernel) (by decide +kernel)
/-! ### Duplicate abscissae

The checked variant rejects a DESCENDING step only (`x[i+1] - x[i] < 0`): equal neighbouring abscissae pass the test
(`sortedOk_iff` is stated with `≤`), although they are outside `Knots` (strictly increasing) and hence outside every
theorem above; the code then divides by a zero width in the segment between them.  The property text says
"unsorted", so this is the specified behaviour; it is recorded here and compared with the model only. -/

/-- Non-strictly increasing abscissae are accepted by the sortedness test. -/
theorem sortedOk_of_nondecreasing {α : Type} [Field α] [LinearOrder α] [IsStrictOrderedRing α] [Inhabited α]
    (x : List α) (h : ∀ i (hi : i + 1 < x.length), x[i] ≤ x[i + 1]) : sortedOk x = true :=
  (sortedOk_iff x).2 h

example : sortedOk ([0, 1, 1, 2] : List ℚ) = true :=
  sortedOk_of_nondecreasing _ (by
    intro i hi
    have : i = 0 ∨ i = 1 ∨ i = 2 := by simp at hi; omega
    rcases this with rfl | rfl | rfl <;> simp)

/-- witness: `[0,1,1,2]` is accepted and the tie at 1 yields the ordinate of the LATER of the two equal knots -/
example : interpChecked ([0, 1, 1, 2] : List ℚ) [0, 10, 20, 30] [1] .extrapolate = some [20] := by decide +kernel

end Cv.C16
