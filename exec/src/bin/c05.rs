//! C05 executor: `transpose`, `matmul`, `matmul_blocked`, `xtx` and every `Dot` impl of `compute`.
//! Requests: see /verif/lean/Compute/Drv/C05.lean.  The `d**` ops carry the ownership form `own`
//! after the method name: bit 1 = the receiver type is a reference (`impl Dot<..> for &X`),
//! bit 0 = the argument type is a reference (`Dot<&Y, ..>`); the impl is selected explicitly.
use compute::linalg::{matmul, matmul_blocked, transpose, xtx, Dot};
use compute::prelude::{Matrix, Vector};
use cvexec::*;

macro_rules! meth {
    ($S:ty, $O:ty, $R:ty, $m:expr, $s:expr, $o:expr) => {
        match $m {
            "dot" => <$S as Dot<$O, $R>>::dot($s, $o),
            "t_dot" => <$S as Dot<$O, $R>>::t_dot($s, $o),
            "dot_t" => <$S as Dot<$O, $R>>::dot_t($s, $o),
            "t_dot_t" => <$S as Dot<$O, $R>>::t_dot_t($s, $o),
            _ => return Err(BadOp),
        }
    };
}

macro_rules! forms {
    ($S:ty, $O:ty, $R:ty, $m:expr, $own:expr, $a:expr, $b:expr) => {
        match $own {
            0 => meth!($S, $O, $R, $m, &$a, $b),
            1 => meth!($S, &$O, $R, $m, &$a, &$b),
            2 => meth!(&$S, $O, $R, $m, &&$a, $b),
            3 => meth!(&$S, &$O, $R, $m, &&$a, &$b),
            _ => return Err(BadOp),
        }
    };
}

fn flag(t: &mut Toks) -> R<bool> {
    match t.usize()? {
        0 => Ok(false),
        1 => Ok(true),
        _ => Err(BadOp),
    }
}

fn step(_: &mut (), t: &mut Toks) -> R<String> {
    match t.tok()? {
        "tr" => {
            let r = t.usize()?;
            let a = t.vec()?;
            t.end()?;
            Ok(ok(show_vec(&transpose(&a, r))))
        }
        "mm" => {
            let (ta, tb) = (flag(t)?, flag(t)?);
            let (ra, rb) = (t.usize()?, t.usize()?);
            let (la, lb) = (t.usize()?, t.usize()?);
            let a = t.f64s(la)?;
            let b = t.f64s(lb)?;
            t.end()?;
            Ok(ok(show_vec(&matmul(&a, &b, ra, rb, ta, tb))))
        }
        "mb" => {
            let (ta, tb) = (flag(t)?, flag(t)?);
            let (ra, rb, bs) = (t.usize()?, t.usize()?, t.usize()?);
            let (la, lb) = (t.usize()?, t.usize()?);
            let a = t.f64s(la)?;
            let b = t.f64s(lb)?;
            t.end()?;
            Ok(ok(show_vec(&matmul_blocked(&a, &b, ra, rb, ta, tb, bs))))
        }
        "xtx" => {
            let k = t.usize()?;
            let x = t.vec()?;
            t.end()?;
            Ok(ok(show_vec(&xtx(&x, k))))
        }
        "dmm" => {
            let m = t.tok()?;
            let own = t.usize()?;
            let (r1, c1, r2, c2) = (t.usize()?, t.usize()?, t.usize()?, t.usize()?);
            let d1 = t.f64s(r1 * c1)?;
            let d2 = t.f64s(r2 * c2)?;
            t.end()?;
            let a = Matrix::new(d1, r1 as i32, c1 as i32);
            let b = Matrix::new(d2, r2 as i32, c2 as i32);
            let res: Matrix = forms!(Matrix, Matrix, Matrix, m, own, a, b);
            Ok(ok(format!("{} {} {}", res.nrows, res.ncols, show_fs(&res.data))))
        }
        "dmv" => {
            let m = t.tok()?;
            let own = t.usize()?;
            let (r1, c1, n) = (t.usize()?, t.usize()?, t.usize()?);
            let d1 = t.f64s(r1 * c1)?;
            let d2 = t.f64s(n)?;
            t.end()?;
            let a = Matrix::new(d1, r1 as i32, c1 as i32);
            let b = Vector::from(d2);
            let res: Vector = forms!(Matrix, Vector, Vector, m, own, a, b);
            Ok(ok(show_vec(&res)))
        }
        "dvm" => {
            let m = t.tok()?;
            let own = t.usize()?;
            let (n, r2, c2) = (t.usize()?, t.usize()?, t.usize()?);
            let d1 = t.f64s(n)?;
            let d2 = t.f64s(r2 * c2)?;
            t.end()?;
            let a = Vector::from(d1);
            let b = Matrix::new(d2, r2 as i32, c2 as i32);
            let res: Vector = forms!(Vector, Matrix, Vector, m, own, a, b);
            Ok(ok(show_vec(&res)))
        }
        "dvv" => {
            let m = t.tok()?;
            let own = t.usize()?;
            let (n1, n2) = (t.usize()?, t.usize()?);
            let d1 = t.f64s(n1)?;
            let d2 = t.f64s(n2)?;
            t.end()?;
            let a = Vector::from(d1);
            let b = Vector::from(d2);
            let res: f64 = forms!(Vector, Vector, f64, m, own, a, b);
            Ok(ok(show_f(res)))
        }
        _ => Err(BadOp),
    }
}

fn main() {
    run((), step);
}
