import Compute.Model.Scalar
/-
The two 8-way unrolled reductions of `src/linalg/utils.rs` that the whole linear-algebra stack is
built on (`sum`, `dot`), generic in the scalar, with the exact association of the source:

    s += x[i] + x[i+1] + … + x[i+7]      i.e.  s := s + (((((((x0+x1)+x2)+x3)+x4)+x5)+x6)+x7)
    remainder:  s += x[j]

so that the `Float` instance is bit-identical to the Rust code.  Core Lean only.
-/
namespace Cv
variable {α : Type} [Add α] [Mul α] [Zero α]

/-- `utils::sum` (default features: the unrolled loop). -/
def sum8Go (s : α) : List α → α
  | x0 :: x1 :: x2 :: x3 :: x4 :: x5 :: x6 :: x7 :: rest =>
    sum8Go (s + (x0 + x1 + x2 + x3 + x4 + x5 + x6 + x7)) rest
  | rest => rest.foldl (· + ·) s

def sum8 (x : List α) : α := sum8Go 0 x

/-- `utils::dot` after its `assert_eq!(x.len(), y.len())` (callers model the assert). -/
def dot8Go (s : α) : List α → List α → α
  | x0 :: x1 :: x2 :: x3 :: x4 :: x5 :: x6 :: x7 :: xs,
    y0 :: y1 :: y2 :: y3 :: y4 :: y5 :: y6 :: y7 :: ys =>
    dot8Go (s + (x0 * y0 + x1 * y1 + x2 * y2 + x3 * y3 + x4 * y4 + x5 * y5 + x6 * y6 + x7 * y7)) xs ys
  | xs, ys => (List.zipWith (· * ·) xs ys).foldl (· + ·) s

def dot8 (x y : List α) : α := dot8Go 0 x y

/- Force the functional-induction principles (and with them the matcher congruence equations) of the
two kernels to be generated *here*: downstream modules that each generate them on demand
(`fun_induction`, `split`) could otherwise not be imported together (duplicate auxiliary declarations). -/
theorem sum8Go_induct_gen (s : α) (x : List α) : True := by
  fun_induction sum8Go s x <;> trivial
theorem dot8Go_induct_gen (s : α) (x y : List α) : True := by
  fun_induction dot8Go s x y <;> trivial

/-- `utils::dot` including the length assert (`none` = panic). -/
def dot? (x y : List α) : Option α := if x.length = y.length then some (dot8 x y) else none

end Cv
