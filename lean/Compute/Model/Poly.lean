import Compute.Model.Scalar
import Compute.Model.Matmul
import Compute.Model.Solve
/-
Model of `src/predict/polynomial.rs` (`PolynomialRegressor::{new, predict, fit}`) together with the
constructor `vandermonde` of `src/linalg/utils.rs`.  The regressor's only state is `coef`
(`deg + 1` numbers), so `fit` is a function of `p = coef.len()` and the data.  `none` = panic.

    predict:  x.map(|v| coef.iter().rev().fold(0., |acc, c| acc * v + c))
    fit:      assert_eq!(x.len(), y.len());
              xv = vandermonde(x, p); xtx = xtx(&xv, x.len()); inv = invert_matrix(&xtx);
              xty = matmul(&xv, y, x.len(), y.len(), true, false);
              coef = matmul(&inv, &xty, p, p, false, false)

`xtx`, `matmul` are `Cv.xtx`, `Cv.matmul` (Model/Matmul.lean), `invert_matrix` is `Cv.invertMatrix`
(Model/Solve.lean).  Core Lean only.
-/
namespace Cv.Poly

variable {α : Type}

/-- `vandermonde(x, n)`: for each `v` of `x` the row `v.powi(0), …, v.powi(n-1)` (row-major `len × n`). -/
def vandermonde [Mul α] [Div α] [One α] (x : List α) (n : Nat) : List α :=
  x.flatMap fun v => (List.range n).map fun (i : Nat) => powi v (i : Int)

/-- Horner evaluation over the reversed coefficients, seed `0.`: `acc * val + coeff`. -/
def horner [Add α] [Mul α] [Zero α] (coef : List α) (v : α) : α :=
  coef.reverse.foldl (fun acc c => acc * v + c) 0

/-- `PolynomialRegressor::predict`. -/
def predict [Add α] [Mul α] [Zero α] (coef x : List α) : List α := x.map (horner coef)

variable [Add α] [Sub α] [Mul α] [Div α] [Zero α] [One α] [NatCast α]
  [LT α] [DecidableLT α] [LE α] [DecidableLE α] [BEq α] [Transc α] [Inhabited α]

/-- `PolynomialRegressor::fit` for a regressor with `p = coef.len()` coefficients; the result is the
new `coef`. -/
def fit (p : Nat) (x y : List α) : Option (List α) :=
  if x.length ≠ y.length then none
  else do
    let xv := vandermonde x p
    let g ← xtx xv x.length
    let ginv ← invertMatrix g
    let xty ← matmul xv y x.length y.length true false
    matmul ginv xty p p false false

end Cv.Poly
