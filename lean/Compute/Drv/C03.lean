import Compute.Drv.Common
import Compute.Model.Scalar
import Compute.Model.Rng
import Compute.Model.Samplers
/-
Driver for C03.  Protocol: see /verif/exec/src/bin/c03.rs.  Every reply ends with the generator state after
the call.  `none` of a sampler = `! diverged` (fuel exhausted), except for the panics that can be decided
before sampling (constructor asserts, integer overflow), which are `! panic`.
-/
open Cv

/-- fuel of every rejection loop, per draw -/
def c03Fuel : Nat := 100000
/-- fuel of the recurrence loops of BTPE step 5.1 -/
def c03IFuel : Nat := 100000000

abbrev C03Sampler := Rng → Option (Float × Rng)

inductive C03Ctor where
  | bad
  | panic
  | ok (f : C03Sampler)

def c03Parse {β} (p : P β) (args : List String) : Option β :=
  match (do let a ← p; pEnd; pure a : P β).run args with
  | some (a, _) => some a
  | none => none

def c03Two : P (Float × Float) := do let a ← pFloat; let b ← pFloat; pure (a, b)

def c03Ctor (dist : String) (ps : List String) : C03Ctor :=
  let F := c03Fuel
  match dist with
  | "normal" => match c03Parse c03Two ps with
    | none => .bad
    | some (mu, sigma) => if Normal.valid sigma then .ok (Normal.sample F mu sigma) else .panic
  | "gamma" => match c03Parse c03Two ps with
    | none => .bad
    | some (a, b) => if Gamma.valid a b then .ok (Gamma.sample F a b) else .panic
  | "beta" => match c03Parse c03Two ps with
    | none => .bad
    | some (a, b) => if Beta.valid a b then .ok (Beta.sample F a b) else .panic
  | "chi2" => match c03Parse pNat ps with
    | none => .bad
    | some k => if ChiSquared.valid k then .ok (ChiSquared.sample F k) else .panic
  | "t" => match c03Parse pFloat ps with
    | none => .bad
    | some d =>
      if T.valid d then
        (if Gamma.valid (d / 2) (1 : Float) then .ok (T.sample F d)
         else .ok (fun g => match Normal.sample F (0 : Float) 1 g with | none => none | some _ => none))
      else .panic
  | "poisson" => match c03Parse pFloat ps with
    | none => .bad
    | some l => if Poisson.valid l then .ok (Poisson.sample F l) else .panic
  | "binomial" => match c03Parse (do let n ← pNat; let p ← pFloat; pure (n, p)) ps with
    | none => .bad
    | some (n, p) => if Binomial.valid p then .ok (Binomial.sample F c03IFuel n p) else .panic
  | "exp" => match c03Parse pFloat ps with
    | none => .bad
    | some l => if Exponential.valid l then .ok (total (Exponential.sample l)) else .panic
  | "gumbel" => match c03Parse c03Two ps with
    | none => .bad
    | some (mu, b) => if Gumbel.valid b then .ok (total (Gumbel.sample mu b)) else .panic
  | "pareto" => match c03Parse c03Two ps with
    | none => .bad
    | some (a, m) => if Pareto.valid a m then .ok (total (Pareto.sample a m)) else .panic
  | "uniform" => match c03Parse c03Two ps with
    | none => .bad
    | some (a, b) => if Uniform.valid a b then .ok (total (UniformF.sample a b)) else .panic
  | "du" => match c03Parse (do let a ← pInt; let b ← pInt; pure (a, b)) ps with
    | none => .bad
    | some (a, b) => if DiscreteUniform.valid a b then .ok (DiscreteUniform.sample lemireFuel a b) else .panic
  | "bern" => match c03Parse pFloat ps with
    | none => .bad
    | some p => if Bernoulli.valid p then .ok (total (Bernoulli.sample p)) else .panic
  | _ => .bad

/-- panics that happen inside `sample` and are decidable from the parameters -/
def c03SamplePanics (dist : String) (ps : List String) : Bool :=
  match dist with
  | "t" => match c03Parse pFloat ps with
    | some d => !Gamma.valid (d / 2) (1 : Float)
    | none => false
  | "du" => match c03Parse (do let a ← pInt; let b ← pInt; pure (a, b)) ps with
    | some (a, b) => decide (a < b) && !(decide (b + 1 < 2 ^ 63) && decide (b + 1 - a < 2 ^ 63))
    | none => false
  | _ => false

def c03Fail (dist : String) (ps : List String) : String :=
  if c03SamplePanics dist ps then panicked else diverged

def c03Step (args : List String) : String :=
  match args with
  | "s" :: dist :: seed :: n :: ps =>
    match seed.toNat?, n.toNat? with
    | some seed, some n =>
      match c03Ctor dist ps with
      | .bad => badOp
      | .panic => panicked
      | .ok f =>
        match sampleN f n (Rng.ofSeed (UInt64.ofNat seed)) with
        | none => c03Fail dist ps
        | some (xs, g) => ok ((if xs.isEmpty then "" else showFloats xs ++ " ") ++ toString g.s.toNat)
    | _, _ => badOp
  | "m" :: dist :: seed :: r :: c :: ps =>
    match seed.toNat?, r.toNat?, c.toNat? with
    | some seed, some r, some c =>
      match c03Ctor dist ps with
      | .bad => badOp
      | .panic => panicked
      | .ok f =>
        if r * c ≥ 2 ^ 31 ∨ r ≥ 2 ^ 31 ∨ c ≥ 2 ^ 31 then badOp
        else
        match Rng.drawN? f (r * c) (Rng.ofSeed (UInt64.ofNat seed)) with
        | none => c03Fail dist ps
        | some (xs, g) =>
          match LA.M.new xs r c with
          | none => panicked
          | some m => ok (toString m.nrows ++ " " ++ toString m.ncols ++ " "
              ++ (if xs.isEmpty then "" else showFloats m.data ++ " ") ++ toString g.s.toNat)
    | _, _, _ => badOp
  | "mvn" :: rest =>
    withArgs (do let s ← pU64; let n ← pNat; let d ← pNat; let mean ← pMany pFloat d
                 let cr ← pNat; let cc ← pNat; let cov ← pMany pFloat (cr * cc); pure (s, n, mean, cr, cc, cov)) rest
      fun (s, n, mean, cr, cc, cov) =>
      match LA.M.new cov cr cc with
      | none => panicked
      | some covm =>
        match MVN.new mean covm with
        | none => panicked
        | some d =>
          match MVN.sampleN c03Fuel d n (Rng.ofSeed s) with
          | none => panicked
          | some (m, g) => ok (toString m.nrows ++ " " ++ toString m.ncols ++ " "
              ++ (if m.data.isEmpty then "" else showFloats m.data ++ " ") ++ toString g.s.toNat)
  | _ => badOp

def main (args : List String) : IO UInt32 := mainWith () (fun _ t => ((), c03Step t)) args
