import Compute.Lemmas.FlModelGrid
import Compute.Props.Rounding6
import Mathlib.Tactic.NormNum
/-
Headline rounding theorems instantiated at a GENUINE floating-point model: `FlModel.f64grid` = radix 2, 53 digits,
round to nearest, unbounded exponent range (`Lemmas/FlModelGrid.lean`), `u = 2⁻⁵³`.  The hypotheses `Idem`,
`rnd 1 = 1`, `Rep` (data representable), `rnd n = n` (exact counter / exact `n as f64`) are discharged by theorems
about that rounding (`grid_idem`, `grid_rnd_one`, `grid_rnd_natCast`, `grid_rnd_dyadic`) — not by a toy model.
-/
namespace Cv.RoundingGrid
open Cv Cv.FlModel Cv.Rounding

/-- small integers are floating-point numbers of the format -/
theorem rep_int (n : ℕ) (hn : n ≤ 2 ^ 53) : (⟨(n : ℝ)⟩ : Fl f64grid).Rep :=
  grid_rnd_natCast 53 (by norm_num) n hn

/-- `dot8_error` (Higham (3.5), `γ_n`) at the genuine binary64-significand model, on the integer vectors
`(1,…,9)·(9,…,1)`: rounding is idempotent, `9·2⁻⁵³ < 1` -/
example : |(dot8 ([⟨1⟩, ⟨2⟩, ⟨3⟩, ⟨4⟩, ⟨5⟩, ⟨6⟩, ⟨7⟩, ⟨8⟩, ⟨9⟩] : List (Fl f64grid))
      [⟨9⟩, ⟨8⟩, ⟨7⟩, ⟨6⟩, ⟨5⟩, ⟨4⟩, ⟨3⟩, ⟨2⟩, ⟨1⟩]).val
      - (prods ([⟨1⟩, ⟨2⟩, ⟨3⟩, ⟨4⟩, ⟨5⟩, ⟨6⟩, ⟨7⟩, ⟨8⟩, ⟨9⟩] : List (Fl f64grid))
          [⟨9⟩, ⟨8⟩, ⟨7⟩, ⟨6⟩, ⟨5⟩, ⟨4⟩, ⟨3⟩, ⟨2⟩, ⟨1⟩]).sum| ≤
    f64grid.γ 9 * ((prods ([⟨1⟩, ⟨2⟩, ⟨3⟩, ⟨4⟩, ⟨5⟩, ⟨6⟩, ⟨7⟩, ⟨8⟩, ⟨9⟩] : List (Fl f64grid))
          [⟨9⟩, ⟨8⟩, ⟨7⟩, ⟨6⟩, ⟨5⟩, ⟨4⟩, ⟨3⟩, ⟨2⟩, ⟨1⟩]).map (|·|)).sum := by
  have := dot8_error (grid_idem 53 (by norm_num)) ([⟨1⟩, ⟨2⟩, ⟨3⟩, ⟨4⟩, ⟨5⟩, ⟨6⟩, ⟨7⟩, ⟨8⟩, ⟨9⟩] : List (Fl f64grid))
    [⟨9⟩, ⟨8⟩, ⟨7⟩, ⟨6⟩, ⟨5⟩, ⟨4⟩, ⟨3⟩, ⟨2⟩, ⟨1⟩] rfl (by rw [f64grid_u]; norm_num)
  simpa using this

/-- `mean_error` (`γ_n`): representable data, idempotent rounding, `n as f64` exact -/
example : |(mean ([⟨1⟩, ⟨2⟩, ⟨4⟩] : List (Fl f64grid))).val - (vals ([⟨1⟩, ⟨2⟩, ⟨4⟩] : List (Fl f64grid))).sum / 3| ≤
    f64grid.γ 3 * (((vals ([⟨1⟩, ⟨2⟩, ⟨4⟩] : List (Fl f64grid))).map (|·|)).sum / 3) := by
  have hrep : ∀ a ∈ ([⟨1⟩, ⟨2⟩, ⟨4⟩] : List (Fl f64grid)), a.Rep := by
    intro a ha
    simp only [List.mem_cons, List.not_mem_nil, or_false] at ha
    rcases ha with rfl | rfl | rfl
    · simpa using rep_int 1 (by norm_num)
    · simpa using rep_int 2 (by norm_num)
    · simpa using rep_int 4 (by norm_num)
  have := mean_error (grid_idem 53 (by norm_num)) ([⟨1⟩, ⟨2⟩, ⟨4⟩] : List (Fl f64grid)) hrep
    (by simpa using grid_rnd_natCast 53 (by norm_num) 3 (by norm_num)) (by rw [f64grid_u]; norm_num)
  simpa using this

/-- `Rounding6.online_error` at the genuine model: `rnd 1 = 1`, integer data representable, the counter values
`0..n` exact — all theorems about round-to-nearest on the 53-digit grid -/
example : ∃ v, sampleCovarianceOnline ([⟨1⟩, ⟨2⟩, ⟨4⟩] : List (Fl f64grid)) [⟨2⟩, ⟨5⟩, ⟨3⟩] = some v := by
  have mem3 : ∀ {a b c d : Fl f64grid}, a ∈ [b, c, d] → a = b ∨ a = c ∨ a = d := by
    intro a b c d h; simpa using h
  have r1 := rep_int 1 (by norm_num); have r2 := rep_int 2 (by norm_num); have r3 := rep_int 3 (by norm_num)
  have r4 := rep_int 4 (by norm_num); have r5 := rep_int 5 (by norm_num)
  simp only [Nat.cast_ofNat, Nat.cast_one] at r1 r2 r3 r4 r5
  obtain ⟨v, hv, _⟩ := Rounding6.online_error ([⟨1⟩, ⟨2⟩, ⟨4⟩] : List (Fl f64grid)) [⟨2⟩, ⟨5⟩, ⟨3⟩] 4 5 3 3 rfl
    (by simp)
    (by intro a ha; rcases mem3 ha with rfl | rfl | rfl <;> norm_num)
    (by intro a ha; rcases mem3 ha with rfl | rfl | rfl <;> norm_num)
    (by intro a ha b hb; rcases mem3 ha with rfl | rfl | rfl <;> rcases mem3 hb with rfl | rfl | rfl <;> norm_num)
    (by intro a ha b hb; rcases mem3 ha with rfl | rfl | rfl <;> rcases mem3 hb with rfl | rfl | rfl <;> norm_num)
    (grid_rnd_one 53 (by norm_num))
    (by intro a ha; rcases mem3 ha with rfl | rfl | rfl <;> assumption)
    (by intro a ha; rcases mem3 ha with rfl | rfl | rfl <;> assumption)
    (fun k hk => grid_rnd_natCast 53 (by norm_num) k (by
      simp only [List.length_cons, List.length_nil] at hk
      calc k ≤ 3 := hk
        _ ≤ 2 ^ 53 := by norm_num))
    (by rw [f64grid_u]; norm_num) (by rw [f64grid_u]; norm_num)
  exact ⟨v, hv⟩

/-- absorption happens in this model: `2⁶⁰ ⊖ 1 = 2⁶⁰` (the exact difference needs 60 digits), and then
`Rounding7.step_small` gives `1 ≤ γ₁·2⁶⁰` -/
example : (⟨(2 : ℝ) ^ 60⟩ : Fl f64grid) - ⟨1⟩ = ⟨(2 : ℝ) ^ 60⟩ := by
  apply Fl.ext
  show gridRnd 53 ((2 : ℝ) ^ 60 - 1) = (2 : ℝ) ^ 60
  have hlog : Int.log 2 |(2 : ℝ) ^ 60 - 1| = 59 := by
    rw [abs_of_pos (by norm_num)]
    have h1 : ((2 : ℕ) : ℝ) ^ (59 : ℤ) ≤ (2 : ℝ) ^ 60 - 1 := by norm_num
    have h2 : (2 : ℝ) ^ 60 - 1 < ((2 : ℕ) : ℝ) ^ ((59 : ℤ) + 1) := by norm_num
    have a := (Int.zpow_le_iff_le_log (b := 2) (by norm_num) (by norm_num : (0 : ℝ) < 2 ^ 60 - 1)).mp h1
    have b := (Int.lt_zpow_iff_log_lt (b := 2) (by norm_num) (by norm_num : (0 : ℝ) < 2 ^ 60 - 1)).mp h2
    omega
  unfold gridRnd ulp
  rw [hlog]
  have hu : (2 : ℝ) ^ ((59 : ℤ) - ((53 : ℕ) - 1 : ℤ)) = 128 := by norm_num
  rw [hu]
  have hr : round (((2 : ℝ) ^ 60 - 1) / 128) = (2 : ℤ) ^ 53 := by
    rw [round_eq]
    rw [Int.floor_eq_iff]
    constructor <;> norm_num
  rw [hr]; norm_num

end Cv.RoundingGrid
