import Compute.Model.Scalar
import Compute.Model.Mat
import Compute.Model.Broadcast
import Compute.Model.Vops
import Compute.Model.Shape
/-
Model of `src/predict/gps/kernels.rs` (C20): the RBF (squared-exponential) and rational-quadratic
covariance kernels — constructors with their asserts, the scalar `forward` (`f64` and `&f64` share one
macro body) and the matrix `forward` (`Vector`, `&Vector`, `Matrix`, `&Matrix` share one macro body) as
written in the source:

    let (x, y) = (x.reshape(-1, 1), y.reshape(-1, 1));
    (-(x - y.reshape(1, -1)).powi(2) / (2. * l.powi(2))).exp() * var          (as repaired by F50)

on top of the models of the pieces it calls: `Vector::reshape` / `Matrix::reshape` (`Model/Shape.lean`),
`Matrix::powi` → `vpowi` with its exponent-2 special case, `f64 ∘ Matrix` / `Matrix ∘ f64` → the `sv`/`vs`
kernels, `Matrix::exp`/`powf` → `vun`/`vunArgF` (`Model/Vops.lean`), `Matrix - Matrix` → `broadcast_op!`
(`Model/Broadcast.lean`).
Every intermediate `Matrix::new(data, nrows, ncols)` keeps its `nrows * ncols == len` assert.
Generic in the scalar; `none` = panic.  Core Lean only.
-/
namespace Cv.Gp
open Cv

variable {α : Type}

/-- `RBFKernel { var, length_scale }`. -/
structure RBF (α : Type) where
  var : α
  ls : α

/-- `RationalQuadraticKernel { var, alpha, length_scale }`. -/
structure RQ (α : Type) where
  var : α
  alpha : α
  ls : α

section ctor
variable [Zero α] [LT α] [DecidableLT α]

/-- `RBFKernel::new`: `assert!(var > 0.)`, `assert!(length_scale > 0.)`. -/
def RBF.new (var ls : α) : Option (RBF α) :=
  if 0 < var then (if 0 < ls then some ⟨var, ls⟩ else none) else none

/-- `RQKernel::new`: `assert!(var > 0.)`, `assert!(alpha > 0.)`, `assert!(length_scale > 0.)`. -/
def RQ.new (var alpha ls : α) : Option (RQ α) :=
  if 0 < var then (if 0 < alpha then (if 0 < ls then some ⟨var, alpha, ls⟩ else none) else none) else none

end ctor

/-- The literal `2.`. -/
def two [NatCast α] : α := ((2 : Nat) : α)

section scalar
variable [Add α] [Sub α] [Mul α] [Div α] [Neg α] [One α] [NatCast α] [Transc α]

/-- `2. * self.length_scale.powi(2)`. -/
def RBF.denom (k : RBF α) : α := two * powi k.ls 2

/-- `2. * self.alpha * self.length_scale.powi(2)` (left-associated as in the source). -/
def RQ.denom (k : RQ α) : α := two * k.alpha * powi k.ls 2

/-- `impl Kernel<f64, f64> for RBFKernel` (and `&f64`):
`(-(x - y).powi(2) / (2. * self.length_scale.powi(2))).exp() * self.var`
(the unary minus applies to the square, then the division). -/
def RBF.fwd (k : RBF α) (x y : α) : α :=
  exp ((-(powi (x - y) 2)) / k.denom) * k.var

/-- `impl Kernel<f64, f64> for RationalQuadraticKernel` (and `&f64`), exponent as repaired by F36:
`(1. + (x - y).powi(2) / (2. * self.alpha * self.length_scale.powi(2))).powf(-self.alpha) * self.var`. -/
def RQ.fwd (k : RQ α) (x y : α) : α :=
  pow (1 + powi (x - y) 2 / k.denom) (-k.alpha) * k.var

end scalar

/-- A point set as the matrix `forward` receives it: a `Vector`/`&Vector` or a `Matrix`/`&Matrix`. -/
inductive Pts (α : Type) where
  | vec (v : List α)
  | mat (m : Mat α)

/-- `x.reshape(nr, nc)`: `Vector::reshape` = `Matrix::new(self.clone(), nr, nc)`; `Matrix::reshape`. -/
def Pts.reshape (p : Pts α) (nr nc : Int) : Option (Mat α) :=
  match p with
  | .vec v => Shape.vecReshape v nr nc
  | .mat m => Shape.reshape m nr nc

/-- The points of a point set in the order the kernel enumerates them (row-major data). -/
def Pts.points : Pts α → List α
  | .vec v => v
  | .mat m => m.data

/-- `Matrix::new(data, nrows as i32, ncols as i32)` around the result of an element-wise kernel. -/
def wrap (d : List α) (r c : Nat) : Option (Mat α) := if r * c = d.length then some ⟨d, r, c⟩ else none

section matrix
variable [Inhabited α] [Add α] [Sub α] [Mul α] [Div α] [Neg α] [Zero α] [One α] [NatCast α] [Transc α]

/-- `Matrix::powi(n)`: `Self::new(self.data.powi(n), nrows, ncols)`, `Vector::powi` = `vpowi`
(`makefn_vops_unary_with_arg_i!`: `x*x` inside full chunks of 8 when `n == 2`, `x.powi(n)` in the remainder). -/
def mpowi (m : Mat α) (n : Int) : Option (Mat α) :=
  wrap (Vops.vunArgI (· * ·) powi n m.data) m.nrows m.ncols

/-- `(x - y.reshape(1, -1)).powi(2)` after `let (x, y) = (x.reshape(-1, 1), y.reshape(-1, 1))` (F50: the squared
distances are formed directly; `Matrix - Matrix` of an `n × 1` and a `1 × m` matrix is `broadcast_sub`, then
`Matrix::powi(2)` on the `n·m` differences). -/
def sqDist (x y : Pts α) : Option (Mat α) := do
  let xc ← x.reshape (-1) 1
  let yc ← y.reshape (-1) 1
  let yr ← Shape.reshape yc 1 (-1)
  let d ← broadcastOp (· - ·) xc yr                         -- Matrix - Matrix = broadcast_sub
  mpowi d 2

/-- `impl Kernel<$t1, Matrix> for RBFKernel` for `Matrix`, `Vector`, `&Matrix`, `&Vector`:
`(-(sqdist) / (2. * l.powi(2))).exp() * self.var`. -/
def RBF.fwdM (k : RBF α) (x y : Pts α) : Option (Mat α) := do
  let t ← sqDist x y
  let n ← wrap (t.data.map fun v => -v) t.nrows t.ncols                 -- Neg for Matrix
  let q ← wrap (Vops.vs (· / ·) n.data k.denom) n.nrows n.ncols         -- Matrix / f64 = vsdiv
  let e ← wrap (Vops.vun exp q.data) q.nrows q.ncols                    -- Matrix::exp = vexp
  wrap (Vops.vs (· * ·) e.data k.var) e.nrows e.ncols                   -- Matrix * f64 = vsmul

/-- `impl Kernel<$t1, Matrix> for RationalQuadraticKernel`:
`(1. + (sqdist) / (2. * alpha * l.powi(2))).powf(-self.alpha) * self.var`. -/
def RQ.fwdM (k : RQ α) (x y : Pts α) : Option (Mat α) := do
  let t ← sqDist x y
  let q ← wrap (Vops.vs (· / ·) t.data k.denom) t.nrows t.ncols         -- Matrix / f64 = vsdiv
  let p ← wrap (Vops.sv (· + ·) 1 q.data) q.nrows q.ncols               -- f64 + Matrix = svadd
  let w ← wrap (Vops.vunArgF pow (-k.alpha) p.data) p.nrows p.ncols     -- Matrix::powf = vpowf
  wrap (Vops.vs (· * ·) w.data k.var) w.nrows w.ncols                   -- Matrix * f64 = vsmul

end matrix
end Cv.Gp
