"""C03 — samplers draw from the distribution they describe, in every parameter regime.

Tie: EXTRACT regenerates lean/Compute/Generated/C03Tables.lean (the three 128-entry Ziggurat tables, R, and
every non-dyadic float literal of the samplers) from /repo/src/distributions; the model (Model/Samplers.lean) at
Float is compared bit for bit with the Rust samplers: `s`/`m`/`mvn` lines carry the seed, the reply carries the
draws and the generator state after the call.
Search: the property's own criterion, the Dvoretzky–Kiefer–Wolfowitz band at alpha = 1e-12 against scipy.stats
CDFs, on summaries (order statistics / histograms) computed by the executor over n draws (`q`, `qmvn` lines,
implementation only)."""
import math
import os
import re
import struct
from fractions import Fraction

from .common import Failure, f2h, h2f, parse_reply

ID = "C03"
BIN = "c03"
PROOF_MODULES = ["Compute.Lemmas.C03", "Compute.Lemmas.C03Discrete", "Compute.Props.C03", "Compute.Props.C03Witness",
                 "Compute.Props.C03Mvn"]
EXHAUSTIVE = {"quick": False, "thorough": False}
IMPL_TIMEOUT = 2400
MODEL_TIMEOUT = 1800

# ----------------------------------------------------------------------------------------------- translator


def _bits(x):
    return struct.unpack("<Q", struct.pack("<d", x))[0]


def _litval(text):
    t = text.replace("_", "")
    if t.endswith("."):
        t += "0"
    return float(t)


def _lit_row(x):
    fr = Fraction(x)
    return "⟨0x%016x, %d, %d⟩" % (_bits(x), fr.numerator, fr.denominator)


# (lean name, file, regex with ONE capture group around the literal, doc)
_CONSTS = [
    ("zigR", "normal.rs", r"const R: f64 = ([0-9.eE+-]+);", "const R"),
    ("gammaSqueeze", "gamma.rs", r"if u < 1\. - ([0-9.]+) \* x\.powi\(4\) \{", "squeeze constant of Marsaglia–Tsang"),
    ("ptrsB0", "poisson.rs", r"let b = ([0-9.]+) \+ [0-9.]+ \* slam;", "b = B0 + b1*slam"),
    ("ptrsB1", "poisson.rs", r"let b = [0-9.]+ \+ ([0-9.]+) \* slam;", "b = b0 + B1*slam"),
    ("ptrsA0", "poisson.rs", r"let a = -([0-9.]+) \+ [0-9.]+ \* b;", "a = -A0 + a1*b"),
    ("ptrsA1", "poisson.rs", r"let a = -[0-9.]+ \+ ([0-9.]+) \* b;", "a = -a0 + A1*b"),
    ("ptrsI0", "poisson.rs", r"let invalpha = ([0-9.]+) \+ [0-9.]+ / \(b - [0-9.]+\);", "invalpha = I0 + i1/(b - i2)"),
    ("ptrsI1", "poisson.rs", r"let invalpha = [0-9.]+ \+ ([0-9.]+) / \(b - [0-9.]+\);", "invalpha = i0 + I1/(b - i2)"),
    ("ptrsI2", "poisson.rs", r"let invalpha = [0-9.]+ \+ [0-9.]+ / \(b - ([0-9.]+)\);", "invalpha = i0 + i1/(b - I2)"),
    ("ptrsV0", "poisson.rs", r"let vr = ([0-9.]+) - [0-9.]+ / \(b - 2\.\);", "vr = V0 - v1/(b - 2)"),
    ("ptrsV1", "poisson.rs", r"let vr = [0-9.]+ - ([0-9.]+) / \(b - 2\.\);", "vr = v0 - V1/(b - 2)"),
    ("ptrsK0", "poisson.rs", r"\* U \+ lam \+ ([0-9.]+)\);", "k = floor((2a/us + b)U + lam + K0)"),
    ("ptrsUs1", "poisson.rs", r"if \(us >= ([0-9.]+)\) && \(V <= vr\) \{", "quick acceptance us >= US1"),
    ("ptrsUs2", "poisson.rs", r"if \(k < 0\.\) \|\| \(us < ([0-9.]+)\) && \(V > us\) \{", "rejection us < US2"),
    ("btpeP1a", "binomial.rs", r"let p1 = \(([0-9.]+) \* nrq\.sqrt\(\) - [0-9.]+ \* q\)\.floor\(\) \+ 0\.5;", "p1 = floor(P1a*sqrt(nrq) - p1b*q) + 0.5"),
    ("btpeP1b", "binomial.rs", r"let p1 = \([0-9.]+ \* nrq\.sqrt\(\) - ([0-9.]+) \* q\)\.floor\(\) \+ 0\.5;", "p1 = floor(p1a*sqrt(nrq) - P1b*q) + 0.5"),
    ("btpeC0", "binomial.rs", r"let c = ([0-9.]+) \+ [0-9.]+ / \([0-9.]+ \+ m\);", "c = C0 + c1/(c2 + m)"),
    ("btpeC1", "binomial.rs", r"let c = [0-9.]+ \+ ([0-9.]+) / \([0-9.]+ \+ m\);", "c = c0 + C1/(c2 + m)"),
    ("btpeC2", "binomial.rs", r"let c = [0-9.]+ \+ [0-9.]+ / \(([0-9.]+) \+ m\);", "c = c0 + c1/(C2 + m)"),
    ("btpeRho", "binomial.rs", r"let rho = \(k / nrq\) \* \(\(k \* \(k / 3\. \+ ([0-9.]+)\) \+ 1\. / 6\.\) / nrq \+ 0\.5\);", "rho constant 0.625"),
]

# source lines the hand model mirrors token for token (the check fails when one disappears)
_NEED = {
    "normal.rs": [
        "let i = (u & 0x7F) as usize;",
        "let j = ((u >> 8) & 0xFFFFFF) as u32;",
        "let s = if u & 0x80 != 0 { 1.0 } else { -1.0 };",
        "if j < K[i] {",
        "let x = j as f64 * W[i];",
        "return s * x * self.sigma + self.mu;",
        "let (x, y) = if i < 127 {",
        "let y = Y[i + 1] + (Y[i] - Y[i + 1]) * alea::f64();",
        "let x = R - (-alea::f64()).ln_1p() / R;",
        "let y = (-R * (x - 0.5 * R)).exp() * alea::f64();",
        "if y < (-0.5 * x * x).exp() {",
    ],
    "gamma.rs": [
        "let (alpha, boost) = if self.alpha < 1. {",
        "let mut u = self.uniform_gen.sample();",
        "while u == 0. {",
        "u = self.uniform_gen.sample();",
        "(self.alpha + 1., u.powf(1. / self.alpha))",
        "(self.alpha, 1.)",
        "let d = alpha - 1. / 3.;",
        "let x = self.normal_gen.sample();",
        "let v = (1. + x / (9. * d).sqrt()).powi(3);",
        "if v > 0. {",
        "let u = self.uniform_gen.sample();",
        "return boost * d * v / self.beta;",
        "if u.ln() < 0.5 * x.powi(2) + d * (1. - v + v.ln()) {",
        "normal_gen: Normal::new(0., 1.),",
        "uniform_gen: Uniform::new(0., 1.),",
    ],
    "beta.rs": [
        "alpha_gen: Gamma::new(alpha, 1.),",
        "beta_gen: Gamma::new(beta, 1.),",
        "let x = self.alpha_gen.sample();",
        "let y = self.beta_gen.sample();",
        "if x + y == 0. {",
        "return if alea::f64() * (self.alpha + self.beta) < self.alpha {",
        "x / (x + y)",
    ],
    "chi_squared.rs": [
        "sampler: Gamma::new((dof as f64) / 2., 0.5),",
        "self.sampler.sample()",
    ],
    "t.rs": [
        "(self.dof / 2.).sqrt() * Normal::default().sample()",
        "/ Gamma::new(self.dof / 2., 1.).sample().sqrt()",
    ],
    "poisson.rs": [
        "if self.lambda < 10. {",
        "let limit: f64 = (-lambda).exp();",
        "let mut product: f64 = alea::f64();",
        "while product > limit {",
        "product *= alea::f64();",
        "let slam = lam.sqrt();",
        "let loglam = lam.ln();",
        "let U = alea::f64() - 0.5;",
        "let V = alea::f64();",
        "let us = 0.5 - U.abs();",
        "let k = f64::floor((2. * a / us + b) * U + lam + 0.43);",
        "if (V.ln() + invalpha.ln() - (a / (us * us) + b).ln())",
        "<= (-lam + k * loglam - ln_gamma(k + 1.))",
    ],
    "binomial.rs": [
        "if self.n == 0 || self.p == 0. {",
        "} else if (self.p - 1.).abs() <= f64::EPSILON {",
        "let switch = self.p > 0.5;",
        "let p = if switch { 1. - self.p } else { self.p };",
        "let res = if p * self.n as f64 <= 30. {",
        "(self.n - res) as f64",
        "let s = p / (1. - p);",
        "let a = (n as f64 + 1.) * s;",
        "let mut r = (n as f64 * (-p).ln_1p()).exp();",
        "while u > r as f64 {",
        "u -= r;",
        "r *= a / (x as f64) - s;",
        "let r = if p <= 0.5 { p } else { 1. - p };",
        "let nrq = nf * r * q;",
        "let fm = nf * r + r;",
        "let lambda = |x: f64| x * (1. + x / 2.);",
        "let ll = lambda((fm - xl) / (fm - xl * r));",
        "let lr = lambda((xr - fm) / (xr * q));",
        "let p2 = p1 * (1. + 2. * c);",
        "let p3 = p2 + c / ll;",
        "let p4 = p3 + c / lr;",
        "y = (xm - p1 * v + u).floor();",
        "let x = xl + (u - p1) / c;",
        "v = v * c + 1. - (m - x + 0.5).abs() / p1;",
        "y = (xl + v.ln() / ll).floor();",
        "v *= (u - p2) * ll;",
        "y = (xr - v.ln() / lr).floor();",
        "v *= (u - p3) * lr;",
        "if !(k > 20. && k < 0.5 * (nrq) - 1.) {",
        "let a = s * (n as f64 + 1.);",
        "f *= (a / i) - s;",
        "f /= (a / i) - s;",
        "let t = -k * k / (2. * nrq);",
        "(13860. - (462. - (132. - (99. - 140. / (x * x)) / (x * x)) / (x * x)) / (x * x))",
        "/ 166320.",
        "> xm * (f1 / x1).ln()",
        "+ (nf - m + 0.5) * (z / w).ln()",
        "+ (y - m) * (w * r / (x1 * q)).ln()",
        "y as u64",
    ],
    "exponential.rs": ["let mut u = self.rng.sample();", "while u == 0. {", "u = self.rng.sample();", "-u.ln() / self.lambda",
                       "rng: Uniform::new(0., 1.),"],
    "gumbel.rs": ["let mut u = self.uniform_gen.sample();", "while u == 0. {", "u = self.uniform_gen.sample();",
                  "self.mu - self.beta * (-u.ln()).ln()", "uniform_gen: Uniform::new(0., 1.),"],
    "pareto.rs": ["let mut u = alea::f64();", "while u == 0. {", "u = alea::f64();", "self.minval / u.powf(1. / self.alpha)"],
    "uniform.rs": ["let width = self.upper - self.lower;", "let u = alea::f64();", "if width.is_finite() {",
                   "width * u + self.lower", "self.lower * (1. - u) + self.upper * u"],
    "discreteuniform.rs": ["if self.lower == self.upper {", "alea::i64_in_range(self.lower, self.upper) as f64"],
    "bernoulli.rs": ["if self.p == 1. {", "} else if self.p == 0. {", "if self.p > alea::f64() {"],
    "multivariatenormal.rs": [
        "let l = (&c).cholesky();",
        "let z = Normal::default().sample_n(self.mean.len());",
        "&self.mean + self.decomposed_covariance_matrix.dot(z)",
    ],
    "mod.rs": [
        "(0..n).map(|_| self.sample()).collect()",
        "Matrix::new(self.sample_n(nrows * ncols), nrows as i32, ncols as i32)",
        "data.extend(self.sample());",
        "Matrix::new(data, n as i32, self.get_dim() as i32)",
    ],
}


_DRIFT = []


def _EXTRACT_core(repo):
    d = os.path.join(repo, "src/distributions")
    src = {}
    for fn in _NEED:
        src[fn] = open(os.path.join(d, fn)).read()
        for nd in _NEED[fn]:
            if nd not in src[fn]:
                _DRIFT.append("%s no longer contains the modelled line: %s" % (fn, nd))
    out = ["import Compute.Generated.C09Tables\n"
           "/- GENERATED by tools/cv/c03.py (EXTRACT) from /repo/src/distributions/*.rs — do not edit.\n"
           "The three Ziggurat tables of normal.rs and every non-dyadic float literal of the samplers, as `Cv.Lit`\n"
           "(IEEE-754 bits of the `f64` the Rust parser produces + its exact rational value).\n"
           "`Compute/Props/C03.lean` re-checks `Lit.valid` for every entry in the kernel. -/\n"
           "namespace Cv\n\ninstance : Inhabited Lit := ⟨⟨0, 0, 1⟩⟩\n\nnamespace C03T\n\n"]
    names = []
    for name, fn, rx, doc in _CONSTS:
        ms = re.findall(rx, src[fn])
        if len(ms) != 1:
            raise ValueError("%s: expected exactly one match of %r, got %d" % (fn, rx, len(ms)))
        x = _litval(ms[0])
        out.append("/-- `%s` : %s (%s) -/\ndef %s : Lit := %s\n" % (ms[0], doc, fn, name, _lit_row(x)))
        names.append(name)
    n = src["normal.rs"]
    m = re.search(r"const K: \[u32; (\d+)\] = \[(.*?)\];", n, re.S)
    if not m:
        raise ValueError("normal.rs: table K not found")
    ks = [int(v.strip()) for v in m.group(2).split(",") if v.strip()]
    if len(ks) != int(m.group(1)) or len(ks) != 128:
        raise ValueError("normal.rs: table K has %d entries" % len(ks))
    out.append("/-- `const K: [u32; 128]` -/\ndef zigK : Array Nat := #[\n  %s]\n" % ",\n  ".join(
        ", ".join(str(k) for k in ks[i:i + 8]) for i in range(0, 128, 8)))
    for tname, lname in (("Y", "zigY"), ("W", "zigW")):
        m = re.search(r"const %s: \[f64; (\d+)\] = \[(.*?)\];" % tname, n, re.S)
        if not m:
            raise ValueError("normal.rs: table %s not found" % tname)
        vs = [_litval(v.strip()) for v in m.group(2).split(",") if v.strip()]
        if len(vs) != int(m.group(1)) or len(vs) != 128:
            raise ValueError("normal.rs: table %s has %d entries" % (tname, len(vs)))
        out.append("/-- `const %s: [f64; 128]` -/\ndef %s : Array Lit := #[\n  %s]\n" % (
            tname, lname, ",\n  ".join(_lit_row(v) for v in vs)))
    out.append("/-- every scalar literal of this file -/\ndef scalarLits : List Lit := [%s]\n" % ", ".join(names))
    out.append("\nend C03T\nend Cv\n")
    return {"Compute/Generated/C03Tables.lean": "\n".join(out)}


# ----------------------------------------------------------------------------------------------- metadata
# headline results (what the claim rests on)
REQUIRED_THEOREMS = [
    "Cv.C03.lits_valid", "Cv.C03.f64_range",
    # inverse-cdf laws, for EVERY returning call (the redraw loop of F53 removes u = 0), with termination statements
    "Cv.C03.exponential_inverse_cdf", "Cv.C03.pareto_inverse_cdf", "Cv.C03.gumbel_inverse_cdf", "Cv.C03.uniform_inverse_cdf",
    "Cv.C03.exponential_returns", "Cv.C03.pareto_returns", "Cv.C03.gumbel_returns", "Cv.C03.redraw_unit_spec",
    "Cv.C03.redraw_unit_returns", "Cv.C03.f53_state", "Cv.C03.bernoulli_law",
    # the two exact discrete samplers: characterisation + termination for every generator state
    "Cv.C03.poisson_mult_spec", "Cv.C03.poisson_mult_complete", "Cv.C03.poisson_mult_unique", "Cv.C03.poisson_mult_terminates",
    "Cv.C03.poisson_mult_terminates_fuel", "Cv.C03.binomial_inversion_spec", "Cv.C03.binomial_inversion_le",
    "Cv.C03.binomial_inversion_terminates",
    # support
    "Cv.C03.pareto_support_partial", "Cv.C03.exponential_support_partial", "Cv.C03.uniform_support", "Cv.C03.bernoulli_support",
    "Cv.C03.discrete_uniform_support_partial",
    # partial correctness of the rejection samplers (every RETURNING call; termination not proved): `_partial`
    "Cv.C03.gamma_support_ge_one_partial", "Cv.C03.gamma_support_lt_one_partial", "Cv.C03.gamma_support_pos_partial",
    "Cv.C03.gamma_support_nonneg_partial", "Cv.C03.chi_squared_support_partial", "Cv.C03.beta_sample_support_partial",
    "Cv.C03.gamma_boost", "Cv.C03.beta_underflow_branch", "Cv.C03.mvn_sample_spec_partial", "Cv.C03Mvn.mvn_new_spec",
    # bulk
    "Cv.C03.sampleN_length", "Cv.C03.sampleN_consecutive", "Cv.C03.sampleMatrix_shape", "Cv.C03.sampleMatrix_total",
    "Cv.C03.mvn_sampleN_shape",
    # Ziggurat tables: internal consistency of the doubles of the source, with explicit tolerances
    "Cv.C03.zig_K_consistent", "Cv.C03.zig_equal_area", "Cv.C03.zig_R_consistent", "Cv.C03.zigY_strictly_decreasing",
    # non-vacuity: the hypotheses "the call returns" are satisfiable over the reals (concrete generator states)
    "Cv.C03W.normal_fast", "Cv.C03W.gamma_fast_accept", "Cv.C03W.normal_returns_witness", "Cv.C03W.gamma_returns_witness",
    "Cv.C03W.gamma_boost_returns_witness", "Cv.C03W.chi_squared_returns_witness", "Cv.C03W.chi_squared_one_returns_witness",
    "Cv.C03W.t_returns_witness", "Cv.C03W.beta_returns_witness", "Cv.C03W.normal_pair_witness", "Cv.C03W.mvn_returns_witness",
]
# unfolding-level facts (`rfl` / `simp [def]`): they pin the shape of the model (so an edit of the composition in the model
# breaks them) but say nothing beyond the definition; required so that they do not silently disappear, NOT headline results
REQUIRED_THEOREMS += [
    "Cv.C03.chi_squared_is_gamma", "Cv.C03.beta_is_gamma_ratio", "Cv.C03.t_formula", "Cv.C03.binomial_flip",
    "Cv.C03.binomial_routing", "Cv.C03.poisson_routing", "Cv.C03.mvn_sample_eq", "Cv.C03.gamma_sqrt_domain",
    "Cv.C03.legacy_gamma_sqrt_domain",   # about the code deleted by repair F20: kept as the witness of that defect only
]
RULE = ("per distribution x regime (gamma shape <1/3, <1, >=1 and beta / chi-squared / t built on it; Poisson rate <10, >=10, "
        ">=150; binomial inversion / BTPE, flipped p > 1/2, p in {0,1}, n = 0; degenerate equal bounds; exact special values and "
        "+-1 ulp bands around every branch constant; objects reached through setters / update / Default / Clone; the zero-uniform "
        "generator states for every distribution) x RNG seeds: EVERY request is two-sided — the draws (first 2000 of the stream, "
        "bulk routes up to 65537, sample_matrix, MVN sample_n and repeated sample) and the DKW summaries of the long streams are "
        "compared bit for bit with the model, final generator state included; the DKW criterion at alpha = 1e-12 is evaluated on "
        "the implementation's streams against scipy.stats CDFs: n = 2e5 (quick grid) / 1e5 (quick strata); thorough: 4e6 (regime "
        "grid), 1e6 (setter histories, construction routes, special values, zero-state seeds, MVN), 32767..65537 (bulk-route "
        "boundaries), 5e4 (corpus witnesses); MVN: whitened coordinates + 16 random projections; "
        "non-trivial = distinct (op, route, distribution, regime, parameters)")
NOT_PROVED = [
    "the LAWS of the rejection samplers: Ziggurat normal, Marsaglia–Tsang gamma (and so beta, chi-squared, t), PTRS Poisson, "
    "BTPE binomial — measure theory over acceptance regions; decided only by the bit-exact tie + DKW search.  In particular "
    "that MVN draws have covariance Sigma in distribution is not proved: proved is x = mu + L z with L L^T = Sigma "
    "(mvn_sample_spec_partial + mvn_new_spec), z the dim Ziggurat draws",
    "TERMINATION of the rejection loops (Ziggurat, Marsaglia–Tsang, PTRS, BTPE, Lemire) for every generator state: every "
    "theorem about them is partial correctness (`_partial`: about every call that returns) plus a concrete returning state "
    "(Props/C03Witness); proved termination: Poisson multiplication method and binomial inversion for every state, the "
    "u = 0 redraw loop conditionally on the stream containing a non-zero uniform within the fuel",
    "that the Ziggurat table Y is exp(-x^2/2) at the layer edges: proved are only the internal relations of the tables "
    "(K[i] = floor(2^24 W[i-1]/W[i]) exactly; equal layer areas to a relative 1e-9; 2^24 W[126] = R to 1e-9; Y strictly "
    "decreasing).  An edit of K, or of Y / W / R beyond those tolerances breaks a proof; an edit that keeps them, or a "
    "consistent regeneration of all tables, is seen only by the DKW search (the run-time tie regenerates the tables into the model)",
    "that wyrand's outputs are uniform and independent (not a mathematical fact; searched by the DKW band)",
    "floating-point rounding of the formulas (theorems are over the reals; the tie is bit-exact and the DKW search runs on "
    "the f64 outputs)",
    "a source-level tie exists only for: Uniform::sample, the formula after the redraw loop of Exponential / Gumbel / Pareto "
    "(currently stale: the `while` left the translated subset, see the SourceDrift note), the Poisson / Binomial routing "
    "predicates and the T / Beta compositions.  RUN-TIME ONLY (hand model + bit-exact tie): wyrand, f64(), Lemire's "
    "u64_less_than, Ziggurat, Marsaglia–Tsang, PTRS, BTPE, Bernoulli, MVN, the bulk helpers",
]
TRUSTED = [
    "the regex translator EXTRACT (Ziggurat tables, constants) and Python's correctly rounded float() for the literals "
    "(bits vs num/den re-checked in the Lean kernel by `lits_valid`)",
    "alea 0.2.2 as vendored in ~/.cargo/registry (Model/Rng.lean follows its source; tie includes the final generator state)",
    "scipy.stats CDFs as the independent reference of the search engine",
    "executor built with overflow-checks = true",
]
ASSUMPTIONS = [
    "a draw counts as inside the support when it lies in the closure of the support (a positive variate may round to 0.0); "
    "CDFs of continuous laws are evaluated at the draw perturbed by a relative 1e-12 (rounding of the draw), which matters "
    "only where the CDF is nearly discontinuous (gamma with tiny shape near 0)",
    "the DKW statistic is a LOWER bound of sup|F_n - F| computed from K recorded order statistics (or the exact histogram when "
    "there are at most 4096 distinct values): it can be below the true distance by at most 1/K — K = 2000 in quick (5e-4, 6 % "
    "of the n = 2e5 band), K = 8000 in thorough (1.25e-4, 6.5 % of the n = 4e6 band); false alarms stay below 1e-12 per case, "
    "detection power is reduced by that margin",
    "per-request wall-clock cap 30 s (correspondence) / 120 s (DKW summaries): exceeding it counts as non-termination",
]
ALPHA = 1e-12
I64MAX = 2 ** 63 - 1
WY_INC = 0xa0761d6478bd642f
# alea::set_seed(s): the k-th raw word is wyMix(s + k * WY_INC), and wyMix(0) = 0: when s + k * WY_INC = 0 mod 2^64 the word is 0 and
# f64() = 0.0.  These four seeds are the closed-form ones; f64() is 0.0 for every word whose top 53 bits vanish (about 2^11 of the
# 2^64 states), which are not enumerated here
ZERO_SEEDS = [(0x5F89E29B87429BD1 - k * WY_INC) % 2 ** 64 for k in range(4)]


def dkw_eps(n):
    return math.sqrt(math.log(2.0 / ALPHA) / (2.0 * n))


# ----------------------------------------------------------------------------------------------- cases
# a case: (dist, params) with params as python numbers (floats, or ints for chi2 / binomial n / du)
INT_PARAMS = {"chi2": [0], "binomial": [0], "du": [0, 1]}
DISCRETE = {"poisson", "binomial", "du", "bern"}


def fmt_params(dist, ps):
    ints = INT_PARAMS.get(dist, [])
    return " ".join(str(int(p)) if i in ints else f2h(p) for i, p in enumerate(ps))


def parse_params(dist, toks):
    ints = INT_PARAMS.get(dist, [])
    return [int(t) if i in ints else h2f(t) for i, t in enumerate(toks)]


def valid(dist, ps):
    """the constructor's guard (what /repo enforces)"""
    if dist == "normal":
        return not ps[1] < 0
    if dist in ("gamma", "beta", "pareto"):
        return not (ps[0] <= 0 or ps[1] <= 0)
    if dist == "chi2":
        return ps[0] > 0
    if dist == "t":
        return ps[0] > 0
    if dist in ("poisson", "exp"):
        return not ps[0] <= 0
    if dist == "binomial":
        return 0 <= ps[1] <= 1
    if dist == "gumbel":
        return not ps[1] <= 0
    if dist in ("uniform", "du"):
        return not ps[0] > ps[1]
    if dist == "bern":
        return 0 <= ps[0] <= 1
    raise ValueError(dist)


def gamma_regime(a):
    return "shape<1/3" if a < 1.0 / 3.0 else ("shape<1" if a < 1 else "shape>=1")


def regime(dist, ps):
    if dist == "gamma":
        return gamma_regime(ps[0])
    if dist == "beta":
        if min(ps[0], ps[1]) <= 0.005:
            return "tiny-shapes"          # a gamma variate underflows to 0 with noticeable probability (open finding)
        return gamma_regime(ps[0]) + "," + gamma_regime(ps[1])
    if dist == "chi2":
        return gamma_regime(ps[0] / 2.0)
    if dist == "t":
        return gamma_regime(ps[0] / 2.0)
    if dist == "poisson":
        return "lambda<10" if ps[0] < 10 else ("lambda<150" if ps[0] < 150 else "lambda>=150")
    if dist == "binomial":
        n, p = ps
        if n == 0 or p == 0.0 or abs(p - 1.0) <= 2.0 ** -52:
            return "degenerate"
        flip = "flip:" if p > 0.5 else ""
        q = 1.0 - p if p > 0.5 else p
        if q * float(n) <= 30.0:
            if q < 2.0 ** -53:
                return flip + "inversion:p<2^-53"      # 1 - p rounds to 1
            return flip + "inversion"
        return flip + "btpe"
    if dist == "uniform":
        if ps[0] == ps[1]:
            return "degenerate"
        return "range-overflow" if math.isinf(ps[1] - ps[0]) and not math.isinf(ps[0]) and not math.isinf(ps[1]) else "proper"
    if dist == "du":
        if ps[0] == ps[1]:
            return "degenerate"
        return "range>=2^63" if (ps[1] == I64MAX or ps[1] + 1 - ps[0] > I64MAX) else "proper"
    if dist == "bern":
        return "degenerate" if ps[0] in (0.0, 1.0) else "proper"
    if dist == "normal":
        return "degenerate" if ps[1] == 0 else "proper"
    return "all"


def support(dist, ps):
    """closure of the support as (lo, hi, integer-valued)"""
    inf = float("inf")
    if dist in ("normal", "t", "gumbel"):
        if dist == "normal" and ps[1] == 0:
            return ps[0], ps[0], False
        return -inf, inf, False
    if dist in ("gamma", "chi2", "exp"):
        return 0.0, inf, False
    if dist == "beta":
        return 0.0, 1.0, False
    if dist == "poisson":
        return 0.0, inf, True
    if dist == "binomial":
        return 0.0, float(ps[0]), True
    if dist == "pareto":
        return ps[1], inf, False
    if dist == "uniform":
        return ps[0], ps[1], False
    if dist == "du":
        return float(ps[0]), float(ps[1]), True
    if dist == "bern":
        return 0.0, 1.0, True
    raise ValueError(dist)


def point_mass(dist, ps):
    """value of a degenerate (one-point) law, else None"""
    if dist == "normal" and ps[1] == 0:
        return ps[0]
    if dist == "uniform" and ps[0] == ps[1]:
        return ps[0]
    if dist == "du" and ps[0] == ps[1]:
        return float(ps[0])
    if dist == "bern" and ps[0] in (0.0, 1.0):
        return ps[0]
    if dist == "binomial":
        n, p = ps
        if n == 0 or p == 0.0:
            return 0.0
        if p == 1.0:
            return float(n)
    return None


def cdf_fn(dist, ps):
    """-> vectorised CDF of the law the object describes (scipy.stats)"""
    import numpy as np
    from scipy import stats

    if dist == "normal":
        return stats.norm(loc=ps[0], scale=ps[1]).cdf
    if dist == "gamma":
        return stats.gamma(ps[0], scale=1.0 / ps[1]).cdf
    if dist == "beta":
        return stats.beta(ps[0], ps[1]).cdf
    if dist == "chi2":
        return stats.chi2(ps[0]).cdf
    if dist == "t":
        return stats.t(ps[0]).cdf
    if dist == "poisson":
        return stats.poisson(ps[0]).cdf
    if dist == "binomial":
        return stats.binom(ps[0], ps[1]).cdf
    if dist == "exp":
        return stats.expon(scale=1.0 / ps[0]).cdf
    if dist == "gumbel":
        return stats.gumbel_r(loc=ps[0], scale=ps[1]).cdf
    if dist == "pareto":
        return stats.pareto(ps[0], scale=ps[1]).cdf
    if dist == "uniform":
        lo, hi = ps      # halves: the width of a finite interval may overflow
        return lambda x: np.clip((np.asarray(x, dtype=float) / 2.0 - lo / 2.0) / (hi / 2.0 - lo / 2.0), 0.0, 1.0)
    if dist == "du":
        lo, hi = ps
        return lambda x: np.clip((np.floor(np.asarray(x, dtype=float)) - lo + 1.0) / float(hi - lo + 1), 0.0, 1.0)
    if dist == "bern":
        return stats.bernoulli(ps[0]).cdf
    raise ValueError(dist)


def os_ranks(n, k):
    """1-based ranks of the order statistics recorded by the executor"""
    if n == 0:
        return []
    if k < 2:
        return [1]
    return [1 + (j * (n - 1)) // (k - 1) for j in range(k)]


CDF_SLACK = 1e-9   # numerical error allowance of the reference CDFs
LAST_SIDE = None


def dkw_lower_bound(dist, ps, n, kind, payload):
    """A lower bound L <= sup_t |F_n(t) - F(t)| computed from the executor's summary, so that
    P(L > eps) <= P(D_n > eps) <= alpha (DKW–Massart, valid for every F).  -> (L, where)"""
    import numpy as np

    F = cdf_fn(dist, ps)
    disc = dist in DISCRETE
    if kind == "h":
        vals = np.array([v for v, _ in payload], dtype=float)
        cum = np.cumsum([c for _, c in payload]) / float(n)
        prev = np.concatenate([[0.0], cum[:-1]])
        if disc:
            hi = F(vals)
            lo_left = F(vals - 1.0)
        else:
            d = np.abs(vals) * 1e-12
            hi = F(np.nextafter(vals + d, np.inf))
            lo_left = F(np.nextafter(vals - d, -np.inf))
        a = cum - hi            # F_n(v) - F(v)
        b = lo_left - prev      # F(v-) - F_n(v-)
    else:
        vals = np.array(payload, dtype=float)
        r = np.array(os_ranks(n, len(payload)), dtype=float)
        if disc:
            hi = F(vals)
            lo_left = F(vals - 1.0)
        else:
            d = np.abs(vals) * 1e-12
            hi = F(np.nextafter(vals + d, np.inf))
            lo_left = F(np.nextafter(vals - d, -np.inf))
        a = r / n - hi
        b = lo_left - (r - 1.0) / n
    ia, ib = int(np.argmax(a)), int(np.argmax(b))
    global LAST_SIDE      # "mass-at-or-below" (F_n above F at x) or "mass-at-or-above" (F_n below F just left of x)
    if a[ia] >= b[ib]:
        LAST_SIDE = "mass-at-or-below"
        return float(a[ia]), float(vals[ia])
    LAST_SIDE = "mass-at-or-above"
    return float(b[ib]), float(vals[ib])


# ----------------------------------------------------------------------------------------------- request lines
def s_line(dist, seed, n, ps):
    return "s %s %d %d %s" % (dist, seed, n, fmt_params(dist, ps))


def m_line(dist, seed, r, c, ps):
    return "m %s %d %d %d %s" % (dist, seed, r, c, fmt_params(dist, ps))


def q_line(dist, seed, n, k, ps):
    return "q %s %d %d %d %s" % (dist, seed, n, k, fmt_params(dist, ps))


NPARAMS = {"normal": 2, "gamma": 2, "beta": 2, "chi2": 1, "t": 1, "poisson": 1, "binomial": 2, "exp": 1, "gumbel": 2,
           "pareto": 2, "uniform": 2, "du": 2, "bern": 1}
MODES = {"u": "update", "f": "setters", "r": "setters-reversed"}


def h_line(mode, dist, seed, n, init, ps):
    return "h %s %s %d %d %s %s" % (mode, dist, seed, n, fmt_params(dist, init), fmt_params(dist, ps))


def hq_line(mode, dist, seed, n, k, init, ps):
    return "hq %s %s %d %d %d %s %s" % (mode, dist, seed, n, k, fmt_params(dist, init), fmt_params(dist, ps))


ROUTES = ["single", "twice", "clone", "default"]

# construction routes (op `c` / `cq`): how the object is obtained; `.clone` samples from a clone of it
CTOR_BASES = ["new", "default", "reset", "update", "default-setters", "default-update"]
# parameters of `X::default()` as written in the `impl Default` of each distribution (src/distributions/*.rs)
DEFAULTS = {"normal": [0.0, 1.0], "gamma": [1.0, 1.0], "beta": [1.0, 1.0], "chi2": [1], "t": [1.0], "poisson": [1.0],
            "binomial": [1, 0.5], "exp": [1.0], "gumbel": [0.0, 1.0], "pareto": [1.0, 1.0], "uniform": [0.0, 1.0], "du": [0, 1],
            "bern": [0.5]}


def c_line(ctor, dist, seed, n, ps):
    return "c %s %s %d %d %s" % (ctor, dist, seed, n, fmt_params(dist, ps))


def cq_line(ctor, dist, seed, n, k, ps):
    return "cq %s %s %d %d %d %s" % (ctor, dist, seed, n, k, fmt_params(dist, ps))


def r_line(route, dist, seed, n, ps):
    return "r %s %s %d %d %s" % (route, dist, seed, n, fmt_params(dist, ps))


def parse_line(line):
    t = line.split()
    op = t[0]
    if op in ("h", "hq"):
        # object history: constructed with `init`, brought to `ps` by update / setters; judged like a fresh object
        mode, dist = t[1], t[2]
        k = NPARAMS[dist]
        rest = t[5:] if op == "h" else t[6:]
        o = {"op": "s" if op == "h" else "q", "dist": dist, "seed": int(t[3]), "n": int(t[4]), "hist": mode,
             "init": parse_params(dist, rest[:k]), "ps": parse_params(dist, rest[k:])}
        if op == "hq":
            o["k"] = int(t[5])
        return o
    if op in ("c", "cq"):
        # construction route: judged like a `new(params)` object (for `default` the params are the documented defaults)
        o = {"op": "s" if op == "c" else "q", "ctor": t[1], "dist": t[2], "seed": int(t[3]), "n": int(t[4]),
             "ps": parse_params(t[2], t[5:] if op == "c" else t[6:])}
        if op == "cq":
            o["k"] = int(t[5])
        return o
    if op == "r":
        # peripheral route of the same object (single draws, two bulk calls, clone, Default + update): judged like `s`
        return {"op": "s", "route": t[1], "dist": t[2], "seed": int(t[3]), "n": int(t[4]), "ps": parse_params(t[2], t[5:])}
    if op == "mvns":
        o = parse_line("mvn " + " ".join(t[1:]))
        o["route"] = "single"
        return o
    if op == "s":
        return {"op": op, "dist": t[1], "seed": int(t[2]), "n": int(t[3]), "ps": parse_params(t[1], t[4:])}
    if op == "m":
        return {"op": op, "dist": t[1], "seed": int(t[2]), "r": int(t[3]), "c": int(t[4]), "ps": parse_params(t[1], t[5:])}
    if op == "q":
        return {"op": op, "dist": t[1], "seed": int(t[2]), "n": int(t[3]), "k": int(t[4]), "ps": parse_params(t[1], t[5:])}
    if op == "mvn":
        seed, n, d = int(t[1]), int(t[2]), int(t[3])
        mean = [h2f(x) for x in t[4:4 + d]]
        cr, cc = int(t[4 + d]), int(t[5 + d])
        cov = [h2f(x) for x in t[6 + d:6 + d + cr * cc]]
        return {"op": op, "seed": seed, "n": n, "d": d, "mean": mean, "cr": cr, "cc": cc, "cov": cov}
    if op == "qmvn":
        seed, n, d = int(t[1]), int(t[2]), int(t[3])
        mean = [h2f(x) for x in t[4:4 + d]]
        cov = [h2f(x) for x in t[4 + d:4 + d + d * d]]
        m = int(t[4 + d + d * d])
        return {"op": op, "seed": seed, "n": n, "d": d, "mean": mean, "cov": cov, "m": m, "k": int(t[-1])}
    raise ValueError(line)


def model_line(line):
    """Every request is two-sided (the summary lines `q`, `hq`, `cq`, `qmvn` too: the model driver draws the same long
    stream and prints the same summary + generator state).  An `h` line (object reached through update / setters) is, for the
    model, the fresh object with the target parameters: a distribution is a pure function of its current parameters
    (the C18 theorem), so a stale cached sub-sampler in the Rust code is a correspondence difference."""
    if line.startswith("hq ") or line.startswith("cq "):
        o = parse_line(line)              # summary of the stream of the fresh object with the target parameters
        return q_line(o["dist"], o["seed"], o["n"], o["k"], o["ps"])
    if line.startswith("q ") or line.startswith("qmvn "):
        return line                       # the model driver computes the same summary from its own stream
    if line.startswith("h ") or line.startswith("r ") or line.startswith("c "):
        o = parse_line(line)
        return s_line(o["dist"], o["seed"], o["n"], o["ps"])
    if line.startswith("mvns "):
        return "mvn " + line[5:]       # n calls of MVN::sample() = the model of sample_n
    return line


def cases(rng, tier):
    """-> list of (dist, params): fixed regime grid + random parameters inside each regime"""
    U, LU = rng.uniform, rng.loguniform
    cs = []
    # normal
    cs += [("normal", [0.0, 1.0]), ("normal", [U(-50, 50), LU(1e-3, 1e3)]), ("normal", [3.0, 0.0])]
    # gamma: shape regimes x rates
    for a in [0.01, 0.1, LU(0.02, 0.33), 1.0 / 3.0, 0.3333333333333333, LU(0.34, 0.999), 0.5, 0.9999999999999999,
              1.0, LU(1.0, 3.0), 2.0, LU(3.0, 100.0), 1e4]:
        cs.append(("gamma", [a, rng.choice([0.5, 1.0, LU(1e-2, 1e2)])]))
    # beta: pairs over the three gamma regimes
    for a, b in [(0.2, 0.25), (0.5, 0.5), (1.0, 1.0), (2.0, 5.0), (0.9, 30.0), (50.0, 0.7), (0.05, 0.05),
                 (LU(0.05, 0.33), LU(1.0, 20.0)), (LU(0.34, 1.0), LU(0.34, 1.0)), (LU(1.0, 50.0), LU(1.0, 50.0))]:
        cs.append(("beta", [a, b]))
    # chi-squared: dof 1 is shape 1/2, dof 2 is shape 1
    for k in [1, 2, 3, rng.randint(4, 60), 500]:
        cs.append(("chi2", [k]))
    # t: dof/2 through the gamma regimes
    for v in [0.3, LU(0.1, 0.66), 1.0, LU(0.67, 2.0), 2.0, LU(2.0, 30.0), 1000.0]:
        cs.append(("t", [v]))
    # poisson
    for lam in [0.01, 1.0, U(1, 9.9), 9.999999999999998, 10.0, U(10, 30), U(30, 149), 149.99, 150.0, U(150, 1000), 1e4, 1e6]:
        cs.append(("poisson", [lam]))
    # binomial
    for n, p in [(1, 0.5), (10, 0.3), (20, 0.97), (100, 0.3), (100, 0.31), (1000, 0.5), (10 ** 4, 0.8), (10 ** 6, 0.4),
                 (50, 1e-3), (10 ** 9, 1e-8), (5, 0.0), (5, 1.0), (0, 0.3), (7, 1.0 - 2.0 ** -53),
                 (rng.randint(1, 60), U(0.01, 0.5)), (rng.randint(61, 5000), U(0.5, 0.99)),
                 (rng.randint(61, 5000), U(0.05, 0.5)), (rng.randint(10 ** 4, 10 ** 7), LU(1e-6, 1e-3)),
                 (2 ** 31 + rng.randint(0, 1000), 0.5)]:
        cs.append(("binomial", [n, p]))
    # inverse-CDF samplers
    for lam in [1.0, LU(1e-3, 1e3)]:
        cs.append(("exp", [lam]))
    for mu, b in [(0.0, 1.0), (U(-10, 10), LU(1e-2, 1e2))]:
        cs.append(("gumbel", [mu, b]))
    for a, m in [(1.0, 1.0), (0.5, 2.0), (LU(0.2, 50), LU(1e-2, 1e2))]:
        cs.append(("pareto", [a, m]))
    a = U(-100, 100)
    for lo, hi in [(0.0, 1.0), (a, a + LU(1e-3, 1e3)), (2.0, 2.0)]:
        cs.append(("uniform", [lo, hi]))
    b = rng.randint(-1000, 1000)
    for lo, hi in [(0, 1), (b, b + rng.randint(1, 50)), (-(10 ** 6), 10 ** 6), (5, 5), (b, b)]:
        cs.append(("du", [lo, hi]))
    for p in [0.5, 0.0, 1.0, U(0.001, 0.999), 1e-9]:
        cs.append(("bern", [p]))
    return cs


def histories(rng, tier):
    """-> list of (dist, init params, target params): both valid, different, crossing the algorithm regimes; for the
    two-bound laws the initial interval contains the target one so that every setter order passes the bound checks"""
    U, LU = rng.uniform, rng.loguniform
    a = U(-500, 500)
    w = LU(1e-2, 400)
    b = rng.randint(-900, 800)
    hs = [
        ("normal", [0.0, 1.0], [U(-50, 50), LU(1e-2, 1e2)]),
        ("gamma", [0.5, 2.0], [LU(1.0, 20.0), LU(0.1, 10.0)]), ("gamma", [5.0, 1.0], [LU(0.05, 0.9), LU(0.1, 10.0)]),
        ("beta", [2.0, 2.0], [2.0, 5.0]), ("beta", [6.0, 1.0], [LU(0.1, 0.9), LU(1.0, 10.0)]), ("beta", [1.0, 1.0], [4.0, 3.0]),
        ("chi2", [1], [rng.randint(2, 40)]), ("chi2", [10], [1]),
        ("t", [1.0], [LU(2.0, 30.0)]), ("t", [30.0], [LU(0.2, 1.9)]),
        ("poisson", [1.0], [U(10, 400)]), ("poisson", [200.0], [U(0.1, 9.9)]),
        ("binomial", [10, 0.3], [rng.randint(200, 5000), U(0.55, 0.95)]), ("binomial", [1000, 0.5], [rng.randint(1, 60), U(0.01, 0.45)]),
        ("exp", [1.0], [LU(1e-3, 1e3)]),
        ("gumbel", [0.0, 1.0], [U(-10, 10), LU(1e-2, 1e2)]),
        ("pareto", [1.0, 1.0], [LU(0.3, 30), LU(1e-2, 1e2)]),
        ("uniform", [-1000.0, 1000.0], [a, a + w]), ("uniform", [-1000.0, 1000.0], [a, a]),
        ("du", [-1000, 1000], [b, b + rng.randint(1, 100)]), ("du", [-1000, 1000], [b, b]),
        ("bern", [0.5], [U(0.01, 0.99)]), ("bern", [0.0], [U(0.01, 0.99)]),
    ]
    return hs


def _up(x):
    return math.nextafter(x, math.inf)


def _dn(x):
    return math.nextafter(x, -math.inf)


FMAX = 1.7976931348623157e308
TIE_ONLY = "tie-only"     # parameters at which the f64 draws are too coarse for the continuous CDF comparison


def special_cases():
    """Exact special values and threshold bands (GENERIC_STRATA 1, 3): just below / at / just above every constant the
    sampler code branches on (gamma shape 1 and the historical 1/3, Poisson rate 10 and the factorial limit 150..171,
    binomial n*p' = 30, p = 1/2, |p - 1| <= 2^-52, BTPE n*p*q = 42 (step 5.0: k < nrq/2 - 1 with k > 20), t dof 30 and 2,
    Uniform width = f64::MAX, Bernoulli p in {0, 1}), integers, half-integers, 1/3, 2/3, powers of two and their
    neighbours, tiny and huge magnitudes.  -> list of (dist, params, flag)"""
    cs = []

    def add(dist, ps, flag=None):
        cs.append((dist, ps, flag))

    third = 1.0 / 3.0
    for a in [_dn(1.0), 1.0, _up(1.0), _dn(third), third, _up(third), 2.0 / 3.0, 0.5, 1.5, 2.5, 2.0, 3.0, 4.0, 10.0, 0.25, 64.0]:
        add("gamma", [a, 1.0])
    for a, b in [(2.0, 0.5), (0.5, 2.0), (3.0, 1e-300), (0.5, 1e300), (1.0, 2.0 ** -1000), (2.5, 2.0 ** 1000)]:
        add("gamma", [a, b])
    for a, b in [(_dn(1.0), 1.0), (1.0, _up(1.0)), (_up(1.0), _dn(1.0)), (1.0, 2.0), (2.0, 1.0), (3.0, 3.0), (0.5, 1.0), (1.0, 0.5),
                 (1.5, 2.5), (third, 2.0 / 3.0), (2.0, 2.0), (10.0, 10.0), (_dn(third), _up(third)), (4.0, 0.25), (1.0, 171.0),
                 (100.0, 100.0)]:
        add("beta", [a, b])
    for k in [1, 2, 3, 4, 5, 8, 59, 60, 61, 64, 1023, 1024]:
        add("chi2", [k])
    for v in [0.5, 1.0, 1.5, _dn(2.0), 2.0, _up(2.0), 3.0, 4.0, 2.0 / 3.0, 29.0, _dn(30.0), 30.0, _up(30.0), 31.0, 60.0, 100.0, 2.0 ** 20]:
        add("t", [v])
    for lam in [0.5, 1.0, 1.5, 2.0, 3.0, 5.0, 9.0, _dn(10.0), 10.0, _up(10.0), 11.0, 16.0, 100.0, 128.0, 149.0, _dn(150.0), 150.0,
                _up(150.0), 151.0, 170.0, 171.0, 172.0, 1024.0, 2.0 ** 20, 1e-300, 2.0 ** -1022]:
        add("poisson", [lam])
    for n in [1, 2, 3, 31, 32, 33, 59, 60, 61, 62, 63, 64, 65, 167, 168, 169, 170, 172, 1000, 1023, 1024, 1025]:
        add("binomial", [n, 0.5])
    for n, p in [(199, 0.3), (200, 0.3), (201, 0.3), (200, 0.7), (120, 0.25), (121, 0.25), (119, 0.25), (100, 0.3), (300, 0.1),
                 (301, 0.1), (60, _dn(0.5)), (60, _up(0.5)), (61, _up(0.5)), (61, _dn(0.5)), (50, 1.0 - 2.0 ** -52),
                 (50, 1.0 - 2.0 ** -51), (50, 1.0 - 2.0 ** -50), (10, 5e-324), (10, 2.0 ** -53), (1000, third), (1000, 2.0 / 3.0),
                 (30, 0.25), (1023, 0.01), (1025, 0.9), (2 ** 20, 2.0 ** -16), (2 ** 32, 2.0 ** -30), (2 ** 53 + 2, 1e-15),
                 (1, 0.25), (1, 0.75), (2, _dn(1.0))]:
        add("binomial", [n, p])
    for mu, sg in [(0.0, 1.0), (-0.0, 1.0), (1.0, 2.0), (0.5, 0.5), (1e300, 1e299), (1e-300, 1e-300), (2.0 ** 60, 1.0), (0.0, -0.0),
                   (-3.0, 2.0 ** -1000), (7.0, 2.0 ** 1000)]:
        add("normal", [mu, sg])
    add("normal", [0.0, 5e-324], TIE_ONLY)
    add("normal", [1.0, 2.0 ** -1060], TIE_ONLY)
    for lam in [0.5, 1.0, 2.0, third, 1e-300, 1e300, 2.0 ** -1000, 2.0 ** 1000]:
        add("exp", [lam])
    for mu, b in [(0.0, 1.0), (-0.0, 0.5), (1.0, 2.0), (1e300, 1e300), (0.0, 1e-300), (-2.0 ** 1000, 2.0 ** 1000)]:
        add("gumbel", [mu, b])
    for a, m in [(1.0, 1.0), (2.0, 1.0), (0.5, 1.0), (3.0, 1e-300), (50.0, 1e300), (1.0, 2.0 ** -1000), (third, 2.0), (1.0, 0.5)]:
        add("pareto", [a, m])
    for lo, hi in [(0.0, 1.0), (-0.0, 0.0), (-1.0, 1.0), (1.0, _up(1.0)), (0.0, 5e-324), (-1e308, 1e308), (-1.5e308, 1.2e308),
                   (-FMAX, FMAX), (-FMAX, 1e300), (-FMAX / 2, FMAX / 2), (_dn(-FMAX / 2), FMAX / 2), (-8e307, 8e307),
                   (1e308, 1.7e308), (-FMAX, -FMAX), (FMAX, FMAX), (0.0, FMAX), (-FMAX, 0.0), (0.5, 1.5), (2.0 ** 52, 2.0 ** 53)]:
        add("uniform", [lo, hi], TIE_ONLY if (lo, hi) in ((1.0, _up(1.0)), (0.0, 5e-324)) else None)
    for k in [1, 2, 3, 8, 16, 32, 53, 62]:
        for hi in [2 ** k - 2, 2 ** k - 1, 2 ** k]:
            if hi >= 1:
                add("du", [0, hi])
    for lo, hi in [(-1, 1), (-1, 0), (-2 ** 62, 2 ** 62 - 2), (-(2 ** 63), -(2 ** 63) + 5), (2 ** 63 - 7, 2 ** 63 - 2), (-(2 ** 63), -2),
                   (2 ** 53, 2 ** 53 + 3)]:
        # a narrow range far from 0 is not representable in the f64 output type: the cast merges neighbours
        add("du", [lo, hi], TIE_ONLY if max(abs(lo), abs(hi)) > 2 ** 53 and hi - lo < 2 ** 40 else None)
    for p in [0.5, 0.25, 0.75, third, 2.0 ** -53, 1.0 - 2.0 ** -53, _dn(1.0), 5e-324, 2.0 ** -1022]:
        add("bern", [p])
    return cs


BULK_SMALL = [0, 1, 2, 3, 4, 5, 7, 8, 9, 15, 16, 17, 31, 32, 33, 63, 64, 65, 127, 128, 129, 255, 256, 257, 511, 512, 513,
              1023, 1024, 1025, 2047, 2048, 2049, 4095, 4096, 4097]
BULK_BIG = [32767, 32768, 32769, 65535, 65536, 65537]
BULK_DISTS = [("normal", [1.0, 2.0]), ("gamma", [0.7, 1.5]), ("poisson", [25.0]), ("binomial", [300, 0.4]), ("beta", [2.0, 3.0]),
              ("exp", [2.0]), ("uniform", [-1.0, 3.0]), ("du", [-5, 20]), ("t", [4.0])]
SHAPES_SMALL = [(1, 1), (1, 2), (2, 1), (1, 33), (33, 1), (3, 5), (5, 3), (7, 64), (64, 7), (31, 33), (33, 31), (8, 8), (9, 9), (16, 17),
                (17, 16), (1, 1025), (1025, 1), (32, 32), (33, 33), (0, 0), (0, 5), (5, 0)]
SHAPES_BIG = [(128, 512), (512, 128), (256, 256), (255, 257), (1, 65537), (65537, 1), (181, 181), (32768, 2), (2, 32768), (3, 21846)]


def special_covs(rng, d):
    """-> [(label, mean, cov)] exact special covariances in dimension d (row-major lists, exactly symmetric)"""
    import numpy as np

    out = []
    eye = np.eye(d)
    out.append(("identity", [0.0] * d, eye))
    out.append(("diagonal", [float(i) for i in range(d)], np.diag([2.0 ** (i - 2) for i in range(d)])))
    if d >= 2:
        c = np.full((d, d), 0.9) + 0.1 * eye          # strongly correlated, exactly representable pattern
        out.append(("equicorrelated", [1.0] * d, c))
        t = eye * 2.0                                   # tridiagonal: far from symmetric under L <-> L^T
        for i in range(d - 1):
            t[i, i + 1] = t[i + 1, i] = -1.0
        t[0, 0] = 4.0
        out.append(("tridiagonal", [-1.0] * d, t))
    if d == 2:
        out.append(("[[4,1.5],[1.5,1]]", [0.0, 0.0], np.array([[4.0, 1.5], [1.5, 1.0]])))
    return [(lab, m, [float(x) for x in np.asarray(c).reshape(-1)]) for lab, m, c in out]


def strata(rng, tier, count):
    """GENERIC_STRATA pass: special values / thresholds, size boundaries of the bulk routes, peripheral routes, exact
    power-of-two scale equivariance."""
    lines = []
    quick = tier == "quick"
    nq = 100000 if quick else 1000000
    kq = KQ if quick else KQ_THOROUGH
    # 1 + 3: special values and threshold bands: a 300-draw tie line each (two seeds in thorough), a route line for a
    # rotating quarter, and the DKW summary
    sp = special_cases()
    for j, (dist, ps, flag) in enumerate(sp):
        assert valid(dist, ps), (dist, ps)
        rg = regime(dist, ps)
        for _ in range(1 if quick else 3):
            lines.append(s_line(dist, rng.u64(), 300, ps))
            count("special:s:%s:%s" % (dist, rg))
        if j % 4 == rng.randint(0, 3) or not quick:
            route = ROUTES[j % 4]
            if route == "default" and any(isinstance(x, int) and abs(x) > 2 ** 53 for x in ps):
                route = "clone"          # `update` takes f64 parameters: integers beyond 2^53 do not survive that route
            lines.append(r_line(route, dist, rng.u64(), 200, ps))
            count("special:route:%s" % route)
        qpar = rng.randint(0, 1)
        if flag != TIE_ONLY and regime(dist, ps) != "range>=2^63" and (not quick or j % 2 == qpar):
            lines.append(q_line(dist, rng.u64(), nq, kq, ps))
            count("special:q:%s:%s" % (dist, rg))
    # 2: size boundaries of sample_n / sample_matrix
    for j, n in enumerate(BULK_SMALL):
        ds = [BULK_DISTS[(j + k) % len(BULK_DISTS)] for k in range(2 if quick else len(BULK_DISTS))]
        for dist, ps in ds:
            lines.append(s_line(dist, rng.u64(), n, ps))
            count("bulk:sample_n:small")
    for j, n in enumerate(BULK_BIG):
        ds = BULK_DISTS[:3]
        for k, (dist, ps) in enumerate(ds):
            if not quick or k == j % 3:
                lines.append(s_line(dist, rng.u64(), n, ps))      # tie on the bulk route
                count("bulk:sample_n:%d" % n)
            lines.append(q_line(dist, rng.u64(), n, kq, ps))       # count + DKW on the bulk route
            count("bulk:q:%d" % n)
    for j, (r, c) in enumerate(SHAPES_SMALL):
        dist, ps = BULK_DISTS[j % len(BULK_DISTS)]
        lines.append(m_line(dist, rng.u64(), r, c, ps))
        count("bulk:sample_matrix:small")
    for j, (r, c) in enumerate(SHAPES_BIG):
        if not quick or j % 5 == rng.randint(0, 4):
            dist, ps = BULK_DISTS[j % 3]
            lines.append(m_line(dist, rng.u64(), r, c, ps))
            count("bulk:sample_matrix:big")
    # 4: peripheral routes of the same object, every distribution x every route
    cs = cases(rng.fork("routes"), tier)
    by = {}
    for dist, ps in cs:
        if regime(dist, ps) not in ("degenerate",) and not (dist == "du" and abs(ps[0]) > 2 ** 52):
            by.setdefault(dist, []).append(ps)
    for dist in sorted(by):
        for route in ROUTES:
            for _ in range(1 if quick else 3):
                ps = rng.choice(by[dist])
                lines.append(r_line(route, dist, rng.u64(), rng.choice([1, 2, 3, 100, 500, 1000]), ps))
                count("route:%s:%s" % (dist, route))
    # 5: exact scale equivariance (pairs of lines with the same seed; checked bit for bit by oracle_scale)
    U, LU = rng.uniform, rng.loguniform
    bases = [("normal", [U(-5, 5), LU(0.1, 10)]), ("uniform", [U(-5, 0), U(0.1, 5)]), ("gumbel", [U(-5, 5), LU(0.1, 10)]),
             ("exp", [LU(0.1, 10)]), ("pareto", [LU(0.5, 5), LU(0.1, 10)]), ("gamma", [LU(0.2, 5), LU(0.1, 10)]),
             ("gamma", [0.5, 1.0]), ("normal", [0.0, 1.0])]
    for dist, ps in bases:
        seed = rng.u64()
        lines.append(s_line(dist, seed, 400, ps))
        ks = SCALE_KS if not quick else [rng.choice(SCALE_KS[:4]), rng.choice(SCALE_KS[4:8]), rng.choice(SCALE_KS[8:])]
        for k in ks:
            lines.append(s_line(dist, seed, 400, scaled_params(dist, ps, k)))
            count("scale:%s" % dist)
    # MVN: sample_n vs repeated sample, size boundaries, special covariances, scale pairs
    for d in range(1, 7):
        covs = special_covs(rng, d)
        m0, c0 = spd(rng, d)
        covs.append(("random", m0, c0))
        for j, (lab, mean, cov) in enumerate(covs):
            ns = [1, 2, 3, 31, 32, 33, 64, 65, 257] if not quick else [rng.choice([1, 2, 3]), rng.choice([31, 32, 33, 64, 65, 257])]
            for n in ns:
                seed = rng.u64()
                lines.append(mvn_line(seed, n, mean, cov))
                lines.append("mvns" + mvn_line(rng.u64(), n, mean, cov)[3:])
                count("mvn:%s:bulk+single" % lab)
            if d >= 2 and lab in ("tridiagonal", "[[4,1.5],[1.5,1]]", "equicorrelated") and (not quick or (d + j) % 2 == 0):
                lines.append(qmvn_line(rng, rng.u64(), nq, mean, cov, kq))
                count("qmvn:%s" % lab)
        # scale pair
        seed = rng.u64()
        k = rng.choice([1, -1, 3, -7, 40, -40])
        f = math.ldexp(1.0, k)
        lines.append(mvn_line(seed, 50, m0, c0))
        lines.append(mvn_line(seed, 50, [x * f for x in m0], [x * f * f for x in c0]))
        count("scale:mvn")
    return lines


def ctor_routes(rng, tier, count):
    """CONSTRUCTION-ROUTE stratum: every distribution, the object obtained by `default()`, `new`, `new` + setters to the same
    values, `new` + `update`, `default()` + setters / update, and a clone of each.  All lines of one (distribution,
    parameters) group share the seed: the model side is `new(params)` (`default` = `new` with the default parameters), the
    oracle twin-compares every route with the `new` line and applies the DKW criterion to the law of the reported
    parameters."""
    lines = []
    quick = tier == "quick"
    nq = 100000 if quick else 1000000
    kq = KQ if quick else KQ_THOROUGH
    others = {}
    for dist, ps in cases(rng.fork("targets"), tier):
        if regime(dist, ps) != "degenerate" and ps != DEFAULTS[dist] and not (dist == "binomial" and ps[0] > 2 ** 53):
            others.setdefault(dist, []).append(ps)
    for j, dist in enumerate(sorted(DEFAULTS)):
        groups = [(DEFAULTS[dist], CTOR_BASES), (rng.choice(others[dist]), [b for b in CTOR_BASES if b != "default"])]
        if not quick:
            groups.append((rng.choice(others[dist]), [b for b in CTOR_BASES if b != "default"]))
        for gi, (ps, bases) in enumerate(groups):
            seed = rng.u64()
            n = rng.choice([200, 300, 500])
            ctors = [b + sfx for b in bases for sfx in ("", ".clone")]
            for ctor in ctors:
                lines.append(c_line(ctor, dist, seed, n, ps))
                count("ctor:%s:%s" % (dist, ctor))
            # DKW: the default object and its clone always; one more rotating route (all of them in thorough)
            qs = ["default", "default.clone"] if gi == 0 else []
            rest = [c for c in ctors if c not in qs and c != "new"]
            qs += rest if not quick else [rest[(j + gi) % len(rest)]]
            for ctor in qs:
                lines.append(cq_line(ctor, dist, rng.u64(), nq, kq, ps))
                count("ctor-dkw:%s:%s" % (dist, ctor))
    return lines


COV_SCALE_DOWN = [0, 40, 80, 112, 200, 500, 900]      # covariance multiplied by 2^-k (the factor L by 2^-(k/2), exactly)
COV_SCALE_UP = [100, 400]


def mvn_scales(rng, tier, count, kq):
    """MVN sampling over covariance SCALES: the same well-conditioned SPD shapes (dimension 1..5) multiplied by 2^-k / 2^+k,
    mixed-scale diagonals, means 0 / ordinary / huge.  Every group shares its seed and contains the identity-covariance
    zero-mean line, so that the oracle knows the standard-normal draws z (oracle_mvn_rows), and the zero-mean lines are
    power-of-four multiples of each other (oracle_scale: exact scale equivariance)."""
    import numpy as np

    lines = []
    quick = tier == "quick"
    nq = 100000 if quick else 1000000

    def group(d, base, extra_covs, tag):
        seed = rng.u64()
        n = rng.choice([3, 17, 40])
        zero = [0.0] * d
        ident = [1.0 if a == b else 0.0 for a in range(d) for b in range(d)]
        lines.append(mvn_line(seed, n, zero, ident))
        count("mvn-scale:reference")
        downs = COV_SCALE_DOWN if not quick else [0, rng.choice([40, 80]), rng.choice([112, 200]), rng.choice([500, 900])]
        ups = COV_SCALE_UP if not quick else [rng.choice(COV_SCALE_UP)]
        for k in [-x for x in downs] + ups:
            cov = [x * math.ldexp(1.0, k) for x in base]
            lines.append(mvn_line(seed, n, zero, cov))
            count("mvn-scale:%s:2^%d" % (tag, k))
            if k in (-112, -500, 400) or not quick:
                mean = [rng.uniform(-10, 10) for _ in range(d)] if rng.chance(0.5) else \
                    [rng.choice([1e300, -1e300, 2.0 ** 600, 1.0]) for _ in range(d)]
                lines.append(mvn_line(seed, n, mean, cov))
                lines.append("mvns" + mvn_line(seed, n, mean, cov)[3:])
                count("mvn-scale:%s:mean" % tag)
        for cov in extra_covs:
            lines.append(mvn_line(seed, n, zero, cov))
            lines.append(mvn_line(seed, n, [rng.uniform(-10, 10) for _ in range(d)], cov))
            count("mvn-scale:mixed-diagonal")

    for d in range(1, 6):
        bases = [(lab, cov) for lab, _, cov in special_covs(rng, d) if lab in ("equicorrelated", "tridiagonal", "[[4,1.5],[1.5,1]]")]
        if d == 1:
            bases = [("[4]", [4.0])]
        _, c0 = spd(rng, d)
        bases.append(("random", c0))
        if quick:
            bases = [bases[rng.randint(0, len(bases) - 1)], bases[-1]]
        for j, (lab, base) in enumerate(bases):
            extra = []
            if j == 0 and d == 2:
                extra = [[1.0, 0.0, 0.0, 1e-36], [4e-34, 1e-34, 1e-34, 1e-34], [1e-36, 0.0, 0.0, 1.0]]
            if j == 0 and d == 3:
                extra = [[1e-33, 0.0, 0.0, 0.0, 1.0, 0.0, 0.0, 0.0, 1e10], [2.0, 1e-17, 0.0, 1e-17, 1e-33, 0.0, 0.0, 0.0, 3.0]]
            group(d, base, extra, lab)
    # whitened coordinates + projections at extreme scales (DKW): the law must not depend on the scale
    qs = [(2, [4e-34, 1e-34, 1e-34, 1e-34]), (2, [1.0, 0.0, 0.0, 1e-36]), (3, [1e-33, 0.0, 0.0, 0.0, 1.0, 0.0, 0.0, 0.0, 1e10])]
    for d in (2, 3, 5):
        base = [c for lab, _, c in special_covs(rng, d) if lab == "tridiagonal"][0]
        for k in ([-112, -900, 400] if not quick else [rng.choice([-112, -500, -900, 400])]):
            qs.append((d, [x * math.ldexp(1.0, k) for x in base]))
    for d, cov in qs:
        lines.append(qmvn_line(rng, rng.u64(), nq, [0.0] * d, cov, kq))
        count("qmvn-scale")
    return lines


INVALID = [("normal", [0.0, -1.0]), ("gamma", [0.0, 1.0]), ("gamma", [1.0, -2.0]), ("beta", [-1.0, 1.0]), ("beta", [1.0, 0.0]),
           ("chi2", [0]), ("t", [0.0]), ("t", [-3.0]), ("poisson", [0.0]), ("poisson", [-1.0]), ("binomial", [5, 1.5]),
           ("binomial", [5, -0.1]), ("exp", [0.0]), ("gumbel", [0.0, 0.0]), ("pareto", [1.0, 0.0]), ("pareto", [-1.0, 1.0]),
           ("uniform", [2.0, 1.0]), ("du", [3, 2]), ("bern", [1.5]), ("bern", [-0.5])]


def spd(rng, d):
    """random exactly symmetric positive definite matrix (row-major list) and a mean"""
    import numpy as np

    a = np.array([[rng.normal() for _ in range(d)] for _ in range(d)])
    sc = np.array([rng.loguniform(0.1, 10.0) for _ in range(d)])
    c = a @ a.T + 0.5 * np.eye(d)
    c = c * np.outer(sc, sc)
    c = np.triu(c) + np.triu(c, 1).T
    mean = [rng.uniform(-10, 10) for _ in range(d)]
    return mean, [float(x) for x in c.reshape(-1)]


def mvn_line(seed, n, mean, cov):
    d = len(mean)
    return "mvn %d %d %d %s %d %d %s" % (seed, n, d, " ".join(f2h(x) for x in mean), d, d, " ".join(f2h(x) for x in cov))


def qmvn_line(rng, seed, n, mean, cov, k):
    import numpy as np

    d = len(mean)
    c = np.array(cov).reshape(d, d)
    mu = np.array(mean)
    li = np.linalg.inv(np.linalg.cholesky(c))
    fs = [li[i] for i in range(d)]                      # whitened coordinates
    for _ in range(16):                                 # random projections, unit variance
        a = np.array([rng.normal() for _ in range(d)])
        fs.append(a / math.sqrt(float(a @ c @ a)))
    parts = []
    for w in fs:
        parts.append(" ".join(f2h(float(x)) for x in w) + " " + f2h(float(-(w @ mu))))
    return "qmvn %d %d %d %s %s %d %s %d" % (seed, n, d, " ".join(f2h(x) for x in mean), " ".join(f2h(x) for x in cov),
                                             len(fs), " ".join(parts), k)


KQ = 2000            # recorded order statistics per DKW line (quick); the bound computed from them can be below the true
KQ_THOROUGH = 8000   # sup-distance by at most 1/K (5e-4 quick = 6 % of the band; 1.25e-4 thorough = 6.5 % of the n = 4e6 band)


def corpus():
    F = f2h
    return [
        # F20 (fixed): gamma with shape < 1/3 took sqrt of a negative number and never returned; shape < 1 had the wrong law
        q_line("gamma", 20, 50000, KQ, [0.2, 1.0]), q_line("gamma", 20, 50000, KQ, [0.6, 2.0]),
        q_line("beta", 20, 50000, KQ, [0.25, 0.5]), q_line("chi2", 20, 50000, KQ, [1]), q_line("t", 20, 50000, KQ, [0.5]),
        s_line("gamma", 20, 50, [0.2, 1.0]),
        # F04 (fixed): PTRS overflowed the factorial from k = 171 on
        q_line("poisson", 4, 50000, KQ, [200.0]), q_line("poisson", 4, 50000, KQ, [1000.0]),
        # F22 (fixed): DiscreteUniform with equal bounds panicked
        s_line("du", 22, 5, [4, 4]), q_line("du", 22, 1000, KQ, [-3, -3]),
        # degenerate laws
        s_line("uniform", 1, 5, [2.0, 2.0]), s_line("bern", 1, 5, [1.0]), s_line("binomial", 1, 5, [0, 0.5]),
        s_line("normal", 1, 5, [1.0, 0.0]),
        # bulk shapes
        m_line("normal", 1, 0, 3, [0.0, 1.0]), m_line("normal", 1, 3, 0, [0.0, 1.0]), m_line("exp", 1, 1, 1, [1.0]),
        "mvn 1 0 1 %s 1 1 %s" % (F(0.0), F(1.0)),
        # constructor guards
        "mvn 1 2 2 %s %s 2 2 %s" % (F(0.0), F(0.0), " ".join(F(x) for x in [1.0, 0.5, 0.25, 1.0])),   # not symmetric
        "mvn 1 2 2 %s %s 2 2 %s" % (F(0.0), F(0.0), " ".join(F(x) for x in [1.0, 2.0, 2.0, 1.0])),    # not positive definite
        "mvn 1 2 1 %s 2 2 %s" % (F(0.0), " ".join(F(x) for x in [1.0, 0.0, 0.0, 1.0])),               # dimension mismatch
        # F41 (fixed): binomial with n >= 2^31 on the inversion route: `(1-p).powi(n as i32)` wrapped n (every draw was 0)
        q_line("binomial", 31, 20000, KQ, [3 * 10 ** 9, 1e-9]),
        s_line("binomial", 31, 20, [2 ** 32 + 5, 1e-10]),
        # F43 (fixed): Beta with tiny shapes returned NaN when both gamma variates underflowed to 0
        q_line("beta", 7, 50000, KQ, [0.002, 0.002]), s_line("beta", 7, 200, [0.002, 0.002]),
        q_line("beta", 7, 50000, KQ, [0.004, 0.001]),
        # F44 (fixed): Uniform whose width overflows returned +inf
        q_line("uniform", 7, 50000, KQ, [-1e308, 1e308]), s_line("uniform", 7, 20, [-1e308, 1e308]),
        # F45 (fixed): binomial inversion formed n + 1 in u64
        s_line("binomial", 7, 5, [2 ** 64 - 1, 1e-19]), s_line("binomial", 7, 50, [2 ** 64 - 1, 1e-18]),
        # F46 (fixed): 1 - p rounds to 1 for p < 2^-53, every draw was 0
        q_line("binomial", 7, 50000, KQ, [2 ** 64 - 1, 1e-19]), q_line("binomial", 7, 50000, KQ, [10 ** 17, 1e-17]),
        # seeded change C03b: Beta::set_beta updated the cached gamma generator's rate instead of its shape; F32 (fixed):
        # ChiSquared::set_dof kept the old gamma sampler.  Objects reached through setters / update must sample the target law
        hq_line("f", "beta", 18, 50000, KQ, [2.0, 2.0], [2.0, 5.0]), hq_line("u", "beta", 18, 50000, KQ, [1.0, 1.0], [4.0, 3.0]),
        hq_line("r", "beta", 18, 50000, KQ, [6.0, 1.0], [1.0, 2.0]), h_line("f", "beta", 18, 50, [2.0, 2.0], [2.0, 5.0]),
        hq_line("f", "chi2", 18, 50000, KQ, [1], [7]), hq_line("u", "chi2", 18, 50000, KQ, [9], [2]),
        h_line("u", "gamma", 18, 50, [0.5, 2.0], [3.0, 0.25]), h_line("r", "binomial", 18, 50, [10, 0.3], [2000, 0.9]),
        # seeded change C03k: `ChiSquared::default()` embedded `Gamma::default()` = Exp(1) instead of Gamma(1/2, rate 1/2)
        cq_line("default", "chi2", 11, 50000, KQ, [1]), cq_line("default.clone", "chi2", 11, 50000, KQ, [1]),
        c_line("new", "chi2", 11, 50, [1]), c_line("default", "chi2", 11, 50, [1]),
        cq_line("default", "beta", 11, 50000, KQ, [1.0, 1.0]), cq_line("default", "t", 11, 50000, KQ, [1.0]),
        # F53 (fixed): the uniform draw is exactly 0 at these states; Exponential / Pareto / Gumbel returned +inf / +inf / -inf
        s_line("exp", ZERO_SEEDS[0], 3, [1.0]), s_line("pareto", ZERO_SEEDS[0], 3, [2.0, 1.0]), s_line("gumbel", ZERO_SEEDS[0], 3, [0.0, 1.0]),
        s_line("exp", ZERO_SEEDS[2], 5, [1.0]), s_line("pareto", ZERO_SEEDS[1], 5, [2.0, 1.0]), s_line("gumbel", ZERO_SEEDS[3], 5, [0.0, 1.0]),
        r_line("single", "exp", ZERO_SEEDS[0], 3, [0.5]), c_line("default", "exp", ZERO_SEEDS[0], 3, [1.0]),
        c_line("new", "exp", ZERO_SEEDS[0], 3, [1.0]),
        # T::new(5e-324) is accepted (dof > 0) but `Gamma::new(dof / 2., 1.)` inside sample() panics: dof / 2 rounds to 0
        s_line("t", 1, 3, [5e-324]),
        # seeded change C03u: a `temp.abs() < EPSILON => skip` shortcut in matmul made every MVN coordinate whose Cholesky row is
        # below 2.2e-16 exactly equal to its mean.  Identity reference first (gives z), then tiny / mixed-scale covariances
        mvn_line(9, 8, [0.0, 0.0], [1.0, 0.0, 0.0, 1.0]), mvn_line(9, 8, [0.0, 0.0], [4e-34, 1e-34, 1e-34, 1e-34]),
        mvn_line(9, 8, [3.0, -2.0], [1.0, 0.0, 0.0, 1e-36]), mvn_line(9, 8, [0.0, 0.0], [4.0 * 2.0 ** -200, 2.0 ** -200, 2.0 ** -200, 2.0 ** -200]),
        mvn_line(9, 8, [0.0, 0.0], [4.0, 1.0, 1.0, 1.0]),
        # open finding du:panic:range>=2^63 (dependency alea: hi + 1 - lo overflows i64)
        s_line("du", 7, 5, [0, I64MAX]), s_line("du", 7, 5, [-2 ** 62, 2 ** 62]),
    ]


def gen(rng, tier):
    lines = []
    cover = {}

    def count(key):
        cover[key] = cover.get(key, 0) + 1

    nseeds = 5 if tier == "quick" else 20
    nq = 200000 if tier == "quick" else 4000000
    kq = KQ if tier == "quick" else KQ_THOROUGH
    qseeds = 1 if tier == "quick" else 2
    cs = cases(rng.fork("cases"), tier)
    if tier != "quick":
        cs += cases(rng.fork("cases2"), tier)
    for dist, ps in cs:
        rg = regime(dist, ps)
        for _ in range(nseeds):
            lines.append(s_line(dist, rng.u64(), 2000, ps))
            count("s:%s:%s" % (dist, rg))
        r, c = rng.randint(0, 12), rng.randint(0, 12)
        lines.append(m_line(dist, rng.u64(), r, c, ps))
        count("m:%s" % dist)
        for _ in range(qseeds):
            lines.append(q_line(dist, rng.u64(), nq, kq, ps))
            count("q:%s:%s" % (dist, rg))
    # objects reached through update / setters (judged exactly like the fresh object with the target parameters)
    hs = histories(rng.fork("hist"), tier)
    if tier != "quick":
        hs += histories(rng.fork("hist2"), tier)
    for j, (dist, init, ps) in enumerate(hs):
        modes = ["u", "f", "r"] if NPARAMS[dist] == 2 else ["u", "f"]
        for mode in modes:
            lines.append(h_line(mode, dist, rng.u64(), 2000, init, ps))
            count("h:%s:%s" % (dist, MODES[mode]))
        # DKW after the history: every mode in thorough, one rotating mode per pair in quick
        for mode in (modes if tier != "quick" else [modes[j % len(modes)]]):
            lines.append(hq_line(mode, dist, rng.u64(), nq if tier == "quick" else nq // 4, kq, init, ps))
            count("hq:%s:%s" % (dist, MODES[mode]))
    lines += strata(rng.fork("strata"), tier, count)
    lines += ctor_routes(rng.fork("ctor"), tier, count)
    lines += mvn_scales(rng.fork("mvnscale"), tier, count, kq)
    for dist, ps in INVALID:
        lines.append(s_line(dist, rng.u64(), 3, ps))
        count("invalid-params")
    # special seeds, EVERY distribution: 0, 1, 2^64 - 1, and the states whose 1st / 2nd / 3rd / 4th raw word is 0 (the
    # uniform is then exactly 0: F53): seed = 0x5F89E29B87429BD1 - k * increment (mod 2^64).  Judged by the tie, the
    # support and point-mass checks, and — on the long line — the DKW criterion.
    special = [("normal", [0.0, 1.0]), ("gamma", [0.5, 1.0]), ("gamma", [2.5, 1.0]), ("beta", [0.5, 2.0]), ("chi2", [1]), ("chi2", [5]),
               ("t", [1.5]), ("t", [7.0]), ("poisson", [3.0]), ("poisson", [20.0]), ("binomial", [20, 0.3]), ("binomial", [500, 0.3]),
               ("binomial", [500, 0.8]), ("exp", [1.0]), ("gumbel", [0.0, 1.0]), ("pareto", [2.0, 1.0]), ("uniform", [-1.0, 3.0]),
               ("uniform", [-1e308, 1e308]), ("du", [-3, 8]), ("bern", [0.3])]
    for seed in [0, 1, 2 ** 64 - 1] + ZERO_SEEDS:
        for dist, ps in special:
            lines.append(s_line(dist, seed, 200, ps))
            count("s:special-seed")
    for j, (dist, ps) in enumerate(special):
        for seed in (ZERO_SEEDS if tier != "quick" else [ZERO_SEEDS[j % len(ZERO_SEEDS)]]):
            lines.append(q_line(dist, seed, 100000 if tier == "quick" else 1000000, kq, ps))
            count("q:special-seed")
    for seed in ZERO_SEEDS:
        mean, cov = spd(rng, 2)
        lines.append(mvn_line(seed, 20, mean, cov))
        count("mvn:special-seed")
    # multivariate normal
    for d in range(1, 7):
        for _ in range(2 if tier == "quick" else 6):
            mean, cov = spd(rng, d)
            lines.append(mvn_line(rng.u64(), rng.randint(1, 300), mean, cov))
            count("mvn:d=%d" % d)
        mean, cov = spd(rng, d)
        lines.append(qmvn_line(rng, rng.u64(), nq if tier == "quick" else nq // 4, mean, cov, kq))
        count("qmvn:d=%d" % d)
    # number of draws compared with the model (every line is two-sided), per sampler
    for l in lines:
        t = l.split()
        if t[0] in ("mvn", "mvns", "qmvn"):
            cover["tied-draws:mvn(normal draws)"] = cover.get("tied-draws:mvn(normal draws)", 0) + int(t[2]) * int(t[3])
            continue
        o = parse_line(l)
        if not valid(o["dist"], o["ps"]):
            continue
        k = "tied-draws:%s" % o["dist"]
        cover[k] = cover.get(k, 0) + (o["r"] * o["c"] if o["op"] == "m" else o["n"])
    return lines, cover


def nontrivial(line, reply):
    if reply.startswith("#"):
        return None
    t = line.split()
    if t[0] in ("mvn", "qmvn", "mvns"):
        return " ".join(t[:1] + t[2:24])
    o = parse_line(line)
    return "%s%s %s %s %s" % (o["op"], ":" + o["hist"] if "hist" in o else (":" + o["route"] if "route" in o else (":" + o["ctor"] if "ctor" in o else "")), o["dist"],
                              regime(o["dist"], o["ps"]) if valid(o["dist"], o["ps"]) else "invalid", fmt_params(o["dist"], o["ps"]))


# ----------------------------------------------------------------------------------------------- oracle
def check_support(dist, ps, xs):
    """-> message or None; xs are floats"""
    lo, hi, integer = support(dist, ps)
    for x in xs:
        if x != x:
            return "a draw is NaN"
        if x in (float("inf"), float("-inf")):
            return "a draw is %r" % x
        if x < lo or x > hi:
            return "draw %r outside the support [%r, %r]" % (x, lo, hi)
        if integer and x != math.floor(x):
            return "draw %r of a discrete law is not an integer" % x
    return None


def support_key(dist, ps, rg, msg):
    """stable key of a support failure"""
    return "%s:support:%s" % (dist, rg)


def oracle(lines, impl):
    fails = []
    for i, (l, rep) in enumerate(zip(lines, impl)):
        st, toks = parse_reply(rep)
        if st == "skip":
            continue
        if rep.startswith("! timeout") or rep.startswith("! crashed"):
            st = "diverged"
        o = parse_line(l)
        op = o["op"]
        if op in ("mvn", "qmvn"):
            fails += oracle_mvn(i, o, st, toks)
            continue
        dist, ps = o["dist"], o["ps"]
        if not valid(dist, ps):
            if st != "panic":
                fails.append(Failure(i, "%s:ctor" % dist, "invalid parameters %r accepted (%s)" % (ps, st)))
            continue
        rg = regime(dist, ps)
        if "hist" in o:
            # same criterion as for a fresh object; the key and the message name how the object was reached
            rg += ":after-" + MODES[o["hist"]]
            dist_shown = "%s%r.%s -> %s" % (dist, o["init"], MODES[o["hist"]], dist)
        elif "route" in o:
            rg += ":via-" + o["route"]
            dist_shown = "[route %s] %s" % (o["route"], dist)
        elif "ctor" in o:
            rg += ":ctor-" + o["ctor"]
            dist_shown = "[object obtained by %s] %s" % (o["ctor"], dist)
        else:
            dist_shown = dist
        if st == "diverged":
            fails.append(Failure(i, "%s:termination:%s" % (dist, rg), "sampling %s%r did not return within the wall-clock cap" % (dist_shown, ps)))
            continue
        if st != "ok":
            if dist == "t" and ps[0] / 2.0 == 0.0:
                rg = "dof-underflow"      # dof > 0 passes T::new, dof / 2. == 0 fails Gamma::new inside sample()
            fails.append(Failure(i, "%s:panic:%s" % (dist, rg), "sampling %s%r with valid parameters: %s" % (dist_shown, ps, rep[:80])))
            continue
        if op == "s":
            xs = [h2f(x) for x in toks[:-1]]
            if len(xs) != o["n"]:
                fails.append(Failure(i, "%s:bulk:sample_n" % dist, "sample_n(%d) returned %d draws" % (o["n"], len(xs))))
                continue
            msg = check_support(dist, ps, xs)
            if msg:
                fails.append(Failure(i, support_key(dist, ps, rg, msg), "%s%r seed %d: %s" % (dist_shown, ps, o["seed"], msg)))
            pm = point_mass(dist, ps)
            if pm is not None and any(x != pm for x in xs):
                fails.append(Failure(i, "%s:dkw:%s" % (dist, rg), "%s%r is the point mass at %r but a draw differs" % (dist_shown, ps, pm)))
        elif op == "m":
            r, c = o["r"], o["c"]
            if int(toks[0]) != r or int(toks[1]) != c or len(toks) != 3 + r * c:
                fails.append(Failure(i, "%s:bulk:sample_matrix" % dist, "sample_matrix(%d, %d) returned shape %s x %s with %d entries"
                                     % (r, c, toks[0], toks[1], len(toks) - 3)))
                continue
            msg = check_support(dist, ps, [h2f(x) for x in toks[2:-1]])
            if msg:
                fails.append(Failure(i, support_key(dist, ps, rg, msg), "%s%r seed %d: %s" % (dist_shown, ps, o["seed"], msg)))
        elif op == "q":
            n = o["n"]
            ln, nan, nonint = int(toks[0]), int(toks[1]), int(toks[2])
            mn, mx = h2f(toks[3]), h2f(toks[4])
            kind = toks[5]
            if ln != n:
                fails.append(Failure(i, "%s:bulk:sample_n" % dist, "sample_n(%d) returned %d draws" % (n, ln)))
                continue
            lo, hi, integer = support(dist, ps)
            bad = None
            if nan:
                bad = "%d of %d draws are NaN" % (nan, n)
            elif n and (mn < lo or mx > hi or mn == float("-inf") or mx == float("inf")):
                bad = "draws range over [%r, %r], support is [%r, %r]" % (mn, mx, lo, hi)
            elif integer and nonint:
                bad = "%d of %d draws of a discrete law are not integers" % (nonint, n)
            if bad:
                fails.append(Failure(i, support_key(dist, ps, rg, bad), "%s%r seed %d: %s" % (dist_shown, ps, o["seed"], bad)))
                continue
            if n == 0:
                continue
            if kind == "h":
                m = int(toks[6])
                payload = [(h2f(toks[7 + 2 * j]), int(toks[8 + 2 * j])) for j in range(m)]
            else:
                m = int(toks[6])
                payload = [h2f(x) for x in toks[7:7 + m]]
            pm = point_mass(dist, ps)
            if pm is not None:
                if not (kind == "h" and len(payload) == 1 and payload[0][0] == pm):
                    fails.append(Failure(i, "%s:dkw:%s" % (dist, rg), "%s%r is the point mass at %r but the draws are not all equal to it" % (dist_shown, ps, pm)))
                continue
            L, where = dkw_lower_bound(dist, ps, n, kind, payload)
            eps = dkw_eps(n)
            if L > eps + CDF_SLACK:
                if dist == "beta" and rg == "tiny-shapes" and not (
                        (where == 0.0 and LAST_SIDE == "mass-at-or-below") or (where == 1.0 and LAST_SIDE == "mass-at-or-above")):
                    # the open finding has one signature: TOO MUCH mass exactly at an end point (a gamma variate that underflowed to
                    # 0 forces the ratio to 0 or 1); any other deviation in this regime is a different failure
                    rg += ":interior"
                fails.append(Failure(i, "%s:dkw:%s" % (dist, rg),
                                     "%s%r seed %d n %d: sup|F_n - F| >= %.6f at x = %r exceeds the DKW band %.6f (alpha = 1e-12)"
                                     % (dist_shown, ps, o["seed"], n, L, where, eps), "%.6f" % eps))
    fails += oracle_scale(lines, impl)
    fails += oracle_twin(lines, impl)
    fails += oracle_mvn_rows(lines, impl)
    return fails


def mp_cholesky(cov, d):
    """lower Cholesky factor of the (exact) doubles in `cov`, in 60-digit arithmetic; None if not positive definite"""
    import mpmath as mp

    mp.mp.dps = 60
    a = [[mp.mpf(cov[i * d + j]) for j in range(d)] for i in range(d)]
    L = [[mp.mpf(0)] * d for _ in range(d)]
    for i in range(d):
        for j in range(i + 1):
            sm = a[i][j] - sum(L[i][k] * L[j][k] for k in range(j))
            if i == j:
                if sm <= 0:
                    return None
                L[i][j] = mp.sqrt(sm)
            else:
                L[i][j] = sm / L[j][j]
    return L


def oracle_mvn_rows(lines, impl):
    """MVN rows against the standard-normal draws they were built from.  A `mvn` line with identity covariance and zero mean
    returns the draws z themselves (x = 0 + I z exactly); every other `mvn` line of the same dimension, seed and length
    must return x = mean + L z with L the Cholesky factor of ITS covariance, at every scale of that covariance:
    (a) a coordinate may equal its mean exactly only if |(L z)_i| is below 2 ulp of the mean (no degenerate coordinate),
    (b) |x_i - (mean_i + (L z)_i)| <= 1e-12 * (|mean_i| + sum_k |L_ik z_k|) (reference in 60-digit arithmetic)."""
    import mpmath as mp

    fails = []
    groups = {}
    for i, l in enumerate(lines):
        if l.startswith("mvn "):
            t = l.split()
            groups.setdefault((t[3], t[1], t[2]), []).append(i)
    for (dd, seed, nn), idx in groups.items():
        d, n = int(dd), int(nn)
        ref = None
        for i in idx:
            o = parse_line(lines[i])
            if o["cr"] == d and o["cc"] == d and all(m == 0.0 for m in o["mean"]) and \
                    o["cov"] == [1.0 if a == b else 0.0 for a in range(d) for b in range(d)]:
                st, toks = parse_reply(impl[i])
                if st == "ok" and len(toks) == 3 + n * d:
                    ref = [h2f(x) for x in toks[2:-1]]
                break
        if ref is None:
            continue
        for i in idx:
            o = parse_line(lines[i])
            st, toks = parse_reply(impl[i])
            if st != "ok" or len(toks) != 3 + n * d or o["cr"] != d or o["cc"] != d:
                continue
            L = mp_cholesky(o["cov"], d)
            if L is None:
                continue
            xs = [h2f(x) for x in toks[2:-1]]
            bad = None
            for r in range(n):
                for c in range(d):
                    terms = [L[c][k] * mp.mpf(ref[r * d + k]) for k in range(c + 1)]
                    sz = sum(terms)
                    x, m = xs[r * d + c], o["mean"][c]
                    if not math.isfinite(x):
                        continue
                    if x == m and abs(sz) > 2 * math.ulp(m) and abs(sz) > mp.mpf(2) ** -1000:
                        bad = ("mvn:degenerate:d=%d" % d, "row %d coordinate %d equals its mean %r exactly although (L z)_i = %s "
                               "(L_ii = %s, z = %r)" % (r, c, m, mp.nstr(sz, 8), mp.nstr(L[c][c], 8), ref[r * d:r * d + d]))
                        break
                    tol = mp.mpf(10) ** -12 * (abs(mp.mpf(m)) + sum(abs(t) for t in terms)) + mp.mpf(2) ** -1060
                    if abs(mp.mpf(x) - (mp.mpf(m) + sz)) > tol:
                        bad = ("mvn:rows:d=%d" % d, "row %d coordinate %d is %r, expected mean + (L z)_i = %s"
                               % (r, c, x, mp.nstr(mp.mpf(m) + sz, 17)))
                        break
                if bad:
                    break
            if bad:
                fails.append(Failure(i, bad[0], "MVN dimension %d seed %s, covariance scale ~ %.3g: %s"
                                     % (d, seed, o["cov"][0], bad[1])))
    return fails


def oracle_twin(lines, impl):
    """Twin comparison of the construction routes: `c` lines with the same distribution, seed, length and (reported)
    parameters must return exactly what the `new(params)` object returns — draws and generator state, bit for bit."""
    fails = []
    groups = {}
    for i, l in enumerate(lines):
        if l.startswith("c "):
            t = l.split()
            groups.setdefault(tuple(t[2:]), []).append(i)
    for key, idx in groups.items():
        ref = [i for i in idx if lines[i].split()[1] == "new"]
        if not ref or impl[ref[0]].startswith("#"):
            continue
        r = impl[ref[0]].strip()
        for i in idx:
            ctor = lines[i].split()[1]
            a = impl[i].strip()
            if ctor == "new" or a.startswith("#") or a == r:
                continue
            o = parse_line(lines[i])
            ta, tr = a.split(), r.split()
            pos = next((j for j in range(min(len(ta), len(tr))) if ta[j] != tr[j]), min(len(ta), len(tr)))
            fails.append(Failure(i, "%s:ctor-route:%s" % (o["dist"], ctor),
                                 "%s%r obtained by %s does not sample like %s::new with the same parameters (seed %d): the replies differ "
                                 "from token %d on (%s vs %s)" % (o["dist"], o["ps"], ctor, o["dist"], o["seed"], pos,
                                                                  " ".join(ta[pos:pos + 2]), " ".join(tr[pos:pos + 2])), r[:200]))
    return fails


# scale maps: parameters scaled so that every draw is multiplied by exactly 2^k (all operations involved are exact
# under a power-of-two scaling as long as nothing overflows or becomes subnormal)
def scaled_params(dist, ps, k):
    f = math.ldexp(1.0, k)
    if dist in ("normal", "uniform", "gumbel"):
        return [ps[0] * f, ps[1] * f]
    if dist == "exp":
        return [ps[0] / f]
    if dist == "pareto":
        return [ps[0], ps[1] * f]
    if dist == "gamma":
        return [ps[0], ps[1] / f]
    return None


def scale_exponent(dist, base, ps):
    for k in SCALE_KS:
        if scaled_params(dist, base, k) == ps:
            return k
    return None


SCALE_KS = [1, -1, 3, -7, 40, -40, 200, -200, 500, -500]


def mvn_scale_exponent(ob, oj):
    """-> k with mean_j = mean_b * 2^k and cov_j = cov_b * 4^k exactly (k != 0), else None"""
    nz = [(a, b) for a, b in zip(ob["cov"], oj["cov"]) if a != 0.0]
    if not nz or ob["cov"] == oj["cov"] or len(ob["cov"]) != len(oj["cov"]):
        return None
    a, b = nz[0]
    if b == 0.0 or (a > 0) != (b > 0):
        return None
    (ma, ea), (mb, eb) = math.frexp(a), math.frexp(b)
    if ma != mb or (eb - ea) % 2 != 0:
        return None
    k = (eb - ea) // 2
    f = math.ldexp(1.0, k)
    if [x * f for x in ob["mean"]] == oj["mean"] and [x * f * f for x in ob["cov"]] == oj["cov"]:
        return k
    return None


def oracle_scale(lines, impl):
    """Two `s` lines of the same distribution, seed and length whose parameters differ by the power-of-two scale map must
    give draws that differ by exactly that power of two, and the same final state (bit-exact; same for `mvn` pairs with
    mean * 2^k, covariance * 4^k)."""
    fails = []
    groups = {}
    for i, l in enumerate(lines):
        if l.startswith("s "):
            t = l.split()
            if t[1] in ("normal", "uniform", "gumbel", "exp", "pareto", "gamma"):
                groups.setdefault(("s", t[1], t[2], t[3]), []).append(i)
        elif l.startswith("mvn "):
            t = l.split()
            groups.setdefault(("mvn", t[3], t[1], t[2]), []).append(i)
    for key, idx in groups.items():
        if len(idx) < 2:
            continue
        b = idx[0]
        ob = parse_line(lines[b])
        sb, tb = parse_reply(impl[b])
        if sb != "ok":
            continue
        for j in idx[1:]:
            oj = parse_line(lines[j])
            sj, tj = parse_reply(impl[j])
            if sj != "ok":
                continue
            if key[0] == "s":
                k = scale_exponent(ob["dist"], ob["ps"], oj["ps"])
                vb, vj = tb[:-1], tj[:-1]
                name = "%s%r vs %r" % (ob["dist"], ob["ps"], oj["ps"])
                fkey = "%s:scale-equivariance" % ob["dist"]
            else:
                k = mvn_scale_exponent(ob, oj)
                vb, vj = tb[2:-1], tj[2:-1]
                name = "MVN dimension %d" % ob["d"]
                fkey = "mvn:scale-equivariance"
            if k is None or len(vb) != len(vj):
                continue
            if tb[-1] != tj[-1]:
                fails.append(Failure(j, fkey, "%s, same seed, scale 2^%d: the generator state after the call differs" % (name, k)))
                continue
            for a, c in zip(vb, vj):
                x = h2f(a)
                e = math.ldexp(x, k)
                if x != x or math.isinf(e) or (e != 0.0 and abs(e) < 2.0 ** -1000) or (x != 0.0 and abs(x) < 2.0 ** -1000):
                    continue
                if f2h(e) != c:
                    fails.append(Failure(j, fkey, "%s, same seed %s, scale 2^%d: draw %r should scale to %r exactly, got %r"
                                         % (name, key[2], k, x, e, h2f(c)), f2h(e)))
                    break
    return fails


def oracle_mvn(i, o, st, toks):
    import numpy as np
    from scipy import stats

    d = o["d"]
    fails = []
    if o["op"] == "mvn":
        cr, cc = o["cr"], o["cc"]
        c = np.array(o["cov"]).reshape(cr, cc) if cr * cc else np.zeros((0, 0))
        ok_params = (cr == cc and cc == d and d > 0 and bool(np.all(np.abs(c - c.T) <= 2.0 ** -52)))
        if ok_params:
            try:
                np.linalg.cholesky(c)
            except np.linalg.LinAlgError:
                ok_params = False
        if not ok_params:
            if st != "panic":
                fails.append(Failure(i, "mvn:ctor", "MVN::new accepted an invalid mean/covariance pair (%s)" % st))
            return fails
        if st != "ok":
            fails.append(Failure(i, "mvn:%s:d=%d" % ("termination" if st == "diverged" else "panic", d), "MVN sample_n: %s" % st))
            return fails
        n = o["n"]
        if int(toks[0]) != n or int(toks[1]) != d or len(toks) != 3 + n * d:
            fails.append(Failure(i, "mvn:bulk:sample_n" if "route" not in o else "mvn:bulk:sample", "MVN sample_n(%d) in dimension %d returned shape %s x %s with %d entries"
                                 % (n, d, toks[0], toks[1], len(toks) - 3)))
        elif any(not math.isfinite(h2f(x)) for x in toks[2:-1]):
            fails.append(Failure(i, "mvn:support:d=%d" % d, "a coordinate of an MVN draw is not finite"))
        return fails
    # qmvn
    if st != "ok":
        fails.append(Failure(i, "mvn:%s:d=%d" % ("termination" if st == "diverged" else "panic", d), "MVN sample_n: %s" % st))
        return fails
    n, k, m = o["n"], o["k"], o["m"]
    rows, cols, nan, mm, kk = (int(x) for x in toks[:5])
    if rows != n or cols != d or len(toks) != 5 + m * min(k, n) + 1:      # ... + generator state
        fails.append(Failure(i, "mvn:bulk:sample_n", "MVN sample_n(%d) in dimension %d returned shape %d x %d" % (n, d, rows, cols)))
        return fails
    if nan:
        fails.append(Failure(i, "mvn:support:d=%d" % d, "%d NaN coordinates in %d MVN draws" % (nan, n)))
        return fails
    kk = min(k, n)
    r = np.array(os_ranks(n, kk), dtype=float)
    eps = dkw_eps(n)
    for f in range(m):
        vals = np.array([h2f(x) for x in toks[5 + f * kk:5 + (f + 1) * kk]])
        dlt = np.abs(vals) * 1e-9 + 1e-12      # rounding of the projection w.x + c
        a = r / n - stats.norm.cdf(vals + dlt)
        b = stats.norm.cdf(vals - dlt) - (r - 1.0) / n
        L = float(max(a.max(), b.max()))
        if L > eps + CDF_SLACK:
            what = "whitened coordinate %d" % f if f < d else "random projection %d" % (f - d)
            fails.append(Failure(i, "mvn:dkw:d=%d" % d, "MVN dimension %d seed %d n %d: %s is not standard normal: sup|F_n - Phi| >= %.6f "
                                 "exceeds the DKW band %.6f" % (d, o["seed"], n, what, L, eps), "%.6f" % eps))
            break
    return fails


def EXTRACT(repo):
    """Tables / constants / wiring are regenerated strictly; the verbatim line-presence checks are a convenience tie
    only (the behaviour is tied bit for bit): their failure is reported as a note (common.SourceDrift), not an alarm."""
    del _DRIFT[:]
    files = _EXTRACT_core(repo)
    if _DRIFT:
        from .common import SourceDrift
        raise SourceDrift(" || ".join(_DRIFT[:6]), files)
    return files

# --- deep theorems (C03Support)
PROOF_MODULES = PROOF_MODULES + ['Compute.Props.C03Support']
REQUIRED_THEOREMS = REQUIRED_THEOREMS + ['Cv.C03Support.ptrs_support_partial', 'Cv.C03Support.poisson_sample_support_partial', 'Cv.C03Support.ptrs_small_lambda_returns_negative', 'Cv.C03Support.btpe_support_partial', 'Cv.C03Support.binomial_sample_support_partial', 'Cv.C03Support.binomial_flip_total', 'Cv.C03Support.chi_squared_pos_partial', 'Cv.C03Support.t_support_partial', 'Cv.C03Support.beta_support_partial', 'Cv.C03Support.zig_strip_nonneg', 'Cv.C03Support.zig_wedge_tail_nonneg', 'Cv.C03Support.zig_out']
NOT_PROVED = [x for x in NOT_PROVED if not any(k in str(x) for k in ('support of PTRS', 'Support of PTRS'))]
# (review: this sentence states what IS proved, so it no longer sits in NOT_PROVED)
PROVED_NOTES = ['support of the rejection samplers IS proved (Props/C03Support): Poisson draws are naturals for every rate, Binomial draws are naturals <= n for every n and p in [0,1] (BTPE candidates lie in [0,n] by the set-up arithmetic; the flip never underflows), Beta in [0,1]; Ziggurat support is proved per accepting branch, not through the Normal.sample loop (unfolding that definition does not terminate in Lean); chi-squared / t strict positivity of the gamma variate holds for every returning call since repair F54']

# --- source tie (translator pass 4: sample() of the inverse-CDF samplers regenerated from /repo/src into Generated/SrcC03.lean,
# proved equal to the hand model in Props/SrcTieC03.lean)
from . import srctie
srctie.wire(globals(), 'C03')

# --- source tie (translator pass 5: Poisson / Binomial routing conditions and the T / Beta compositions regenerated into Generated/SrcC03Mut.lean,
# proved equal to the model in Props/SrcTieC03Mut.lean)
from . import srctie
srctie.wire_mut(globals(), 'C03')


# --- FINAL claim texts (review round 2): the complete, final values; nothing above this block may override them
REQUIRED_THEOREMS = [t for t in REQUIRED_THEOREMS if t not in ("Cv.C03.exponential_support", "Cv.C03.pareto_support",
                                                               "Cv.C03.mvn_sample_spec", "Cv.C03.discrete_uniform_support")]
REQUIRED_THEOREMS = REQUIRED_THEOREMS + [t for t in (
    "Cv.C03.exponential_support_partial", "Cv.C03.pareto_support_partial", "Cv.C03.mvn_sample_spec_partial",
    "Cv.C03.discrete_uniform_support_partial", "Cv.C03Support.ptrs_returns_witness", "Cv.C03Mvn.mvn_new_witness",
) if t not in REQUIRED_THEOREMS]
PROOF_MODULES = PROOF_MODULES + [m for m in ("Compute.Props.C03Scale",) if m not in PROOF_MODULES]
REQUIRED_THEOREMS = REQUIRED_THEOREMS + [t for t in ("Cv.C03Scale.mvn_scale_equivariance_partial",) if t not in REQUIRED_THEOREMS]
NOT_PROVED = [
    "the LAWS of the rejection samplers: Ziggurat normal, Marsaglia–Tsang gamma (and so beta, chi-squared, t), PTRS Poisson, "
    "BTPE binomial — measure theory over acceptance regions; decided only by the bit-exact tie + DKW search.  In particular "
    "that MVN draws have covariance Sigma in distribution is not proved: proved is x = mu + L z with L L^T = Sigma "
    "(mvn_sample_spec_partial + mvn_new_spec), z the dim Ziggurat draws",
    "TERMINATION of the rejection loops (Ziggurat, Marsaglia–Tsang, PTRS, BTPE, Lemire) for every generator state: every "
    "theorem about them is partial correctness (`_partial`: about every call that returns).  Proved termination: Poisson "
    "multiplication method and binomial inversion for every state; the u = 0 redraw loop conditionally on the stream "
    "containing a non-zero uniform within the fuel",
    "kernel-evaluated returning states exist for Normal (fast path), Gamma (shape >= 1 and < 1), chi-squared, t, Beta, MVN "
    "sample and MVN::new, Poisson PTRS (fast acceptance, rate 16); NONE for BTPE (only its set-up constants are instantiated) "
    "and none for the Ziggurat wedge / tail branches: for those the hypothesis `the call returns` is witnessed only by the "
    "run-time tie",
    "that the Ziggurat table Y is exp(-x^2/2) at the layer edges: proved are only the internal relations of the tables "
    "(K[i] = floor(2^24 W[i-1]/W[i]) exactly; equal layer areas to a relative 1e-9; 2^24 W[126] = R to 1e-9; Y strictly "
    "decreasing).  An edit of K, or of Y / W / R beyond those tolerances breaks a proof; an edit that keeps them, or a "
    "consistent regeneration of all tables, is seen only by the DKW search (the run-time tie regenerates the tables into the model)",
    "that wyrand's outputs are uniform and independent (not a mathematical fact; searched by the DKW band)",
    "floating-point rounding of the formulas (theorems are over the reals; the tie is bit-exact and the DKW search runs on "
    "the f64 outputs)",
    "source-level tie (model regenerated from the Rust source and proved equal): Uniform::sample; the whole bodies of "
    "Exponential / Gumbel / Pareto::sample including the `while u == 0.` loop and the gamma boost loop (SrcTieC03Mut "
    "*_sampleLoop_eq, Gamma_prepareLoop_eq) and their post-loop formulas; the Poisson / Binomial routing predicates; for "
    "Student t and Beta only the QUOTIENT FORMULA AND THE DRAW ORDER (T_sample_eq / Beta_sample_eq take the gamma draws as "
    "given values, so the parameters `Gamma::new(dof/2, 1)`, `Gamma::new(alpha, 1)` are NOT source-tied: they are tied at run "
    "time).  RUN-TIME ONLY (hand model + bit-exact tie): wyrand, f64(), Lemire's u64_less_than, Ziggurat, the Marsaglia–Tsang "
    "loop, PTRS, BTPE, Bernoulli, MVN, the bulk helpers",
]
