import Compute.Lemmas.FactorRounding
import Compute.Lemmas.FactorRoundingLuStruct
import Compute.Lemmas.FactorRoundingLuSolveStruct
/-
Rounding-error analysis of the LU factorisation with partial pivoting (`Cv.LA.lu`) and of the
column-oriented triangular solves of `lu_solve` (`Cv.LA.luFwd`, `Cv.LA.luBwd`) in the standard model:
loop invariant `LuInvR` (the rounded counterpart of `Lu.LuInv` of `Lemmas/LuCorrect.lean`), product
formula, and the perturbed triangular systems solved by the computed vectors.
-/
set_option linter.unusedSectionVars false
set_option linter.unusedVariables false
namespace Cv.FactorRounding
open Cv.FlModel Cv.LA Cv.LA.Lu Cv.Rounding Finset

variable {M : FlModel}

theorem ev_ent (n : Nat) (w : List (Fl M)) (i c : Nat) : ev n w i c = (ent n w i c).val := rfl

theorem Fl.eq_zero_iff (a : Fl M) : a = 0 ↔ a.val = 0 :=
  ⟨fun h => by rw [h]; rfl, fun h => Fl.ext h⟩

/-! ### the accumulation loop of `luDot` -/

/-- `s = 0; for k in 0..m { s += x[k]*y[k] }`: every product carries at most `m+1` roundings -/
theorem foldl_dot_pert (x y : Nat → Fl M) (m : Nat) :
    ∃ F : Nat → ℝ, (∀ k, M.Fac (m + 1) (F k)) ∧
      ((List.range m).foldl (fun s k => s + x k * y k) (0 : Fl M)).val =
        ∑ k ∈ range m, ((x k).val * (y k).val) * F k := by
  induction m with
  | zero => exact ⟨fun _ => 1, fun _ => Fac.one.mono (Nat.zero_le _), by simp⟩
  | succ m ih =>
    obtain ⟨F, hF, hs⟩ := ih
    rw [List.range_succ, List.foldl_append]
    simp only [List.foldl_cons, List.foldl_nil]
    generalize (List.range m).foldl (fun s k => s + x k * y k) (0 : Fl M) = s at hs
    obtain ⟨ε, hε, h1⟩ := M.std ((x m).val * (y m).val)
    obtain ⟨δ, hδ, h2⟩ := M.std (s.val + M.rnd ((x m).val * (y m).val))
    refine ⟨fun k => if k < m then F k * (1 + δ) else (1 + ε) * (1 + δ), ?_, ?_⟩
    · intro k
      by_cases hk : k < m
      · simp only [hk, if_true]; exact (hF k).mul (Fac.one_add hδ)
      · simp only [hk, if_false]
        exact ((Fac.one_add hε).mul (Fac.one_add hδ)).mono (by omega)
    · show M.rnd (s.val + M.rnd ((x m).val * (y m).val)) = _
      have e1 : ∑ k ∈ range m, (x k).val * (y k).val *
            (if k < m then F k * (1 + δ) else (1 + ε) * (1 + δ)) =
          (∑ k ∈ range m, (x k).val * (y k).val * F k) * (1 + δ) := by
        rw [Finset.sum_mul]
        apply Finset.sum_congr rfl
        intro k hk
        rw [if_pos (Finset.mem_range.mp hk)]; ring
      rw [Finset.sum_range_succ, e1]
      simp only [lt_irrefl, if_false]
      rw [h2, h1, hs]
      ring

/-- the inner product of one LU cell, as a perturbed sum -/
theorem luDot_pert (n : Nat) (w : List (Fl M)) (i j : Nat) :
    ∃ F : Nat → ℝ, (∀ k, M.Fac (min i j + 1) (F k)) ∧
      (luDot n w i j).val = ∑ k ∈ range (min i j), (ev n w i k * ev n w k j) * F k := by
  rw [LuS.luDot_def]
  exact foldl_dot_pert (fun k => ent n w i k) (fun k => ent n w k j) (min i j)

/-! ### the loop invariant of `lu` in rounded arithmetic -/

section inv
variable [FlSqrt M]

open Classical in
/-- last term of `(L̂·Û)[i,c]`: `Û[i,c]` on and above the diagonal, `L̂[i,c]·Û[c,c]` below it (a stored
sub-diagonal entry under a zero pivot, which the code does not divide, counts as itself) -/
noncomputable def luTv (n : Nat) (w : List (Fl M)) (i c : Nat) : ℝ :=
  if i ≤ c then ev n w i c else if ev n w c c = 0 then ev n w i c else ev n w i c * ev n w c c

/-- Loop invariant of `lu` before column `j` in rounded arithmetic: columns `≥ j` hold the row-permuted
input exactly; every finished cell satisfies its backward-error bound. -/
structure LuInvR (n : Nat) (a : List (Fl M)) (j : Nat) (w : List (Fl M)) (piv : List Nat) : Prop where
  hlen : w.length = n * n
  hpl : piv.length = n
  hright : ∀ i c, i < n → c < n → j ≤ c → ent n w i c = ent n a (piv.getD i 0) c
  hleft : ∀ i c, i < n → c < n → c < j →
    |∑ k ∈ range (min i c), ev n w i k * ev n w k c + luTv n w i c - ev n a (piv.getD i 0) c| ≤
      M.γ n * (∑ k ∈ range (min i c), |ev n w i k| * |ev n w k c| + |luTv n w i c|)

theorem LuInvR.init (n : Nat) (a : List (Fl M)) (ha : a.length = n * n) :
    LuInvR n a 0 a (List.range n) where
  hlen := ha
  hpl := by simp
  hright := by
    intro i c hi hc _
    have : (List.range n).getD i 0 = i := by
      simp [List.getD_eq_getElem?_getD, List.getElem?_range hi]
    rw [this]
  hleft := by intro i c _ _ h; omega

theorem LuInvR.step (n : Nat) (a : List (Fl M)) (j : Nat) (w : List (Fl M)) (piv : List Nat)
    (hu : (n : ℝ) * M.u < 1) (h : LuInvR n a j w piv) (hj : j < n) :
    LuInvR n a (j + 1) (luStep n (w, piv) j).1 (luStep n (w, piv) j).2 := by
  obtain ⟨hw, hpl, hright, hleft⟩ := h
  obtain ⟨hl1, hun1, hcol1⟩ := LuS.luColumn_spec' n j w hw hj
  obtain ⟨hpj, hpn⟩ := luPivot_range n j (luColumn n j w) hj
  obtain ⟨hl3, hpl3, hpiv3, he3⟩ := LuS.luStep_spec' n j w piv hw hpl hj _ _ rfl rfl
  generalize hw1 : luColumn n j w = w1 at *
  generalize hp : luPivot n j w1 = p at *
  generalize (luStep n (w, piv) j).1 = w3 at *
  generalize (luStep n (w, piv) j).2 = piv3 at *
  have hswn : ∀ i, i < n → sw p j i < n := fun i hi => sw_lt hpn hj hi
  -- entries of `w3` outside column `j`
  have hne : ∀ i c, i < n → c < n → c ≠ j → ent n w3 i c = ent n w (sw p j i) c := by
    intro i c hi hc hcj
    rw [he3 i c hi hc, if_neg (fun h => hcj h.1), hun1 _ c (hswn i hi) hc hcj]
  have hnev : ∀ i c, i < n → c < n → c ≠ j → ev n w3 i c = ev n w (sw p j i) c :=
    fun i c hi hc hcj => congrArg Fl.val (hne i c hi hc hcj)
  -- column `j` of `w3` on and above the diagonal
  have hupper : ∀ i, i < n → i ≤ j → ent n w3 i j = ent n w1 (sw p j i) j := by
    intro i hi hij
    rw [he3 i j hi hj, if_neg (fun h => by omega)]
  have hupperv : ∀ i, i < n → i ≤ j → ev n w3 i j = ev n w1 (sw p j i) j :=
    fun i hi hij => congrArg Fl.val (hupper i hi hij)
  refine ⟨hl3, hpl3, ?_, ?_⟩
  · intro i c hi hc hjc
    rw [hne i c hi hc (by omega), hpiv3 i, hright _ c (hswn i hi) hc (by omega)]
  · intro i c hi hc hcj
    rw [hpiv3 i]
    by_cases hcj' : c = j
    · -- the new column
      subst hcj'
      have hi' := hswn i hi
      have hmin : min i c = min (sw p c i) c := by
        by_cases hic : i < c
        · rw [sw_of_lt hpj hic]
        · have := sw_ge hpj (Nat.le_of_not_lt hic)
          omega
      -- the column update in the reals
      obtain ⟨F, hF, hdot⟩ := luDot_pert n w1 (sw p c i) c
      rw [← hmin] at hF hdot
      obtain ⟨δ1, hδ1, hr1⟩ := M.std (ev n w (sw p c i) c - (luDot n w1 (sw p c i) c).val)
      have hcolv : ev n w1 (sw p c i) c =
          (ev n w (sw p c i) c - (luDot n w1 (sw p c i) c).val) * (1 + δ1) := by
        rw [ev_ent, hcol1 _ hi']
        exact hr1
      have hf1 := Fac.one_add hδ1
      have p1 := hf1.pos.ne'
      have hsum : ∑ k ∈ range (min i c), ev n w1 (sw p c i) k * ev n w1 k c * F k =
          ∑ k ∈ range (min i c), ev n w3 i k * ev n w3 k c * F k := by
        apply Finset.sum_congr rfl
        intro k hk
        have hk' := Finset.mem_range.mp hk
        have hkc : k < c := by omega
        rw [hnev i k hi (by omega) (by omega), hupperv k (by omega) (by omega), sw_of_lt hpj hkc,
          ev_ent n w1 _ k, hun1 _ k hi' (by omega) (by omega)]
        rfl
      rw [hsum] at hdot
      have hA : ev n a (piv.getD (sw p c i) 0) c = ev n w (sw p c i) c :=
        (congrArg Fl.val (hright _ c hi' hc (Nat.le_refl c))).symm
      -- the shape `A = T·g + Σ P F`
      have key : ∃ g : ℝ, M.Fac (if i ≤ c then 1 else 2) g ∧
          ev n w (sw p c i) c = luTv n w3 i c * g +
            ∑ k ∈ range (min i c), ev n w3 i k * ev n w3 k c * F k := by
        unfold luTv
        by_cases hic : i ≤ c
        · refine ⟨(1 + δ1)⁻¹, by simpa [hic] using hf1.inv, ?_⟩
          rw [if_pos hic, hupperv i hi hic, hcolv, hdot]
          field_simp
          ring
        · simp only [if_neg hic]
          have hcc : ev n w3 c c = ev n w1 p c := by
            rw [hupperv c hc (Nat.le_refl c)]; simp [sw]
          rw [hcc]
          by_cases hz : ev n w1 p c = 0
          · rw [if_pos hz]
            have hz' : ¬ ent n w1 p c ≠ 0 := by
              rw [ne_eq, not_not]; exact (Fl.eq_zero_iff _).mpr hz
            have h3 : ev n w3 i c = ev n w1 (sw p c i) c := by
              rw [ev_ent, he3 i c hi hc, if_neg (fun h => hz' h.2.2)]; rfl
            refine ⟨(1 + δ1)⁻¹, by simpa [hic] using hf1.inv.mono (by omega : 1 ≤ 2), ?_⟩
            rw [h3, hcolv, hdot]
            field_simp
            ring
          · rw [if_neg hz]
            have hz' : ent n w1 p c ≠ 0 := fun e => hz ((Fl.eq_zero_iff _).mp e)
            obtain ⟨δ2, hδ2, hr2⟩ := M.std (ev n w1 (sw p c i) c / ev n w1 p c)
            have hf2 := Fac.one_add hδ2
            have p2 := hf2.pos.ne'
            have h3 : ev n w3 i c = ev n w1 (sw p c i) c / ev n w1 p c * (1 + δ2) := by
              rw [ev_ent, he3 i c hi hc, if_pos ⟨rfl, by omega, hz'⟩]
              exact hr2
            refine ⟨((1 + δ2) * (1 + δ1))⁻¹, by simpa [hic] using (hf2.mul hf1).inv, ?_⟩
            rw [h3, hcolv, hdot]
            field_simp
            ring
      obtain ⟨g, hg, hkey⟩ := key
      rw [hA]
      have he : (if i ≤ c then 1 else 2) ≤ n := by
        split
        · omega
        · omega
      have := cell_bound (M := M) n (min i c) (fun k => ev n w3 i k * ev n w3 k c) F (luTv n w3 i c) g
        (ev n w (sw p c i) c) (min i c + 1) _ hF hg (by omega) he hu hkey
      simpa only [abs_mul] using this
    · -- an old column
      have hcj2 : c < j := by omega
      have hcc : ev n w3 c c = ev n w c c := by
        rw [hnev c c hc hc hcj', sw_of_lt hpj hcj2]
      have hT : luTv n w3 i c = luTv n w (sw p j i) c := by
        unfold luTv
        rw [hcc, hnev i c hi hc hcj']
        by_cases hij : i < j
        · rw [sw_of_lt hpj hij]
        · have := sw_ge hpj (Nat.le_of_not_lt hij)
          rw [if_neg (show ¬ i ≤ c by omega), if_neg (show ¬ sw p j i ≤ c by omega)]
      have hmin : min i c = min (sw p j i) c := by
        by_cases hij : i < j
        · rw [sw_of_lt hpj hij]
        · have := sw_ge hpj (Nat.le_of_not_lt hij)
          omega
      have hent : ∀ k, k < min i c → ev n w3 i k = ev n w (sw p j i) k ∧ ev n w3 k c = ev n w k c := by
        intro k hk'
        have hkc : k < c := by omega
        exact ⟨hnev i k hi (by omega) (by omega), by
          rw [hnev k c (by omega) hc hcj', sw_of_lt hpj (by omega : k < j)]⟩
      have hsum : ∑ k ∈ range (min i c), ev n w3 i k * ev n w3 k c =
          ∑ k ∈ range (min (sw p j i) c), ev n w (sw p j i) k * ev n w k c := by
        rw [← hmin]
        apply Finset.sum_congr rfl
        intro k hk
        obtain ⟨e1, e2⟩ := hent k (Finset.mem_range.mp hk)
        rw [e1, e2]
      have hsuma : ∑ k ∈ range (min i c), |ev n w3 i k| * |ev n w3 k c| =
          ∑ k ∈ range (min (sw p j i) c), |ev n w (sw p j i) k| * |ev n w k c| := by
        rw [← hmin]
        apply Finset.sum_congr rfl
        intro k hk
        obtain ⟨e1, e2⟩ := hent k (Finset.mem_range.mp hk)
        rw [e1, e2]
      rw [hT, hsum, hsuma]
      exact hleft _ c (hswn i hi) hc hcj2

theorem LuInvR.foldl (n : Nat) (a : List (Fl M)) (ha : a.length = n * n) (hu : (n : ℝ) * M.u < 1) :
    LuInvR n a n ((List.range n).foldl (luStep n) (a, List.range n)).1
      ((List.range n).foldl (luStep n) (a, List.range n)).2 :=
  foldl_range_ind (fun m (st : List (Fl M) × List Nat) => LuInvR n a m st.1 st.2) (luStep n)
    (a, List.range n) n (LuInvR.init n a ha) (fun m st hm h => LuInvR.step n a m st.1 st.2 hu h hm)

/-- `L̂[i,k]`: unit lower triangular part of the packed factor (real values) -/
def Lv (n : Nat) (f : List (Fl M)) (i k : Nat) : ℝ :=
  if k < i then ev n f i k else if k = i then 1 else 0

/-- `Û[k,c]`: upper triangular part of the packed factor (real values) -/
def Uv (n : Nat) (f : List (Fl M)) (k c : Nat) : ℝ := if k ≤ c then ev n f k c else 0

/-- the product formula for `L̂·Û`, `|L̂|·|Û|` (any multiplicative `ψ` with `ψ 0 = 0`, `ψ 1 = 1`) when no
pivot vanishes -/
theorem LU_product (ψ : ℝ → ℝ) (h0 : ψ 0 = 0) (h1 : ψ 1 = 1) (hmul : ∀ x y, ψ (x * y) = ψ x * ψ y)
    (n : Nat) (f : List (Fl M)) (hd : ∀ k, k < n → ev n f k k ≠ 0) (i c : Nat) (hi : i < n) (hc : c < n) :
    ∑ k ∈ range n, ψ (Lv n f i k) * ψ (Uv n f k c) =
      ∑ k ∈ range (min i c), ψ (ev n f i k) * ψ (ev n f k c) + ψ (luTv n f i c) := by
  have hsub : ∑ k ∈ range n, ψ (Lv n f i k) * ψ (Uv n f k c) =
      ∑ k ∈ range (min i c + 1), ψ (Lv n f i k) * ψ (Uv n f k c) := by
    symm
    apply Finset.sum_subset (Finset.range_subset_range.mpr (by omega))
    intro k hk hk'
    have hk1 := Finset.mem_range.mp hk
    have hk2 : ¬ k < min i c + 1 := fun e => hk' (Finset.mem_range.mpr e)
    by_cases hki : k ≤ i
    · have : ¬ k ≤ c := by omega
      simp [Uv, this, h0]
    · have h3 : ¬ k < i := by omega
      have h4 : ¬ k = i := by omega
      simp [Lv, h3, h4, h0]
  have hlow : ∑ k ∈ range (min i c), ψ (Lv n f i k) * ψ (Uv n f k c) =
      ∑ k ∈ range (min i c), ψ (ev n f i k) * ψ (ev n f k c) := by
    apply Finset.sum_congr rfl
    intro k hk
    have hk' := Finset.mem_range.mp hk
    have h1 : k < i := by omega
    have h2 : k ≤ c := by omega
    simp [Lv, Uv, h1, h2]
  rw [hsub, Finset.sum_range_succ, hlow]
  congr 1
  unfold luTv
  by_cases hic : i ≤ c
  · have e1 : min i c = i := by omega
    simp [Lv, Uv, hic, e1, h1]
  · have e1 : min i c = c := by omega
    have e2 : c < i := by omega
    rw [e1, if_neg hic, if_neg (hd c hc), hmul]
    simp [Lv, Uv, e2]

/-- **Backward error of the LU loop** (Higham Thm 9.3), invariant form at loop exit. -/
theorem LuInvR.bound (n : Nat) (a f : List (Fl M)) (piv : List Nat) (h : LuInvR n a n f piv)
    (hd : ∀ k, k < n → ev n f k k ≠ 0) (i c : Nat) (hi : i < n) (hc : c < n) :
    |∑ k ∈ range n, Lv n f i k * Uv n f k c - ev n a (piv.getD i 0) c| ≤
      M.γ n * ∑ k ∈ range n, |Lv n f i k| * |Uv n f k c| := by
  have e1 := LU_product (fun x => x) rfl rfl (fun _ _ => rfl) n f hd i c hi hc
  have e2 := LU_product (fun x => |x|) abs_zero abs_one abs_mul n f hd i c hi hc
  rw [e1, e2]
  exact h.hleft i c hi hc hc

/-! ### multipliers are bounded by one when rounding is monotone -/

/-- the pivot row carries a maximum of `|·|` over rows `j..n-1` of column `j` (comparisons are exact) -/
theorem luPivot_maxR (n j : Nat) (w : List (Fl M)) (hj : j < n) :
    ∀ i, j ≤ i → i < n → |ev n w i j| ≤ |ev n w (luPivot n j w) j| := by
  unfold luPivot
  have key := foldl_range'_ind
    (fun m (p : Nat) => ∀ i, j ≤ i → i < j + 1 + m → |ev n w i j| ≤ |ev n w p j|)
    (fun p i => if Transc.abs (rd w (p * n + j)) < Transc.abs (rd w (i * n + j)) then i else p) j
    (j + 1) (n - (j + 1))
    (by
      intro i h1 h2
      have : i = j := by omega
      subst this
      exact le_refl _)
    (by
      intro m p hm hP i h1 h2
      by_cases hlt : |ev n w p j| < |ev n w (j + 1 + m) j|
      · have hlt' : Transc.abs (rd w (p * n + j)) < Transc.abs (rd w ((j + 1 + m) * n + j)) := hlt
        rw [if_pos hlt']
        by_cases hi : i = j + 1 + m
        · subst hi; exact le_refl _
        · exact le_trans (hP i h1 (by omega)) (le_of_lt hlt)
      · have hlt' : ¬ Transc.abs (rd w (p * n + j)) < Transc.abs (rd w ((j + 1 + m) * n + j)) := hlt
        rw [if_neg hlt']
        by_cases hi : i = j + 1 + m
        · subst hi; exact not_lt.mp hlt
        · exact hP i h1 (by omega))
  intro i h1 h2
  exact key i h1 (by omega)

/-- rounding is monotone and leaves `±1` alone (true of IEEE round-to-nearest) -/
def MonoUnit (M : FlModel) : Prop := Monotone M.rnd ∧ M.rnd 1 = 1 ∧ M.rnd (-1) = -1

theorem MonoUnit.abs_le_one (hm : MonoUnit M) {q : ℝ} (hq : |q| ≤ 1) : |M.rnd q| ≤ 1 := by
  obtain ⟨h1, h2, h3⟩ := hm
  obtain ⟨ha, hb⟩ := abs_le.mp hq
  rw [abs_le]
  exact ⟨by rw [← h3]; exact h1 ha, by rw [← h2]; exact h1 hb⟩

/-- multiplier part of the loop invariant: in every finished column the stored multipliers are at
most `1` in absolute value -/
def LuMulR (n j : Nat) (w : List (Fl M)) : Prop :=
  ∀ c i, c < j → c < i → i < n → |ev n w i c| ≤ 1

theorem LuMulR.step (hm : MonoUnit M) (n j : Nat) (w : List (Fl M)) (piv : List Nat)
    (hw : w.length = n * n) (hpl : piv.length = n) (hj : j < n) (h : LuMulR n j w) :
    LuMulR n (j + 1) (luStep n (w, piv) j).1 := by
  obtain ⟨hl1, hun1, hcol1⟩ := LuS.luColumn_spec' n j w hw hj
  obtain ⟨hpj, hpn⟩ := luPivot_range n j (luColumn n j w) hj
  have hmax := luPivot_maxR n j (luColumn n j w) hj
  obtain ⟨hl3, hpl3, hpiv3, he3⟩ := LuS.luStep_spec' n j w piv hw hpl hj _ _ rfl rfl
  generalize hw1 : luColumn n j w = w1 at *
  generalize hp : luPivot n j w1 = p at *
  generalize (luStep n (w, piv) j).1 = w3 at *
  have hswn : ∀ i, i < n → sw p j i < n := fun i hi => sw_lt hpn hj hi
  intro c i hcj hci hi
  have hc : c < n := by omega
  by_cases hcj' : c = j
  · subst hcj'
    have hsge : c ≤ sw p c i := sw_ge hpj (by omega)
    have hle := hmax (sw p c i) hsge (hswn i hi)
    by_cases hz : ent n w1 p c = 0
    · have h3 : ev n w3 i c = ev n w1 (sw p c i) c := by
        rw [ev_ent, he3 i c hi hc, if_neg (fun h => h.2.2 hz)]; rfl
      have hz' : ev n w1 p c = 0 := (Fl.eq_zero_iff _).mp hz
      rw [hz', abs_zero] at hle
      rw [h3]
      linarith
    · have h3 : ev n w3 i c = M.rnd (ev n w1 (sw p c i) c / ev n w1 p c) := by
        rw [ev_ent, he3 i c hi hc, if_pos ⟨rfl, hci, hz⟩]; rfl
      have hz' : ev n w1 p c ≠ 0 := fun e => hz ((Fl.eq_zero_iff _).mpr e)
      rw [h3]
      apply hm.abs_le_one
      rw [abs_div, div_le_one (abs_pos.mpr hz')]
      exact hle
  · have hcj2 : c < j := by omega
    have hsi : c < sw p j i := by
      by_cases hij : i < j
      · rw [sw_of_lt hpj hij]; exact hci
      · have := sw_ge hpj (Nat.le_of_not_lt hij); omega
    have h3 : ev n w3 i c = ev n w (sw p j i) c := by
      rw [ev_ent, he3 i c hi hc, if_neg (fun h => hcj' h.1), hun1 _ c (hswn i hi) hc hcj']; rfl
    rw [h3]
    exact h c (sw p j i) hcj2 hsi (hswn i hi)

theorem LuMulR.foldl (hm : MonoUnit M) (n : Nat) (a : List (Fl M)) (ha : a.length = n * n) :
    LuMulR n n ((List.range n).foldl (luStep n) (a, List.range n)).1 := by
  have := foldl_range_ind
    (fun m (st : List (Fl M) × List Nat) => (st.1.length = n * n ∧ st.2.length = n) ∧ LuMulR n m st.1)
    (luStep n) (a, List.range n) n
    ⟨⟨ha, by simp⟩, fun c i hc => by omega⟩
    (fun m st hm' ⟨⟨h1, h2⟩, h3⟩ => by
      obtain ⟨hl3, hpl3, -, -⟩ := LuS.luStep_spec' n m st.1 st.2 h1 h2 hm' _ _ rfl rfl
      exact ⟨⟨hl3, hpl3⟩, LuMulR.step hm n m st.1 st.2 h1 h2 hm' h3⟩)
  exact this.2

/-- every entry of the computed unit lower triangular factor is bounded by one -/
theorem Lv_abs_le_one (n : Nat) (f : List (Fl M)) (h : LuMulR n n f) (i k : Nat) (hi : i < n) (hk : k < n) :
    |Lv n f i k| ≤ 1 := by
  unfold Lv
  by_cases h1 : k < i
  · rw [if_pos h1]; exact h k i hk h1 hi
  · rw [if_neg h1]
    by_cases h2 : k = i
    · rw [if_pos h2]; simp
    · rw [if_neg h2]; simp

end inv

/-! ### the column-oriented triangular solves of `lu_solve` -/

/-- `y = b; for k in ks { y -= x[k]*l[k] }` (distinct indices): `b = y·G + Σ x[k]·l[k]·F[k]`, at most
`|ks|` roundings in each factor -/
theorem foldl_axpy_pert (x l : Nat → Fl M) (ks : List Nat) (hnd : ks.Nodup) (b : Fl M) :
    ∃ (G : ℝ) (F : Nat → ℝ), M.Fac ks.length G ∧ (∀ k, M.Fac ks.length (F k)) ∧
      b.val = (ks.foldl (fun y k => y - x k * l k) b).val * G +
        (ks.map fun k => ((x k).val * (l k).val) * F k).sum := by
  induction ks generalizing b with
  | nil => exact ⟨1, fun _ => 1, Fac.one, fun _ => Fac.one, by simp⟩
  | cons k ks ih =>
    obtain ⟨hk, hnd'⟩ := List.nodup_cons.mp hnd
    obtain ⟨G, F, hG, hF, he⟩ := ih hnd' (b - x k * l k)
    obtain ⟨ε, hε, h1⟩ := M.std ((x k).val * (l k).val)
    obtain ⟨δ, hδ, h2⟩ := M.std (b.val - M.rnd ((x k).val * (l k).val))
    have hb' : (b - x k * l k).val = (b.val - (x k).val * (l k).val * (1 + ε)) * (1 + δ) := by
      show M.rnd (b.val - M.rnd ((x k).val * (l k).val)) = _
      rw [h2, h1]
    have hfδ := Fac.one_add hδ
    have hpos := hfδ.pos.ne'
    refine ⟨G * (1 + δ)⁻¹, fun j => if j = k then 1 + ε else F j * (1 + δ)⁻¹, ?_, ?_, ?_⟩
    · exact hG.mul hfδ.inv
    · intro j
      by_cases hjk : j = k
      · simp only [hjk, if_true, List.length_cons]
        exact (Fac.one_add hε).mono (by omega)
      · simp only [hjk, if_false]
        exact (hF j).mul hfδ.inv
    · simp only [List.foldl_cons, List.map_cons, List.sum_cons, if_true]
      have hmap : (ks.map fun j => (x j).val * (l j).val *
            (if j = k then 1 + ε else F j * (1 + δ)⁻¹)).sum =
          (ks.map fun j => (x j).val * (l j).val * F j).sum * (1 + δ)⁻¹ := by
        rw [← List.sum_map_mul_right]
        congr 1
        apply List.map_congr_left
        intro j hj
        have : j ≠ k := fun e => hk (e ▸ hj)
        rw [if_neg this]; ring
      rw [hmap]
      have hb : b.val = (b - x k * l k).val * (1 + δ)⁻¹ + (x k).val * (l k).val * (1 + ε) := by
        rw [hb']; field_simp; ring
      rw [hb, he]
      ring

section solves
variable [FlSqrt M]

/-- **Forward elimination of `lu_solve`, backward error** (Higham Thm 8.5, column-oriented variant):
the computed `ŷ = luFwd n f x₀` solves `(L̂ + ΔL)·ŷ = x₀` with `|ΔL| ≤ γ_n·|L̂|` entrywise, `L̂` the unit
lower triangular part of `f`. -/
theorem luFwd_backward_error (n : Nat) (f x0 : List (Fl M)) (hx : x0.length = n)
    (hu : (n : ℝ) * M.u < 1) :
    (luFwd n f x0).length = n ∧ ∃ E : Nat → Nat → ℝ,
      (∀ i k, i < n → k < n → |E i k| ≤ M.γ n * |Lv n f i k|) ∧
      ∀ i, i < n → ∑ k ∈ range n, (Lv n f i k + E i k) * (rd (luFwd n f x0) k).val = (rd x0 i).val := by
  obtain ⟨hyl, hy⟩ := LuS.luFwd_spec n f x0 hx
  generalize luFwd n f x0 = y at hyl hy
  refine ⟨hyl, ?_⟩
  choose G F hG hF he using fun i : Nat =>
    foldl_axpy_pert (M := M) (fun k => rd y k) (fun k => ent n f i k) (List.range i)
      List.nodup_range (rd x0 i)
  simp only [List.length_range] at hG hF
  refine ⟨fun i k => if k < i then ev n f i k * (F i k - 1) else if k = i then G i - 1 else 0, ?_, ?_⟩
  · intro i k hi hk
    unfold Lv
    by_cases hki : k < i
    · simp only [hki, if_true]
      exact delta_bound (hF i k) (by omega) hu _
    · simp only [hki, if_false]
      by_cases hki' : k = i
      · simp only [hki', if_true]
        have := delta_bound (hG i) (by omega : i ≤ n) hu 1
        simpa using this
      · simp only [hki', if_false, abs_zero, mul_zero, le_refl]
  · intro i hi
    rw [← sum_head_eq _ n i hi (by
      intro k h1 h2
      have h3 : ¬ k < i := by omega
      have h4 : ¬ k = i := by omega
      simp [Lv, h3, h4])]
    rw [Finset.sum_range_succ, he i, ← hy i hi, list_sum_range]
    have hlow : ∑ k ∈ range i, (Lv n f i k +
          (if k < i then ev n f i k * (F i k - 1) else if k = i then G i - 1 else 0)) * (rd y k).val =
        ∑ k ∈ range i, (rd y k).val * (ent n f i k).val * F i k := by
      apply Finset.sum_congr rfl
      intro k hk
      have hk' := Finset.mem_range.mp hk
      simp only [Lv, hk', if_true, ev_ent]
      ring
    rw [hlow]
    simp only [Lv, Nat.lt_irrefl, if_false, if_true]
    ring

/-- the index list of the inner loop of back substitution -/
theorem sum_map_reverse_range' (g : Nat → ℝ) (s m : Nat) :
    ((List.range' s m).reverse.map g).sum = ∑ t ∈ range m, g (s + t) := by
  rw [List.map_reverse, List.sum_reverse, List.range'_eq_map_range, List.map_map, list_sum_range]
  rfl

/-- **Back substitution of `lu_solve`, backward error**: the computed `x̂ = luBwd n f y` solves
`(Û + ΔU)·x̂ = y` with `|ΔU| ≤ γ_n·|Û|` entrywise, `Û` the upper triangular part of `f` (non-zero
diagonal). -/
theorem luBwd_backward_error (n : Nat) (f y : List (Fl M)) (hy : y.length = n)
    (hd : ∀ k, k < n → ev n f k k ≠ 0) (hu : (n : ℝ) * M.u < 1) :
    (luBwd n f y).length = n ∧ ∃ E : Nat → Nat → ℝ,
      (∀ i k, i < n → k < n → |E i k| ≤ M.γ n * |Uv n f i k|) ∧
      ∀ i, i < n → ∑ k ∈ range n, (Uv n f i k + E i k) * (rd (luBwd n f y) k).val = (rd y i).val := by
  obtain ⟨hxl, hx⟩ := LuS.luBwd_spec n f y hy
  generalize luBwd n f y = x at hxl hx
  refine ⟨hxl, ?_⟩
  choose G F hG hF he using fun i : Nat =>
    foldl_axpy_pert (M := M) (fun k => rd x k) (fun k => ent n f i k)
      (List.range' (i + 1) (n - (i + 1))).reverse
      (List.nodup_reverse.mpr List.nodup_range') (rd y i)
  simp only [List.length_reverse, List.length_range'] at hG hF
  -- the final division
  choose δ hδ hdiv using fun i : Nat => M.std
    (((List.range' (i + 1) (n - (i + 1))).reverse.foldl
      (fun y k => y - rd x k * ent n f i k) (rd y i)).val / (ent n f i i).val)
  refine ⟨fun i k => if i < k then ev n f i k * (F i k - 1)
    else if k = i then ev n f i i * (G i * (1 + δ i)⁻¹ - 1) else 0, ?_, ?_⟩
  · intro i k hi hk
    unfold Uv
    by_cases hik : i < k
    · have h1 : i ≤ k := by omega
      simp only [hik, h1, if_true]
      exact delta_bound (hF i k) (by omega) hu _
    · simp only [hik, if_false]
      by_cases hki' : k = i
      · subst hki'
        simp only [if_true, le_refl]
        have hfac : M.Fac (n - (k + 1) + 1) (G k * (1 + δ k)⁻¹) := (hG k).mul (Fac.one_add (hδ k)).inv
        exact delta_bound hfac (by omega) hu _
      · simp only [hki', if_false, abs_zero]
        exact mul_nonneg (M.γ_nonneg n hu) (abs_nonneg _)
  · intro i hi
    have hxi : (rd x i).val = ((List.range' (i + 1) (n - (i + 1))).reverse.foldl
        (fun y k => y - rd x k * ent n f i k) (rd y i)).val / (ent n f i i).val * (1 + δ i) := by
      rw [hx i hi]
      exact hdiv i
    have hdi : (ent n f i i).val ≠ 0 := hd i hi
    have hpos := (Fac.one_add (hδ i)).pos.ne'
    have hz : ((List.range' (i + 1) (n - (i + 1))).reverse.foldl
        (fun y k => y - rd x k * ent n f i k) (rd y i)).val =
        (rd x i).val * (ent n f i i).val * (1 + δ i)⁻¹ := by
      rw [hxi]; field_simp
    rw [he i, hz, sum_map_reverse_range']
    rw [← sum_tail_eq _ n i (by omega) (by
      intro k hk
      have h1 : ¬ i < k := by omega
      have h2 : ¬ k = i := by omega
      have h3 : ¬ i ≤ k := by omega
      simp [Uv, h1, h2, h3])]
    rw [show n - i = (n - (i + 1)) + 1 by omega, Finset.sum_range_succ']
    have hhigh : ∑ t ∈ range (n - (i + 1)), (Uv n f i (i + (t + 1)) +
          (if i < i + (t + 1) then ev n f i (i + (t + 1)) * (F i (i + (t + 1)) - 1)
            else if i + (t + 1) = i then ev n f i i * (G i * (1 + δ i)⁻¹ - 1) else 0)) *
          (rd x (i + (t + 1))).val =
        ∑ t ∈ range (n - (i + 1)), (rd x (i + 1 + t)).val * (ent n f i (i + 1 + t)).val *
          F i (i + 1 + t) := by
      apply Finset.sum_congr rfl
      intro t _
      have h1 : i < i + (t + 1) := by omega
      have h2 : i ≤ i + (t + 1) := by omega
      simp only [Uv, h1, h2, if_true, ev_ent]
      rw [show i + (t + 1) = i + 1 + t by omega]
      ring
    rw [hhigh]
    simp only [Uv, Nat.add_zero, Nat.lt_irrefl, le_refl, if_false, if_true, ev_ent]
    ring

end solves

end Cv.FactorRounding
