//! C08 executor: descriptive statistics through the public API of `compute`
//! (free functions of `compute::statistics` and the `Vector` / `Matrix` methods).
//!
//! Requests (`form`: 0 = free function on a slice, 1 = `Vector` method, 2 = `Matrix` method for the seven
//! reductions mean var svar std sstd min max (other ops: same as 1); `tag` is a free-form
//! regime label that is ignored here and dropped before the line reaches the model):
//!   `<op> <form> <tag> <vec>`           op ∈ mean wmean var svar std sstd min max argmin argmax hbc
//!   `<op> <form> <tag> <vec x> <vec y>` op ∈ cov scov scov1 scovo
//!   `margmin|margmax <form> <tag> r c <r*c floats>`
//! Replies: `= <float>` / `= <index>` / `= <len> <floats>` (hbc) / `= <row> <col>` / `! panic`.
use compute::prelude::{Matrix, Vector};
use compute::statistics as st;
use cvexec::*;

fn as_matrix(v: &[f64]) -> Matrix {
    let n = v.len();
    let mut r = 1;
    let mut d = 1;
    while d * d <= n {
        if n % d == 0 {
            r = d;
        }
        d += 1;
    }
    let (r, c) = if n == 0 {
        (0, 0)
    } else if n % 2 == 1 {
        (n / r, r)
    } else {
        (r, n / r)
    };
    Matrix::new(v.to_vec(), r as i32, c as i32)
}

fn step(_: &mut (), t: &mut Toks) -> R<String> {
    let op = t.tok()?;
    let form = t.usize()?;
    let _tag = t.tok()?;
    match op {
        "mean" | "wmean" | "var" | "svar" | "std" | "sstd" | "min" | "max" => {
            let v = t.vec()?;
            t.end()?;
            let r = if form == 0 {
                match op {
                    "mean" => st::mean(&v),
                    "wmean" => st::welford_mean(&v),
                    "var" => st::var(&v),
                    "svar" => st::sample_var(&v),
                    "std" => st::std(&v),
                    "sstd" => st::sample_std(&v),
                    "min" => st::min(&v),
                    _ => st::max(&v),
                }
            } else if form == 1 {
                let w = Vector::from(v.clone());
                match op {
                    "mean" => w.mean(),
                    "wmean" => st::welford_mean(&w),
                    "var" => w.var(),
                    "svar" => w.sample_var(),
                    "std" => w.std(),
                    "sstd" => w.sample_std(),
                    "min" => w.min(),
                    _ => w.max(),
                }
            } else {
                // form 2: the macro-generated `Matrix` reductions (matrix.rs `impl_reduction_fns_matrix!`),
                // on an r x c matrix holding the same data: r = largest divisor of n with r*r <= n,
                // orientation flipped for odd n (so 1 x n, n x 1 and non-square shapes all occur)
                let m = as_matrix(&v);
                match op {
                    "mean" => m.mean(),
                    "wmean" => st::welford_mean(m.data()),
                    "var" => m.var(),
                    "svar" => m.sample_var(),
                    "std" => m.std(),
                    "sstd" => m.sample_std(),
                    "min" => m.min(),
                    _ => m.max(),
                }
            };
            Ok(ok(show_f(r)))
        }
        "argmin" | "argmax" => {
            let v = t.vec()?;
            t.end()?;
            let r = if form == 0 {
                if op == "argmin" {
                    st::argmin(&v)
                } else {
                    st::argmax(&v)
                }
            } else {
                let w = Vector::from(v.clone());
                if op == "argmin" {
                    w.argmin()
                } else {
                    w.argmax()
                }
            };
            Ok(ok(format!("{}", r)))
        }
        "hbc" => {
            let v = t.vec()?;
            t.end()?;
            let r = if form == 0 {
                st::hist_bin_centers(&v)
            } else {
                let w = Vector::from(v.clone());
                st::hist_bin_centers(&w)
            };
            Ok(ok(show_vec(&r)))
        }
        "cov" | "scov" | "scov1" | "scovo" => {
            let x = t.vec()?;
            let y = t.vec()?;
            t.end()?;
            let f: fn(&[f64], &[f64]) -> f64 = match op {
                "cov" => st::covariance,
                "scov" => st::sample_covariance,
                "scov1" => st::sample_covariance_onepass,
                _ => st::sample_covariance_online,
            };
            let r = if form == 0 {
                f(&x, &y)
            } else {
                let (a, b) = (Vector::from(x.clone()), Vector::from(y.clone()));
                f(&a, &b)
            };
            Ok(ok(show_f(r)))
        }
        "margmin" | "margmax" => {
            let (r, c) = (t.usize()?, t.usize()?);
            let d = t.f64s(r * c)?;
            t.end()?;
            let m = Matrix::new(d, r as i32, c as i32);
            let (i, j) = if op == "margmin" { m.argmin() } else { m.argmax() };
            Ok(ok(format!("{} {}", i, j)))
        }
        _ => Err(BadOp),
    }
}

fn main() {
    run((), step);
}
