//! C12 executor: broadcast arithmetic through the public operator impls of `compute`.
//! Request: `bc <op> <kind> <own> r1 c1 r2 c2 <data1> <data2>`; kind ∈ mm mv vm; own ∈ 0..3
//! (bit 1: left operand borrowed, bit 0: right operand borrowed).
use compute::prelude::{Matrix, Vector};
use cvexec::*;

macro_rules! forms {
    ($a:expr, $b:expr, $own:expr, $op:tt) => {
        match $own {
            0 => $a $op $b,
            1 => $a $op &$b,
            2 => &$a $op $b,
            _ => &$a $op &$b,
        }
    };
}

macro_rules! ops {
    ($a:expr, $b:expr, $own:expr, $opname:expr) => {
        match $opname {
            "add" => forms!($a, $b, $own, +),
            "sub" => forms!($a, $b, $own, -),
            "mul" => forms!($a, $b, $own, *),
            "div" => forms!($a, $b, $own, /),
            _ => return Err(BadOp),
        }
    };
}

fn step(_: &mut (), t: &mut Toks) -> R<String> {
    match t.tok()? {
        "bc" => {
            let op = t.tok()?;
            let kind = t.tok()?;
            let own = t.usize()?;
            let (r1, c1, r2, c2) = (t.usize()?, t.usize()?, t.usize()?, t.usize()?);
            let d1 = t.f64s(r1 * c1)?;
            let d2 = t.f64s(r2 * c2)?;
            t.end()?;
            let res: Matrix = match kind {
                "mm" => {
                    let a = Matrix::new(d1, r1 as i32, c1 as i32);
                    let b = Matrix::new(d2, r2 as i32, c2 as i32);
                    ops!(a, b, own, op)
                }
                "mv" => {
                    let a = Matrix::new(d1, r1 as i32, c1 as i32);
                    let b = Vector::from(d2);
                    ops!(a, b, own, op)
                }
                "vm" => {
                    let a = Vector::from(d1);
                    let b = Matrix::new(d2, r2 as i32, c2 as i32);
                    ops!(a, b, own, op)
                }
                _ => return Err(BadOp),
            };
            Ok(ok(format!("{} {} {}", res.nrows, res.ncols, show_fs(&res.data))))
        }
        _ => Err(BadOp),
    }
}

fn main() {
    run((), step);
}
