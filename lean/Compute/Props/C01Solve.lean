import Compute.Lemmas.SolveMatrix
import Compute.Props.C01
import Compute.Props.C11
import Compute.Props.C11Lu
import Compute.Lemmas.CholComplete
import Compute.Lemmas.CholPosDef
import Mathlib.Analysis.Real.Sqrt
import Mathlib.Algebra.Order.BigOperators.Group.Finset
import Mathlib.Tactic.Positivity
/-
C01 / C11 (deep) — the Cholesky factor reconstructs the input (`L·Lᵀ = A`), `cholesky_solve` solves
`A·x = b`, and hence `solve`, `solve_sys`, `invert_matrix` return the solution / the inverse in exact
arithmetic, whichever factorisation the input is routed to.

Scalars: any ordered field with a `sqrt` that is positive on positives and squares back on the pivots
that actually occur (`SqrtExactOn`, e.g. `Real.sqrt`, or a table of perfect squares over `ℚ`).
The LU route is covered by `LuSolveCorrect`, which is `C11Lu.luSolve_spec` (`luSolveCorrect` below).
Over a field `x / 0 = 0`, so a zero LU pivot does not make the model panic; the LU route therefore
carries the hypothesis that the pivots are non-zero (`LuPivotsNonzero`) — which holds for every
non-singular matrix (`luPivotsNonzero_of_det`, from `C11Lu.lu_pivots_ne_zero_of_nonsingular`).

Headline theorems
* partial correctness (whatever is returned is right): `cholesky_correct`, `choleskySolve_spec`,
  `solve_correct`, `solveSys_correct`, `invertMatrix_correct`, `invertMatrix_two_sided`;
* the route does not matter: `route_independence`, `solveWith_route_independent`, `solve_eq_inv_mulVec`;
* total correctness on non-singular input of order ≥ 1 (no panic, result `= A⁻¹ b` / `A⁻¹`):
  `solve_total`, `solveSys_total`, `invertMatrix_total` (+ `_real`);
* completeness of Cholesky: `cholesky_complete` (`cholesky (G·Gᵀ) = G`, unique factor, routed to
  Cholesky), `cholesky_posDef` (every exactly symmetric positive definite input is factored).
Floating-point rounding is outside these theorems.
-/
set_option linter.unusedSectionVars false
namespace Cv.C01Solve
open Cv Cv.LA Finset

section
variable {F : Type} [Field F] [LinearOrder F] [IsStrictOrderedRing F] [Transc F] [BEq F] [LawfulBEq F]

/-! ### 1. `L·Lᵀ = A` -/

theorem tryCholesky_some (a l : List F) (n : Nat) (ha : a.length = n * n)
    (h : tryCholesky a = some (some l)) : cholLoops n a = some l := by
  unfold tryCholesky at h
  cases hsym : LA.isSymmetric a with
  | none => simp [hsym] at h
  | some s =>
    cases s with
    | false => simp [hsym] at h
    | true =>
      simp only [hsym, ha, isSquare_sq, Option.bind_eq_bind, Option.bind_some, Bool.not_true,
        Bool.false_eq_true, if_false, Option.pure_def, Option.some.injEq] at h
      exact h

theorem cholesky_some (a l : List F) (n : Nat) (ha : a.length = n * n)
    (h : LA.cholesky a = some l) : cholLoops n a = some l := by
  apply tryCholesky_some a l n ha
  unfold LA.cholesky at h
  cases ht : tryCholesky a with
  | none => simp [ht] at h
  | some o => rw [ht] at h; simpa using h

/-- **cholesky_correct.**  If `cholesky a` returns `l` for an `a` of order `n`, then `l` is `n × n`, lower
triangular with positive diagonal, and `(L·Lᵀ)[i,j] = a[i,j]` for every `j ≤ i` (the part of `a` the
sweep reads); if `a` is exactly symmetric, `L·Lᵀ = A`.  (`cholesky` itself only asserts symmetry up
to `ε = 2⁻⁵²`.) -/
theorem cholesky_correct (hpos : ∀ x : F, 0 < x → 0 < Transc.sqrt x) (a l : List F) (n : Nat)
    (ha : a.length = n * n) (h : LA.cholesky a = some l) (hsq : SqrtExactOn n a l) :
    l.length = n * n ∧
    (∀ r c, r < n → c < n → r < c → rd l (r * n + c) = 0) ∧
    (∀ r, r < n → 0 < rd l (r * n + r)) ∧
    (∀ i j, j ≤ i → i < n → ∑ k ∈ range n, rd l (i * n + k) * rd l (j * n + k) = rd a (i * n + j)) ∧
    ((∀ i j, i < n → j < n → rd a (i * n + j) = rd a (j * n + i)) →
      ∀ i j, i < n → j < n → ∑ k ∈ range n, rd l (i * n + k) * rd l (j * n + k) = rd a (i * n + j)) := by
  have hc := cholesky_some a l n ha h
  obtain ⟨h1, h2, h3⟩ := cholLoops_shape hpos n a l hc
  exact ⟨h1, h2, h3, fun i j hji hi => cholLoops_lower hpos n a l hc hsq i j hji hi,
    fun hsym i j hi hj => cholLoops_factor hpos n a l hc hsq hsym i j hi hj⟩

/-- the cells of the factor are what the textbook recurrences say (no assumption on `sqrt`):
`l_rr = sqrt(a_rr − Σ_{k<r} l_rk²)` with a positive radicand, `l_rc = (a_rc − Σ_{k<c} l_ck l_rk)/l_cc`. -/
theorem cholesky_cells (a l : List F) (n : Nat) (ha : a.length = n * n) (h : LA.cholesky a = some l) :
    (∀ r, r < n → 0 < cholPivot n a l r ∧ rd l (r * n + r) = Transc.sqrt (cholPivot n a l r)) ∧
    (∀ r c, c < r → r < n → rd l (r * n + c) =
      (rd a (r * n + c) - ∑ k ∈ range c, rd l (c * n + k) * rd l (r * n + k)) / rd l (c * n + c)) := by
  obtain ⟨_, hcells⟩ := cholLoops_cells n a l (cholesky_some a l n ha h)
  constructor
  · intro r hr
    have := hcells r r (Nat.le_refl r) hr
    simpa [CellOk] using this
  · intro r c hcr hr
    have := hcells r c (Nat.le_of_lt hcr) hr
    have hne : r ≠ c := by omega
    simpa [CellOk, hne] using this

end

/-! ### `ℝ`: `Real.sqrt` satisfies both `sqrt` hypotheses -/
section real
variable [Transc ℝ] [BEq ℝ] [LawfulBEq ℝ]

theorem real_sqrt_pos (hs : ∀ x : ℝ, Transc.sqrt x = Real.sqrt x) : ∀ x : ℝ, 0 < x → 0 < Transc.sqrt x :=
  fun x hx => by rw [hs]; exact Real.sqrt_pos.mpr hx

theorem real_sqrtExactOn (hs : ∀ x : ℝ, Transc.sqrt x = Real.sqrt x) (n : Nat) (a l : List ℝ)
    (hp : ∀ r, r < n → 0 < cholPivot n a l r) : SqrtExactOn n a l :=
  fun r hr => by rw [hs]; exact Real.mul_self_sqrt (le_of_lt (hp r hr))

/-- **cholesky_correct over `ℝ`** (any `Transc ℝ` whose `sqrt` is `Real.sqrt`): `L·Lᵀ = A`. -/
theorem cholesky_correct_real (hs : ∀ x : ℝ, Transc.sqrt x = Real.sqrt x) (a l : List ℝ) (n : Nat)
    (ha : a.length = n * n) (h : LA.cholesky a = some l)
    (hsym : ∀ i j, i < n → j < n → rd a (i * n + j) = rd a (j * n + i)) :
    l.length = n * n ∧
    (∀ r c, r < n → c < n → r < c → rd l (r * n + c) = 0) ∧
    (∀ r, r < n → 0 < rd l (r * n + r)) ∧
    ∀ i j, i < n → j < n → ∑ k ∈ range n, rd l (i * n + k) * rd l (j * n + k) = rd a (i * n + j) := by
  have hsq : SqrtExactOn n a l :=
    real_sqrtExactOn hs n a l fun r hr => ((cholesky_cells a l n ha h).1 r hr).1
  obtain ⟨h1, h2, h3, _, h5⟩ := cholesky_correct (real_sqrt_pos hs) a l n ha h hsq
  exact ⟨h1, h2, h3, h5 hsym⟩

end real

section
variable {F : Type} [Field F] [LinearOrder F] [IsStrictOrderedRing F] [Transc F] [BEq F] [LawfulBEq F]

/-! ### 2. `cholesky_solve` -/

/-- **choleskySolve_spec.**  For a lower-triangular `l` with non-zero diagonal and `L·Lᵀ = A`, whatever
`cholesky_solve l b` returns solves `A·x = b`. -/
theorem choleskySolve_spec (a l b x : List F) (n : Nat) (hl : l.length = n * n)
    (hd : ∀ i, i < n → rd l (i * n + i) ≠ 0)
    (hlow : ∀ r c, r < n → c < n → r < c → rd l (r * n + c) = 0)
    (hA : ∀ i j, i < n → j < n → ∑ k ∈ range n, rd l (i * n + k) * rd l (j * n + k) = rd a (i * n + j))
    (h : choleskySolve l b = some x) :
    b.length = n ∧ x.length = n ∧ ∀ i, i < n → ∑ j ∈ range n, rd a (i * n + j) * rd x j = rd b i :=
  LA.choleskySolve_spec a l b x n hl hd hlow hA h

/-! ### 3. `solve` -/

/-- The fact about the LU route that the theorems below rest on: with non-zero pivots, `lu` followed by
`lu_solve` solves the system. -/
def LuSolveCorrect (F : Type) [Field F] [LinearOrder F] [IsStrictOrderedRing F] [Transc F] [BEq F]
    [LawfulBEq F] : Prop :=
  ∀ (n : Nat) (a b f x : List F) (piv : List Nat), a.length = n * n → b.length = n →
    lu a = some (f, piv) → (∀ k, k < n → rd f (k * n + k) ≠ 0) → luSolve f piv b = some x →
    x.length = n ∧ ∀ i, i < n → ∑ j ∈ range n, rd a (i * n + j) * rd x j = rd b i

/-- … and it holds: this is `C11Lu.luSolve_spec`. -/
theorem luSolveCorrect : LuSolveCorrect F :=
  fun n a b f x piv ha hb h hd hx => C11Lu.luSolve_spec n a b f x piv ha hb h hd hx

/-- exact symmetry, as tested by `is_exactly_symmetric` -/
def ExactlySymmetric (n : Nat) (a : List F) : Prop :=
  ∀ i j, i < n → j < n → rd a (i * n + j) = rd a (j * n + i)

/-- A route (`some l` = Cholesky with factor `l`, `none` = LU) on which the solver is exact. -/
def ValidRoute (n : Nat) (a : List F) : Option (List F) → Prop
  | some l => cholLoops n a = some l ∧ ExactlySymmetric n a ∧ SqrtExactOn n a l
  | none => ∀ f piv, lu a = some (f, piv) → ∀ k, k < n → rd f (k * n + k) ≠ 0

/-- `sqrt` squares back on the pivots of the Cholesky route (if that is the route taken) -/
def SqrtOk (n : Nat) (a : List F) : Prop := ∀ l, route a = some (some l) → SqrtExactOn n a l

/-- the LU pivots are non-zero (if LU is the route taken) -/
def LuPivotsNonzero (n : Nat) (a : List F) : Prop :=
  route a = some none → ∀ f piv, lu a = some (f, piv) → ∀ k, k < n → rd f (k * n + k) ≠ 0

theorem isExactlySymmetric_true (a : List F) (n : Nat) (ha : a.length = n * n)
    (h : isExactlySymmetric a = some true) : ExactlySymmetric n a := by
  simp only [isExactlySymmetric, ha, isSquare_sq, Option.bind_eq_bind, Option.bind_some, Option.pure_def,
    Option.some.injEq, List.all_eq_true, List.mem_range, List.mem_range'_1, Bool.not_eq_true', bne_eq_false_iff_eq] at h
  intro i j hi hj
  rcases Nat.lt_trichotomy i j with hij | hij | hij
  · exact h i hi j ⟨by omega, by omega⟩
  · subst hij; rfl
  · exact (h j hj i ⟨by omega, by omega⟩).symm

/-- the route actually taken by `solve` is valid under the two side conditions -/
theorem route_valid (a : List F) (n : Nat) (ha : a.length = n * n) (r : Option (List F))
    (hr : route a = some r) (hsq : SqrtOk n a) (hpiv : LuPivotsNonzero n a) : ValidRoute n a r := by
  cases r with
  | none => exact hpiv hr
  | some l =>
    have hr' := hr
    unfold route at hr'
    cases hp : routePredicate a with
    | none => simp [hp] at hr'
    | some ok =>
      cases ok with
      | false => simp [hp] at hr'
      | true =>
        simp only [hp, Option.bind_eq_bind, Option.bind_some, if_true] at hr'
        refine ⟨tryCholesky_some a l n ha hr', ?_, hsq l hr⟩
        unfold routePredicate at hp
        cases hpd : isPositiveDefinite a with
        | none => simp [hpd] at hp
        | some pd =>
          cases pd with
          | false => simp [hpd] at hp
          | true =>
            simp only [hpd, Option.bind_eq_bind, Option.bind_some, if_true] at hp
            exact isExactlySymmetric_true a n ha hp

/-- facts about a valid Cholesky route -/
theorem chol_route_facts (hpos : ∀ x : F, 0 < x → 0 < Transc.sqrt x) (a l : List F) (n : Nat)
    (hv : ValidRoute n a (some l)) :
    l.length = n * n ∧ (∀ r c, r < n → c < n → r < c → rd l (r * n + c) = 0) ∧
    (∀ r, r < n → rd l (r * n + r) ≠ 0) ∧
    ∀ i j, i < n → j < n → ∑ k ∈ range n, rd l (i * n + k) * rd l (j * n + k) = rd a (i * n + j) := by
  obtain ⟨hc, hsym, hsq⟩ := hv
  obtain ⟨h1, h2, h3⟩ := cholLoops_shape hpos n a l hc
  exact ⟨h1, h2, fun r hr => ne_of_gt (h3 r hr),
    fun i j hi hj => cholLoops_factor hpos n a l hc hsq hsym i j hi hj⟩

/-- **the single-right-hand-side solve is exact on every valid route** -/
theorem solveWith_correct (hpos : ∀ x : F, 0 < x → 0 < Transc.sqrt x)
    (a b x : List F) (n : Nat) (ha : a.length = n * n) (hb : b.length = n) (r : Option (List F))
    (hv : ValidRoute n a r) (h : solveWith a r b = some x) :
    x.length = n ∧ ∀ i, i < n → ∑ j ∈ range n, rd a (i * n + j) * rd x j = rd b i := by
  cases r with
  | some l =>
    obtain ⟨h1, h2, h3, h4⟩ := chol_route_facts hpos a l n hv
    exact (choleskySolve_spec a l b x n h1 h3 h2 h4 h).2
  | none =>
    simp only [solveWith] at h
    cases hf : lu a with
    | none => simp [hf] at h
    | some fp =>
      obtain ⟨f, piv⟩ := fp
      simp only [hf] at h
      exact luSolveCorrect n a b f x piv ha hb hf (hv f piv hf) h

theorem solve_some (a b x : List F) (h : solve a b = some x) :
    a.length = b.length * b.length ∧ ∃ r, route a = some r ∧ solveWith a r b = some x := by
  unfold solve at h
  by_cases hl : a.length = b.length * b.length
  · simp only [hl, ne_eq, not_true_eq_false, if_false, Option.bind_eq_bind] at h
    cases hr : route a with
    | none => simp [hr] at h
    | some r => exact ⟨hl, r, rfl, by simpa [hr] using h⟩
  · simp [hl] at h

/-- **solve_correct.**  For a square `a` of order `n`: whatever `solve a b` returns has length `n` and
solves `A·x = b` — on the Cholesky route given an exact `sqrt` (`SqrtOk`), on the LU route
(`C11Lu.luSolve_spec`) when the pivots are non-zero (`LuPivotsNonzero`). -/
theorem solve_correct (hpos : ∀ x : F, 0 < x → 0 < Transc.sqrt x)
    (a b x : List F) (n : Nat) (ha : a.length = n * n) (h : solve a b = some x)
    (hsq : SqrtOk n a) (hpiv : LuPivotsNonzero n a) :
    b.length = n ∧ x.length = n ∧ ∀ i, i < n → ∑ j ∈ range n, rd a (i * n + j) * rd x j = rd b i := by
  obtain ⟨hl, r, hr, hs⟩ := solve_some a b x h
  have hb : b.length = n := by rw [ha] at hl; exact (Nat.mul_self_inj.mp hl).symm
  exact ⟨hb, solveWith_correct hpos a b x n ha hb r (route_valid a n ha r hr hsq hpiv) hs⟩

/-- `solve` panics when `a` is not `b.len() × b.len()` -/
theorem solve_rejects (a b : List F) (h : a.length ≠ b.length * b.length) : solve a b = none := by
  simp [solve, h]

/-! ### non-singularity and independence of the route -/

theorem luPermute_some_of_length (piv : List Nat) (b b' x : List F) (hb : b'.length = b.length)
    (h : luPermute piv b = some x) : ∃ x', luPermute piv b' = some x' := by
  unfold luPermute at h ⊢
  simp only [hb]
  by_cases h1 : b.length < piv.length
  · simp [h1] at h
  · by_cases h2 : (piv.any fun p => decide (b.length ≤ p)) = true
    · simp [h1, h2] at h
    · simp only [h1, h2, if_false, Bool.false_eq_true]
      exact ⟨_, rfl⟩

theorem luSolve_some_of_length (f : List F) (piv : List Nat) (b b' x : List F) (hb : b'.length = b.length)
    (h : luSolve f piv b = some x) : ∃ x', luSolve f piv b' = some x' := by
  unfold luSolve at h ⊢
  simp only [hb]
  by_cases hl : f.length = b.length * b.length
  · simp only [hl, ne_eq, not_true_eq_false, if_false, Option.bind_eq_bind] at h ⊢
    cases hp : luPermute piv b with
    | none => simp [hp] at h
    | some y =>
      obtain ⟨y', hy'⟩ := luPermute_some_of_length piv b b' y hb hp
      simp only [hy', Option.bind_some, Option.pure_def]
      exact ⟨_, rfl⟩
  · simp [hl] at h

/-- **Whenever `solve` answers on a valid route, the matrix is non-singular.**  (Cholesky: `det A = (Π l_ii)² ≠ 0`;
LU: the route answers — correctly — for every right-hand side, so `A` is onto.) -/
theorem solveWith_nonsingular (hpos : ∀ x : F, 0 < x → 0 < Transc.sqrt x)
    (a b x : List F) (n : Nat) (ha : a.length = n * n) (hb : b.length = n) (r : Option (List F))
    (hv : ValidRoute n a r) (h : solveWith a r b = some x) : (toMatrix n a).det ≠ 0 := by
  cases r with
  | some l =>
    obtain ⟨_, h2, h3, h4⟩ := chol_route_facts hpos a l n hv
    exact chol_det_ne_zero n a l h3 h2 h4
  | none =>
    simp only [solveWith] at h
    cases hf : lu a with
    | none => simp [hf] at h
    | some fp =>
      obtain ⟨f, piv⟩ := fp
      simp only [hf] at h
      apply det_ne_zero_of_solver
      intro v
      have hlen : (List.ofFn v).length = b.length := by simp [hb]
      obtain ⟨x', hx'⟩ := luSolve_some_of_length f piv b (List.ofFn v) x hlen h
      refine ⟨x', fun i => ?_⟩
      have := (luSolveCorrect n a (List.ofFn v) f x' piv ha (by simp) hf (hv f piv hf) hx').2 i.1 i.2
      rw [this]
      exact congrFun (toVec_ofFn n v) i

/-- **route_independence.**  In exact arithmetic the answer never depends on which internal
factorisation the input is routed to: two valid routes for the same `a` return the same `x`. -/
theorem solveWith_route_independent (hpos : ∀ x : F, 0 < x → 0 < Transc.sqrt x)
    (a b x₁ x₂ : List F) (n : Nat) (ha : a.length = n * n) (hb : b.length = n) (r₁ r₂ : Option (List F))
    (hv₁ : ValidRoute n a r₁) (hv₂ : ValidRoute n a r₂)
    (h₁ : solveWith a r₁ b = some x₁) (h₂ : solveWith a r₂ b = some x₂) : x₁ = x₂ := by
  have hdet := solveWith_nonsingular hpos a b x₁ n ha hb r₁ hv₁ h₁
  obtain ⟨l1, s1⟩ := solveWith_correct hpos a b x₁ n ha hb r₁ hv₁ h₁
  obtain ⟨l2, s2⟩ := solveWith_correct hpos a b x₂ n ha hb r₂ hv₂ h₂
  exact solution_unique n a x₁ x₂ b hdet l1 l2 s1 s2

/-- **route_independence**, spelled out for the two factorisations: the Cholesky route and the LU route
agree on every symmetric positive definite input. -/
theorem route_independence (hpos : ∀ x : F, 0 < x → 0 < Transc.sqrt x)
    (a b l f x₁ x₂ : List F) (piv : List Nat) (n : Nat) (ha : a.length = n * n)
    (hc : cholLoops n a = some l) (hsym : ExactlySymmetric n a) (hsq : SqrtExactOn n a l)
    (hf : lu a = some (f, piv)) (hp : ∀ k, k < n → rd f (k * n + k) ≠ 0)
    (h₁ : choleskySolve l b = some x₁) (h₂ : luSolve f piv b = some x₂) : x₁ = x₂ := by
  have hv₁ : ValidRoute n a (some l) := ⟨hc, hsym, hsq⟩
  have hv₂ : ValidRoute n a none := by
    intro f' piv' hf'
    rw [hf] at hf'
    cases hf'
    exact hp
  obtain ⟨hl, h2, h3, h4⟩ := chol_route_facts hpos a l n hv₁
  have hb := (choleskySolve_spec a l b x₁ n hl h3 h2 h4 h₁).1
  refine solveWith_route_independent hpos a b x₁ x₂ n ha hb (some l) none hv₁ hv₂ h₁ ?_
  simp only [solveWith, hf, Option.bind_eq_bind, Option.bind_some]
  exact h₂

/-- `solve` returns `A⁻¹ b` (Mathlib's matrix inverse), and `A` is non-singular whenever it answers. -/
theorem solve_eq_inv_mulVec (hpos : ∀ x : F, 0 < x → 0 < Transc.sqrt x)
    (a b x : List F) (n : Nat) (ha : a.length = n * n) (h : solve a b = some x)
    (hsq : SqrtOk n a) (hpiv : LuPivotsNonzero n a) :
    (toMatrix n a).det ≠ 0 ∧ toVec n x = (toMatrix n a)⁻¹.mulVec (toVec n b) := by
  obtain ⟨hl, r, hr, hs⟩ := solve_some a b x h
  have hb : b.length = n := by rw [ha] at hl; exact (Nat.mul_self_inj.mp hl).symm
  have hv := route_valid a n ha r hr hsq hpiv
  have hdet := solveWith_nonsingular hpos a b x n ha hb r hv hs
  exact ⟨hdet, toVec_eq_inv_mulVec n a x b hdet (solveWith_correct hpos a b x n ha hb r hv hs).2⟩

/-! ### 4. `solve_sys`, `invert_matrix` -/

theorem rd_column (b : List F) (n nsys c i : Nat) (hi : i < n) : rd (C01.column b n nsys c) i = rd b (i * nsys + c) := by
  unfold C01.column
  rw [rd_map_range _ _ _ hi]

/-- **solveSys_correct.**  `solve_sys a b` returns `X` with `A·X = B`, column by column
(`b`, `x` row-major `n × nsys`). -/
theorem solveSys_correct (hpos : ∀ x : F, 0 < x → 0 < Transc.sqrt x)
    (a b x : List F) (n : Nat) (ha : a.length = n * n) (h : solveSys a b = some x)
    (hsq : SqrtOk n a) (hpiv : LuPivotsNonzero n a) :
    ∃ nsys, n ≠ 0 ∧ n * nsys = b.length ∧ x.length = b.length ∧
      ∀ c, c < nsys → ∀ i, i < n →
        ∑ j ∈ range n, rd a (i * n + j) * rd x (j * nsys + c) = rd b (i * nsys + c) := by
  obtain ⟨n', nsys, r, hn', hn0, hb, hr, hxl, hcols⟩ := C01.solveSys_column a b x h
  have hnn : n' = n := by rw [ha] at hn'; exact Nat.mul_self_inj.mp hn'
  subst hnn
  refine ⟨nsys, hn0, hb, hxl, fun c hc i hi => ?_⟩
  obtain ⟨_, _, hs⟩ := solve_correct hpos a _ _ n' ha (hcols c hc).2 hsq hpiv
  have := hs i hi
  rw [rd_column b n' nsys c i hi] at this
  rw [← this]
  apply Finset.sum_congr rfl
  intro j hj
  rw [rd_column x n' nsys c j (Finset.mem_range.mp hj)]

theorem rd_identity (n i j : Nat) (hi : i < n) (hj : j < n) :
    rd (identity n : List F) (i * n + j) = if i = j then 1 else 0 := by
  unfold identity
  rw [rd_map_range _ _ _ (idx_lt' hj hi)]
  obtain ⟨h1, h2⟩ := divmod_idx' (j := i) hj
  rw [h1, h2]

/-- **invertMatrix_correct.**  `invert_matrix a` returns a right inverse: `A · inv = I`. -/
theorem invertMatrix_correct (hpos : ∀ x : F, 0 < x → 0 < Transc.sqrt x)
    (a inv : List F) (n : Nat) (ha : a.length = n * n) (h : invertMatrix a = some inv)
    (hsq : SqrtOk n a) (hpiv : LuPivotsNonzero n a) :
    inv.length = n * n ∧ ∀ i j, i < n → j < n →
      ∑ k ∈ range n, rd a (i * n + k) * rd inv (k * n + j) = if i = j then 1 else 0 := by
  rw [C01.invertMatrix_eq_solveSys, ha, isSquare_sq] at h
  simp only [Option.bind_some] at h
  obtain ⟨nsys, hn0, hb, hxl, hcols⟩ := solveSys_correct hpos a (identity n) inv n ha h hsq hpiv
  have hil : (identity n : List F).length = n * n := by simp [identity]
  have hns : nsys = n := by
    rw [hil] at hb
    exact Nat.eq_of_mul_eq_mul_left (Nat.pos_of_ne_zero hn0) hb
  subst hns
  refine ⟨by rw [hxl, hil], fun i j hi hj => ?_⟩
  rw [hcols j hj i hi, rd_identity nsys i j hi hj]

/-- … and, the matrix being square over a field, also a left inverse: `inv · A = I`; `A` is
non-singular and `inv` is Mathlib's `A⁻¹`. -/
theorem invertMatrix_two_sided (hpos : ∀ x : F, 0 < x → 0 < Transc.sqrt x)
    (a inv : List F) (n : Nat) (ha : a.length = n * n) (h : invertMatrix a = some inv)
    (hsq : SqrtOk n a) (hpiv : LuPivotsNonzero n a) :
    (∀ i j, i < n → j < n → ∑ k ∈ range n, rd inv (i * n + k) * rd a (k * n + j) = if i = j then 1 else 0) ∧
    (toMatrix n a).det ≠ 0 ∧ toMatrix n inv = (toMatrix n a)⁻¹ := by
  obtain ⟨_, hr⟩ := invertMatrix_correct hpos a inv n ha h hsq hpiv
  have hMN : toMatrix n a * toMatrix n inv = 1 := by
    ext i j
    rw [Matrix.mul_apply, Matrix.one_apply]
    simp only [toMatrix]
    rw [Fin.sum_univ_eq_sum_range (fun k => rd a (i.1 * n + k) * rd inv (k * n + j.1)) n, hr i.1 j.1 i.2 j.2]
    simp [Fin.ext_iff]
  have hNM : toMatrix n inv * toMatrix n a = 1 := mul_eq_one_comm.mp hMN
  refine ⟨fun i j hi hj => ?_, ?_, (Matrix.inv_eq_right_inv hMN).symm⟩
  · have := congrFun (congrFun hNM ⟨i, hi⟩) ⟨j, hj⟩
    rw [Matrix.mul_apply, Matrix.one_apply] at this
    simp only [toMatrix] at this
    rw [Fin.sum_univ_eq_sum_range (fun k => rd inv (i * n + k) * rd a (k * n + j)) n] at this
    simpa [Fin.ext_iff] using this
  · have hu : IsUnit (toMatrix n a) := ⟨⟨_, _, hMN, hNM⟩, rfl⟩
    exact isUnit_iff_ne_zero.mp ((Matrix.isUnit_iff_isUnit_det _).mp hu)

end

/-! ### non-singular systems: total correctness -/
section
variable {F : Type} [Field F] [LinearOrder F] [IsStrictOrderedRing F] [Transc F] [BEq F] [LawfulBEq F]

/-- a globally exact `sqrt` (such as `Real.sqrt`) is exact on the pivots of every Cholesky route -/
theorem sqrtOk_of_exact (hs : ∀ x : F, 0 < x → Transc.sqrt x * Transc.sqrt x = x) (a : List F) (n : Nat)
    (ha : a.length = n * n) : SqrtOk n a := by
  intro l hr r hr'
  have hv : cholLoops n a = some l := by
    unfold route at hr
    cases hp : routePredicate a with
    | none => simp [hp] at hr
    | some ok =>
      cases ok with
      | false => simp [hp] at hr
      | true =>
        simp only [hp, Option.bind_eq_bind, Option.bind_some, if_true] at hr
        exact tryCholesky_some a l n ha hr
  have := (cholLoops_cells n a l hv).2 r r (Nat.le_refl r) hr'
  simp only [CellOk, if_true] at this
  exact hs _ this.1

/-- a non-singular matrix has non-zero LU pivots (partial pivoting; `C11Lu.lu_pivots_ne_zero_of_nonsingular`) -/
theorem luPivotsNonzero_of_det (habs : ∀ x : F, Transc.abs x = |x|) (a : List F) (n : Nat)
    (ha : a.length = n * n) (hdet : (toMatrix n a).det ≠ 0) : LuPivotsNonzero n a := by
  intro _ f piv hf
  apply C11Lu.lu_pivots_ne_zero_of_nonsingular habs n a f piv ha hf
  intro v hv j hj
  have hmv : (toMatrix n a).mulVec (fun j : Fin n => v j.1) = 0 := by
    funext i
    have := hv i.1 i.2
    rw [← Fin.sum_univ_eq_sum_range (fun j => rd a (i.1 * n + j) * v j) n] at this
    exact this
  exact congrFun (Matrix.eq_zero_of_mulVec_eq_zero hdet hmv) ⟨j, hj⟩

/-- the routing never panics on a square array -/
theorem route_some (a : List F) (n : Nat) (ha : a.length = n * n) : ∃ r, route a = some r := by
  obtain ⟨s, hs⟩ : ∃ s, isSymmetric a = some s :=
    ⟨_, by simp only [isSymmetric, ha, isSquare_sq, Option.bind_eq_bind, Option.bind_some, Option.pure_def]; rfl⟩
  obtain ⟨e, he⟩ : ∃ e, isExactlySymmetric a = some e :=
    ⟨_, by simp only [isExactlySymmetric, ha, isSquare_sq, Option.bind_eq_bind, Option.bind_some, Option.pure_def]; rfl⟩
  unfold route routePredicate isPositiveDefinite tryCholesky
  rw [hs, he, ha, isSquare_sq]
  cases s with
  | false => simp
  | true =>
    simp only [Option.bind_eq_bind, Option.bind_some, Bool.not_true, Bool.false_eq_true, if_false, Option.pure_def]
    split
    · cases e with
      | false => simp
      | true => simp
    · simp

/-- **solve_total.**  Total correctness of `solve` on non-singular systems of order `n ≥ 1` over an ordered field
with exact `sqrt` and `abs`: no panic, and the result is the solution `A⁻¹ b` — whichever route is taken. -/
theorem solve_total (habs : ∀ x : F, Transc.abs x = |x|) (hpos : ∀ x : F, 0 < x → 0 < Transc.sqrt x)
    (hs : ∀ x : F, 0 < x → Transc.sqrt x * Transc.sqrt x = x)
    (a b : List F) (n : Nat) (ha : a.length = n * n) (hb : b.length = n) (hn : n ≠ 0)
    (hdet : (toMatrix n a).det ≠ 0) :
    ∃ x, solve a b = some x ∧ x.length = n ∧
      (∀ i, i < n → ∑ j ∈ range n, rd a (i * n + j) * rd x j = rd b i) ∧
      toVec n x = (toMatrix n a)⁻¹.mulVec (toVec n b) := by
  have hsq := sqrtOk_of_exact hs a n ha
  have hpiv := luPivotsNonzero_of_det habs a n ha hdet
  obtain ⟨r, hr⟩ := route_some a n ha
  have hv := route_valid a n ha r hr hsq hpiv
  have hsolve : solve a b = solveWith a r b := by
    simp only [solve, ha, hb, ne_eq, not_true_eq_false, if_false, hr, Option.bind_eq_bind, Option.bind_some]
  obtain ⟨x, hx⟩ : ∃ x, solveWith a r b = some x := by
    cases r with
    | some l =>
      obtain ⟨h1, _, h3, _⟩ := chol_route_facts hpos a l n hv
      exact choleskySolve_some l b n h1 hn hb h3
    | none =>
      cases hl : lu a with
      | none => exact absurd ha.symm ((C11.lu_none_iff a).mp hl n)
      | some fp =>
        obtain ⟨x, hx⟩ := C11Lu.luSolve_some a b fp.1 fp.2 hl (by rw [ha, hb])
        exact ⟨x, by simp only [solveWith, hl, Option.bind_eq_bind, Option.bind_some]; exact hx⟩
  rw [← hsolve] at hx
  obtain ⟨_, h2, h3⟩ := solve_correct hpos a b x n ha hx hsq hpiv
  exact ⟨x, hx, h2, h3, toVec_eq_inv_mulVec n a x b hdet h3⟩

/-- for a non-singular `a`, whatever `invert_matrix` returns is the inverse -/
theorem invertMatrix_nonsingular (habs : ∀ x : F, Transc.abs x = |x|) (hpos : ∀ x : F, 0 < x → 0 < Transc.sqrt x)
    (hs : ∀ x : F, 0 < x → Transc.sqrt x * Transc.sqrt x = x)
    (a inv : List F) (n : Nat) (ha : a.length = n * n) (hdet : (toMatrix n a).det ≠ 0)
    (h : invertMatrix a = some inv) : inv.length = n * n ∧ toMatrix n inv = (toMatrix n a)⁻¹ :=
  ⟨(invertMatrix_correct hpos a inv n ha h (sqrtOk_of_exact hs a n ha) (luPivotsNonzero_of_det habs a n ha hdet)).1,
   (invertMatrix_two_sided hpos a inv n ha h (sqrtOk_of_exact hs a n ha)
      (luPivotsNonzero_of_det habs a n ha hdet)).2.2⟩

end

/-! ### `solve_sys`, `invert_matrix`: total correctness -/
section
variable {F : Type} [Field F] [LinearOrder F] [IsStrictOrderedRing F] [Transc F] [BEq F] [LawfulBEq F]

/-- on a valid route of order `n ≥ 1` the single-right-hand-side solve never panics -/
theorem solveWith_some (hpos : ∀ x : F, 0 < x → 0 < Transc.sqrt x) (a b : List F) (n : Nat)
    (ha : a.length = n * n) (hb : b.length = n) (hn : n ≠ 0) (r : Option (List F)) (hv : ValidRoute n a r) :
    ∃ x, solveWith a r b = some x := by
  cases r with
  | some l =>
    obtain ⟨h1, _, h3, _⟩ := chol_route_facts hpos a l n hv
    exact choleskySolve_some l b n h1 hn hb h3
  | none =>
    cases hl : lu a with
    | none => exact absurd ha.symm ((C11.lu_none_iff a).mp hl n)
    | some fp =>
      obtain ⟨x, hx⟩ := C11Lu.luSolve_some a b fp.1 fp.2 hl (by rw [ha, hb])
      exact ⟨x, by simp only [solveWith, hl, Option.bind_eq_bind, Option.bind_some]; exact hx⟩

theorem solveCols_some (n : Nat) (solver : List F → Option (List F)) (bc : List F) (k : Nat)
    (h : ∀ c, c < k → ∃ sol, solver ((bc.drop (c * n)).take n) = some sol ∧ sol.length = n) :
    ∃ sols, solveCols n solver bc k = some sols := by
  induction k with
  | zero => exact ⟨[], rfl⟩
  | succ k ih =>
    obtain ⟨acc, hacc⟩ := ih (fun c hc => h c (by omega))
    obtain ⟨sol, hsol, hlen⟩ := h k (by omega)
    exact ⟨acc ++ sol, by simp [solveCols, hacc, hsol, hlen]⟩

/-- **solveSys_total.**  `solve_sys` on a non-singular `a` of order `n ≥ 1` and an `n × nsys` right-hand side:
no panic, and `A·X = B`. -/
theorem solveSys_total (habs : ∀ x : F, Transc.abs x = |x|) (hpos : ∀ x : F, 0 < x → 0 < Transc.sqrt x)
    (hs : ∀ x : F, 0 < x → Transc.sqrt x * Transc.sqrt x = x)
    (a b : List F) (n nsys : Nat) (ha : a.length = n * n) (hb : b.length = n * nsys) (hn : n ≠ 0)
    (hdet : (toMatrix n a).det ≠ 0) :
    ∃ x, solveSys a b = some x ∧ x.length = n * nsys ∧
      ∀ c, c < nsys → ∀ i, i < n →
        ∑ j ∈ range n, rd a (i * n + j) * rd x (j * nsys + c) = rd b (i * nsys + c) := by
  have hsq := sqrtOk_of_exact hs a n ha
  have hpiv := luPivotsNonzero_of_det habs a n ha hdet
  obtain ⟨r, hr⟩ := route_some a n ha
  have hv := route_valid a n ha r hr hsq hpiv
  have hm : isMatrix b.length n = some nsys := isMatrix_eq_some_iff.mpr ⟨hn, hb.symm⟩
  obtain ⟨bc, hbc⟩ : ∃ bc, rowToColMajor b n = some bc :=
    ⟨_, by simp only [rowToColMajor, hm, Option.bind_eq_bind, Option.bind_some, Option.pure_def]; rfl⟩
  have hbcl : bc.length = n * nsys := by
    have := hbc
    simp only [rowToColMajor, hm, Option.bind_eq_bind, Option.bind_some, Option.pure_def, Option.some.injEq] at this
    subst this; simp [hb]
  -- the column loop with the solver of the route
  have hcolsolve : ∀ c, c < nsys →
      ∃ sol, solveWith a r ((bc.drop (c * n)).take n) = some sol ∧ sol.length = n := by
    intro c hc
    have hseg : c * n + n ≤ bc.length := by
      rw [hbcl]
      have : (c + 1) * n ≤ nsys * n := Nat.mul_le_mul_right n hc
      rw [Nat.add_mul, Nat.mul_comm nsys n] at this; omega
    have hcl : ((bc.drop (c * n)).take n).length = n := by simp; omega
    obtain ⟨sol, hsol⟩ := solveWith_some hpos a _ n ha hcl hn r hv
    exact ⟨sol, hsol, (solveWith_correct hpos a _ sol n ha hcl r hv hsol).1⟩
  obtain ⟨sols, hsols⟩ := solveCols_some n (solveWith a r) bc nsys hcolsolve
  have hslen := (C01.solveCols_spec n _ bc nsys sols hsols).1
  have hm2 : isMatrix sols.length n = some nsys := isMatrix_eq_some_iff.mpr ⟨hn, by rw [hslen, Nat.mul_comm]⟩
  obtain ⟨x, hx⟩ : ∃ x, colToRowMajor sols n = some x :=
    ⟨_, by simp only [colToRowMajor, hm2, Option.bind_eq_bind, Option.bind_some, Option.pure_def]; rfl⟩
  have hsys : solveSys a b = some x := by
    unfold solveSys
    rw [ha, isSquare_sq]
    simp only [Option.bind_eq_bind, Option.bind_some, hm, hbc, hr]
    cases r with
    | some l =>
      have : solveWith a (some l) = choleskySolve l := rfl
      rw [this] at hsols
      simp only [hsols, Option.bind_some, hx]
    | none =>
      cases hl : lu a with
      | none => exact absurd ha.symm ((C11.lu_none_iff a).mp hl n)
      | some fp =>
        have : solveWith a none = luSolve fp.1 fp.2 := by funext bb; simp [solveWith, hl]
        rw [this] at hsols
        simp only [Option.bind_some, hsols, hx]
  obtain ⟨nsys', _, hb', hxl, hcols⟩ := solveSys_correct hpos a b x n ha hsys hsq hpiv
  have hns : nsys' = nsys := by
    rw [hb] at hb'
    exact Nat.eq_of_mul_eq_mul_left (Nat.pos_of_ne_zero hn) hb'
  subst hns
  exact ⟨x, hsys, by rw [hxl, hb], hcols⟩

/-- **invertMatrix_total.**  `invert_matrix` on a non-singular `a` of order `n ≥ 1`: no panic, and the result is
the two-sided inverse (Mathlib's `A⁻¹`). -/
theorem invertMatrix_total (habs : ∀ x : F, Transc.abs x = |x|) (hpos : ∀ x : F, 0 < x → 0 < Transc.sqrt x)
    (hs : ∀ x : F, 0 < x → Transc.sqrt x * Transc.sqrt x = x)
    (a : List F) (n : Nat) (ha : a.length = n * n) (hn : n ≠ 0) (hdet : (toMatrix n a).det ≠ 0) :
    ∃ inv, invertMatrix a = some inv ∧ inv.length = n * n ∧ toMatrix n inv = (toMatrix n a)⁻¹ := by
  have hil : (identity n : List F).length = n * n := by simp [identity]
  obtain ⟨x, hx, _, _⟩ := solveSys_total habs hpos hs a (identity n) n n ha hil hn hdet
  have hinv : invertMatrix a = some x := by
    rw [C01.invertMatrix_eq_solveSys, ha, isSquare_sq]
    exact hx
  exact ⟨x, hinv, invertMatrix_nonsingular habs hpos hs a x n ha hdet hinv⟩

end

/-! ### completeness: symmetric positive definite input is factored, and routed to Cholesky -/
section
variable {F : Type} [Field F] [LinearOrder F] [IsStrictOrderedRing F] [Transc F] [BEq F] [LawfulBEq F]

theorem isExactlySymmetric_of (a : List F) (n : Nat) (ha : a.length = n * n) (h : ExactlySymmetric n a) :
    isExactlySymmetric a = some true := by
  simp only [isExactlySymmetric, ha, isSquare_sq, Option.bind_eq_bind, Option.bind_some, Option.pure_def,
    Option.some.injEq, List.all_eq_true, List.mem_range, List.mem_range'_1, Bool.not_eq_true', bne_eq_false_iff_eq]
  intro i hi j hj
  exact h i j hi (by omega)

theorem eps_nonneg : (0 : F) ≤ (eps : F) := by unfold eps; positivity

/-- what `cholesky` returns is a Cholesky factor in the sense of `IsCholFactor` -/
theorem isCholFactor_of_cholesky (hpos : ∀ x : F, 0 < x → 0 < Transc.sqrt x) (a l : List F) (n : Nat)
    (ha : a.length = n * n) (h : LA.cholesky a = some l) (hsq : SqrtExactOn n a l) : IsCholFactor n a l := by
  obtain ⟨h1, h2, h3, h4, _⟩ := cholesky_correct hpos a l n ha h hsq
  exact ⟨h1, h2, h3, h4⟩

/-- **cholesky_complete.**  Converse of `cholesky_correct`: if the exactly symmetric `a` has a Cholesky factor `g`
(`G` lower triangular, positive diagonal, `G·Gᵀ = A` — i.e. `A` is symmetric positive definite), then `cholesky a`
does not fail and returns `g`; the factor is unique.  (`sqrt` only needs to undo squaring on the diagonal of `g`;
`sqrtExactOnDiag_of_exact` derives that from a globally exact positive `sqrt`.)  The input is routed to Cholesky, and `solve a b` is
`cholesky_solve g b`. -/
theorem cholesky_complete (habs : ∀ x : F, Transc.abs x = |x|) (a g : List F) (n : Nat)
    (ha : a.length = n * n) (hsym : ExactlySymmetric n a) (hg : IsCholFactor n a g) (hsg : SqrtExactOnDiag n g) :
    LA.cholesky a = some g ∧ route a = some (some g) ∧
      ∀ b : List F, b.length = n → solve a b = choleskySolve g b := by
  have hloops := cholLoops_of_factor n a g hg hsg
  -- the ε-symmetry assert passes
  obtain ⟨s, hs1, hs2⟩ := C01.isSymmetric_iff habs a n ha
  have hstrue : s = true := hs2.mpr fun i j hi hj => by
    rw [hsym i j hi hj, sub_self, abs_zero]; exact eps_nonneg
  subst hstrue
  have htry : tryCholesky a = some (some g) := by
    simp only [tryCholesky, hs1, ha, isSquare_sq, Option.bind_eq_bind, Option.bind_some, Bool.not_true,
      Bool.false_eq_true, if_false, Option.pure_def, hloops]
  -- positive diagonal
  obtain ⟨p, hp1, hp2⟩ := C01.isPositiveDefinite_iff habs a n ha
  have hptrue : p = true := hp2.mpr ⟨hs2.mp rfl, fun i hi => by
    have := hg.prod_cut i i (Nat.le_refl i) hi
    rw [← this]
    have h1 : 0 ≤ ∑ k ∈ range i, rd g (i * n + k) * rd g (i * n + k) :=
      Finset.sum_nonneg fun k _ => mul_self_nonneg _
    have h2 := hg.diag i hi
    have h3 : 0 < rd g (i * n + i) * rd g (i * n + i) := mul_pos h2 h2
    linarith⟩
  subst hptrue
  have hroute : route a = some (some g) := by
    simp only [route, routePredicate, hp1, isExactlySymmetric_of a n ha hsym, htry, Option.bind_eq_bind,
      Option.bind_some, if_true]
  refine ⟨by simp [LA.cholesky, htry], hroute, fun b hb => ?_⟩
  simp only [solve, ha, hb, ne_eq, not_true_eq_false, if_false, hroute, Option.bind_eq_bind, Option.bind_some, solveWith]

end

/-! ### symmetric positive definite input is always factored -/
section
variable {F : Type} [Field F] [LinearOrder F] [IsStrictOrderedRing F] [Transc F] [BEq F] [LawfulBEq F]

/-- **cholesky_posDef** (first sentence of C11).  For every exactly symmetric positive definite `a` of order `n`,
over an ordered field with exact `sqrt` and `abs`: `cholesky a` returns a factor `l` — lower triangular, positive
diagonal, `L·Lᵀ = A` — and `solve` routes `a` to Cholesky. -/
theorem cholesky_posDef (habs : ∀ x : F, Transc.abs x = |x|) (hpos : ∀ x : F, 0 < x → 0 < Transc.sqrt x)
    (hs : ∀ x : F, 0 < x → Transc.sqrt x * Transc.sqrt x = x) (a : List F) (n : Nat)
    (ha : a.length = n * n) (hsym : ExactlySymmetric n a) (hpd : PosDefFlat n a) :
    ∃ l, LA.cholesky a = some l ∧ IsCholFactor n a l ∧
      (∀ i j, i < n → j < n → ∑ k ∈ range n, rd l (i * n + k) * rd l (j * n + k) = rd a (i * n + j)) ∧
      route a = some (some l) := by
  obtain ⟨l, hl⟩ := cholLoops_posDef hpos hs n a hsym hpd
  have hsq : SqrtExactOn n a l := fun r hr => by
    have := (cholLoops_cells n a l hl).2 r r (Nat.le_refl r) hr
    simp only [CellOk, if_true] at this
    exact hs _ this.1
  obtain ⟨h1, h2, h3⟩ := cholLoops_shape hpos n a l hl
  have hf : IsCholFactor n a l :=
    ⟨h1, h2, h3, fun i j hji hi => cholLoops_lower hpos n a l hl hsq i j hji hi⟩
  obtain ⟨hc, hr, _⟩ := cholesky_complete habs a l n ha hsym hf (sqrtExactOnDiag_of_exact hpos hs n a l hf)
  exact ⟨l, hc, hf, fun i j hi hj => cholLoops_factor hpos n a l hl hsq hsym i j hi hj, hr⟩

end


/-! ### total correctness over `ℝ` -/
section real_total
variable [Transc ℝ] [BEq ℝ] [LawfulBEq ℝ]

/-- **solve_total over `ℝ`** (`sqrt = Real.sqrt`, `abs = |·|`): on every non-singular system of order `n ≥ 1`
`solve` answers, and the answer is `A⁻¹ b`. -/
theorem solve_total_real (hsqrt : ∀ x : ℝ, Transc.sqrt x = Real.sqrt x) (habs : ∀ x : ℝ, Transc.abs x = |x|)
    (a b : List ℝ) (n : Nat) (ha : a.length = n * n) (hb : b.length = n) (hn : n ≠ 0)
    (hdet : (toMatrix n a).det ≠ 0) :
    ∃ x, solve a b = some x ∧ x.length = n ∧
      (∀ i, i < n → ∑ j ∈ range n, rd a (i * n + j) * rd x j = rd b i) ∧
      toVec n x = (toMatrix n a)⁻¹.mulVec (toVec n b) :=
  solve_total habs (real_sqrt_pos hsqrt) (fun x hx => by rw [hsqrt]; exact Real.mul_self_sqrt (le_of_lt hx))
    a b n ha hb hn hdet

/-- **invertMatrix_total over `ℝ`.** -/
theorem invertMatrix_total_real (hsqrt : ∀ x : ℝ, Transc.sqrt x = Real.sqrt x) (habs : ∀ x : ℝ, Transc.abs x = |x|)
    (a : List ℝ) (n : Nat) (ha : a.length = n * n) (hn : n ≠ 0) (hdet : (toMatrix n a).det ≠ 0) :
    ∃ inv, invertMatrix a = some inv ∧ inv.length = n * n ∧ toMatrix n inv = (toMatrix n a)⁻¹ :=
  invertMatrix_total habs (real_sqrt_pos hsqrt) (fun x hx => by rw [hsqrt]; exact Real.mul_self_sqrt (le_of_lt hx))
    a n ha hn hdet

/-- **cholesky_posDef over `ℝ`.** -/
theorem cholesky_posDef_real (hsqrt : ∀ x : ℝ, Transc.sqrt x = Real.sqrt x) (habs : ∀ x : ℝ, Transc.abs x = |x|)
    (a : List ℝ) (n : Nat) (ha : a.length = n * n) (hsym : ExactlySymmetric n a) (hpd : PosDefFlat n a) :
    ∃ l, LA.cholesky a = some l ∧ IsCholFactor n a l ∧
      (∀ i j, i < n → j < n → ∑ k ∈ range n, rd l (i * n + k) * rd l (j * n + k) = rd a (i * n + j)) ∧
      route a = some (some l) :=
  cholesky_posDef habs (real_sqrt_pos hsqrt) (fun x hx => by rw [hsqrt]; exact Real.mul_self_sqrt (le_of_lt hx))
    a n ha hsym hpd

end real_total

/-! ### non-vacuity: concrete instances over `ℚ` and `ℝ` -/
section examples

/-- exact rationals; `sqrt` is exact on the perfect squares that occur below -/
local instance (priority := high) instTranscRatSq : Cv.Transc ℚ where
  sqrt x := if x = 4 then 2 else if x = 9 then 3 else x
  exp x := x
  ln x := x
  pow x _ := x
  sin x := x
  cos x := x
  tan x := x
  abs x := |x|
  floor x := x
  ceil x := x

theorem sqrt_pos_rat : ∀ x : ℚ, 0 < x → 0 < Transc.sqrt x := by
  intro x hx
  show 0 < (if x = 4 then (2:ℚ) else if x = 9 then 3 else x)
  split
  · norm_num
  · split
    · norm_num
    · exact hx

def exA : List ℚ := [4, 2, 2, 2, 5, 3, 2, 3, 6]
def exL : List ℚ := [2, 0, 0, 1, 2, 0, 1, 1, 2]

theorem ex_chol : LA.cholesky exA = some exL := by decide +kernel
theorem ex_sq : SqrtExactOn 3 exA exL := by unfold SqrtExactOn cholPivot; decide +kernel
theorem ex_sym : ExactlySymmetric 3 exA := isExactlySymmetric_true exA 3 rfl (by decide +kernel)

example : ∀ i j, i < 3 → j < 3 → ∑ k ∈ range 3, rd exL (i * 3 + k) * rd exL (j * 3 + k) = rd exA (i * 3 + j) :=
  (cholesky_correct sqrt_pos_rat exA exL 3 rfl ex_chol ex_sq).2.2.2.2 ex_sym

theorem ex_route : route exA = some (some exL) := by decide +kernel
theorem ex_solve : solve exA [8, 10, 11] = some [1, 1, 1] := by decide +kernel
theorem ex_sqrtOk : SqrtOk 3 exA := by
  intro l hl
  rw [ex_route] at hl
  cases hl
  exact ex_sq
theorem ex_piv : LuPivotsNonzero 3 exA := by
  intro h
  rw [ex_route] at h
  cases h
example : ∀ i, i < 3 → ∑ j ∈ range 3, rd exA (i * 3 + j) * rd ([1, 1, 1] : List ℚ) j = rd ([8, 10, 11] : List ℚ) i :=
  (solve_correct sqrt_pos_rat exA [8, 10, 11] [1, 1, 1] 3 rfl ex_solve ex_sqrtOk ex_piv).2.2

-- completeness on the same matrix: from the factor alone, `cholesky` returns it and `solve` takes the Cholesky route
theorem ex_factor : IsCholFactor 3 exA exL := isCholFactor_of_cholesky sqrt_pos_rat exA exL 3 rfl ex_chol ex_sq
example : LA.cholesky exA = some exL ∧ route exA = some (some exL) ∧
    ∀ b : List ℚ, b.length = 3 → solve exA b = choleskySolve exL b :=
  cholesky_complete (fun _ => rfl) exA exL 3 rfl ex_sym ex_factor (by unfold SqrtExactOnDiag; decide +kernel)

-- LU route
def exB : List ℚ := [1, 2, 2, 1]
theorem exB_route : route exB = some none := by decide +kernel
theorem exB_lu : lu exB = some ([2, 1, 1/2, 3/2], [1, 0]) := by decide +kernel
theorem exB_piv : LuPivotsNonzero 2 exB := by
  intro _ f piv hf
  rw [exB_lu] at hf
  cases hf
  decide +kernel
theorem exB_sqrtOk : SqrtOk 2 exB := by
  intro l hl
  rw [exB_route] at hl
  cases hl
theorem exB_inv : invertMatrix exB = some [-1/3, 2/3, 2/3, -1/3] := by decide +kernel
example : (toMatrix 2 exB).det ≠ 0 ∧ toMatrix 2 [-1/3, 2/3, 2/3, -1/3] = (toMatrix 2 exB)⁻¹ :=
  (invertMatrix_two_sided sqrt_pos_rat exB _ 2 rfl exB_inv exB_sqrtOk exB_piv).2

-- route independence: same system through both routes
theorem exA_lu : lu exA = some ([4, 2, 2, 1/2, 4, 2, 1/2, 1/2, 4], [0, 1, 2]) := by decide +kernel
theorem exA_chol_solve : choleskySolve exL [8, 10, 11] = some [1, 1, 1] := by decide +kernel
theorem exA_lu_solve :
    luSolve [4, 2, 2, 1/2, 4, 2, 1/2, 1/2, 4] [0, 1, 2] ([8, 10, 11] : List ℚ) = some [1, 1, 1] := by decide +kernel
example : ([1, 1, 1] : List ℚ) = [1, 1, 1] :=
  route_independence sqrt_pos_rat exA [8, 10, 11] exL _ _ _ _ 3 rfl (cholesky_some exA exL 3 rfl ex_chol) ex_sym ex_sq
    exA_lu (by decide +kernel) exA_chol_solve exA_lu_solve


-- the side conditions are needed: over a field `x / 0 = 0`, so on the singular `[0]` the LU route "answers" without
-- solving (`LuPivotsNonzero` fails), and the empty system panics in `transpose` (`is_matrix(·, 0)`), hence `n ≠ 0`
example : solve ([0] : List ℚ) [1] = some [0] ∧ lu ([0] : List ℚ) = some ([0], [0]) := by
  refine ⟨by decide +kernel, by decide +kernel⟩
example : solve ([] : List ℚ) [] = none := by decide +kernel

/-! the SPD matrix `[[4,2],[2,3]]` over `ℝ`: `L = [[2,0],[1,√2]]` -/

noncomputable local instance (priority := high) instTranscRealEx : Cv.Transc ℝ where
  sqrt := Real.sqrt
  exp x := x
  ln x := x
  pow x _ := x
  sin x := x
  cos x := x
  tan x := x
  abs x := |x|
  floor x := x
  ceil x := x

theorem ex_real_chol : LA.cholesky ([4, 2, 2, 3] : List ℝ) = some [2, 0, 1, Real.sqrt 2] := by
  have h4 : Real.sqrt 4 = 2 := by
    rw [show (4:ℝ) = 2 ^ 2 by norm_num]; exact Real.sqrt_sq (by norm_num)
  have hsq : isSquare 4 = some 2 := isSquare_sq 2
  have hsym : isSymmetric ([4, 2, 2, 3] : List ℝ) = some true := by
    simp only [isSymmetric, List.length_cons, List.length_nil, hsq, Option.bind_eq_bind, Option.bind_some, Option.pure_def]
    norm_num [List.range_succ, List.range'_succ, rd, eps, Transc.abs]
  simp only [LA.cholesky, tryCholesky, hsym, List.length_cons, List.length_nil, hsq, Option.bind_eq_bind, Option.bind_some,
    Bool.not_true, Bool.false_eq_true, if_false, Option.pure_def, Option.join_some]
  simp only [cholLoops, cholRow, List.range_succ, List.range_zero, List.nil_append, List.foldlM_cons, List.foldlM_nil,
    List.cons_append]
  norm_num [cholCell, dot8, dot8Go, rd, isNan, Transc.sqrt, h4, List.replicate]

example : ∀ i j, i < 2 → j < 2 →
    ∑ k ∈ range 2, rd ([2, 0, 1, Real.sqrt 2] : List ℝ) (i * 2 + k) * rd ([2, 0, 1, Real.sqrt 2] : List ℝ) (j * 2 + k) =
      rd ([4, 2, 2, 3] : List ℝ) (i * 2 + j) :=
  (cholesky_correct_real (fun _ => rfl) [4, 2, 2, 3] _ 2 rfl ex_real_chol
    (isExactlySymmetric_true _ 2 rfl (by norm_num [isExactlySymmetric, isSquare_sq 2, List.range_succ, List.range'_succ, rd]))).2.2.2

-- total correctness over `ℝ` on the same matrix: `det = 8 ≠ 0`
example : ∃ x, solve ([4, 2, 2, 3] : List ℝ) [2, 5] = some x ∧ x.length = 2 ∧
    (∀ i, i < 2 → ∑ j ∈ range 2, rd ([4, 2, 2, 3] : List ℝ) (i * 2 + j) * rd x j = rd ([2, 5] : List ℝ) i) ∧
    toVec 2 x = (toMatrix 2 ([4, 2, 2, 3] : List ℝ))⁻¹.mulVec (toVec 2 [2, 5]) :=
  solve_total_real (fun _ => rfl) (fun _ => rfl) _ _ 2 rfl rfl (by norm_num)
    (by rw [Matrix.det_fin_two]; norm_num [toMatrix, rd])

theorem ex_real_posDef : PosDefFlat 2 ([4, 2, 2, 3] : List ℝ) := by
  intro v hv
  have hne : v 0 ≠ 0 ∨ v 1 ≠ 0 := by
    obtain ⟨j, hj, hjne⟩ := hv
    have : j = 0 ∨ j = 1 := by omega
    rcases this with rfl | rfl
    · exact Or.inl hjne
    · exact Or.inr hjne
  norm_num [Finset.sum_range_succ, rd]
  rcases hne with h | h
  · have := mul_self_pos.mpr h
    nlinarith [mul_self_nonneg (2 * v 0 + 3 * v 1), mul_self_nonneg (v 1), mul_self_nonneg (v 0 + v 1)]
  · have := mul_self_pos.mpr h
    nlinarith [mul_self_nonneg (2 * v 0 + v 1)]


-- … so `cholesky_posDef_real` applies: the factorisation exists, reconstructs `A`, and `solve` takes the Cholesky route
example : ∃ l, LA.cholesky ([4, 2, 2, 3] : List ℝ) = some l ∧ IsCholFactor 2 [4, 2, 2, 3] l ∧
    (∀ i j, i < 2 → j < 2 → ∑ k ∈ range 2, rd l (i * 2 + k) * rd l (j * 2 + k) = rd ([4, 2, 2, 3] : List ℝ) (i * 2 + j)) ∧
    route ([4, 2, 2, 3] : List ℝ) = some (some l) :=
  cholesky_posDef_real (fun _ => rfl) (fun _ => rfl) _ 2 rfl
    (isExactlySymmetric_true _ 2 rfl (by norm_num [isExactlySymmetric, isSquare_sq 2, List.range_succ, List.range'_succ, rd]))
    ex_real_posDef

end examples

end Cv.C01Solve
