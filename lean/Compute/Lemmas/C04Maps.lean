import Compute.Lemmas.C04Rows
import Mathlib.Algebra.Group.Defs
import Mathlib.Algebra.Group.Basic
/-
C04 — unary maps, `powi` / `powf`: the method tables route every method to the kernel generated from
the same `f64` method, and the kernels are plain maps; the exponent-2/3 special case of `vpowi`.
-/
namespace Cv.C04
open Cv Cv.Vops Cv.VecOps Cv.C04W
variable {α : Type}

/-- the 29 map methods -/
def isMapMethod (m : UFn) : Bool := m != .powi && m != .powf

/-- vec.rs `impl_unaryops_vector!`: every one of the 29 methods exists, calls a `makefn_vops_unary!`
kernel generated from the *same* `f64` method, and therefore is `map` of that scalar method. -/
theorem vecMap_spec (I : Interp α) (m : UFn) (hm : isMapMethod m = true) (x : List α) :
    vecMap I m x = some (x.map (I.ufn m)) := by
  cases m <;> first
    | (exact absurd hm (by decide))
    | (show some (vun _ x) = _; rw [vun_eq])

/-- matrix.rs `impl_unary_ops_matrix!`: each Matrix method calls the Vector method of the same name. -/
theorem matMaps_lookup (m : UFn) (hm : isMapMethod m = true) : matMaps.lookup m = some m := by
  cases m <;> first
    | (exact absurd hm (by decide))
    | decide

/-- matrix.rs `impl_unary_ops_matrix!`: same scalar method at every position, shape kept. -/
theorem matMap_spec (I : Interp α) (m : UFn) (hm : isMapMethod m = true) (a : Mat α) (wf : a.WF) :
    matMap I m a = some ⟨a.data.map (I.ufn m), a.nrows, a.ncols⟩ := by
  have hl : a.nrows * a.ncols = (a.data.map (I.ufn m)).length := by simpa [Mat.WF] using wf.symm
  unfold matMap
  rw [matMaps_lookup m hm]
  simp only [vecMap_spec I m hm, Option.bind_some]
  exact matNew_wf _ _ _ hl

/-- The special-cased element function of `vpowi` inside full chunks. -/
def powiChunk (mul : α → α → α) (f : α → Int → α) (n : Int) (x : α) : α :=
  if n = 2 then mul x x else if n = 3 then mul (mul x x) x else f x n

/-- `makefn_vops_unary_with_arg_i!`: positions inside full chunks of 8 get `x*x` (n = 2), `x*x*x`
(n = 3) or `f x n`; the positions of the remainder loop always get `f x n`. -/
theorem vunArgI_spec (mul : α → α → α) (f : α → Int → α) (n : Int) (x : List α) :
    vunArgI mul f n x =
      (x.take (8 * (x.length / 8))).map (powiChunk mul f n) ++ (x.drop (8 * (x.length / 8))).map (f · n) := by
  fun_induction vunArgI mul f n x with
  | case1 x0 x1 x2 x3 x4 x5 x6 x7 xs ih =>
    have h8 : 8 * ((xs.length + 8) / 8) = 8 * (xs.length / 8) + 8 := by omega
    simp only [List.length_cons]
    rw [ih, show xs.length + 1 + 1 + 1 + 1 + 1 + 1 + 1 + 1 = xs.length + 8 from rfl, h8]
    simp only [List.take_succ_cons, List.drop_succ_cons, List.map_cons, powiChunk]
    split <;> [skip; split] <;> simp
  | case2 xs h =>
    have hlt : xs.length < 8 := by
      match xs, h with
      | [], _ => simp
      | [_], _ => simp
      | [_, _], _ => simp
      | [_, _, _], _ => simp
      | [_, _, _, _], _ => simp
      | [_, _, _, _, _], _ => simp
      | [_, _, _, _, _, _], _ => simp
      | [_, _, _, _, _, _, _], _ => simp
      | x0 :: x1 :: x2 :: x3 :: x4 :: x5 :: x6 :: x7 :: rest, h => exact absurd rfl (h x0 x1 x2 x3 x4 x5 x6 x7 rest)
    have : xs.length / 8 = 0 := by omega
    simp [this]

/-- If the scalar method agrees with the special cases (`f x 2 = x*x`, `f x 3 = x*x*x`) the kernel is
the plain map of the scalar method. -/
theorem vunArgI_eq_map (mul : α → α → α) (f : α → Int → α) (n : Int) (x : List α)
    (h2 : ∀ a, f a 2 = mul a a) (h3 : ∀ a, f a 3 = mul (mul a a) a) :
    vunArgI mul f n x = x.map (f · n) := by
  have hc : powiChunk mul f n = (f · n) := by
    funext a; unfold powiChunk
    split
    · next h => subst h; exact (h2 a).symm
    · split
      · next h => subst h; exact (h3 a).symm
      · rfl
  rw [vunArgI_spec, hc, ← List.map_append, List.take_append_drop]

/-- The square-and-multiply `powi` of the model (compiler-rt `__powidf2`) satisfies the two
hypotheses in every commutative monoid — for IEEE doubles `*` is commutative (not associative), and
`powi x 3 = x * (x * x)` is `(x * x) * x` by commutativity alone. -/
theorem powi_two [Monoid α] [Div α] (a : α) : powi a 2 = a * a := by
  simp [powi, powiNat, powiNat.go]

theorem powi_three [CommMonoid α] [Div α] (a : α) : powi a 3 = a * a * a := by
  simp [powi, powiNat, powiNat.go, mul_comm]

/-- `Vector::powi` (vec.rs) reaches the `vpowi` kernel with `*` and the scalar `powi`. -/
theorem vecMapI_spec (I : Interp α) (x : List α) (n : Int) :
    vecMapI I .powi x n = some (vunArgI (I.op .mul) (I.ufnI .powi) n x) := rfl

theorem vecMapI_eq_map (I : Interp α) (x : List α) (n : Int)
    (h2 : ∀ a, I.ufnI .powi a 2 = I.op .mul a a) (h3 : ∀ a, I.ufnI .powi a 3 = I.op .mul (I.op .mul a a) a) :
    vecMapI I .powi x n = some (x.map (I.ufnI .powi · n)) := by
  rw [vecMapI_spec, vunArgI_eq_map _ _ _ _ h2 h3]

theorem matMapI_eq_map (I : Interp α) (a : Mat α) (wf : a.WF) (n : Int)
    (h2 : ∀ a, I.ufnI .powi a 2 = I.op .mul a a) (h3 : ∀ a, I.ufnI .powi a 3 = I.op .mul (I.op .mul a a) a) :
    matMapI I .powi a n = some ⟨a.data.map (I.ufnI .powi · n), a.nrows, a.ncols⟩ := by
  unfold matMapI
  rw [show matArgMaps.lookup UFn.powi = some UFn.powi by decide]
  simp only [vecMapI_eq_map I _ _ h2 h3, Option.bind_some]
  exact matNew_wf _ _ _ (by simpa [Mat.WF] using wf.symm)

/-- `Vector::powf` / `Matrix::powf`. -/
theorem vecMapF_spec (I : Interp α) (x : List α) (p : α) :
    vecMapF I .powf x p = some (x.map (I.ufnF .powf · p)) := by
  show some (vunArgF _ p x) = _; rw [vunArgF_eq]

theorem matMapF_spec (I : Interp α) (a : Mat α) (wf : a.WF) (p : α) :
    matMapF I .powf a p = some ⟨a.data.map (I.ufnF .powf · p), a.nrows, a.ncols⟩ := by
  unfold matMapF
  rw [show matArgMaps.lookup UFn.powf = some UFn.powf by decide]
  simp only [vecMapF_spec, Option.bind_some]
  exact matNew_wf _ _ _ (by simpa [Mat.WF] using wf.symm)

/-- Negation. -/
theorem negVal_vec (neg : α → α) (x : List α) : negVal neg (.vec x) = some (.vec (x.map neg)) := rfl

theorem negVal_mat (neg : α → α) (a : Mat α) (wf : a.WF) :
    negVal neg (.mat a) = some (.mat ⟨a.data.map neg, a.nrows, a.ncols⟩) := by
  simp [negVal, matNew_wf _ _ _ (show a.nrows * a.ncols = (a.data.map neg).length by simpa [Mat.WF] using wf.symm)]

end Cv.C04
