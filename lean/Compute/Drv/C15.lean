import Compute.Drv.Common
import Compute.Model.Scalar
import Compute.Model.Shape
import Compute.Model.Constructors
import Compute.Model.Rotations
import Compute.Model.ShapeExtra
/-
Driver for C15 (stateful session: one current matrix).  State-changing requests are parsed into a
`Shape.Op Float` and executed by `Shape.applyOp` — the function the theorems of Props/C15 are about; a
panicking request leaves the current matrix unchanged (as the Rust code does).
Replies: `= r c <data>` for a matrix, `= len <data>` for a vector, `= 0|1` for a predicate, `! panic`.
-/
open Cv Cv.Shape Cv.Ctor Cv.Rot Cv.ShapeX

def epsF : Float := Float.ofBits 0x3CB0000000000000   -- f64::EPSILON = 2⁻⁵²

def showMat (m : Mat Float) : String :=
  if m.data.isEmpty then s!"{m.nrows} {m.ncols}" else s!"{m.nrows} {m.ncols} {showFloats m.data}"

def pMatArgs : P (Int × Int × List Float) := do
  let nr ← pInt; let nc ← pInt; let d ← pVec; pure (nr, nc, d)

/-- Parse a state-changing request. -/
def parseOp : String → P (Shape.Op Float)
  | "load" | "vreshape" => do let (nr, nc, d) ← pMatArgs; pure (.load d nr nc)
  | "reshape" => do let nr ← pInt; let nc ← pInt; pure (.reshape nr nc)
  | "reshape_mut" => do let nr ← pInt; let nc ← pInt; pure (.reshapeMut nr nc)
  | "t" => pure .t
  | "t_mut" => pure .tMut
  | "hcat" => do let (nr, nc, d) ← pMatArgs; pure (.hcat d nr nc)
  | "vcat" => do let (nr, nc, d) ← pMatArgs; pure (.vcat d nr nc)
  | "hrepeat" => do let n ← pNat; pure (.hrepeat n)
  | "vrepeat" => do let n ← pNat; pure (.vrepeat n)
  | "arow" => do let i ← pNat; let k ← pFloat; let b ← pFloat; pure (.applyRow i fun x => x * k + b)
  | "acol" => do let j ← pNat; let k ← pFloat; let b ← pFloat; pure (.applyCol j fun x => x * k + b)
  | "fset" => do let k ← pNat; let v ← pFloat; pure (.flatReplace k v)
  | "set2" => do let i ← pNat; let j ← pNat; let v ← pFloat; pure (.set2 i j v)
  | "tovec_tomat" => pure .toVecToMatrix
  | "rowmat" => do let i ← pNat; pure (.rowToMatrix i)
  | "colmat" => do let j ← pNat; pure (.colToMatrix j)
  | "diagmat" => pure .diagToMatrix
  | "r2c" => pure .rowToCol
  | "c2r" => pure .colToRow
  | _ => failure

def isOpName (s : String) : Bool :=
  ["load", "vreshape", "reshape", "reshape_mut", "t", "t_mut", "hcat", "vcat", "hrepeat", "vrepeat", "arow",
   "acol", "fset", "set2", "tovec_tomat", "rowmat", "colmat", "diagmat", "r2c", "c2r"].contains s

def optVec : Option (List Float) → String
  | some v => ok (showVec v)
  | none => panicked

def optMat : Option (Mat Float) → String
  | some m => ok (showMat m)
  | none => panicked

def optBool : Option Bool → String
  | some b => ok (showBool b)
  | none => panicked

def pAxis : P Axis := do
  let t ← tok
  match t with
  | "x" => pure .X | "y" => pure .Y | "z" => pure .Z
  | _ => failure

/-- Queries on the current matrix and stateless requests. -/
def c15Query (m : Mat Float) (op : String) (args : List String) : String :=
  match op with
  | "row" => withArgs pNat args fun i => optVec (getRow m i)
  | "col" => withArgs pNat args fun j => optVec (getCol m j)
  | "fidx" => withArgs pNat args fun k => match flatIdx m k with
      | some x => ok (showFloat x) | none => panicked
  | "get2" => withArgs (do let i ← pNat; let j ← pNat; pure (i, j)) args fun (i, j) =>
      match get2 m i j with
      | some x => ok (showFloat x) | none => panicked
  | "diag" => withArgs (pure ()) args fun _ => ok (showVec (diag m))
  | "tovec" => withArgs (pure ()) args fun _ => ok (showVec (toVec m))
  | "is_sq" => withArgs (pure ()) args fun _ => ok (showBool (isSquare m))
  | "is_sym" => withArgs (pure ()) args fun _ => ok (showBool (isSymmetric epsF m))
  | "is_up" => withArgs (pure ()) args fun _ => ok (showBool (isUpperTriangular m))
  | "is_lo" => withArgs (pure ()) args fun _ => ok (showBool (isLowerTriangular m))
  | "close" => withArgs (do let a ← pMatArgs; let tol ← pFloat; pure (a, tol)) args fun ((nr, nc, d), tol) =>
      optBool ((mnew d nr nc).map fun o => closeTo m o tol)
  | "eq" => withArgs pMatArgs args fun (nr, nc, d) =>
      optBool ((mnew d nr nc).map fun o => matEq epsF m o)
  | "vclose" => withArgs (do let a ← pVec; let b ← pVec; let tol ← pFloat; pure (a, b, tol)) args fun (a, b, tol) =>
      ok (showBool (vecCloseTo a b tol))
  | "veq" => withArgs (do let a ← pVec; let b ← pVec; pure (a, b)) args fun (a, b) =>
      ok (showBool (vecEq epsF a b))
  | "zeros" => withArgs (do let r ← pNat; let c ← pNat; pure (r, c)) args fun (r, c) => optMat (zeros r c)
  | "ones" => withArgs (do let r ← pNat; let c ← pNat; pure (r, c)) args fun (r, c) => optMat (ones r c)
  | "eye" => withArgs pNat args fun d => optMat (eye d)
  | "arange" => withArgs (do let a ← pFloat; let b ← pFloat; let s ← pFloat; pure (a, b, s)) args fun (a, b, s) =>
      ok (showVec (arange a b s))
  | "linspace" => withArgs (do let a ← pFloat; let b ← pFloat; let n ← pNat; pure (a, b, n)) args fun (a, b, n) =>
      optVec (linspace a b n)
  | "is_matrix" => withArgs (do let len ← pNat; let r ← pNat; pure (len, r)) args fun (len, r) =>
      match isMatrix len r with
      | none => panicked
      | some none => ok "err"
      | some (some c) => ok s!"ok {c}"
  | "is_square_u" => withArgs pNat args fun len =>
      match isSquareLen len with
      | none => ok "err"
      | some n => ok s!"ok {n}"
  | "is_design" => withArgs (do let r ← pNat; let d ← pVec; pure (r, d)) args fun (r, d) => optBool (isDesign epsF d r)
  | "is_sym_u" => withArgs pVec args fun d => optBool (isSymmetricU epsF d)
  | "diag_u" => withArgs pVec args fun d => optVec (diagU d)
  | "r2c_u" => withArgs (do let r ← pNat; let d ← pVec; pure (r, d)) args fun (r, d) => optVec (rowToColMajor d r)
  | "c2r_u" => withArgs (do let r ← pNat; let d ← pVec; pure (r, d)) args fun (r, d) => optVec (colToRowMajor d r)
  | "transpose_u" => withArgs (do let r ← pNat; let d ← pVec; pure (r, d)) args fun (r, d) => optVec (transposeData d r)
  | "diag_matrix" => withArgs pVec args fun d => ok (showVec (diagMatrix d))
  | "toeplitz" => withArgs pVec args fun d => ok (showVec (toeplitz d))
  | "vandermonde" => withArgs (do let n ← pNat; let d ← pVec; pure (n, d)) args fun (n, d) => ok (showVec (vandermonde d n))
  | "design" => withArgs (do let r ← pNat; let d ← pVec; pure (r, d)) args fun (r, d) => optVec (design d r)
  | "rot" => withArgs (do let dir ← tok; let ax ← pAxis; let a ← pFloat; pure (dir, ax, a)) args fun (dir, ax, a) =>
      if dir == "cw" then optMat (rotationMatrixCw a ax)
      else if dir == "ccw" then optMat (rotationMatrixCcw a ax)
      else badOp
  | _ => badOp

/-- The state-changing requests of the coverage extension (`Model/ShapeExtra.lean`). -/
def parseOpX : String → P (ShapeX.OpX Float)
  | "sort_data" => pure .sortData
  | "dmset" => do let k ← pNat; let v ← pFloat; pure (.dataMutSet k v)
  | "with_shape_fill" => do let r ← pNat; let c ← pNat; let v ← pFloat; pure (.withShapeFill r c v)
  | "with_capacity" => do let r ← pNat; let c ← pNat; pure (.withCapacity r c)
  | "sumrows_mat" => pure .sumRowsToMatrix
  | "sumcols_mat" => pure .sumColsToMatrix
  | _ => failure

def isOpXName (s : String) : Bool :=
  ["sort_data", "dmset", "with_shape_fill", "with_capacity", "sumrows_mat", "sumcols_mat"].contains s

/-- Queries and stateless requests of the coverage extension; `none` = not one of them. -/
def c15QueryX (m : Mat Float) (op : String) (args : List String) : Option String :=
  match op with
  | "shape" => some <| withArgs (pure ()) args fun _ => ok s!"{(ShapeX.shape m).1} {(ShapeX.shape m).2}"
  | "size" => some <| withArgs (pure ()) args fun _ => ok s!"{ShapeX.size m}"
  | "sum_rows" => some <| withArgs (pure ()) args fun _ => ok (showVec (sumRows m))
  | "sum_cols" => some <| withArgs (pure ()) args fun _ => ok (showVec (sumCols m))
  | "vnew" => some <| withArgs pVec args fun d => ok (showVec (vecNew d))
  | "vempty" => some <| withArgs (pure ()) args fun _ => ok (showVec (vecEmpty : List Float))
  | "vzeros" => some <| withArgs pNat args fun n => ok (showVec (vecZeros n : List Float))
  | "vones" => some <| withArgs pNat args fun n => ok (showVec (vecOnes n : List Float))
  | "vwith_capacity" => some <| withArgs pNat args fun n => ok s!"{(vecWithCapacity n : List Float).length}"
  | "vempty_n" => some <| withArgs pNat args fun n => ok s!"{(vecEmptyN (fun _ => (0.0 : Float)) n).length}"
  | "vsort" => some <| withArgs pVec args fun d => optVec (vecSort d)
  | "with_shape" => some <| withArgs (do let r ← pNat; let c ← pNat; pure (r, c)) args fun (r, c) =>
      match withShape (fun _ => (0.0 : Float)) r c with
      | some w => ok s!"{w.nrows} {w.ncols} {w.data.length}"
      | none => panicked
  | _ => none

def c15Step (m : Mat Float) (toks : List String) : Mat Float × String :=
  match toks with
  | [] => (m, badOp)
  | op :: args =>
    if isOpName op then
      match (do let o ← parseOp op; pEnd; pure o : P (Shape.Op Float)).run args with
      | none => (m, badOp)
      | some (o, _) =>
        match applyOp o m with
        | some m' => (m', ok (showMat m'))
        | none => (m, panicked)
    else if isOpXName op then
      match (do let o ← parseOpX op; pEnd; pure o : P (ShapeX.OpX Float)).run args with
      | none => (m, badOp)
      | some (o, _) =>
        match applyOpX (fun _ => (0.0 : Float)) o m with
        | some m' => (m', ok (showMat m'))
        | none => (m, panicked)
    else match c15QueryX m op args with
      | some r => (m, r)
      | none => (m, c15Query m op args)

def main (args : List String) : IO UInt32 := mainWith (⟨[], 0, 0⟩ : Mat Float) c15Step args
