import Compute.Model.Timeseries
import Compute.Lemmas.C13
import Compute.Lemmas.C13Conv
import Compute.Props.C13
import Mathlib.Analysis.SpecificLimits.Basic
import Mathlib.Topology.Algebra.Order.Field
import Mathlib.Analysis.Normed.Group.Continuity
import Mathlib.Tactic.Ring
import Mathlib.Tactic.Linarith
import Mathlib.Tactic.NormNum
/-
C13 (deep) — forecasts of a stationary fit converge to the series mean.

Everything is about the model's own `Cv.TS.predict` (Model/Timeseries.lean, the definition the `Float` driver runs).

* `forecast coeffs ic data k` is the `k`-th (0-based) element of `predict coeffs ic data (k+1)`;
  `predict_prefix`: it is also the `k`-th element of `predict coeffs ic data n` for every `n > k`, so the forecasts form
  one infinite sequence.
* `forecast_abs_le` (any ordered field): if `c = Σ_j |φ_j| ≤ 1` then the `h`-th forecast (`h = k+1 ≥ 1`) satisfies
  `|forecast − μ| ≤ c^⌈h/p⌉ · max_i |x_{n−i} − μ|` (block contraction).
* `forecast_tendsto` (ℝ): if `c < 1`, `forecast … k → μ` as `k → ∞`; `fit_forecast_tendsto`: for a model returned by
  the model's `arFit` the limit is the sample mean of the series.
* `forecast_tendsto_of_spectralRadius_lt_one` / `forecast_tendsto_of_roots` / `forecast_tendsto_of_ar_roots`: the sharp
  condition — spectral radius of the companion matrix `< 1` (Gelfand's formula), equivalently all eigenvalues, in
  particular all roots of `z^p − φ₁ z^{p−1} − … − φ_p`, strictly inside the unit disc.
-/
namespace Cv.C13C
open Cv Cv.TS Cv.C13L Cv.C13CL Filter Topology

/-! ## the infinite forecast sequence and prefix stability (any scalar type, `Float` included) -/

section core
variable {α : Type} [Add α] [Sub α] [Mul α] [Zero α]

/-- The infinite forecast sequence of the model: the `k`-th (0-based) entry of `predict coeffs ic data (k+1)`
(the intercept if `predict` panics). -/
def forecast (coeffs : List α) (ic : α) (data : List α) (k : Nat) : α :=
  ((predict coeffs ic data (k + 1)).getD []).getD k ic

theorem predict_eq (coeffs : List α) (ic : α) (data : List α) (n : Nat) (hl : coeffs.length ≤ data.length) :
    predict coeffs ic data n = some ((predictGo coeffs n (window0 coeffs ic data)).map (· + ic)) := by
  unfold predict
  rw [if_neg (by omega)]
  rfl

/-- the `k`-th forecast is the intercept plus the `k`-th value of the iterated window step -/
theorem forecast_eq (coeffs : List α) (ic : α) (data : List α) (k : Nat) (hl : coeffs.length ≤ data.length) :
    forecast coeffs ic data k = zfc coeffs (window0 coeffs ic data) k + ic := by
  unfold forecast
  rw [predict_eq coeffs ic data (k + 1) hl, Option.getD_some, List.getD_eq_getElem?_getD, List.getElem?_map,
    predictGo_getElem? coeffs (k + 1) k _ (Nat.lt_succ_self k)]
  rfl

/-- **predict_prefix (prefix stability).**  For a history at least as long as the order, `predict … n` returns `n`
values and its `k`-th value is `forecast … k` — the same for every horizon `n > k`. -/
theorem predict_prefix (coeffs : List α) (ic : α) (data : List α) (n : Nat) (hl : coeffs.length ≤ data.length) :
    ∃ l, predict coeffs ic data n = some l ∧ l.length = n ∧
      ∀ k, k < n → l[k]? = some (forecast coeffs ic data k) := by
  refine ⟨_, predict_eq coeffs ic data n hl, by simp [predictGo_length], fun k hk => ?_⟩
  rw [List.getElem?_map, predictGo_getElem? coeffs n k _ hk, forecast_eq coeffs ic data k hl]
  rfl

/-- a shorter horizon gives a prefix of the longer one (also when `predict` panics: then both do) -/
theorem predict_take (coeffs : List α) (ic : α) (data : List α) (m n : Nat) (h : m ≤ n) :
    (predict coeffs ic data n).map (·.take m) = predict coeffs ic data m := by
  unfold predict
  split
  · rfl
  · simp only [Option.map_some, ← List.map_take]
    rw [predictGo_take coeffs m n _ h]

example : predict ([1, 2] : List Int) 10 [9, 12, 14] 4 = some [20, 34, 68, 150] ∧
    (List.range 4).map (forecast ([1, 2] : List Int) 10 [9, 12, 14]) = [20, 34, 68, 150] := by decide +kernel

end core

/-! ## block contraction in an ordered field -/

section ordered
variable {α : Type} [Field α] [LinearOrder α] [IsStrictOrderedRing α]

/-- **forecast_abs_le (block contraction).**  With `c = Σ_j |φ_j| ≤ 1`, `p` the order and `M` the largest magnitude of
the mean-centred last `p` observations, the `k`-th forecast (0-based; it is the `h = k+1`-st step ahead) satisfies
`|forecast − μ| ≤ c^(⌊k/p⌋+1) · M = c^⌈h/p⌉ · M`. -/
theorem forecast_abs_le (coeffs : List α) (ic : α) (data : List α) (hp : 0 < coeffs.length)
    (hl : coeffs.length ≤ data.length) (hc : absSum coeffs ≤ 1) (k : Nat) :
    |forecast coeffs ic data k - ic| ≤
      absSum coeffs ^ (k / coeffs.length + 1) * maxAbs (window0 coeffs ic data) := by
  rw [forecast_eq coeffs ic data k hl, add_sub_cancel_right]
  have hw : (window0 coeffs ic data).length = coeffs.length := by simp [window0]; omega
  exact (window_bound coeffs _ hp hc _ hw (le_maxAbs _) k).2.2

/-- the same bound for the `h`-step-ahead forecast, `h ≥ 1`, with the exponent written `⌈h/p⌉ = ⌊(h+p−1)/p⌋` -/
theorem forecast_abs_le_ceil (coeffs : List α) (ic : α) (data : List α) (hp : 0 < coeffs.length)
    (hl : coeffs.length ≤ data.length) (hc : absSum coeffs ≤ 1) (h : Nat) (hh : 1 ≤ h) :
    |forecast coeffs ic data (h - 1) - ic| ≤
      absSum coeffs ^ ((h + coeffs.length - 1) / coeffs.length) * maxAbs (window0 coeffs ic data) := by
  have := forecast_abs_le coeffs ic data hp hl hc (h - 1)
  rwa [← Nat.add_div_right _ hp, show h - 1 + coeffs.length = h + coeffs.length - 1 by omega] at this

/-- **predict_abs_le.**  The bound stated on the list `predict` returns: every entry `l[k]` of `predict … n`
is within `c^(⌊k/p⌋+1) · M` of the intercept. -/
theorem predict_abs_le (coeffs : List α) (ic : α) (data : List α) (hp : 0 < coeffs.length)
    (hl : coeffs.length ≤ data.length) (hc : absSum coeffs ≤ 1) (n : Nat) :
    ∃ l, predict coeffs ic data n = some l ∧ l.length = n ∧ ∀ k x, l[k]? = some x →
      |x - ic| ≤ absSum coeffs ^ (k / coeffs.length + 1) * maxAbs (window0 coeffs ic data) := by
  obtain ⟨l, h1, h2, h3⟩ := predict_prefix coeffs ic data n hl
  refine ⟨l, h1, h2, fun k x hx => ?_⟩
  have hk : k < n := by
    by_contra hn
    rw [List.getElem?_eq_none (by omega)] at hx
    cases hx
  rw [h3 k hk, Option.some.injEq] at hx
  rw [← hx]
  exact forecast_abs_le coeffs ic data hp hl hc k

/-- Concrete AR(2), `φ = (1/2, 3/10)` (stored reversed), history `1, 2, 4, 3`, intercept `5/2`: `c = 4/5`, `M = 3/2`,
the six forecasts and the bounds `c^⌈h/2⌉ · M` they satisfy. -/
example : absSum ([3 / 10, 1 / 2] : List ℚ) = 4 / 5 ∧
    maxAbs (window0 ([3 / 10, 1 / 2] : List ℚ) (5 / 2) [1, 2, 4, 3]) = 3 / 2 ∧
    predict ([3 / 10, 1 / 2] : List ℚ) (5 / 2) [1, 2, 4, 3] 4 = some [16 / 5, 3, 74 / 25, 144 / 50] ∧
    (List.range 6).all (fun k => decide (|forecast ([3 / 10, 1 / 2] : List ℚ) (5 / 2) [1, 2, 4, 3] k - 5 / 2| ≤
      (4 / 5) ^ (k / 2 + 1) * (3 / 2))) = true := by
  refine ⟨by decide +kernel, by decide +kernel, by decide +kernel, by decide +kernel⟩

end ordered

/-! ## convergence over ℝ -/

section real

theorem pow_block_tendsto (c M : ℝ) (p : Nat) (hp : 0 < p) (h0 : 0 ≤ c) (h1 : c < 1) :
    Tendsto (fun k : Nat => c ^ (k / p + 1) * M) atTop (𝓝 0) := by
  have hdiv : Tendsto (fun k : Nat => k / p + 1) atTop atTop :=
    tendsto_atTop_mono (fun k => Nat.le_succ _) (Nat.tendsto_div_const_atTop (Nat.pos_iff_ne_zero.mp hp))
  have := ((tendsto_pow_atTop_nhds_zero_of_lt_one h0 h1).comp hdiv).mul_const M
  simpa using this

/-- **forecast_tendsto.**  If `Σ_j |φ_j| < 1` the model's forecasts converge to the intercept, from every history at
least as long as the order. -/
theorem forecast_tendsto (coeffs : List ℝ) (ic : ℝ) (data : List ℝ) (hp : 0 < coeffs.length)
    (hl : coeffs.length ≤ data.length) (hc : absSum coeffs < 1) :
    Tendsto (forecast coeffs ic data) atTop (𝓝 ic) := by
  have hb := pow_block_tendsto (absSum coeffs) (maxAbs (window0 coeffs ic data)) coeffs.length hp
    (absSum_nonneg _) hc
  have hlo : Tendsto (fun k : Nat => ic - absSum coeffs ^ (k / coeffs.length + 1) * maxAbs (window0 coeffs ic data))
      atTop (𝓝 ic) := by simpa using tendsto_const_nhds.sub hb
  have hhi : Tendsto (fun k : Nat => ic + absSum coeffs ^ (k / coeffs.length + 1) * maxAbs (window0 coeffs ic data))
      atTop (𝓝 ic) := by simpa using tendsto_const_nhds.add hb
  refine tendsto_of_tendsto_of_tendsto_of_le_of_le hlo hhi (fun k => ?_) (fun k => ?_)
  · have := (abs_le.mp (forecast_abs_le coeffs ic data hp hl hc.le k)).1
    linarith
  · have := (abs_le.mp (forecast_abs_le coeffs ic data hp hl hc.le k)).2
    linarith

/-- **forecast_eventually.**  The ε–H form, on the lists `predict` returns: beyond some horizon `H` every forecast of
every call `predict … n` is within `ε` of the intercept. -/
theorem forecast_eventually (coeffs : List ℝ) (ic : ℝ) (data : List ℝ) (hp : 0 < coeffs.length)
    (hl : coeffs.length ≤ data.length) (hc : absSum coeffs < 1) (ε : ℝ) (hε : 0 < ε) :
    ∃ H, ∀ n, ∃ l, predict coeffs ic data n = some l ∧ l.length = n ∧
      ∀ (k : Nat) (x : ℝ), H ≤ k → l[k]? = some x → |x - ic| < ε := by
  have ht := forecast_tendsto coeffs ic data hp hl hc
  rw [Metric.tendsto_atTop] at ht
  obtain ⟨H, hH⟩ := ht ε hε
  refine ⟨H, fun n => ?_⟩
  obtain ⟨l, h1, h2, h3⟩ := predict_prefix coeffs ic data n hl
  refine ⟨l, h1, h2, fun k x hk hx => ?_⟩
  have hkn : k < n := by
    by_contra hn
    rw [List.getElem?_eq_none (by omega)] at hx
    cases hx
  rw [h3 k hkn, Option.some.injEq] at hx
  rw [← hx, ← Real.dist_eq]
  exact hH k hk

/-- **fit_forecast_tendsto.**  Forecasts of a fitted model: if `arFit p data` returned `(ic, co)` with `Σ|co_j| < 1`,
the forecasts from `data` converge to the sample mean of `data`.  (`BEq`/`Transc` are the instances the fit is run
with; they do not matter for the statement.) -/
theorem fit_forecast_tendsto [BEq ℝ] [Transc ℝ] (p : Nat) (data : List ℝ) (ic : ℝ) (co : List ℝ)
    (hfit : arFit p data = some (ic, co)) (hp : 0 < co.length) (hl : co.length ≤ data.length)
    (hc : absSum co < 1) :
    Tendsto (forecast co ic data) atTop (𝓝 (C13.meanS data)) := by
  rw [← C13.fit_intercept p data ic co hfit]
  exact forecast_tendsto co ic data hp hl hc

/-- AR(2) with `φ = (0.5, 0.3)`: forecasts converge to the intercept from every history of length ≥ 2. -/
example (ic : ℝ) (data : List ℝ) (hl : 2 ≤ data.length) :
    Tendsto (forecast [3 / 10, 1 / 2] ic data) atTop (𝓝 ic) :=
  forecast_tendsto _ ic data (by simp) (by simpa using hl) (by
    have h1 : |(3 / 10 : ℝ)| = 3 / 10 := abs_of_pos (by norm_num)
    have h2 : |(1 / 2 : ℝ)| = 1 / 2 := abs_of_pos (by norm_num)
    simp only [absSum, List.map_cons, List.map_nil, List.sum_cons, List.sum_nil, h1, h2]
    norm_num)

end real

/-! ## the sharp condition: eigenvalues of the companion matrix inside the unit disc -/

section spectral

/-- the centred forecasts tend to 0 when the (complexified) companion matrix has spectral radius `< 1` -/
theorem zfc_tendsto_zero (coeffs w : List ℝ) (hp : 0 < coeffs.length) (hw : w.length = coeffs.length)
    (hρ : spectralRadius ℂ (Complex.ofRealHom.mapMatrix (companion coeffs)) < 1) :
    Tendsto (zfc coeffs w) atTop (𝓝 0) := by
  have hz : zfc coeffs w = fun k => ∑ j : Fin coeffs.length,
      ((companion coeffs) ^ (k + 1)) ⟨coeffs.length - 1, by omega⟩ j * toVec coeffs.length w j := by
    funext k
    rw [zfc_eq_companion coeffs w hp hw k]
    rfl
  rw [hz]
  have := tendsto_finsetSum (Finset.univ : Finset (Fin coeffs.length)) (fun j _ =>
    ((real_matrix_pow_entry_tendsto_zero (companion coeffs) hρ ⟨coeffs.length - 1, by omega⟩ j).comp
      (tendsto_add_atTop_nat 1)).mul_const (toVec coeffs.length w j))
  simpa using this

/-- **forecast_tendsto_of_spectralRadius_lt_one.**  The exact stationarity condition: if the spectral radius of the
companion matrix of the stored coefficients (over ℂ) is `< 1`, the model's forecasts converge to the intercept
(Gelfand's formula: `‖Cᵏ‖^{1/k} → ρ(C)`, hence `Cᵏ → 0`). -/
theorem forecast_tendsto_of_spectralRadius_lt_one (coeffs : List ℝ) (ic : ℝ) (data : List ℝ)
    (hp : 0 < coeffs.length) (hl : coeffs.length ≤ data.length)
    (hρ : spectralRadius ℂ (Complex.ofRealHom.mapMatrix (companion coeffs)) < 1) :
    Tendsto (forecast coeffs ic data) atTop (𝓝 ic) := by
  have hw : (window0 coeffs ic data).length = coeffs.length := by simp [window0]; omega
  have h := (zfc_tendsto_zero coeffs _ hp hw hρ).add_const ic
  rw [zero_add] at h
  refine h.congr fun k => ?_
  rw [forecast_eq coeffs ic data k hl]

/-- **forecast_tendsto_of_roots.**  The textbook form: all roots of the characteristic polynomial of the companion
matrix (the eigenvalues; for an AR(p) model the roots of `z^p − φ₁ z^{p−1} − … − φ_p`) lie strictly inside the unit
disc ⇒ the forecasts converge to the intercept. -/
theorem forecast_tendsto_of_roots (coeffs : List ℝ) (ic : ℝ) (data : List ℝ)
    (hp : 0 < coeffs.length) (hl : coeffs.length ≤ data.length)
    (hroots : ∀ z : ℂ, (Complex.ofRealHom.mapMatrix (companion coeffs)).charpoly.IsRoot z → ‖z‖ < 1) :
    Tendsto (forecast coeffs ic data) atTop (𝓝 ic) :=
  forecast_tendsto_of_spectralRadius_lt_one coeffs ic data hp hl (spectralRadius_lt_one_of_roots hp _ hroots)

/-- **forecast_tendsto_of_ar_roots (the textbook stationarity condition).**  If every complex root of the AR
characteristic polynomial `z^p − φ₁ z^{p−1} − … − φ_p` (written with the stored coefficients, `coeffs[j] = φ_{p−j}`:
`z^p = Σ_j coeffs[j] z^j`) lies strictly inside the unit disc, the model's forecasts converge to the intercept.
(Every eigenvalue of the companion matrix is such a root: `companion_spectrum_root`.) -/
theorem forecast_tendsto_of_ar_roots (coeffs : List ℝ) (ic : ℝ) (data : List ℝ)
    (hp : 0 < coeffs.length) (hl : coeffs.length ≤ data.length)
    (hroots : ∀ z : ℂ, z ^ coeffs.length = ∑ j : Fin coeffs.length, (coeffs[j] : ℂ) * z ^ (j : ℕ) → ‖z‖ < 1) :
    Tendsto (forecast coeffs ic data) atTop (𝓝 ic) := by
  refine forecast_tendsto_of_roots coeffs ic data hp hl fun z hz => ?_
  exact hroots z (companion_spectrum_root Complex.ofRealHom coeffs hp z
    (Matrix.mem_spectrum_iff_isRoot_charpoly.mpr hz))

/-- the characteristic polynomial of the companion matrix of an AR(2) model (stored `[φ₂, φ₁]`) is `z² − φ₁ z − φ₂` -/
theorem companion_charpoly_two (φ₂ φ₁ : ℝ) :
    (Complex.ofRealHom.mapMatrix (companion [φ₂, φ₁])).charpoly =
      Polynomial.X ^ 2 - Polynomial.C (φ₁ : ℂ) * Polynomial.X - Polynomial.C (φ₂ : ℂ) := by
  have : Complex.ofRealHom.mapMatrix (companion [φ₂, φ₁]) = !![0, 1; (φ₂ : ℂ), (φ₁ : ℂ)] := by
    ext i j
    fin_cases i <;> fin_cases j <;> simp [companion]
  rw [this, Matrix.charpoly_fin_two]
  simp [Matrix.trace_fin_two, Matrix.det_fin_two]
  ring

/-- AR(2) with `φ = (1, −1/2)`: here `Σ|φ_j| = 3/2 > 1`, so the sufficient condition of `forecast_tendsto` fails, but the
characteristic roots `(1 ± i)/2` have modulus `1/√2 < 1` and the forecasts still converge. -/
example (ic : ℝ) (data : List ℝ) (hl : 2 ≤ data.length) :
    Tendsto (forecast [-1 / 2, 1] ic data) atTop (𝓝 ic) := by
  refine forecast_tendsto_of_roots _ ic data (by simp) (by simpa using hl) fun z hz => ?_
  rw [companion_charpoly_two, Polynomial.IsRoot.def] at hz
  simp only [Polynomial.eval_sub, Polynomial.eval_pow, Polynomial.eval_X, Polynomial.eval_mul, Polynomial.eval_C] at hz
  have hre := congrArg Complex.re hz
  have him := congrArg Complex.im hz
  simp [pow_two] at hre him
  have hsq : ‖z‖ ^ 2 < 1 := by
    rw [Complex.sq_norm, Complex.normSq_apply]
    have hfac : z.im * (2 * z.re - 1) = 0 := by linarith
    rcases mul_eq_zero.mp hfac with h0 | h0
    · rw [h0] at hre
      nlinarith [sq_nonneg (z.re - 1 / 2)]
    · have hr : z.re = 1 / 2 := by linarith
      rw [hr] at hre ⊢
      nlinarith
  exact (sq_lt_one_iff₀ (norm_nonneg z)).mp hsq

/-- the same model through the textbook polynomial `z² = z − 1/2` -/
example (ic : ℝ) (data : List ℝ) (hl : 2 ≤ data.length) :
    Tendsto (forecast [-1 / 2, 1] ic data) atTop (𝓝 ic) := by
  refine forecast_tendsto_of_ar_roots _ ic data (by simp) (by simpa using hl) fun z hz => ?_
  have hz' : z ^ 2 = ((-1 / 2 : ℝ) : ℂ) * z ^ 0 + ((1 : ℝ) : ℂ) * z ^ 1 := by
    have h2 : z ^ 2 = z ^ ([-1 / 2, 1] : List ℝ).length := rfl
    rw [h2, hz]
    exact Fin.sum_univ_two _
  have hre := congrArg Complex.re hz'
  have him := congrArg Complex.im hz'
  simp [pow_two] at hre him
  have hsq : ‖z‖ ^ 2 < 1 := by
    rw [Complex.sq_norm, Complex.normSq_apply]
    have hfac : z.im * (2 * z.re - 1) = 0 := by linarith
    rcases mul_eq_zero.mp hfac with h0 | h0
    · rw [h0] at hre
      nlinarith [sq_nonneg (z.re - 1 / 2)]
    · have hr : z.re = 1 / 2 := by linarith
      rw [hr] at hre ⊢
      nlinarith
  exact (sq_lt_one_iff₀ (norm_nonneg z)).mp hsq

end spectral

/-! ### the hypotheses of `fit_forecast_tendsto` on an actual fit (over ℚ) -/

section witness

local instance instTranscRatC13C : Cv.Transc ℚ where
  sqrt x := x
  exp x := x
  ln x := x
  pow x _ := x
  sin x := x
  cos x := x
  tan x := x
  abs x := |x|
  floor x := x
  ceil x := x

/-- the model's own AR(1) fit of `1, 2, 4, 3` is `(5/2, [3/20])`, with `Σ|φ| = 3/20 < 1`, order ≤ history length -/
example : arFit 1 ([1, 2, 4, 3] : List ℚ) = some (5 / 2, [3 / 20]) ∧ absSum ([3 / 20] : List ℚ) < 1 := by
  refine ⟨by decide +kernel, by decide +kernel⟩

end witness

end Cv.C13C
