import Compute.Lemmas.FlModel
import Compute.Lemmas.DecompTri
import Compute.Model.Stats
import Compute.Model.VecOps
import Mathlib.Tactic.NormNum
import Mathlib.Algebra.Order.Ring.Pow
/-
Worst-case rounding-error bounds for the reduction kernels and the triangular solves, proved for the
*same* model terms (`Cv.sum8`, `Cv.dot8`, `Cv.mean`, `Cv.welfordMean`, `Cv.iterSum`, `Cv.VecOps.prodL`,
`Cv.LA.forwardSubstitution`, `Cv.LA.backwardSubstitution`, `Cv.LA.choleskySolve`) that are tied bit for
bit to the Rust code at `Float`, instantiated at the scalar type `Fl M` of `Lemmas/FlModel.lean` (reals
with an abstract rounding `rnd` obeying the standard model `rnd x = x(1+δ)`, `|δ| ≤ u`).

TRUSTED LINK (stated, not proved): IEEE-754 binary64 round-to-nearest arithmetic satisfies the standard
model with `u = 2⁻⁵³` as long as no operation overflows or underflows (Higham, ASNA 2nd ed., Thm 2.2);
rounding is idempotent (`FlModel.Idem`) and `n as f64` is exact for `n < 2⁵³` (only used by the theorems
that say so).  Everything below is proved from that; theorems without `Idem` use the bare model.

Headline theorems (C04 "within the worst-case rounding bound for that length", C08 "within the
rounding-error bound of a numerically stable algorithm", C01 "residual at most a small multiple of
machine epsilon"):
* `sum8_error_depth`, `sum8_error` (γ_n), `sum8_error_pred` (γ_{n−1}, the oracle's constant);
  the deepest path of the 8-way unrolled association has `sumDepth n = ⌊n/8⌋ + n mod 8 + 7` roundings
* `dot8_error_succ` (γ_{n+1}, bare model), `dot8_error` (γ_n), `dot8_error_depth`
* `prodL_error` (γ_n, relative), `iterSum_error` (γ_n)
* `mean_error_add_two` (γ_{n+2}, bare model), `mean_error` (γ_n), `welfordMean_error`
* `forwardSubstitution_backward_error`, `backwardSubstitution_backward_error` (Higham Thm 8.5:
  `(T+ΔT)x̂ = b`, `|ΔT| ≤ γ_{max n 2}|T|`), their `_depth` refinements, `_residual` corollaries, the
  scalar-generic recurrences `forwardSubstitution_rows` / `backwardSubstitution_rows`, and
  `choleskySolve_backward_error`
* `f64_instance_note` (pure numerics), `stdmodel_sum8_note`: `γ_n ≤ 1.12·10⁻¹²` for `n ≤ 10⁴` at `u = 2⁻⁵³`
Non-vacuity: `namespace Examples` at the end (two concrete models in which rounding errors occur).
-/
namespace Cv.Rounding
open Cv Cv.FlModel

variable {M : FlModel}

/-- the real values of a vector of floating-point numbers -/
abbrev vals (x : List (Fl M)) : List ℝ := x.map Fl.val

/-! ### structure of the 8-way pattern -/

theorem exists_block {β : Type} (x : List β) (h : 8 ≤ x.length) :
    ∃ x0 x1 x2 x3 x4 x5 x6 x7 rest, x = x0 :: x1 :: x2 :: x3 :: x4 :: x5 :: x6 :: x7 :: rest := by
  rcases x with _ | ⟨x0, _ | ⟨x1, _ | ⟨x2, _ | ⟨x3, _ | ⟨x4, _ | ⟨x5, _ | ⟨x6, _ | ⟨x7, rest⟩⟩⟩⟩⟩⟩⟩⟩
  all_goals first
    | exact ⟨_, _, _, _, _, _, _, _, _, rfl⟩
    | (simp only [List.length_cons, List.length_nil] at h; omega)

theorem sum8Go_short {α : Type} [Add α] (s : α) (x : List α) (h : x.length < 8) :
    sum8Go s x = x.foldl (· + ·) s := by
  unfold sum8Go
  split
  · simp only [List.length_cons] at h; omega
  · rfl

theorem sum8Go_block {α : Type} [Add α] (s x0 x1 x2 x3 x4 x5 x6 x7 : α) (rest : List α) :
    sum8Go s (x0 :: x1 :: x2 :: x3 :: x4 :: x5 :: x6 :: x7 :: rest) =
      sum8Go (s + (x0 + x1 + x2 + x3 + x4 + x5 + x6 + x7)) rest := by
  rw [sum8Go]

/-- the unrolled dot product is the unrolled sum of the element-wise products (any scalar type) -/
theorem dot8Go_eq_sum8Go {α : Type} [Add α] [Mul α] (s : α) (x y : List α) :
    dot8Go s x y = sum8Go s (List.zipWith (· * ·) x y) := by
  fun_induction dot8Go s x y with
  | case1 s x0 x1 x2 x3 x4 x5 x6 x7 xs y0 y1 y2 y3 y4 y5 y6 y7 ys ih =>
    rw [ih]; simp only [List.zipWith_cons_cons]; rw [sum8Go_block]
  | case2 s xs ys hneg =>
    rw [sum8Go_short]
    by_contra hlen
    have h8 : 8 ≤ (List.zipWith (· * ·) xs ys).length := by omega
    rw [List.length_zipWith] at h8
    obtain ⟨x0, x1, x2, x3, x4, x5, x6, x7, xs', rfl⟩ := exists_block xs (by omega)
    obtain ⟨y0, y1, y2, y3, y4, y5, y6, y7, ys', rfl⟩ := exists_block ys (by omega)
    exact hneg _ _ _ _ _ _ _ _ _ _ _ _ _ _ _ _ _ _ rfl rfl

/-! ### rounding analysis of the accumulation loops -/

/-- the remainder loop `s += x[j]`: one more rounding on everything accumulated so far per element -/
theorem foldl_pert (l : List (Fl M)) (s : Fl M) (k : Nat) (pre : List ℝ) (h : M.Pert k s.val pre) :
    M.Pert (k + l.length) (l.foldl (· + ·) s).val (pre ++ vals l) := by
  induction l generalizing s k pre with
  | nil => simpa using h
  | cons a l ih =>
    have h' : M.Pert (k + 1) (s + a).val (pre ++ [a.val]) :=
      h.add_rnd (Pert.single 0 a.val) (le_refl _) (by omega)
    have := ih (s + a) (k + 1) (pre ++ [a.val]) h'
    simp only [List.foldl_cons, List.length_cons, vals, List.map_cons]
    rw [show k + (l.length + 1) = k + 1 + l.length by omega]
    simpa using this

/-- the inner chain `x0 + x1 + … + x7` of one block: 7 roundings -/
theorem chain_pert (x0 x1 x2 x3 x4 x5 x6 x7 : Fl M) :
    M.Pert 7 (x0 + x1 + x2 + x3 + x4 + x5 + x6 + x7).val
      [x0.val, x1.val, x2.val, x3.val, x4.val, x5.val, x6.val, x7.val] := by
  have := foldl_pert [x1, x2, x3, x4, x5, x6, x7] x0 0 [x0.val] (Pert.single 0 x0.val)
  simpa using this

/-- the block loop from an accumulator of depth `k ≥ 7`: one rounding per block, then the remainder -/
theorem sum8Go_pert (s : Fl M) (x : List (Fl M)) (k : Nat) (pre : List ℝ) (hk : 7 ≤ k)
    (h : M.Pert k s.val pre) :
    M.Pert (k + x.length / 8 + x.length % 8) (sum8Go s x).val (pre ++ vals x) := by
  fun_induction sum8Go s x generalizing k pre with
  | case1 s x0 x1 x2 x3 x4 x5 x6 x7 rest ih =>
    have h' : M.Pert (k + 1) (s + (x0 + x1 + x2 + x3 + x4 + x5 + x6 + x7)).val
        (pre ++ [x0.val, x1.val, x2.val, x3.val, x4.val, x5.val, x6.val, x7.val]) :=
      h.add_rnd (chain_pert x0 x1 x2 x3 x4 x5 x6 x7) (le_refl _) (by omega)
    have := ih (k + 1) _ (by omega) h'
    simp only [List.length_cons, vals, List.map_cons]
    rw [show k + (rest.length + 1 + 1 + 1 + 1 + 1 + 1 + 1 + 1) / 8 +
      (rest.length + 1 + 1 + 1 + 1 + 1 + 1 + 1 + 1) % 8 = k + 1 + rest.length / 8 + rest.length % 8 by omega]
    simpa using this
  | case2 s rest hneg =>
    have hlen : rest.length < 8 := by
      by_contra hlen
      obtain ⟨x0, x1, x2, x3, x4, x5, x6, x7, r, rfl⟩ := exists_block rest (by omega)
      exact hneg _ _ _ _ _ _ _ _ _ rfl
    have := foldl_pert rest s k pre h
    rw [show k + rest.length / 8 + rest.length % 8 = k + rest.length by omega]
    exact this

/-- number of roundings on the deepest path of `sum8` at length `n`, in the bare standard model -/
def sumDepth (n : Nat) : Nat := if n < 8 then n else n / 8 + n % 8 + 7

/-- … and when the leading `0 + t` is exact (`t` representable, rounding idempotent) -/
def sumDepthR (n : Nat) : Nat := if n < 8 then n - 1 else n / 8 + n % 8 + 6

theorem sumDepth_le (n : Nat) : sumDepth n ≤ n := by unfold sumDepth; split <;> omega
theorem sumDepthR_le (n : Nat) : sumDepthR n ≤ n - 1 := by unfold sumDepthR; split <;> omega
theorem sumDepthR_le_sumDepth (n : Nat) : sumDepthR n ≤ sumDepth n := by
  unfold sumDepthR sumDepth; split <;> omega

/-- **structure of the computed sum** (standard model only): `sum8 x = Σ xᵢ·fᵢ`, every `fᵢ` a product
of at most `sumDepth n` rounding factors. -/
theorem sum8_pert (x : List (Fl M)) : M.Pert (sumDepth x.length) (sum8 x).val (vals x) := by
  unfold sumDepth sum8
  split
  · rename_i h
    rw [sum8Go_short _ _ h]
    simpa using foldl_pert x 0 0 [] (Pert.nil 0)
  · rename_i h
    obtain ⟨x0, x1, x2, x3, x4, x5, x6, x7, rest, rfl⟩ := exists_block x (by omega)
    rw [sum8Go_block]
    have h' : M.Pert 8 ((0 : Fl M) + (x0 + x1 + x2 + x3 + x4 + x5 + x6 + x7)).val
        ([] ++ [x0.val, x1.val, x2.val, x3.val, x4.val, x5.val, x6.val, x7.val]) :=
      (Pert.nil 0).add_rnd (chain_pert x0 x1 x2 x3 x4 x5 x6 x7) (by omega) (le_refl _)
    have := sum8Go_pert _ rest 8 _ (by omega) h'
    simp only [List.length_cons, vals, List.map_cons]
    rw [show (rest.length + 1 + 1 + 1 + 1 + 1 + 1 + 1 + 1) / 8 +
      (rest.length + 1 + 1 + 1 + 1 + 1 + 1 + 1 + 1) % 8 + 7 = 8 + rest.length / 8 + rest.length % 8 by omega]
    simpa using this

/-- the result of an addition is representable when rounding is idempotent -/
theorem rep_add (hid : M.Idem) (a b : Fl M) : (a + b).Rep := hid _
theorem rep_mul (hid : M.Idem) (a b : Fl M) : (a * b).Rep := hid _
theorem rep_sub (hid : M.Idem) (a b : Fl M) : (a - b).Rep := hid _
theorem rep_div (hid : M.Idem) (a b : Fl M) : (a / b).Rep := hid _

/-- **structure of the computed sum, refined**: with idempotent rounding and representable inputs the
leading `0 + t` is exact and the deepest path has `sumDepthR n ≤ n − 1` roundings. -/
theorem sum8_pert_rep (hid : M.Idem) (x : List (Fl M)) (hx : ∀ a ∈ x, a.Rep) :
    M.Pert (sumDepthR x.length) (sum8 x).val (vals x) := by
  unfold sumDepthR sum8
  split
  · rename_i h
    rw [sum8Go_short _ _ h]
    cases x with
    | nil => simpa using Pert.nil (M := M) 0
    | cons a l =>
      rw [List.foldl_cons, Fl.zero_add_of_rep (hx a (by simp))]
      simpa using foldl_pert l a 0 [a.val] (Pert.single 0 a.val)
  · rename_i h
    obtain ⟨x0, x1, x2, x3, x4, x5, x6, x7, rest, rfl⟩ := exists_block x (by omega)
    rw [sum8Go_block, Fl.zero_add_of_rep (rep_add hid _ _)]
    have := sum8Go_pert _ rest 7 _ (le_refl _) (chain_pert x0 x1 x2 x3 x4 x5 x6 x7)
    simp only [List.length_cons, vals, List.map_cons]
    rw [show (rest.length + 1 + 1 + 1 + 1 + 1 + 1 + 1 + 1) / 8 +
      (rest.length + 1 + 1 + 1 + 1 + 1 + 1 + 1 + 1) % 8 + 6 = 7 + rest.length / 8 + rest.length % 8 by omega]
    simpa using this

/-! ### Goal 1: `sum8` -/

/-- **Forward error of the unrolled sum, exact depth** (standard model only).
`|sum8 x − Σ xᵢ| ≤ γ_m · Σ|xᵢ|`, `m = sumDepth n` (`n` for `n < 8`, `⌊n/8⌋ + n mod 8 + 7` otherwise). -/
theorem sum8_error_depth (x : List (Fl M)) (h : sumDepth x.length * M.u < 1) :
    |(sum8 x).val - (vals x).sum| ≤ M.γ (sumDepth x.length) * ((vals x).map (|·|)).sum :=
  (sum8_pert x).error h

/-- **Forward error of the unrolled sum** (standard model only): `|sum8 x − Σ xᵢ| ≤ γ_n · Σ|xᵢ|`. -/
theorem sum8_error (x : List (Fl M)) (h : x.length * M.u < 1) :
    |(sum8 x).val - (vals x).sum| ≤ M.γ x.length * ((vals x).map (|·|)).sum :=
  ((sum8_pert x).mono (sumDepth_le _)).error h

/-- **Forward error of the unrolled sum, classical constant `γ_{n−1}`** (the bound the C04 oracle
checks): for representable inputs and idempotent rounding. -/
theorem sum8_error_pred (hid : M.Idem) (x : List (Fl M)) (hx : ∀ a ∈ x, a.Rep)
    (h : (x.length - 1 : Nat) * M.u < 1) :
    |(sum8 x).val - (vals x).sum| ≤ M.γ (x.length - 1) * ((vals x).map (|·|)).sum :=
  ((sum8_pert_rep hid x hx).mono (sumDepthR_le _)).error h

/-! ### Goal 2: `dot8` -/

/-- the exact products `xᵢ·yᵢ` -/
abbrev prods (x y : List (Fl M)) : List ℝ := List.zipWith (fun a b : Fl M => a.val * b.val) x y

/-- one rounding per product -/
theorem prods_factor (x y : List (Fl M)) :
    ∃ gs : List ℝ, gs.length = (prods x y).length ∧ (∀ g ∈ gs, M.Fac 1 g) ∧
      vals (List.zipWith (· * ·) x y) = List.zipWith (· * ·) (prods x y) gs := by
  induction x generalizing y with
  | nil => exact ⟨[], by simp, by simp, by simp⟩
  | cons a x ih =>
    cases y with
    | nil => exact ⟨[], by simp, by simp, by simp⟩
    | cons b y =>
      obtain ⟨gs, hl, hg, he⟩ := ih y
      obtain ⟨δ, hδ, hr⟩ := M.std (a.val * b.val)
      refine ⟨(1 + δ) :: gs, by simpa using hl, ?_, ?_⟩
      · intro g hgm
        rcases List.mem_cons.mp hgm with rfl | hgm
        · exact Fac.one_add hδ
        · exact hg g hgm
      · simp only [vals, prods, List.zipWith_cons_cons, List.map_cons, Fl.mul_val] at he ⊢
        rw [he, hr]

theorem dot8_eq_sum8 {α : Type} [Add α] [Mul α] [Zero α] (x y : List α) :
    dot8 x y = sum8 (List.zipWith (· * ·) x y) := dot8Go_eq_sum8Go 0 x y

/-- **structure of the computed dot product** (standard model only) -/
theorem dot8_pert (x y : List (Fl M)) :
    M.Pert (sumDepth (prods x y).length + 1) (dot8 x y).val (prods x y) := by
  obtain ⟨gs, hl, hg, he⟩ := prods_factor x y
  have h := sum8_pert (List.zipWith (· * ·) x y)
  rw [he, ← dot8_eq_sum8] at h
  have hlen : (List.zipWith (· * ·) x y).length = (prods x y).length := by simp [prods]
  rw [hlen] at h
  rw [Nat.add_comm]
  exact Pert.comp (prods x y) gs _ hl hg h

/-- **structure of the computed dot product, refined** (idempotent rounding: the products are
representable, so the leading `0 + t` is exact) -/
theorem dot8_pert_idem (hid : M.Idem) (x y : List (Fl M)) :
    M.Pert (sumDepthR (prods x y).length + 1) (dot8 x y).val (prods x y) := by
  obtain ⟨gs, hl, hg, he⟩ := prods_factor x y
  have hrep : ∀ a ∈ List.zipWith (· * ·) x y, a.Rep := by
    intro a ha
    obtain ⟨i, hi, rfl⟩ := List.mem_iff_getElem.mp ha
    rw [List.getElem_zipWith]
    exact rep_mul hid _ _
  have h := sum8_pert_rep hid (List.zipWith (· * ·) x y) hrep
  rw [he, ← dot8_eq_sum8] at h
  have hlen : (List.zipWith (· * ·) x y).length = (prods x y).length := by simp [prods]
  rw [hlen] at h
  rw [Nat.add_comm]
  exact Pert.comp (prods x y) gs _ hl hg h

theorem prods_length (x y : List (Fl M)) (h : x.length = y.length) : (prods x y).length = x.length := by
  simp [prods, h]

/-- **Forward error of the unrolled dot product** (standard model only):
`|dot8 x y − Σ xᵢyᵢ| ≤ γ_{n+1} · Σ|xᵢyᵢ|`. -/
theorem dot8_error_succ (x y : List (Fl M)) (hxy : x.length = y.length)
    (h : (x.length + 1 : Nat) * M.u < 1) :
    |(dot8 x y).val - (prods x y).sum| ≤ M.γ (x.length + 1) * ((prods x y).map (|·|)).sum := by
  have hp := dot8_pert x y
  rw [prods_length x y hxy] at hp
  exact (hp.mono (Nat.add_le_add_right (sumDepth_le _) 1)).error h

/-- **Forward error of the unrolled dot product, classical constant `γ_n`** (the bound the C04 oracle
checks; Higham (3.5)): idempotent rounding. -/
theorem dot8_error (hid : M.Idem) (x y : List (Fl M)) (hxy : x.length = y.length)
    (h : x.length * M.u < 1) :
    |(dot8 x y).val - (prods x y).sum| ≤ M.γ x.length * ((prods x y).map (|·|)).sum := by
  have hp := dot8_pert_idem hid x y
  rw [prods_length x y hxy] at hp
  by_cases hn : x.length = 0
  · have hx : x = [] := List.eq_nil_of_length_eq_zero hn
    subst hx
    have : (dot8 ([] : List (Fl M)) y).val = 0 := rfl
    simp [this, prods]
  · have : sumDepthR x.length + 1 ≤ x.length := by have := sumDepthR_le x.length; omega
    exact (hp.mono this).error h

/-- **… exact depth**: `m = ⌊n/8⌋ + n mod 8 + 7` for `n ≥ 8` — for long vectors the unrolled kernel is
about 8 times more accurate (in the worst case) than the textbook loop. -/
theorem dot8_error_depth (hid : M.Idem) (x y : List (Fl M)) (hxy : x.length = y.length)
    (h : (sumDepthR x.length + 1 : Nat) * M.u < 1) :
    |(dot8 x y).val - (prods x y).sum| ≤
      M.γ (sumDepthR x.length + 1) * ((prods x y).map (|·|)).sum := by
  have hp := dot8_pert_idem hid x y
  rw [prods_length x y hxy] at hp
  exact hp.error h

/-! ### Goal 3: `mean` (moments.rs: `sum(data) / data.len() as f64`) -/

theorem sum_map_div (xs : List ℝ) (c : ℝ) : (xs.map (· / c)).sum = xs.sum / c := by
  induction xs with
  | nil => simp
  | cons x xs ih => simp [ih, add_div]

theorem sum_map_abs_div (xs : List ℝ) (c : ℝ) (hc : 0 ≤ c) :
    ((xs.map (· / c)).map (|·|)).sum = (xs.map (|·|)).sum / c := by
  induction xs with
  | nil => simp
  | cons x xs ih =>
    simp only [List.map_cons, List.sum_cons, ih, add_div, abs_div, abs_of_nonneg hc]

/-- structure of the computed mean: the sum's factors, one rounding of `n as f64`, one division -/
theorem mean_pert (x : List (Fl M)) :
    M.Pert (sumDepth x.length + 2) (mean x).val ((vals x).map (· / (x.length : ℝ))) := by
  obtain ⟨δ1, hδ1, h1⟩ := M.std ((sum8 x).val / M.rnd (x.length : ℝ))
  obtain ⟨δ2, hδ2, h2⟩ := M.std (x.length : ℝ)
  have hv : (mean x).val = (sum8 x).val / (x.length : ℝ) * ((1 + δ1) * (1 + δ2)⁻¹) := by
    show M.rnd ((sum8 x).val / M.rnd (x.length : ℝ)) = _
    rw [h1, h2, div_mul_eq_div_div, div_eq_mul_inv _ (1 + δ2)]; ring
  rw [hv]
  have hf : M.Fac (1 + 1) ((1 + δ1) * (1 + δ2)⁻¹) := (Fac.one_add hδ1).mul (Fac.one_add hδ2).inv
  exact ((sum8_pert x).div_const _).scale hf

theorem mean_pert_exact (hid : M.Idem) (x : List (Fl M)) (hx : ∀ a ∈ x, a.Rep)
    (hn : M.rnd (x.length : ℝ) = x.length) :
    M.Pert (sumDepthR x.length + 1) (mean x).val ((vals x).map (· / (x.length : ℝ))) := by
  obtain ⟨δ1, hδ1, h1⟩ := M.std ((sum8 x).val / M.rnd (x.length : ℝ))
  have hv : (mean x).val = (sum8 x).val / (x.length : ℝ) * (1 + δ1) := by
    show M.rnd ((sum8 x).val / M.rnd (x.length : ℝ)) = _
    rw [h1, hn]
  rw [hv]
  exact ((sum8_pert_rep hid x hx).div_const _).scale (Fac.one_add hδ1)

/-- **Forward error of `mean`** (standard model only): `|mean x − (Σxᵢ)/n| ≤ γ_{n+2} · (Σ|xᵢ|)/n`. -/
theorem mean_error_add_two (x : List (Fl M)) (h : (x.length + 2 : Nat) * M.u < 1) :
    |(mean x).val - (vals x).sum / x.length| ≤
      M.γ (x.length + 2) * (((vals x).map (|·|)).sum / x.length) := by
  have := ((mean_pert x).mono (Nat.add_le_add_right (sumDepth_le _) 2)).error h
  rwa [sum_map_div, sum_map_abs_div _ _ (Nat.cast_nonneg _)] at this

/-- **Forward error of `mean`, classical constant**: representable data, idempotent rounding and an
exactly representable length (`n < 2⁵³` at `f64`): `|mean x − (Σxᵢ)/n| ≤ γ_n · (Σ|xᵢ|)/n`; in
particular the relative error is at most `γ_n` for data of one sign. -/
theorem mean_error (hid : M.Idem) (x : List (Fl M)) (hx : ∀ a ∈ x, a.Rep)
    (hn : M.rnd (x.length : ℝ) = x.length) (h : x.length * M.u < 1) :
    |(mean x).val - (vals x).sum / x.length| ≤
      M.γ x.length * (((vals x).map (|·|)).sum / x.length) := by
  by_cases h0 : x.length = 0
  · have hx0 : x = [] := List.eq_nil_of_length_eq_zero h0
    subst hx0
    have : (mean ([] : List (Fl M))).val = 0 := by
      show M.rnd ((0 : ℝ) / M.rnd ((0 : Nat) : ℝ)) = 0
      simp [M.rnd_zero]
    simp [this]
  · have hle : sumDepthR x.length + 1 ≤ x.length := by have := sumDepthR_le x.length; omega
    have := ((mean_pert_exact hid x hx hn).mono hle).error h
    rwa [sum_map_div, sum_map_abs_div _ _ (Nat.cast_nonneg _)] at this

/-! ### Goal 3b: the Welford running mean (`welford_statistics`, used by `var`/`std`) -/

/-- exact mean (`0` for the empty list) -/
noncomputable def runMean (xs : List ℝ) : ℝ := xs.sum / xs.length

theorem runMean_snoc (p : List ℝ) (x : ℝ) :
    runMean (p ++ [x]) = runMean p + (x - runMean p) / ((p.length : ℝ) + 1) := by
  unfold runMean
  simp only [List.sum_append, List.length_append, List.sum_cons, List.sum_nil, List.length_cons,
    List.length_nil, add_zero]
  by_cases h : p.length = 0
  · have : p = [] := List.eq_nil_of_length_eq_zero h
    subst this; simp
  · have h' : (p.length : ℝ) ≠ 0 := Nat.cast_ne_zero.mpr h
    have h'' : (p.length : ℝ) + 1 ≠ 0 := by positivity
    push_cast
    field_simp
    ring

theorem abs_sum_le (xs : List ℝ) (X : ℝ) (hX : ∀ x ∈ xs, |x| ≤ X) : |xs.sum| ≤ xs.length * X := by
  induction xs with
  | nil => simp
  | cons x xs ih =>
    have h1 := hX x (by simp)
    have h2 := ih (fun y hy => hX y (by simp [hy]))
    simp only [List.sum_cons, List.length_cons]
    push_cast
    have := abs_add_le x xs.sum
    linarith

theorem abs_runMean_le (xs : List ℝ) (X : ℝ) (hX0 : 0 ≤ X) (hX : ∀ x ∈ xs, |x| ≤ X) :
    |runMean xs| ≤ X := by
  unfold runMean
  by_cases h : xs.length = 0
  · simp [h, hX0]
  · have hp : (0 : ℝ) < xs.length := Nat.cast_pos.mpr (Nat.pos_of_ne_zero h)
    rw [abs_div, abs_of_pos hp, div_le_iff₀ hp, mul_comm]
    exact abs_sum_le xs X hX

/-- one Welford step, real-number core: the error recurrence -/
theorem welford_step_real (u η X m μ x e δ k : ℝ) (hk : 1 ≤ k) (hδ : |δ| ≤ u)
    (he : |e - 1| ≤ η) (hx : |x| ≤ X) (hμ : |μ| ≤ X) (hμ' : |μ + (x - μ) / k| ≤ X) :
    k * |(m + (x - m) * e / k) * (1 + δ) - (μ + (x - μ) / k)| ≤
      (1 + u) * ((k - 1) * |m - μ| + (2 * X + |m - μ|) * η) + k * u * X := by
  have hk0 : (0 : ℝ) < k := by linarith
  have hkne := hk0.ne'
  have hη : 0 ≤ η := le_trans (abs_nonneg _) he
  have key : k * ((m + (x - m) * e / k) * (1 + δ) - (μ + (x - μ) / k)) =
      ((m - μ) * (k - 1) + (x - m) * (e - 1)) * (1 + δ) + k * (μ + (x - μ) / k) * δ := by
    field_simp
    ring
  rw [← abs_of_pos hk0, ← abs_mul, abs_of_pos hk0, key]
  have h1 : |1 + δ| ≤ 1 + u := by
    have := abs_le.mp hδ
    rw [abs_le]; constructor <;> linarith
  have h2 : |x - m| ≤ 2 * X + |m - μ| := by
    have : x - m = x + (-μ) + (-(m - μ)) := by ring
    rw [this]
    have a1 := abs_add_le (x + -μ) (-(m - μ))
    have a2 := abs_add_le x (-μ)
    rw [abs_neg] at a1 a2
    linarith
  have h3 : |(m - μ) * (k - 1) + (x - m) * (e - 1)| ≤ (k - 1) * |m - μ| + (2 * X + |m - μ|) * η := by
    refine le_trans (abs_add_le _ _) ?_
    rw [abs_mul, abs_mul, abs_of_nonneg (by linarith : (0 : ℝ) ≤ k - 1)]
    have := mul_le_mul h2 he (abs_nonneg _) (by linarith [abs_nonneg (m - μ), le_trans (abs_nonneg _) hx])
    linarith
  have h4 : |k * (μ + (x - μ) / k) * δ| ≤ k * u * X := by
    rw [abs_mul, abs_mul, abs_of_pos hk0]
    have := mul_le_mul hμ' hδ (abs_nonneg _) (le_trans (abs_nonneg _) hμ')
    nlinarith
  refine le_trans (abs_add_le _ _) ?_
  rw [abs_mul]
  have h5 := mul_le_mul h3 h1 (abs_nonneg _) (le_trans (abs_nonneg _) h3)
  linarith

/-- one Welford step in rounded arithmetic: four roundings (subtraction, cast, division, addition) -/
theorem welfordUpdate_mean (agg : Nat × Fl M × Fl M) (x : Fl M) :
    ∃ e δ : ℝ, M.Fac 3 e ∧ |δ| ≤ M.u ∧
      (welfordUpdate agg x).2.1.val =
        (agg.2.1.val + (x.val - agg.2.1.val) * e / ((agg.1 : ℝ) + 1)) * (1 + δ) := by
  obtain ⟨δ1, hδ1, h1⟩ := M.std (x.val - agg.2.1.val)
  obtain ⟨δ2, hδ2, h2⟩ := M.std (((agg.1 + 1 : Nat) : ℝ))
  obtain ⟨δ3, hδ3, h3⟩ := M.std (M.rnd (x.val - agg.2.1.val) / M.rnd (((agg.1 + 1 : Nat) : ℝ)))
  obtain ⟨δ4, hδ4, h4⟩ := M.std (agg.2.1.val +
    M.rnd (M.rnd (x.val - agg.2.1.val) / M.rnd (((agg.1 + 1 : Nat) : ℝ))))
  have hf := ((Fac.one_add hδ1).mul (Fac.one_add hδ3)).mul (Fac.one_add hδ2).inv
  refine ⟨(1 + δ1) * (1 + δ3) * (1 + δ2)⁻¹, δ4, hf, hδ4, ?_⟩
  show M.rnd (agg.2.1.val +
    M.rnd (M.rnd (x.val - agg.2.1.val) / M.rnd (((agg.1 + 1 : Nat) : ℝ)))) = _
  rw [h4, h3, h1, h2]
  push_cast
  have p2 := (Fac.one_add hδ2).pos.ne'
  congr 1
  congr 1
  rw [div_eq_mul_inv, div_eq_mul_inv, mul_inv]
  ring

/-- growth factor and additive constant of the error recurrence -/
noncomputable def wRho (M : FlModel) : ℝ := (1 + M.u) * (1 + M.γ 3)
noncomputable def wC (M : FlModel) : ℝ := 2 * (1 + M.u) * M.γ 3

theorem wRho_ge_one (h3 : (3 : Nat) * M.u < 1) : 1 ≤ wRho M := by
  unfold wRho
  have := M.γ_nonneg 3 h3
  have := M.u_nonneg
  nlinarith

theorem welfordStatistics_snoc {α : Type} [Add α] [Sub α] [Mul α] [Div α] [Zero α] [NatCast α]
    (p : List α) (x : α) :
    welfordStatistics (p ++ [x]) = welfordUpdate (welfordStatistics p) x := by
  simp [welfordStatistics, List.foldl_append]

/-- **error recurrence of the Welford mean, solved**:
`n·|m_n − μ_n| ≤ ρⁿ·X·(c·n + u·n(n+1)/2)`. -/
theorem welford_invariant (X : ℝ) (hX0 : 0 ≤ X) (h3 : (3 : Nat) * M.u < 1) (data : List (Fl M)) :
    (∀ a ∈ data, |a.val| ≤ X) →
    (welfordStatistics data).1 = data.length ∧
    (data.length : ℝ) * |(welfordStatistics data).2.1.val - runMean (vals data)| ≤
      wRho M ^ data.length * X *
        (wC M * data.length + M.u * data.length * ((data.length : ℝ) + 1) / 2) := by
  induction data using List.reverseRecOn with
  | nil => intro _; simp [welfordStatistics]
  | append_singleton p x ih =>
    intro hX
    obtain ⟨hcnt, hinv⟩ := ih (fun a ha => hX a (by simp [ha]))
    rw [welfordStatistics_snoc]
    refine ⟨by simp [welfordUpdate, hcnt], ?_⟩
    obtain ⟨e, δ, he, hδ, hm⟩ := welfordUpdate_mean (welfordStatistics p) x
    rw [hm, hcnt]
    have hvals : vals (p ++ [x]) = vals p ++ [x.val] := by simp [vals]
    rw [hvals, runMean_snoc]
    have hlen : (vals p).length = p.length := by simp [vals]
    rw [hlen]
    simp only [List.length_append, List.length_cons, List.length_nil]
    push_cast
    set kr : ℝ := (p.length : ℝ) with hkr
    set m : ℝ := (welfordStatistics p).2.1.val with hm_def
    set μ : ℝ := runMean (vals p) with hμ_def
    have hkr0 : 0 ≤ kr := Nat.cast_nonneg _
    have hγ := M.γ_nonneg 3 h3
    have hu := M.u_nonneg
    have hxX : |x.val| ≤ X := hX x (by simp)
    have hμX : |μ| ≤ X := abs_runMean_le _ X hX0 (by
      intro y hy
      obtain ⟨a, ha, rfl⟩ := List.mem_map.mp hy
      exact hX a (by simp [ha]))
    have hμ'X : |μ + (x.val - μ) / (kr + 1)| ≤ X := by
      have := abs_runMean_le (vals (p ++ [x])) X hX0 (by
        intro y hy
        obtain ⟨a, ha, rfl⟩ := List.mem_map.mp hy
        exact hX a ha)
      rwa [hvals, runMean_snoc, hlen] at this
    have hstep := welford_step_real M.u (M.γ 3) X m μ x.val e δ (kr + 1) (by linarith) hδ
      (he.abs_sub_one_le h3) hxX hμX hμ'X
    -- |E| ≤ kr·|E|
    have hE : |m - μ| ≤ kr * |m - μ| := by
      by_cases hp : p.length = 0
      · have : p = [] := List.eq_nil_of_length_eq_zero hp
        subst this
        simp [hm_def, hμ_def, welfordStatistics, runMean, vals]
      · have : (1 : ℝ) ≤ kr := by
          rw [hkr]; exact_mod_cast Nat.pos_of_ne_zero hp
        nlinarith [abs_nonneg (m - μ)]
    have hρ1 := wRho_ge_one (M := M) h3
    have hρk : 1 ≤ wRho M ^ (p.length + 1) := one_le_pow₀ hρ1
    have hρpos : 0 < wRho M := by linarith
    set a : ℝ := kr * |m - μ| with ha
    have ha0 : 0 ≤ a := mul_nonneg hkr0 (abs_nonneg _)
    -- collect
    have h1 : (kr + 1) * |(m + (x.val - m) * e / (kr + 1)) * (1 + δ) - (μ + (x.val - μ) / (kr + 1))|
        ≤ wRho M * a + (wC M * X + (kr + 1) * M.u * X) := by
      refine le_trans hstep ?_
      unfold wRho wC
      have e1 : kr + 1 - 1 = kr := by ring
      rw [e1]
      have hu1 : 0 ≤ 1 + M.u := by linarith
      have : (1 + M.u) * (kr * |m - μ| + (2 * X + |m - μ|) * M.γ 3) ≤
          (1 + M.u) * (1 + M.γ 3) * a + 2 * (1 + M.u) * M.γ 3 * X := by
        have : |m - μ| * M.γ 3 ≤ a * M.γ 3 := mul_le_mul_of_nonneg_right hE hγ
        have h' : kr * |m - μ| + (2 * X + |m - μ|) * M.γ 3 ≤ (1 + M.γ 3) * a + 2 * M.γ 3 * X := by
          nlinarith
        calc (1 + M.u) * (kr * |m - μ| + (2 * X + |m - μ|) * M.γ 3)
            ≤ (1 + M.u) * ((1 + M.γ 3) * a + 2 * M.γ 3 * X) := mul_le_mul_of_nonneg_left h' hu1
          _ = _ := by ring
      linarith
    refine le_trans h1 ?_
    have h2 : wRho M * a ≤ wRho M * (wRho M ^ p.length * X *
        (wC M * kr + M.u * kr * (kr + 1) / 2)) := mul_le_mul_of_nonneg_left hinv hρpos.le
    have hc0 : 0 ≤ wC M * X + (kr + 1) * M.u * X := by
      unfold wC
      have : 0 ≤ 2 * (1 + M.u) * M.γ 3 := by positivity
      have := mul_nonneg this hX0
      have : 0 ≤ (kr + 1) * M.u * X := by positivity
      linarith
    have h3' : wC M * X + (kr + 1) * M.u * X ≤
        wRho M ^ (p.length + 1) * (wC M * X + (kr + 1) * M.u * X) :=
      le_mul_of_one_le_left hc0 hρk
    have e2 : wRho M * (wRho M ^ p.length * X * (wC M * kr + M.u * kr * (kr + 1) / 2)) +
        wRho M ^ (p.length + 1) * (wC M * X + (kr + 1) * M.u * X) =
        wRho M ^ (p.length + 1) * X *
          (wC M * (kr + 1) + M.u * (kr + 1) * (kr + 1 + 1) / 2) := by
      rw [pow_succ]; ring
    linarith

theorem wRho_pow_le (n : Nat) (hn : 1 ≤ n) (h : ((4 * n : Nat) : ℝ) * M.u < 1) :
    wRho M ^ n ≤ 1 + M.γ (4 * n) := by
  have hu := M.u_nonneg
  have hn1 : (1 : ℝ) ≤ n := by exact_mod_cast hn
  push_cast at h
  have h4 : 4 * M.u < 1 := by nlinarith
  have h3 : 1 - 3 * M.u ≠ 0 := by nlinarith
  have hρ : wRho M ≤ 1 / (1 - 4 * M.u) := by
    unfold wRho
    rw [M.γ_eq 3 (by push_cast; exact h3)]
    push_cast
    rw [show (1 : ℝ) + (1 / (1 - 3 * M.u) - 1) = 1 / (1 - 3 * M.u) by ring, mul_one_div,
      div_le_div_iff₀ (by nlinarith) (by linarith)]
    nlinarith
  have hρ0 : 0 ≤ wRho M := by
    unfold wRho
    have := M.γ_nonneg 3 (by push_cast; linarith)
    positivity
  have hb : 1 - 4 * (n : ℝ) * M.u ≤ (1 - 4 * M.u) ^ n := by
    have := one_add_mul_le_pow (a := -(4 * M.u)) (by linarith) n
    have e : (1 : ℝ) + n * -(4 * M.u) = 1 - 4 * n * M.u := by ring
    rw [e] at this
    rwa [show (1 : ℝ) + -(4 * M.u) = 1 - 4 * M.u by ring] at this
  have hden : 0 < 1 - 4 * (n : ℝ) * M.u := by linarith
  calc wRho M ^ n ≤ (1 / (1 - 4 * M.u)) ^ n := pow_le_pow_left₀ hρ0 hρ n
    _ = 1 / (1 - 4 * M.u) ^ n := by rw [one_div, one_div, inv_pow]
    _ ≤ 1 / (1 - 4 * (n : ℝ) * M.u) := one_div_le_one_div_of_le hden hb
    _ = 1 + M.γ (4 * n) := by
        rw [M.γ_eq (4 * n) (by push_cast; exact hden.ne')]; push_cast; ring

/-- **Forward error of the Welford running mean** (`welford_statistics`; standard model only).
For data bounded by `X` the computed mean differs from the exact mean by at most
`(1+γ_{4n})·(2(1+u)γ₃ + (n+1)u/2)·X ≈ (n/2 + 6.5)·u·X`: the algorithm is stable, its worst-case
bound being about half that of the plain sum for the mean. -/
theorem welfordMean_error (x : List (Fl M)) (X : ℝ) (hX : ∀ a ∈ x, |a.val| ≤ X) (hn : 1 ≤ x.length)
    (h : ((4 * x.length : Nat) : ℝ) * M.u < 1) :
    |(welfordMean x).val - (vals x).sum / x.length| ≤
      (1 + M.γ (4 * x.length)) * (2 * (1 + M.u) * M.γ 3 + ((x.length : ℝ) + 1) * M.u / 2) * X := by
  have hX0 : 0 ≤ X := by
    cases x with
    | nil => simp at hn
    | cons a l => exact le_trans (abs_nonneg _) (hX a (by simp))
  have hu := M.u_nonneg
  have hn1 : (1 : ℝ) ≤ x.length := by exact_mod_cast hn
  have h' := h
  push_cast at h'
  have h3 : ((3 : Nat) : ℝ) * M.u < 1 := by push_cast; nlinarith
  obtain ⟨_, hinv⟩ := welford_invariant X hX0 h3 x hX
  have hρ := wRho_pow_le (M := M) x.length hn h
  have hlen : ((vals x).length : ℝ) = x.length := by simp [vals]
  have hmean : runMean (vals x) = (vals x).sum / x.length := by unfold runMean; rw [hlen]
  rw [hmean] at hinv
  show |(welfordStatistics x).2.1.val - (vals x).sum / x.length| ≤ _
  set E := |(welfordStatistics x).2.1.val - (vals x).sum / x.length| with hE
  set n : ℝ := (x.length : ℝ) with hnr
  have hn0 : 0 < n := by linarith
  have hγ := M.γ_nonneg 3 h3
  have hc : 0 ≤ wC M + M.u * (n + 1) / 2 := by unfold wC; positivity
  have h1 : n * E ≤ n * (wRho M ^ x.length * X * (wC M + M.u * (n + 1) / 2)) := by
    refine le_trans hinv (le_of_eq ?_); ring
  have h2 : E ≤ wRho M ^ x.length * X * (wC M + M.u * (n + 1) / 2) := le_of_mul_le_mul_left h1 hn0
  have h4 : wRho M ^ x.length * (X * (wC M + M.u * (n + 1) / 2)) ≤
      (1 + M.γ (4 * x.length)) * (X * (wC M + M.u * (n + 1) / 2)) :=
    mul_le_mul_of_nonneg_right hρ (mul_nonneg hX0 hc)
  unfold wC at h2 h4
  calc E ≤ wRho M ^ x.length * X * (2 * (1 + M.u) * M.γ 3 + M.u * (n + 1) / 2) := h2
    _ = wRho M ^ x.length * (X * (2 * (1 + M.u) * M.γ 3 + M.u * (n + 1) / 2)) := by ring
    _ ≤ (1 + M.γ (4 * x.length)) * (X * (2 * (1 + M.u) * M.γ 3 + M.u * (n + 1) / 2)) := h4
    _ = _ := by ring

/-! ### Goal 4: triangular solves — row-wise backward error (Higham Thm 8.5) -/

section structural
open Cv.LA

/-- a list built by `x.push (g i x)` for `i = 0..n`: entry `i` is `g i` of the prefix before it -/
theorem build_append {β : Type} (g : Nat → List β → β) (n : Nat) :
    ((List.range n).foldl (fun x i => x ++ [g i x]) []).length = n ∧
    ∀ i, i < n → ((List.range n).foldl (fun x i => x ++ [g i x]) [])[i]? =
      some (g i (((List.range n).foldl (fun x i => x ++ [g i x]) []).take i)) := by
  induction n with
  | zero => simp
  | succ n ih =>
    obtain ⟨hlen, hrow⟩ := ih
    simp only [List.range_succ, List.foldl_append, List.foldl_cons, List.foldl_nil]
    generalize (List.range n).foldl (fun x i => x ++ [g i x]) [] = X at hlen hrow
    refine ⟨by simp [hlen], fun i hi => ?_⟩
    by_cases hin : i < n
    · rw [List.getElem?_append_left (by omega), hrow i hin, List.take_append_of_le_length (by omega)]
    · have : i = n := by omega
      subst this
      rw [List.getElem?_append_right (by omega), List.take_left' hlen, hlen, Nat.sub_self]
      rfl

/-- a list built by `x.insert(0, g i x)` for `i = n-1..0`: entry `t` is `g` of the suffix after it -/
theorem build_cons {β : Type} (g : Nat → List β → β) (n m : Nat) (hm : m ≤ n) :
    ((List.range' (n - m) m).foldr (fun i x => g i x :: x) []).length = m ∧
    ∀ t, t < m → ((List.range' (n - m) m).foldr (fun i x => g i x :: x) [])[t]? =
      some (g (n - m + t) (((List.range' (n - m) m).foldr (fun i x => g i x :: x) []).drop (t + 1))) := by
  induction m with
  | zero => simp
  | succ m ih =>
    obtain ⟨hlen, hrow⟩ := ih (by omega)
    have hk : n - (m + 1) + 1 = n - m := by omega
    rw [List.range'_succ, List.foldr_cons, hk]
    generalize (List.range' (n - m) m).foldr (fun i x => g i x :: x) [] = Y at hlen hrow
    refine ⟨by simp [hlen], fun t ht => ?_⟩
    cases t with
    | zero => simp
    | succ t =>
      rw [List.getElem?_cons_succ, hrow t (by omega)]
      simp only [List.drop_succ_cons]
      rw [show n - (m + 1) + (t + 1) = n - m + t by omega]

variable {α : Type} [Add α] [Sub α] [Mul α] [Div α] [Zero α]

/-- **the recurrence solved by `forward_substitution`**, for every scalar type (in particular in
rounded arithmetic): `x[i] = (b[i] − dot(l[i, 0..i], x[0..i])) / l[i,i]`. -/
theorem forwardSubstitution_rows (l b x : List α) (n : Nat) (hl : l.length = n * n)
    (h : forwardSubstitution l b = some x) :
    b.length = n ∧ x.length = n ∧ ∀ i, i < n →
      rd x i = (rd b i - dot8 ((l.drop (i * n)).take i) (x.take i)) / rd l (i * n + i) := by
  unfold forwardSubstitution at h
  rw [hl, isSquare_sq] at h
  simp only [Option.bind_eq_bind, Option.bind_some] at h
  by_cases hb : b.length = n
  · simp only [hb, ne_eq, not_true_eq_false, if_false, Option.pure_def, Option.some.injEq] at h
    obtain ⟨hlen, hrow⟩ := build_append
      (fun i x => (rd b i - dot8 ((l.drop (i * n)).take i) x) / rd l (i * n + i)) n
    rw [h] at hlen hrow
    refine ⟨hb, hlen, fun i hi => ?_⟩
    have := hrow i hi
    simp only [rd, List.getD_eq_getElem?_getD, this, Option.getD_some]
  · simp [hb] at h

/-- **the recurrence solved by `backward_substitution`**, for every scalar type:
`x[i] = (b[i] − dot(u[i, i+1..n], x[i+1..n])) / u[i,i]`. -/
theorem backwardSubstitution_rows (u b x : List α) (n : Nat) (hl : u.length = n * n)
    (h : backwardSubstitution u b = some x) :
    b.length = n ∧ x.length = n ∧ ∀ i, i < n →
      rd x i = (rd b i - dot8 ((u.drop (i * n + i + 1)).take (n - (i + 1))) (x.drop (i + 1))) /
        rd u (i * n + i) := by
  unfold backwardSubstitution at h
  rw [hl, isSquare_sq] at h
  simp only [Option.bind_eq_bind, Option.bind_some] at h
  by_cases hb : b.length = n
  · simp only [hb, ne_eq, not_true_eq_false, if_false, Option.pure_def, Option.some.injEq] at h
    rw [List.foldl_reverse, List.range_eq_range'] at h
    obtain ⟨hlen, hrow⟩ := build_cons
      (fun i x => (rd b i - dot8 ((u.drop (i * n + i + 1)).take (n - (i + 1))) x) / rd u (i * n + i))
      n n (le_refl n)
    simp only [Nat.sub_self] at hlen hrow
    rw [h] at hlen hrow
    refine ⟨hb, hlen, fun i hi => ?_⟩
    have := hrow i hi
    simp only [Nat.zero_add] at this
    simp only [rd, List.getD_eq_getElem?_getD, this, Option.getD_some]
  · simp [hb] at h

end structural

section triangular
open Cv.LA

theorem prods_getD (u w : List (Fl M)) (j : Nat) (hu : j < u.length) (hw : j < w.length) :
    (prods u w).getD j 0 = (rd u j).val * (rd w j).val := by
  simp [prods, rd, List.getD_eq_getElem?_getD, hu, hw]

/-- depth function of a dot-product analysis: `dot8 u w = Σ uⱼwⱼ·fⱼ` with `Fac (D len) fⱼ` -/
def DotDepth (M : FlModel) (D : Nat → Nat) : Prop :=
  ∀ u w : List (Fl M), M.Pert (D (prods u w).length) (dot8 u w).val (prods u w)

theorem dotDepth_std : DotDepth M (fun n => sumDepth n + 1) := dot8_pert
theorem dotDepth_idem (hid : M.Idem) : DotDepth M (fun n => sumDepthR n + 1) := dot8_pert_idem hid

/-- one row `xi = (bi − dot(seg, xs)) / tii` of a triangular solve in rounded arithmetic:
`tii·g·xi + Σ segⱼ·Fⱼ·xsⱼ = bi` with `g` a 2-fold and `Fⱼ` `D`-fold rounding factors. -/
theorem row_backward {D : Nat → Nat} (hdot : DotDepth M D) (seg xs : List (Fl M))
    (hlen : seg.length = xs.length) (bi tii xi : Fl M) (ht : tii.val ≠ 0)
    (hx : xi = (bi - dot8 seg xs) / tii) :
    ∃ F : Nat → ℝ, (∀ j, M.Fac (D xs.length) (F j)) ∧ ∃ g : ℝ, M.Fac 2 g ∧
      tii.val * g * xi.val +
        ((List.range xs.length).map fun j => (rd seg j).val * F j * (rd xs j).val).sum = bi.val := by
  have hpl : (prods seg xs).length = xs.length := by simp [prods, hlen]
  obtain ⟨F, hF, hD⟩ := (hdot seg xs).exists_fun
  rw [hpl] at hF hD
  have hD' : (dot8 seg xs).val =
      ((List.range xs.length).map fun j => (rd seg j).val * F j * (rd xs j).val).sum := by
    rw [hD]
    congr 1
    apply List.map_congr_left
    intro j hj
    have hj' : j < xs.length := List.mem_range.mp hj
    rw [prods_getD seg xs j (by omega) hj']; ring
  obtain ⟨δ1, hδ1, h1⟩ := M.std (bi.val - (dot8 seg xs).val)
  obtain ⟨δ2, hδ2, h2⟩ := M.std (M.rnd (bi.val - (dot8 seg xs).val) / tii.val)
  have hxi : xi.val = (bi.val - (dot8 seg xs).val) * (1 + δ1) / tii.val * (1 + δ2) := by
    rw [hx]
    show M.rnd (M.rnd (bi.val - (dot8 seg xs).val) / tii.val) = _
    rw [h2, h1]
  have hf1 := Fac.one_add hδ1
  have hf2 := Fac.one_add hδ2
  refine ⟨F, hF, ((1 + δ1) * (1 + δ2))⁻¹, (hf1.mul hf2).inv, ?_⟩
  rw [← hD', hxi]
  have p1 := hf1.pos.ne'
  have p2 := hf2.pos.ne'
  field_simp
  ring

/-- **Forward substitution, factor form.**  In rounded arithmetic the computed `x̂` solves a system
whose matrix entries are those of `L` times rounding factors: a 2-fold factor on the diagonal (the
subtraction and the division) and a `D i`-fold factor in row `i` left of the diagonal (the dot
product of length `i`). -/
theorem forwardSubstitution_factors {D : Nat → Nat} (hdot : DotDepth M D) (l b x : List (Fl M)) (n : Nat)
    (hl : l.length = n * n) (hd : ∀ i, i < n → (rd l (i * n + i)).val ≠ 0)
    (h : forwardSubstitution l b = some x) :
    b.length = n ∧ x.length = n ∧ ∃ F : Nat → Nat → ℝ,
      (∀ i j, j < i → M.Fac (D i) (F i j)) ∧ (∀ i, M.Fac 2 (F i i)) ∧
      ∀ i, i < n → ((List.range (i + 1)).map fun j =>
        (rd l (i * n + j)).val * F i j * (rd x j).val).sum = (rd b i).val := by
  obtain ⟨hb, hxl, hrow⟩ := forwardSubstitution_rows l b x n hl h
  refine ⟨hb, hxl, ?_⟩
  have hrows : ∀ i, i < n → ∃ F : Nat → ℝ, (∀ j, M.Fac (D i) (F j)) ∧ ∃ g : ℝ, M.Fac 2 g ∧
      (rd l (i * n + i)).val * g * (rd x i).val +
        ((List.range i).map fun j => (rd l (i * n + j)).val * F j * (rd x j).val).sum = (rd b i).val := by
    intro i hi
    have hseg : ((l.drop (i * n)).take i).length = (x.take i).length := by
      have : (i + 1) * n ≤ n * n := Nat.mul_le_mul_right n hi
      rw [Nat.add_mul] at this
      simp only [List.length_take, List.length_drop, hl, hxl]; omega
    have hxt : (x.take i).length = i := by simp [hxl]; omega
    obtain ⟨F, hF, g, hg, he⟩ := row_backward hdot _ _ hseg (rd b i) (rd l (i * n + i)) (rd x i)
      (hd i hi) (hrow i hi)
    rw [hxt] at hF he
    refine ⟨F, hF, g, hg, ?_⟩
    rw [← he]
    congr 2
    apply List.map_congr_left
    intro j hj
    have hj' : j < i := List.mem_range.mp hj
    rw [rd_take _ _ _ hj', rd_take _ _ _ hj', rd_drop]
  choose F hF g hg he using hrows
  refine ⟨fun i j => if hi : i < n then (if j < i then F i hi j else g i hi) else 1, ?_, ?_, ?_⟩
  · intro i j hji
    by_cases hi : i < n
    · simp only [hi, dite_true, hji, if_true]; exact hF i hi j
    · simp only [hi, dite_false]; exact Fac.one.mono (Nat.zero_le _)
  · intro i
    by_cases hi : i < n
    · simp only [hi, dite_true, Nat.lt_irrefl, if_false]; exact hg i hi
    · simp only [hi, dite_false]; exact Fac.one.mono (Nat.zero_le _)
  · intro i hi
    rw [List.range_succ, List.map_append, List.sum_append, ← he i hi]
    simp only [hi, dite_true, List.map_cons, List.map_nil, List.sum_cons, List.sum_nil, Nat.lt_irrefl,
      if_false, add_zero]
    rw [add_comm]
    congr 1
    congr 1
    apply List.map_congr_left
    intro j hj
    have hj' : j < i := List.mem_range.mp hj
    simp only [hj', if_true]

/-- **Backward substitution, factor form** (rows read right of the diagonal; row `i` has a dot
product of length `n − i − 1`). -/
theorem backwardSubstitution_factors {D : Nat → Nat} (hdot : DotDepth M D) (u b x : List (Fl M)) (n : Nat)
    (hl : u.length = n * n) (hd : ∀ i, i < n → (rd u (i * n + i)).val ≠ 0)
    (h : backwardSubstitution u b = some x) :
    b.length = n ∧ x.length = n ∧ ∃ F : Nat → Nat → ℝ,
      (∀ i j, i < j → M.Fac (D (n - (i + 1))) (F i j)) ∧ (∀ i, M.Fac 2 (F i i)) ∧
      ∀ i, i < n → ((List.range (n - i)).map fun t =>
        (rd u (i * n + i + t)).val * F i (i + t) * (rd x (i + t)).val).sum = (rd b i).val := by
  obtain ⟨hb, hxl, hrow⟩ := backwardSubstitution_rows u b x n hl h
  refine ⟨hb, hxl, ?_⟩
  have hrows : ∀ i, i < n → ∃ F : Nat → ℝ, (∀ j, M.Fac (D (n - (i + 1))) (F j)) ∧ ∃ g : ℝ, M.Fac 2 g ∧
      (rd u (i * n + i)).val * g * (rd x i).val +
        ((List.range (n - (i + 1))).map fun t =>
          (rd u (i * n + i + 1 + t)).val * F t * (rd x (i + 1 + t)).val).sum = (rd b i).val := by
    intro i hi
    have hseg : ((u.drop (i * n + i + 1)).take (n - (i + 1))).length = (x.drop (i + 1)).length := by
      have : (i + 1) * n ≤ n * n := Nat.mul_le_mul_right n hi
      rw [Nat.add_mul] at this
      simp only [List.length_take, List.length_drop, hl, hxl]; omega
    have hxt : (x.drop (i + 1)).length = n - (i + 1) := by simp [hxl]
    obtain ⟨F, hF, g, hg, he⟩ := row_backward hdot _ _ hseg (rd b i) (rd u (i * n + i)) (rd x i)
      (hd i hi) (hrow i hi)
    rw [hxt] at hF he
    refine ⟨F, hF, g, hg, ?_⟩
    rw [← he]
    congr 2
    apply List.map_congr_left
    intro t ht
    have ht' : t < n - (i + 1) := List.mem_range.mp ht
    rw [rd_take _ _ _ ht', rd_drop, rd_drop]
  choose F hF g hg he using hrows
  refine ⟨fun i j => if hi : i < n then (if i < j then F i hi (j - (i + 1)) else g i hi) else 1, ?_, ?_, ?_⟩
  · intro i j hij
    by_cases hi : i < n
    · simp only [hi, dite_true, hij, if_true]; exact hF i hi _
    · simp only [hi, dite_false]; exact Fac.one.mono (Nat.zero_le _)
  · intro i
    by_cases hi : i < n
    · simp only [hi, dite_true, Nat.lt_irrefl, if_false]; exact hg i hi
    · simp only [hi, dite_false]; exact Fac.one.mono (Nat.zero_le _)
  · intro i hi
    rw [show n - i = (n - (i + 1)) + 1 by omega, List.range_succ_eq_map, List.map_cons, List.sum_cons,
      List.map_map, ← he i hi]
    simp only [hi, dite_true, Nat.add_zero, Nat.lt_irrefl, if_false]
    congr 1
    congr 1
    apply List.map_congr_left
    intro t _
    simp only [Function.comp, Nat.succ_eq_add_one]
    have h1 : i < i + (t + 1) := by omega
    simp only [h1, if_true]
    rw [show i + (t + 1) - (i + 1) = t by omega, show i * n + i + (t + 1) = i * n + i + 1 + t by omega,
      show i + (t + 1) = i + 1 + t by omega]

end triangular

section backward_error
open Cv.LA

theorem delta_bound {k m : Nat} {f : ℝ} (hf : M.Fac k f) (hkm : k ≤ m) (hm : m * M.u < 1) (a : ℝ) :
    |a * (f - 1)| ≤ M.γ m * |a| := by
  rw [abs_mul, mul_comm]
  exact mul_le_mul_of_nonneg_right ((hf.mono hkm).abs_sub_one_le hm) (abs_nonneg a)

/-- **Backward error of forward substitution** (Higham Thm 8.5; standard model only).
The computed `x̂` is the exact solution of a perturbed lower-triangular system `(L + ΔL)·x̂ = b` with
`|ΔL| ≤ γ_{max n 2}·|L|` entrywise (`γ_n` for `n ≥ 2`).  Only the lower triangle of `l` is read. -/
theorem forwardSubstitution_backward_error (l b x : List (Fl M)) (n : Nat) (hl : l.length = n * n)
    (hd : ∀ i, i < n → (rd l (i * n + i)).val ≠ 0) (h : forwardSubstitution l b = some x)
    (hu : (max n 2 : Nat) * M.u < 1) :
    b.length = n ∧ x.length = n ∧ ∃ E : Nat → Nat → ℝ,
      (∀ i j, i < n → j ≤ i → |E i j| ≤ M.γ (max n 2) * |(rd l (i * n + j)).val|) ∧
      ∀ i, i < n → ((List.range (i + 1)).map fun j =>
        ((rd l (i * n + j)).val + E i j) * (rd x j).val).sum = (rd b i).val := by
  obtain ⟨hb, hx, F, hF, hFd, hrow⟩ := forwardSubstitution_factors dotDepth_std l b x n hl hd h
  refine ⟨hb, hx, fun i j => (rd l (i * n + j)).val * (F i j - 1), ?_, ?_⟩
  · intro i j hi hji
    by_cases hij : j = i
    · subst hij; exact delta_bound (hFd j) (by omega) hu _
    · have : sumDepth i + 1 ≤ max n 2 := by have := sumDepth_le i; omega
      exact delta_bound (hF i j (by omega)) this hu _
  · intro i hi
    rw [← hrow i hi]
    congr 1
    apply List.map_congr_left
    intro j _
    ring

/-- **… entrywise with the exact depths** (idempotent rounding): `γ_2` on the diagonal and
`γ_{sumDepthR i + 1}` in row `i` (at most `γ_i`; about `γ_{i/8+14}` for long rows). -/
theorem forwardSubstitution_backward_error_depth (hid : M.Idem) (l b x : List (Fl M)) (n : Nat)
    (hl : l.length = n * n) (hd : ∀ i, i < n → (rd l (i * n + i)).val ≠ 0)
    (h : forwardSubstitution l b = some x) (hu : (max n 2 : Nat) * M.u < 1) :
    b.length = n ∧ x.length = n ∧ ∃ E : Nat → Nat → ℝ,
      (∀ i, i < n → |E i i| ≤ M.γ 2 * |(rd l (i * n + i)).val|) ∧
      (∀ i j, i < n → j < i → |E i j| ≤ M.γ (sumDepthR i + 1) * |(rd l (i * n + j)).val|) ∧
      ∀ i, i < n → ((List.range (i + 1)).map fun j =>
        ((rd l (i * n + j)).val + E i j) * (rd x j).val).sum = (rd b i).val := by
  obtain ⟨hb, hx, F, hF, hFd, hrow⟩ := forwardSubstitution_factors (dotDepth_idem hid) l b x n hl hd h
  have hmono : ∀ k : Nat, k ≤ max n 2 → (k : ℝ) * M.u < 1 := fun k hk =>
    lt_of_le_of_lt (mul_le_mul_of_nonneg_right (Nat.cast_le.mpr hk) M.u_nonneg) hu
  refine ⟨hb, hx, fun i j => (rd l (i * n + j)).val * (F i j - 1), ?_, ?_, ?_⟩
  · intro i hi
    exact delta_bound (hFd i) (le_refl _) (hmono 2 (by omega)) _
  · intro i j hi hji
    have : sumDepthR i + 1 ≤ max n 2 := by have := sumDepthR_le i; omega
    exact delta_bound (hF i j hji) (le_refl _) (hmono _ this) _
  · intro i hi
    rw [← hrow i hi]
    congr 1
    apply List.map_congr_left
    intro j _
    ring

/-- **Backward error of backward substitution** (Higham Thm 8.5; standard model only).
`(U + ΔU)·x̂ = b` with `|ΔU| ≤ γ_{max n 2}·|U|` entrywise; only the upper triangle of `u` is read. -/
theorem backwardSubstitution_backward_error (u b x : List (Fl M)) (n : Nat) (hl : u.length = n * n)
    (hd : ∀ i, i < n → (rd u (i * n + i)).val ≠ 0) (h : backwardSubstitution u b = some x)
    (hu : (max n 2 : Nat) * M.u < 1) :
    b.length = n ∧ x.length = n ∧ ∃ E : Nat → Nat → ℝ,
      (∀ i j, i ≤ j → j < n → |E i j| ≤ M.γ (max n 2) * |(rd u (i * n + j)).val|) ∧
      ∀ i, i < n → ((List.range (n - i)).map fun t =>
        ((rd u (i * n + (i + t))).val + E i (i + t)) * (rd x (i + t)).val).sum = (rd b i).val := by
  obtain ⟨hb, hx, F, hF, hFd, hrow⟩ := backwardSubstitution_factors dotDepth_std u b x n hl hd h
  refine ⟨hb, hx, fun i j => (rd u (i * n + j)).val * (F i j - 1), ?_, ?_⟩
  · intro i j hij hj
    by_cases hij' : j = i
    · subst hij'; exact delta_bound (hFd j) (by omega) hu _
    · have : sumDepth (n - (i + 1)) + 1 ≤ max n 2 := by have := sumDepth_le (n - (i + 1)); omega
      exact delta_bound (hF i j (by omega)) this hu _
  · intro i hi
    rw [← hrow i hi]
    congr 1
    apply List.map_congr_left
    intro t _
    rw [Nat.add_assoc]
    ring

/-- **… entrywise with the exact depths** (idempotent rounding). -/
theorem backwardSubstitution_backward_error_depth (hid : M.Idem) (u b x : List (Fl M)) (n : Nat)
    (hl : u.length = n * n) (hd : ∀ i, i < n → (rd u (i * n + i)).val ≠ 0)
    (h : backwardSubstitution u b = some x) (hu : (max n 2 : Nat) * M.u < 1) :
    b.length = n ∧ x.length = n ∧ ∃ E : Nat → Nat → ℝ,
      (∀ i, i < n → |E i i| ≤ M.γ 2 * |(rd u (i * n + i)).val|) ∧
      (∀ i j, i < j → j < n →
        |E i j| ≤ M.γ (sumDepthR (n - (i + 1)) + 1) * |(rd u (i * n + j)).val|) ∧
      ∀ i, i < n → ((List.range (n - i)).map fun t =>
        ((rd u (i * n + (i + t))).val + E i (i + t)) * (rd x (i + t)).val).sum = (rd b i).val := by
  obtain ⟨hb, hx, F, hF, hFd, hrow⟩ := backwardSubstitution_factors (dotDepth_idem hid) u b x n hl hd h
  have hmono : ∀ k : Nat, k ≤ max n 2 → (k : ℝ) * M.u < 1 := fun k hk =>
    lt_of_le_of_lt (mul_le_mul_of_nonneg_right (Nat.cast_le.mpr hk) M.u_nonneg) hu
  refine ⟨hb, hx, fun i j => (rd u (i * n + j)).val * (F i j - 1), ?_, ?_, ?_⟩
  · intro i hi
    exact delta_bound (hFd i) (le_refl _) (hmono 2 (by omega)) _
  · intro i j hij hj
    have : sumDepthR (n - (i + 1)) + 1 ≤ max n 2 := by have := sumDepthR_le (n - (i + 1)); omega
    exact delta_bound (hF i j hij) (le_refl _) (hmono _ this) _
  · intro i hi
    rw [← hrow i hi]
    congr 1
    apply List.map_congr_left
    intro t _
    rw [Nat.add_assoc]
    ring

end backward_error

section residual
open Cv.LA

/-! ### Residual bounds and `cholesky_solve` (C01) -/

theorem residual_of_backward (l : List Nat) (T E x : Nat → ℝ) (b γ : ℝ)
    (hE : ∀ j ∈ l, |E j| ≤ γ * |T j|) (h : (l.map fun j => (T j + E j) * x j).sum = b) :
    |(l.map fun j => T j * x j).sum - b| ≤ γ * (l.map fun j => |T j| * |x j|).sum := by
  subst h
  induction l with
  | nil => simp
  | cons a l ih =>
    have h1 := ih (fun j hj => hE j (by simp [hj]))
    have h2 : |T a * x a - (T a + E a) * x a| ≤ γ * (|T a| * |x a|) := by
      have : T a * x a - (T a + E a) * x a = -(E a * x a) := by ring
      rw [this, abs_neg, abs_mul, ← mul_assoc]
      exact mul_le_mul_of_nonneg_right (hE a (by simp)) (abs_nonneg _)
    simp only [List.map_cons, List.sum_cons]
    have : T a * x a + (l.map fun j => T j * x j).sum -
        ((T a + E a) * x a + (l.map fun j => (T j + E j) * x j).sum) =
        (T a * x a - (T a + E a) * x a) +
          ((l.map fun j => T j * x j).sum - (l.map fun j => (T j + E j) * x j).sum) := by ring
    rw [this, mul_add]
    exact le_trans (abs_add_le _ _) (add_le_add h2 h1)

/-- **Residual of forward substitution**: `|L·x̂ − b|ᵢ ≤ γ_{max n 2}·(|L|·|x̂|)ᵢ` for every row. -/
theorem forwardSubstitution_residual (l b x : List (Fl M)) (n : Nat) (hl : l.length = n * n)
    (hd : ∀ i, i < n → (rd l (i * n + i)).val ≠ 0) (h : forwardSubstitution l b = some x)
    (hu : (max n 2 : Nat) * M.u < 1) :
    ∀ i, i < n →
      |((List.range (i + 1)).map fun j => (rd l (i * n + j)).val * (rd x j).val).sum - (rd b i).val| ≤
        M.γ (max n 2) *
          ((List.range (i + 1)).map fun j => |(rd l (i * n + j)).val| * |(rd x j).val|).sum := by
  obtain ⟨_, _, E, hE, hrow⟩ := forwardSubstitution_backward_error l b x n hl hd h hu
  intro i hi
  exact residual_of_backward _ (fun j => (rd l (i * n + j)).val) (E i) (fun j => (rd x j).val) _ _
    (fun j hj => hE i j hi (by have := List.mem_range.mp hj; omega)) (hrow i hi)

/-- **Residual of backward substitution**: `|U·x̂ − b|ᵢ ≤ γ_{max n 2}·(|U|·|x̂|)ᵢ` for every row. -/
theorem backwardSubstitution_residual (u b x : List (Fl M)) (n : Nat) (hl : u.length = n * n)
    (hd : ∀ i, i < n → (rd u (i * n + i)).val ≠ 0) (h : backwardSubstitution u b = some x)
    (hu : (max n 2 : Nat) * M.u < 1) :
    ∀ i, i < n →
      |((List.range (n - i)).map fun t => (rd u (i * n + (i + t))).val * (rd x (i + t)).val).sum -
          (rd b i).val| ≤
        M.γ (max n 2) *
          ((List.range (n - i)).map fun t => |(rd u (i * n + (i + t))).val| * |(rd x (i + t)).val|).sum := by
  obtain ⟨_, _, E, hE, hrow⟩ := backwardSubstitution_backward_error u b x n hl hd h hu
  intro i hi
  exact residual_of_backward _ (fun t => (rd u (i * n + (i + t))).val) (fun t => E i (i + t))
    (fun t => (rd x (i + t)).val) _ _
    (fun t ht => hE i (i + t) (by omega) (by have := List.mem_range.mp ht; omega)) (hrow i hi)

/-- entries of `transpose` of a square matrix -/
theorem transpose_square {α : Type} [Zero α] (l lt : List α) (n : Nat) (hl : l.length = n * n)
    (h : transpose l n = some lt) :
    lt.length = n * n ∧ ∀ i j, i < n → j < n → rd lt (i * n + j) = rd l (j * n + i) := by
  unfold transpose at h
  cases hm : isMatrix l.length n with
  | none => simp [hm] at h
  | some c =>
    obtain ⟨hn0, hc⟩ := isMatrix_eq_some_iff.mp hm
    have hcn : c = n := by
      rw [hl] at hc
      exact Nat.eq_of_mul_eq_mul_left (Nat.pos_of_ne_zero hn0) hc
    subst hcn
    simp only [hm, Option.bind_eq_bind, Option.bind_some, Option.pure_def, Option.some.injEq] at h
    subst h
    refine ⟨by simp [hl], fun i j hi hj => ?_⟩
    have hlt : i * c + j < l.length := by
      rw [hl]
      have : (i + 1) * c ≤ c * c := Nat.mul_le_mul_right c hi
      rw [Nat.add_mul] at this; omega
    rw [rd_map_range _ _ _ hlt]
    have h1 : (i * c + j) % c = j := by
      rw [Nat.add_comm, Nat.add_mul_mod_self_right, Nat.mod_eq_of_lt hj]
    have h2 : (i * c + j) / c = i := by
      rw [Nat.add_comm, Nat.add_mul_div_right _ _ (Nat.pos_of_ne_zero hn0), Nat.div_eq_of_lt hj,
        Nat.zero_add]
    rw [h1, h2]

/-- **Backward error of `cholesky_solve`** (the two triangular solves with `L` and `Lᵀ`; Higham
§10.1): the computed `x̂` satisfies `(L + ΔL)·ŷ = b`, `(Lᵀ + ΔU)·x̂ = ŷ` for the computed
intermediate `ŷ`, with `|ΔL| ≤ γ_{max n 2}|L|`, `|ΔU| ≤ γ_{max n 2}|Lᵀ|` entrywise. -/
theorem choleskySolve_backward_error (l b x : List (Fl M)) (n : Nat) (hl : l.length = n * n)
    (hd : ∀ i, i < n → (rd l (i * n + i)).val ≠ 0) (h : choleskySolve l b = some x)
    (hu : (max n 2 : Nat) * M.u < 1) :
    x.length = n ∧ ∃ (y : List (Fl M)) (E₁ E₂ : Nat → Nat → ℝ),
      (∀ i j, i < n → j ≤ i → |E₁ i j| ≤ M.γ (max n 2) * |(rd l (i * n + j)).val|) ∧
      (∀ i j, i ≤ j → j < n → |E₂ i j| ≤ M.γ (max n 2) * |(rd l (j * n + i)).val|) ∧
      (∀ i, i < n → ((List.range (i + 1)).map fun j =>
        ((rd l (i * n + j)).val + E₁ i j) * (rd y j).val).sum = (rd b i).val) ∧
      (∀ i, i < n → ((List.range (n - i)).map fun t =>
        ((rd l ((i + t) * n + i)).val + E₂ i (i + t)) * (rd x (i + t)).val).sum = (rd y i).val) := by
  unfold choleskySolve at h
  rw [hl, isSquare_sq] at h
  simp only [Option.bind_eq_bind, Option.bind_some] at h
  by_cases hb : b.length = n
  · simp only [hb, ne_eq, not_true_eq_false, if_false] at h
    cases hy : forwardSubstitution l b with
    | none => simp [hy] at h
    | some y =>
      cases ht : transpose l n with
      | none => simp [hy, ht] at h
      | some lt =>
        simp only [hy, ht, Option.bind_some] at h
        obtain ⟨hltl, hlt⟩ := transpose_square l lt n hl ht
        obtain ⟨_, _, E₁, hE₁, hrow₁⟩ := forwardSubstitution_backward_error l b y n hl hd hy hu
        have hd' : ∀ i, i < n → (rd lt (i * n + i)).val ≠ 0 := by
          intro i hi; rw [hlt i i hi hi]; exact hd i hi
        obtain ⟨_, hxl, E₂, hE₂, hrow₂⟩ := backwardSubstitution_backward_error lt y x n hltl hd' h hu
        refine ⟨hxl, y, E₁, E₂, hE₁, ?_, hrow₁, ?_⟩
        · intro i j hij hj
          rw [← hlt i j (by omega) hj]; exact hE₂ i j hij hj
        · intro i hi
          rw [← hrow₂ i hi]
          congr 1
          apply List.map_congr_left
          intro t ht'
          have : i + t < n := by have := List.mem_range.mp ht'; omega
          rw [hlt i (i + t) hi this]
  · simp [hb] at h

end residual

section further
open Cv.VecOps

/-! ### Further reductions: `prodL` (C04 `prod`), `iterSum` (C08 covariances) -/

theorem foldl_mul_fac (l : List (Fl M)) (s : Fl M) (P f : ℝ) (k : Nat) (hf : M.Fac k f)
    (hs : s.val = P * f) :
    ∃ f' : ℝ, M.Fac (k + l.length) f' ∧ (l.foldl (· * ·) s).val = P * (vals l).prod * f' := by
  induction l generalizing s P f k with
  | nil => exact ⟨f, by simpa using hf, by simpa using hs⟩
  | cons a l ih =>
    obtain ⟨δ, hδ, hr⟩ := M.std (s.val * a.val)
    have hs' : (s * a).val = (P * a.val) * (f * (1 + δ)) := by
      show M.rnd (s.val * a.val) = _
      rw [hr, hs]; ring
    obtain ⟨f', hf', he⟩ := ih (s * a) (P * a.val) (f * (1 + δ)) (k + 1) (hf.mul (Fac.one_add hδ)) hs'
    refine ⟨f', ?_, ?_⟩
    · rw [show k + (a :: l).length = k + 1 + l.length by simp; omega]; exact hf'
    · simp only [List.foldl_cons, vals, List.map_cons, List.prod_cons]
      rw [he]; simp only [vals]; ring

/-- **Relative error of the running product** `prod` (`x.iter().product()`): `n` roundings. -/
theorem prodL_error (x : List (Fl M)) (h : x.length * M.u < 1) :
    |(prodL x).val - (vals x).prod| ≤ M.γ x.length * |(vals x).prod| := by
  obtain ⟨f, hf, he⟩ := foldl_mul_fac x (1 : Fl M) 1 1 0 Fac.one (by simp)
  have : (prodL x).val = (vals x).prod * f := by
    unfold prodL; rw [he]; ring
  rw [this, Nat.zero_add] at *
  have : (vals x).prod * f - (vals x).prod = (vals x).prod * (f - 1) := by ring
  rw [this, abs_mul, mul_comm]
  exact mul_le_mul_of_nonneg_right (hf.abs_sub_one_le h) (abs_nonneg _)

/-- **Forward error of `Iterator::sum`** (plain left fold from `-0.0`, used by the covariances). -/
theorem iterSum_error (x : List (Fl M)) (h : x.length * M.u < 1) :
    |(iterSum x).val - (vals x).sum| ≤ M.γ x.length * ((vals x).map (|·|)).sum := by
  have h0 : M.Pert 0 (-(0 : Fl M)).val [] := by simpa using Pert.nil (M := M) 0
  have := foldl_pert x (-(0 : Fl M)) 0 [] h0
  simp only [Nat.zero_add, List.nil_append] at this
  exact this.error h

end further

/-! ### Goal 5: the `f64` instance -/

/-- **Numeric consequence at `f64`** (`u = 2⁻⁵³`): for every length `n ≤ 10⁴` (the range of the C04 / C08
generators) `γ_n ≤ 1.12·10⁻¹²`. -/
theorem f64_instance_note (M : FlModel) (hu : M.u = 1 / 2 ^ 53) (n : Nat) (hn : n ≤ 10000) :
    (n : ℝ) * M.u < 1 ∧ M.γ n ≤ 1.12e-12 := by
  have h4 : ((10000 : Nat) : ℝ) * M.u < 1 := by rw [hu]; norm_num
  have hlt : (n : ℝ) * M.u < 1 :=
    lt_of_le_of_lt (mul_le_mul_of_nonneg_right (Nat.cast_le.mpr hn) M.u_nonneg) h4
  refine ⟨hlt, le_trans (M.γ_mono hn h4) ?_⟩
  unfold FlModel.γ
  rw [hu]
  norm_num

/-- … hence `|sum8 x − Σxᵢ| ≤ 1.12·10⁻¹²·Σ|xᵢ|` for every vector of length `≤ 10⁴` in a standard model with
`u = 2⁻⁵³`.  PROVISO: a theorem of the idealised standard model (`fl(x) = x(1+δ)` for EVERY operation, library functions of relative error `≤ uf` for EVERY argument), instantiated at `u = 2⁻⁵³`; it is a statement about IEEE binary64 only where no operation overflows or underflows (for `exp`: arguments in `[−708.39, 709.78]`). -/
theorem stdmodel_sum8_note (M : FlModel) (hu : M.u = 1 / 2 ^ 53) (x : List (Fl M)) (hn : x.length ≤ 10000) :
    |(sum8 x).val - (vals x).sum| ≤ 1.12e-12 * ((vals x).map (|·|)).sum := by
  obtain ⟨hlt, hγ⟩ := f64_instance_note M hu x.length hn
  refine le_trans (sum8_error x hlt) (mul_le_mul_of_nonneg_right hγ ?_)
  exact List.sum_nonneg (by intro a ha; obtain ⟨b, _, rfl⟩ := List.mem_map.mp ha; exact abs_nonneg b)



/-! ### Non-vacuity: concrete models and concrete inputs -/

namespace Examples
open Cv.LA

/-- every operation overestimates by 1 % (`δ = u = 0.01` always): rounding errors do occur -/
noncomputable abbrev Minf : FlModel := FlModel.inflate (1 / 100) (by norm_num) (by norm_num)
/-- exact except that `3` is rounded to `3.75` (`u = 1/4`); idempotent -/
noncomputable abbrev Mbump : FlModel := FlModel.bump 3 (1 / 4) (by norm_num) (by norm_num)

theorem Minf_u : Minf.u = 1 / 100 := rfl
theorem Mbump_u : Mbump.u = 1 / 4 := rfl
theorem Minf_rnd (x : ℝ) : Minf.rnd x = x * (1 + 1 / 100) := rfl
theorem Mbump_rnd (x : ℝ) : Mbump.rnd x = if x = 3 then 3 * (1 + 1 / 4) else x := rfl

/-- ten ones: one full 8-block and a remainder of two -/
noncomputable abbrev ones10 : List (Fl Minf) := [⟨1⟩, ⟨1⟩, ⟨1⟩, ⟨1⟩, ⟨1⟩, ⟨1⟩, ⟨1⟩, ⟨1⟩, ⟨1⟩, ⟨1⟩]

/-- `sum8_error` on a concrete input in a model where rounding errors occur: the hypothesis holds, the
error is non-zero, and it is within the proved bound -/
example : (0 : ℝ) < (sum8 ones10).val - (vals ones10).sum ∧
    |(sum8 ones10).val - (vals ones10).sum| ≤ Minf.γ 10 * ((vals ones10).map (|·|)).sum := by
  refine ⟨?_, sum8_error ones10 (by rw [Minf_u]; norm_num)⟩
  simp only [sum8, sum8Go, vals, ones10, List.foldl_cons, List.foldl_nil, Fl.add_val, Fl.zero_val,
    Minf_rnd, List.map_cons, List.map_nil, List.sum_cons, List.sum_nil]
  norm_num

/-- the depth function: at `n = 10⁴` the deepest path has 1257 roundings, not 9999 -/
example : sumDepth 10 = 10 ∧ sumDepth 10000 = 1257 ∧ sumDepthR 10000 = 1256 := by decide

noncomputable abbrev x12 : List (Fl Mbump) := [⟨1⟩, ⟨2⟩]
noncomputable abbrev y11 : List (Fl Mbump) := [⟨1⟩, ⟨1⟩]

theorem x12_rep : ∀ a ∈ x12, a.Rep := by
  intro a ha
  simp only [x12, List.mem_cons, List.not_mem_nil, or_false] at ha
  rcases ha with rfl | rfl <;> simp [Fl.Rep, Mbump_rnd]

/-- `sum8_error_pred` (`γ_{n−1}`) in the idempotent model: inputs representable, `1 + 2` is rounded to
`3.75`, the error `0.75` is within `γ₁·3 = 1` -/
example : (sum8 x12).val = 15 / 4 ∧ (vals x12).sum = 3 ∧
    |(sum8 x12).val - (vals x12).sum| ≤ Mbump.γ 1 * ((vals x12).map (|·|)).sum := by
  refine ⟨?_, ?_, sum8_error_pred (FlModel.bump_idem _ _ _ _) x12 x12_rep
    (by rw [Mbump_u]; norm_num)⟩
  · simp only [sum8, sum8Go, List.foldl_cons, List.foldl_nil, Fl.add_val, Fl.zero_val, Mbump_rnd]
    norm_num
  · simp only [vals, x12, List.map_cons, List.map_nil, List.sum_cons, List.sum_nil]; norm_num

/-- `dot8_error` (`γ_n`) in the idempotent model -/
example : (dot8 x12 y11).val = 15 / 4 ∧
    |(dot8 x12 y11).val - (prods x12 y11).sum| ≤ Mbump.γ 2 * ((prods x12 y11).map (|·|)).sum := by
  refine ⟨?_, dot8_error (FlModel.bump_idem _ _ _ _) x12 y11 rfl (by rw [Mbump_u]; norm_num)⟩
  simp only [dot8, dot8Go, y11, List.zipWith_cons_cons, List.zipWith_nil_right, List.foldl_cons, List.foldl_nil, Fl.add_val, Fl.mul_val, Fl.zero_val, Mbump_rnd]
  norm_num

/-- `mean_error_add_two` in the 1 % model -/
example : |(mean ones10).val - (vals ones10).sum / 10| ≤
    Minf.γ 12 * (((vals ones10).map (|·|)).sum / 10) := by
  have := mean_error_add_two ones10 (by rw [Minf_u]; norm_num)
  simpa using this

/-- `mean_error` (`γ_n`) in the idempotent model: `2` is representable there -/
example : |(mean x12).val - (vals x12).sum / 2| ≤ Mbump.γ 2 * (((vals x12).map (|·|)).sum / 2) := by
  have hn : Mbump.rnd ((x12.length : Nat) : ℝ) = ((x12.length : Nat) : ℝ) := by
    rw [Mbump_rnd]; norm_num
  have := mean_error (FlModel.bump_idem _ _ _ _) x12 x12_rep hn (by rw [Mbump_u]; norm_num)
  simpa only [x12, List.length_cons, List.length_nil, Nat.cast_ofNat, Nat.zero_add, Nat.reduceAdd]
    using this

/-- `welfordMean_error` on the ten ones in the 1 % model (`X = 1`, `4·10·u = 0.4 < 1`) -/
example : |(welfordMean ones10).val - (vals ones10).sum / 10| ≤
    (1 + Minf.γ 40) * (2 * (1 + 1 / 100) * Minf.γ 3 + (10 + 1) * (1 / 100) / 2) * 1 := by
  have := welfordMean_error ones10 1 (by
    intro a ha
    simp only [ones10, List.mem_cons, List.not_mem_nil, or_false, or_self] at ha
    subst ha; simp) (by simp) (by rw [Minf_u]; norm_num)
  simpa [Minf_u] using this

/-- a 2×2 lower-triangular system -/
noncomputable abbrev l22 : List (Fl Minf) := [⟨2⟩, ⟨0⟩, ⟨1⟩, ⟨4⟩]
noncomputable abbrev b2 : List (Fl Minf) := [⟨2⟩, ⟨5⟩]

theorem l22_diag : ∀ i, i < 2 → (rd l22 (i * 2 + i)).val ≠ 0 := by
  intro i hi
  have : i = 0 ∨ i = 1 := by omega
  rcases this with rfl | rfl <;> simp [rd, l22]

/-- the hypotheses of `forwardSubstitution_backward_error` are satisfiable: the solve succeeds in the
1 % model and the theorem applies -/
example : ∃ x, forwardSubstitution l22 b2 = some x ∧ x.length = 2 ∧ ∃ E : Nat → Nat → ℝ,
    (∀ i j, i < 2 → j ≤ i → |E i j| ≤ Minf.γ 2 * |(rd l22 (i * 2 + j)).val|) ∧
    ∀ i, i < 2 → ((List.range (i + 1)).map fun j =>
      ((rd l22 (i * 2 + j)).val + E i j) * (rd x j).val).sum = (rd b2 i).val := by
  refine ⟨_, rfl, ?_⟩
  have := forwardSubstitution_backward_error l22 b2 _ 2 rfl l22_diag rfl
    (by rw [Minf_u]; norm_num)
  exact this.2

noncomputable abbrev u22 : List (Fl Minf) := [⟨2⟩, ⟨1⟩, ⟨0⟩, ⟨4⟩]

theorem u22_diag : ∀ i, i < 2 → (rd u22 (i * 2 + i)).val ≠ 0 := by
  intro i hi
  have : i = 0 ∨ i = 1 := by omega
  rcases this with rfl | rfl <;> simp [rd, u22]

/-- … and those of `backwardSubstitution_backward_error` -/
example : ∃ x, backwardSubstitution u22 b2 = some x ∧ x.length = 2 ∧ ∃ E : Nat → Nat → ℝ,
    (∀ i j, i ≤ j → j < 2 → |E i j| ≤ Minf.γ 2 * |(rd u22 (i * 2 + j)).val|) ∧
    ∀ i, i < 2 → ((List.range (2 - i)).map fun t =>
      ((rd u22 (i * 2 + (i + t))).val + E i (i + t)) * (rd x (i + t)).val).sum = (rd b2 i).val := by
  refine ⟨_, rfl, ?_⟩
  have := backwardSubstitution_backward_error u22 b2 _ 2 rfl u22_diag rfl
    (by rw [Minf_u]; norm_num)
  exact this.2

/-- … and of `choleskySolve_backward_error` -/
example : ∃ x, choleskySolve l22 b2 = some x ∧ x.length = 2 := by
  refine ⟨_, rfl, ?_⟩
  exact (choleskySolve_backward_error l22 b2 _ 2 rfl l22_diag rfl (by rw [Minf_u]; norm_num)).1

/-- `prodL_error` in the 1 % model -/
example : |(VecOps.prodL ones10).val - (vals ones10).prod| ≤ Minf.γ 10 * |(vals ones10).prod| :=
  prodL_error ones10 (by rw [Minf_u]; norm_num)

/-- `iterSum_error` in the 1 % model -/
example : |(iterSum ones10).val - (vals ones10).sum| ≤ Minf.γ 10 * ((vals ones10).map (|·|)).sum :=
  iterSum_error ones10 (by rw [Minf_u]; norm_num)

/-- the `f64` note is about a satisfiable hypothesis: a model with `u = 2⁻⁵³` exists -/
example : ∃ M : FlModel, M.u = 1 / 2 ^ 53 :=
  ⟨FlModel.inflate (1 / 2 ^ 53) (by norm_num) (by norm_num), rfl⟩

end Examples

end Cv.Rounding
