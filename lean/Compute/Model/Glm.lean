import Compute.Model.Scalar
import Compute.Model.Kernels
import Compute.Model.Vops
import Compute.Model.Matmul
import Compute.Model.Decomp
import Compute.Model.Stats
/-
Model of `src/predict/glms/{glm.rs,families.rs}` (C06): the six exponential families
(`has_dispersion`, `variance`, `inv_link`, `d_inv_link`, `deviance`, `penalized_deviance`), the
Fisher-scoring loop of `GLM::fit` (`compute_dbeta`, `compute_ddbeta`, both penalty functions,
`has_converged`, the iteration counter, the stale-by-one `mu`/`dmu`/`var` that the stored deviance
and information matrix are computed from) and the accessors `coef`, `deviance`, `aic`, `bic`,
`dispersion`, `coef_covariance_matrix`, `coef_standard_error`, `predict`.

Conventions
* generic in the scalar; `none` = panic; flat row-major `List α` matrices.
* the linear solver and the matrix inverse are *parameters* (`solve`, `invert`): the driver passes the
  shared models `Cv.solve` / `Cv.invertMatrix` (tied by C01), theorems quantify over any solver.
* element-wise kernels are the shared `Cv.Vops` kernels (tied by C04), products are the shared
  `Cv.matmul` (tied by C05), `mean`/`sum`/`dot` the shared unrolled reductions.
* `Iterator::sum::<f64>()` is `Cv.iterSum` (left fold from `-0.0`).
* `compute_dbeta` is modelled cell-wise: every `dbeta[j]` accumulates `-= x[i*p+j]*r[i]` over
  `i` ascending from `0.`, which is the very sequence of operations of the `for i_n { for i_p {..} }` nest.
* `f64::INFINITY` as the initial `penalized_deviance` is `none` in `pdPrev : Option α`; a later
  infinite value is detected by `GlmScalar.isInfinite` (constantly `false` on a field).
Core Lean only.
-/
namespace Cv.Glm

/-- `ExponentialFamily`. -/
inductive Family where
  | gaussian | bernoulli | quasiPoisson | poisson | gamma | exponential
deriving Repr, DecidableEq, Inhabited

/-- The two `f64` operations of `glm.rs` that are not ring/transcendental operations:
`is_infinite()` and `round() as usize` (saturating cast). -/
class GlmScalar (α : Type) where
  isInfinite : α → Bool
  roundToNat : α → Nat

instance : GlmScalar Float where
  isInfinite := Float.isInf
  roundToNat x := x.round.toUInt64.toNat

/-- `has_dispersion`. -/
def Family.hasDispersion : Family → Bool
  | .gaussian => true
  | .bernoulli => false
  | .quasiPoisson => true
  | .poisson => false
  | .gamma => true
  | .exponential => false

section model
variable {α : Type} [Add α] [Sub α] [Mul α] [Div α] [Neg α] [Zero α] [One α] [NatCast α]
  [LT α] [DecidableLT α] [BEq α] [Transc α] [GlmScalar α] [Inhabited α]

/-- the literal `2.` -/
def two : α := ((2 : Nat) : α)

/-- `&m * (1. - &m)`: `vmul(m, svsub(1., m))`. -/
def mOneMinusM (m : List α) : List α := Vops.vbinGo (· * ·) m (Vops.sv (· - ·) 1 m)

/-- `ExponentialFamily::variance`. -/
def variance (f : Family) (mu : List α) : List α :=
  match f with
  | .gaussian => List.replicate mu.length 1
  | .bernoulli => mOneMinusM mu
  | .quasiPoisson => mu
  | .poisson => mu
  | .gamma => Vops.vbinGo (· * ·) mu mu
  | .exponential => Vops.vbinGo (· * ·) mu mu

/-- `ExponentialFamily::inv_link`: identity, `1. / (1. + (-e).exp())`, `exp`. -/
def invLink (f : Family) (eta : List α) : List α :=
  match f with
  | .gaussian => eta
  | .bernoulli => Vops.sv (· / ·) 1 (Vops.sv (· + ·) 1 (Vops.vun Transc.exp (eta.map (- ·))))
  | _ => Vops.vun Transc.exp eta

/-- `ExponentialFamily::d_inv_link`. -/
def dInvLink (f : Family) (eta mu : List α) : List α :=
  match f with
  | .gaussian => List.replicate eta.length 1
  | .bernoulli => mOneMinusM mu
  | _ => mu

/-- `y.iter().map(|x| if *x == 0. { 0. } else { x * x.ln() })`. -/
def ylogy (y : List α) : List α := y.map fun x => if x == 0 then 0 else x * Transc.ln x

/-- the per-observation deviance terms (before the final `2 *` / `* -2.`) -/
def devTerms (f : Family) (y mu : List α) : List α :=
  match f with
  | .gaussian => (Vops.vbinGo (· - ·) y mu).map fun r => r * r
  | .bernoulli => List.zipWith (fun yi mi => yi * Transc.ln mi + (1 - yi) * Transc.ln (1 - mi)) y mu
  | .quasiPoisson | .poisson =>
    List.zipWith (fun (ym : α × α) l => ym.2 - ym.1 - ym.1 * Transc.ln ym.2 + l) (List.zip y mu) (ylogy y)
  | .gamma | .exponential => List.zipWith (fun yv muv => (yv - muv) / muv - Transc.ln (yv / muv)) y mu

/-- `ExponentialFamily::deviance` (`assert_eq!(n, mu.len())`). -/
def deviance (f : Family) (y mu : List α) : Option α :=
  if y.length ≠ mu.length then none
  else
    let s := iterSum (devTerms f y mu)
    some (match f with
      | .gaussian => s
      | .bernoulli => s * (-(two : α))
      | _ => two * s)

/-- `norm(&coef[1..])` (`coef[1..]` panics on an empty `coef`). -/
def tailNorm (coef : List α) : Option α :=
  match coef with
  | [] => none
  | _ :: t => some (Transc.sqrt (dot8 t t))

/-- `ExponentialFamily::penalized_deviance`: `deviance + alpha * norm(coef[1..])` (the norm is *not*
squared in the source; it only enters the convergence test). -/
def penalizedDeviance (f : Family) (y mu : List α) (alpha : α) (coef : List α) : Option α := do
  let d ← deviance f y mu
  let nrm ← tailNorm coef
  pure (d + alpha * nrm)

/-- `has_converged(loss, loss_previous, tolerance)`; `none` = the initial `f64::INFINITY`.
At `loss_previous = +0` the source evaluates `|loss - 0| / 0`, which in IEEE arithmetic is `+inf` or `NaN` and never
`< tolerance`: the test is false.  That case is written out (`lp == 0`), so that an instance in which `x / 0 = 0` (a
field) does not declare convergence where the code does not.  At `Float` the branch agrees with the plain quotient for
`lp = +0.0` (and for `lp = -0.0` when `loss = ±0`); for `lp = -0.0` and `loss ≠ 0` the source computes
`|loss| / (-0.0) = -inf < tol`, i.e. true for a positive tolerance, while this model says false.  A penalised deviance
of exactly `-0.0` needs every unit-deviance term (and `alpha * norm`) to be `-0.0`; no generated request reaches it (the
bit-exact tie would show the difference), and it is listed under ASSUMPTIONS in tools/cv/c06.py. -/
def hasConverged (loss : α) (lossPrev : Option α) (tol : α) : Bool :=
  match lossPrev with
  | none => false
  | some lp =>
    if GlmScalar.isInfinite lp then false
    else if lp == 0 then false
    else decide (Transc.abs (loss - lp) / lp < tol)

/-- `weights * (y - mu) * (dmu / var)`: `vmul(&vmul(weights, &vsub(y, mu)), &vdiv(dmu, var))`. -/
def workingResiduals (y mu dmu var w : List α) : Option (List α) := do
  let r ← Vops.vbin (· - ·) y mu
  let wr ← Vops.vbin (· * ·) w r
  let dv ← Vops.vbin (· / ·) dmu var
  Vops.vbin (· * ·) wr dv

/-- the accumulation of one gradient component: `dbeta[j] = 0.; for i { dbeta[j] -= x[i*p+j]*r[i] }` -/
def dbetaCell (X R : Array α) (n p j : Nat) : α :=
  (List.range n).foldl (fun s i => s - X[i * p + j]! * R[i]!) 0

/-- `compute_dbeta(x, y, mu, dmu, var, weights)`. -/
def computeDbeta (x y mu dmu var w : List α) : Option (List α) := do
  let n := y.length
  let p ← isMatrix x n
  let r ← workingResiduals y mu dmu var w
  -- `assert_eq!(working_residuals.len(), n)` holds by the length checks of the kernels
  let X := x.toArray
  let R := r.toArray
  pure ((List.range p).map fun j => dbetaCell X R n p j)

/-- `vdiv(&vmul(weights, &vmul(dmu, dmu)), var)`. -/
def workingWeights (dmu var w : List α) : Option (List α) := do
  let d2 ← Vops.vbin (· * ·) dmu dmu
  let wd ← Vops.vbin (· * ·) w d2
  Vops.vbin (· / ·) wd var

/-- `weighted_x[i*p+j] = x[i*p+j] * working_weights[i]`. -/
def weightedX (x ww : List α) (p : Nat) : List α :=
  let X := x.toArray
  let W := ww.toArray
  (List.range x.length).map fun k => X[k]! * W[k / p]!

/-- `compute_ddbeta(x, dmu, var, weights)`: `matmul(x, weighted_x, n, n, true, false)`. -/
def computeDdbeta (x dmu var w : List α) : Option (List α) := do
  let n := dmu.length
  let p ← isMatrix x n
  let ww ← workingWeights dmu var w
  matmul x (weightedX x ww p) n n true false

/-- `apply_dbeta_penalty`: `for i in 1..coef.len() { dbeta[i] += alpha * coef[i] }`
(`dbeta` and `coef` both have length `p`). -/
def applyDbetaPenalty (alpha : α) (dbeta coef : List α) : List α :=
  let D := dbeta.toArray
  let C := coef.toArray
  (List.range dbeta.length).map fun i => if i = 0 then D[i]! else D[i]! + alpha * C[i]!

/-- `apply_ddbeta_penalty`: `for i in 0..p { ddbeta[i*p+i] += alpha }`. -/
def applyDdbetaPenalty (alpha : α) (ddbeta : List α) (p : Nat) : List α :=
  let D := ddbeta.toArray
  (List.range ddbeta.length).map fun k => if k / p = k % p then D[k]! + alpha else D[k]!

/-- `is_design(m, nrows)`: `|m[i*ncols] - 1| > EPSILON` for no row (`none`: `is_matrix` fails or an
index is out of range, i.e. `ncols = 0`). -/
def isDesign (m : List α) (nrows : Nat) : Option Bool := do
  let ncols ← isMatrix m nrows
  if ncols = 0 then none
  else
    let M := m.toArray
    pure ((List.range nrows).all fun i => !(decide ((LA.eps : α) < Transc.abs (M[i * ncols]! - 1))))

/-- The variables of `fit` that live across loop iterations. -/
structure LoopState (α : Type) where
  coef : List α
  pd : Option α          -- `penalized_deviance` (`none` = `f64::INFINITY` before the first pass)
  pdPrev : Option α      -- `penalized_deviance_previous` of the last pass
  mu : List α
  dmu : List α
  var : List α
  nIter : Nat
  converged : Bool

/-- Fixed inputs of one `fit` call. -/
structure Problem (α : Type) where
  family : Family
  x : List α
  y : List α
  n : Nat
  p : Nat
  weights : List α
  offsets : Option (List α)
  alpha : α
  tol : α
  maxIter : Nat

/-- `eta = matmul(x, coef, n, p, false, false)` plus the optional offset
(`assert_eq!(offset.len(), n)` then `vadd`). -/
def linearPredictor (x coef : List α) (n p : Nat) (off : Option (List α)) : Option (List α) := do
  let eta ← matmul x coef n p false false
  match off with
  | none => pure eta
  | some o => if o.length ≠ n then none else Vops.vbin (· + ·) eta o

/-- gradient and information after the optional penalty step (`if self.alpha > 0.`) -/
def penalised (alpha : α) (p : Nat) (coef dbeta ddbeta : List α) : List α × List α :=
  if 0 < alpha then (applyDbetaPenalty alpha dbeta coef, applyDdbetaPenalty alpha ddbeta p)
  else (dbeta, ddbeta)

/-- One pass of the `loop { … }` body of `fit` up to and including `n_iter += 1`. -/
def loopBody (solve : List α → List α → Option (List α)) (P : Problem α) (st : LoopState α) :
    Option (LoopState α) := do
  let eta ← linearPredictor P.x st.coef P.n P.p P.offsets
  let mu := invLink P.family eta
  let dmu := dInvLink P.family eta mu
  let var := variance P.family mu
  let dbeta ← computeDbeta P.x P.y mu dmu var P.weights
  let ddbeta ← computeDdbeta P.x dmu var P.weights
  let gh := penalised P.alpha P.p st.coef dbeta ddbeta
  let s ← solve gh.2 gh.1
  let coef ← Vops.vbin (· - ·) st.coef s
  let pd ← penalizedDeviance P.family P.y mu P.alpha coef
  pure { coef := coef, pd := some pd, pdPrev := st.pd, mu := mu, dmu := dmu, var := var,
         nIter := st.nIter + 1, converged := hasConverged pd st.pd P.tol }

/-- The `loop`: `k` = number of further passes the counter still allows after this one
(`if n_iter >= max_iter || is_converged { break }`). -/
def fitLoop (solve : List α → List α → Option (List α)) (P : Problem α) :
    Nat → LoopState α → Option (LoopState α)
  | 0, st => loopBody solve P st
  | k + 1, st =>
    match loopBody solve P st with
    | none => none
    | some st' => if st'.converged then some st' else fitLoop solve P k st'

/-- What `fit` leaves in the `GLM` object, and its return value. -/
structure Fit (α : Type) where
  ok : Bool                 -- `Ok(())` / `Err("reached maximum number of iterations…")`
  coef : List α
  deviance : α
  information : List α
  n : Nat
  p : Nat
  family : Family
  offsets : Option (List α)
  nIter : Nat
  converged : Bool
  pd : Option α
  pdPrev : Option α

/-- `if let Some(w) = &self.weights { assert_eq!(w.len(), n); w.to_vec() } else { vec![1.; n] }` -/
def resolveWeights (weights : Option (List α)) (n : Nat) : Option (List α) :=
  match weights with
  | some w => if w.length ≠ n then none else some w
  | none => some (List.replicate n 1)

/-- The start value of the intercept (F51): the link of the mean response — `mean(y)` for the identity link and (as the
source has it) for the logistic link, `ln(mean(y))` for the four log-link families. -/
def initialIntercept (family : Family) (y : List α) : α :=
  match family with
  | .gaussian | .bernoulli => mean y
  | _ => Transc.ln (mean y)

/-- The part of `fit` before the loop: shape checks, default weights, starting point. -/
def fitInit (family : Family) (x y : List α) (weights offsets : Option (List α)) (alpha tol : α)
    (maxIter : Nat) : Option (Problem α × LoopState α) := do
  let n := y.length
  let p ← isMatrix x n
  let d ← isDesign x n
  if !d then none
  else
    let w ← resolveWeights weights n
    let coef0 := initialIntercept family y :: List.replicate (p - 1) 0
    pure ({ family := family, x := x, y := y, n := n, p := p, weights := w, offsets := offsets,
            alpha := alpha, tol := tol, maxIter := maxIter },
          { coef := coef0, pd := none, pdPrev := none, mu := [], dmu := [], var := [], nIter := 0,
            converged := false })

/-- The part of `fit` after the loop: the stored results and the return value. -/
def fitFinish (P : Problem α) (st : LoopState α) : Option (Fit α) := do
  let dev ← deviance P.family P.y st.mu
  let info ← computeDdbeta P.x st.dmu st.var P.weights
  pure { ok := !(decide (st.nIter ≥ P.maxIter) && !st.converged)
         coef := st.coef, deviance := dev, information := info
         n := GlmScalar.roundToNat (sum8 P.weights), p := P.p
         family := P.family, offsets := P.offsets
         nIter := st.nIter, converged := st.converged, pd := st.pd, pdPrev := st.pdPrev }

/-- `GLM::fit(x, y, max_iter)` on a fresh `GLM::new(family)` after `set_penalty`, `set_tolerance`,
optional `set_weights` / `set_offset`. -/
def fit (solve : List α → List α → Option (List α)) (family : Family) (x y : List α)
    (weights offsets : Option (List α)) (alpha tol : α) (maxIter : Nat) : Option (Fit α) := do
  let (P, st0) ← fitInit family x y weights offsets alpha tol maxIter
  let st ← fitLoop solve P (maxIter - 1) st0
  fitFinish P st

/-! ### accessors -/

/-- `aic`: `dev + 2. * p as f64`. -/
def aic (r : Fit α) : α := r.deviance + two * (r.p : α)

/-- `bic`: `dev + p as f64 * (n as f64).ln()`. -/
def bic (r : Fit α) : α := r.deviance + (r.p : α) * Transc.ln (r.n : α)

/-- `dispersion`: `dev / (n - p) as f64` for the dispersion families (`n - p` underflow panics),
`1.` otherwise. -/
def dispersion (r : Fit α) : Option α :=
  if r.family.hasDispersion then
    if r.n < r.p then none else some (r.deviance / ((r.n - r.p : Nat) : α))
  else some 1

/-- `coef_covariance_matrix`: `svmul(disp, &invert_matrix(information))`. -/
def coefCovariance (invert : List α → Option (List α)) (r : Fit α) : Option (List α) := do
  let disp ← dispersion r
  let inv ← invert r.information
  pure (Vops.sv (· * ·) disp inv)

/-- `diag(a)` of a flat square matrix. -/
def diagFlat (a : List α) : Option (List α) := do
  let n ← LA.isSquare a.length
  let A := a.toArray
  pure ((List.range n).map fun i => A[i * n + i]!)

/-- `coef_standard_error`: `vsqrt(&diag(&cov))`. -/
def coefStandardError (invert : List α → Option (List α)) (r : Fit α) : Option (List α) := do
  let cov ← coefCovariance invert r
  let d ← diagFlat cov
  pure (Vops.vun Transc.sqrt d)

/-- `predict(x)`: `inv_link(x·β [+ offset])`; `is_matrix(x, p)` yields the row count. -/
def predict (r : Fit α) (x : List α) : Option (List α) := do
  let n ← isMatrix x r.p
  let d ← isDesign x n
  if !d then none
  else
    let res ← matmul x r.coef n r.p false false
    match r.offsets with
    | some o => do
      let e ← Vops.vbin (· + ·) res o
      pure (invLink r.family e)
    | none => pure (invLink r.family res)

/-- `score(x, y)`: `family.deviance(y, predict(x).unwrap())`. -/
def score (r : Fit α) (x y : List α) : Option α := do
  let pr ← predict r x
  deviance r.family y pr

/-! ### the remaining public methods of `ExponentialFamily` and `GLM::set_coef` -/

/-- the literals `0.5`, `0.25` (exact in every instance: `1/2`, `1/4`) -/
def half : α := 1 / two
def quarter : α := 1 / (two * two)

/-- `initial_working_response(y)`: `y` for the Gaussian family, `(y - 0.5) / 0.25` for the Bernoulli family (the IRLS
working response `eta + (y - mu) / (mu (1 - mu))` at `eta = 0`, `mu = 1/2`), `None` for the other four. -/
def initialWorkingResponse (f : Family) (y : List α) : Option (List α) :=
  match f with
  | .gaussian => some y
  | .bernoulli => some (Vops.vs (· / ·) (Vops.vs (· - ·) y half) quarter)
  | _ => none

/-- `initial_working_weights(y)`: `ones(n) / n` (Gaussian), `0.25 * ones(n) / n` (Bernoulli: `mu (1 - mu)` at `mu = 1/2`,
normalised by the number of observations), `None` for the other four. -/
def initialWorkingWeights (f : Family) (y : List α) : Option (List α) :=
  match f with
  | .gaussian => some (Vops.vs (· / ·) (List.replicate y.length 1) (y.length : α))
  | .bernoulli => some (Vops.vs (· / ·) (Vops.sv (· * ·) quarter (List.replicate y.length 1)) (y.length : α))
  | _ => none

/-- `set_coef(coefs)` on a fitted object: only the coefficient vector is replaced; deviance, information matrix, `n`, `p`,
weights and offsets stay as the last `fit` left them. -/
def setCoef (r : Fit α) (c : List α) : Fit α := { r with coef := c }

end model
end Cv.Glm
