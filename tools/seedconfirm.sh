#!/bin/sh
# tools/seedconfirm.sh <seed-dir>...  — independent confirmation of a seeded change in a scratch worktree:
# (1) patch applies and the crate's test suite passes with it, (2) the demonstration fails with the change,
# (3) the demonstration passes without it.  Writes <seed-dir>/confirm.json.  Removes the worktree afterwards.
mkdir -p /tmp/seedwt
exec 8>/tmp/seedwt/.confirm.lock; flock 8
WT=/tmp/seedwt/confirm
for SEED in "$@"; do
  SEED="$(cd "$SEED" && pwd)"; NAME=$(basename "$SEED")
  git -C /repo worktree remove --force "$WT" >/dev/null 2>&1; rm -rf "$WT"; git -C /repo worktree prune
  git -C /repo worktree add --detach "$WT" HEAD >/dev/null 2>&1
  HEADSHA=$(git -C /repo rev-parse --short HEAD)
  mkdir -p "$WT/examples"; cp "$SEED/demo.rs" "$WT/examples/seed_demo.rs"
  ( cd "$WT" && CARGO_TARGET_DIR=/tmp/seedwt/confirm-target cargo run --offline --example seed_demo >/tmp/seedwt/clean.out 2>&1 ); CLEAN=$?
  APPLIED=yes
  if ! git -C "$WT" apply "$SEED/patch.diff" 2>/dev/null && ! (cd "$WT" && patch -p1 -F3 -s < "$SEED/patch.diff"); then APPLIED=no; fi
  ( cd "$WT" && CARGO_TARGET_DIR=/tmp/seedwt/confirm-target cargo test --offline >/tmp/seedwt/test.out 2>&1 ); TRC=$?
  TESTS=$(grep "test result" /tmp/seedwt/test.out | head -1)
  FAILED=$(grep -E "^test .* \.\.\. FAILED" /tmp/seedwt/test.out | tr '\n' ';')
  ( cd "$WT" && CARGO_TARGET_DIR=/tmp/seedwt/confirm-target cargo run --offline --example seed_demo >/tmp/seedwt/mut.out 2>&1 ); MUT=$?
  python3 - "$SEED" "$NAME" "$HEADSHA" "$APPLIED" "$TRC" "$TESTS" "$FAILED" "$CLEAN" "$MUT" <<'PY'
import json,sys
seed,name,head,applied,trc,tests,failed,clean,mut=sys.argv[1:]
ok = applied=="yes" and int(clean)==0 and int(mut)!=0 and (int(trc)==0 or set(failed.split(';'))<= {'','test distributions::t::tests::test_moments ... FAILED','test distributions::pareto::tests::test_moments ... FAILED'})
json.dump({"seed":name,"repo_head":head,"patch_applies":applied=="yes","test_suite_exit_with_change":int(trc),"test_suite_result_with_change":tests,
 "failed_tests_with_change":failed,"demo_exit_without_change":int(clean),"demo_exit_with_change":int(mut),"confirmed":ok,
 "commands":["git worktree add --detach /tmp/seedwt/confirm HEAD","cargo run --offline --example seed_demo (clean)","git apply patch.diff","cargo test --offline","cargo run --offline --example seed_demo (with change)"]},
 open(seed+"/confirm.json","w"),indent=1)
print(name,"confirmed" if ok else "NOT-CONFIRMED",tests,"clean=%s mut=%s"%(clean,mut))
PY
done
git -C /repo worktree remove --force "$WT" >/dev/null 2>&1
