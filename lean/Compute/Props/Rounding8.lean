import Compute.Lemmas.Rounding8
import Compute.Props.Rounding7
import Mathlib.Tactic.NormNum
/-
Worst-case rounding-error theorems, eighth batch.

C06 — CONVERGED IN FLOATS ⇒ THE EXACT PENALISED SCORE IS SMALL, for the canonical families
(Gaussian/identity, Bernoulli/logistic, Poisson and quasi-Poisson/log).  Closes the `_partial` of
`Rounding7.scoring_fixed_point`: the exact score

    S(β)[a] = −Σᵢ X[i,a]·wᵢ·(yᵢ − μ(ηᵢ)) + α_e·(P₁β)[a],      ηᵢ = Σⱼ X[i,j]βⱼ + oᵢ   (exact arithmetic)

(for a canonical link the working residual `wᵢ(yᵢ−μᵢ)·dμᵢ/vᵢ` is `wᵢ(yᵢ−μᵢ)`) is compared with the score built
from the computed working residuals: `r̂ᵢ = wᵢ(yᵢ − μ̂ᵢ)(1+θ)` with four roundings (`dμ̂ᵢ` and `v̂ᵢ` are the same
floating-point number), `|μ̂ᵢ − μ(ηᵢ)| ≤ muErr` (link accuracy `ExpLnStd` + Lipschitz constant of the link ×
`|η̂ᵢ − ηᵢ|`), `|η̂ᵢ − ηᵢ| ≤ γ_{p+2}(Σⱼ|Xᵢⱼ||βⱼ| + |oᵢ|)` (`linearPredictor_error`).

* `fixed_point_exact_score`, `loopBody_links` (the tie of the hypotheses to `loopBody`)
  NOT DONE: Gamma / Exponential (log link with variance `μ²`: working residual `w(y−μ)/μ`, needs the rounding of
  `μ̂ ⊘ (μ̂⊗μ̂)` and a Lipschitz bound of `(y−μ)/μ` in `η`).

C10 — A FULL RUN OF THE MODEL'S LM LOOP on a model linear in the parameters (ℝ, exact solver), namespace
`Cv.Rounding8.LMrun`.  `LinModel E WF …`: the linear model seen through the evaluator interface `LMEval` of `lmG`,
with the evaluator laws RELATIVE TO THE TAPE INVARIANT `WF` (`EvalLawsOn`; the unrestricted `EvalLaws` is
unsatisfiable for the source's evaluator, `C10Deep.tapeEval_not_evalLaws`); `tapeEval_linModel`: `tapeEval prog xs ys`
of an RPN program linear in its parameters IS a `LinModel` w.r.t. `WFSt` (example: `p0 + p1·x`), so everything
below is about `lm prog …` on the shared tape:
* `lmBody_cases'` (Lemmas)  every outcome of one pass with its data;  `pass_linear` (Lemmas): the invariant `LinInv`
  is kept, the `JᵀJ`-distance to any least-squares solution never increases and contracts by `q = Λκ/(1+Λκ)` unless
  the pass raises the stop flag (a step is rejected only AT a least-squares solution)
* `lmLoop_linear`     `‖θ' − θ*‖²_A ≤ q^fuel·‖θ − θ*‖²_A` for the state `lmLoop` returns, unless a stop test fired
* `linInv_start`      the start state satisfies the invariant with `Λ = max(μ₀, 2)` (`μ₀ > 0`, `ν₀ = 2` derived, `τ > 0`)
* `stop_eps1`         stopped by `eps1`:  `Σᵢ|(Jᵀ(y−Jθ))ᵢ| ≤ eps1`
* `stop_eps2`         stopped by `eps2`:  `(Jᵀ(y−Jθ))ᵢ² ≤ (Σⱼ Bᵢⱼ²)·(eps2(‖θ‖₂+eps2))²`
* `errA_le_of_grad` (+ `weighted_cs`)   `‖θ − θ*‖²_A ≤ κ·Σᵢ (Jᵀ(y−Jθ))ᵢ²/dᵢ`
Non-vacuity: `namespace Examples`, `Examples2`, `LMrun.Examples` at the end.
-/
set_option linter.unusedSectionVars false
set_option linter.unusedVariables false
namespace Cv.Rounding8
open Cv Cv.FlModel Cv.LA Cv.LA.Lu Cv.Rounding Cv.FactorRounding Cv.RoundingLU Cv.Rounding3 Cv.Rounding6
  Cv.Rounding7 Cv.Glm Finset

variable {M : FlModel} [FlSqrt M] [ExpLnStd M]

/-- the exact linear predictor `ηᵢ = Σⱼ X[i,j]·βⱼ + oᵢ` -/
noncomputable def etaExact (x coef : List (Fl M)) (p : Nat) (off : Option (List (Fl M))) (i : Nat) : ℝ :=
  ∑ j ∈ range p, xv x (i * p + j) * xv coef j + offv off i

/-- the exact penalised score of a canonical family at `β`: `−Xᵀ·W·(y − μ(η)) + α_e·P₁β` -/
noncomputable def scoreExact (f : Family) (x y w coef : List (Fl M)) (n p : Nat) (off : Option (List (Fl M)))
    (αe : ℝ) (a : Nat) : ℝ :=
  -(∑ i ∈ range n, xv x (i * p + a) * (xv w i * (xv y i - muF f (etaExact x coef p off i))))
    + (if a = 0 then 0 else αe * xv coef a)

/-- **converged in floats ⇒ the exact penalised score is small** (canonical families).  `η̂` the computed linear
predictor, `μ̂ = invLink(η̂)`, `dμ̂ = v̂ = variance(μ̂)` (no saturated variance: `hv`, automatic except for the
logistic link), and a scoring step that leaves `β` unchanged in floating point.  Then, with `E`, `e` bounded as
in `Rounding7.scoringStep_system`,

  `|S(β)[a]| ≤ γ₁·Σ_b (|(XᵀŴX + α_e·I)[a,b]| + |E[a,b]|)·|β_b| + |e[a]|
              + Σᵢ |X[i,a]|·|wᵢ|·(muErr(η̂ᵢ, ηᵢ) + γ₄·|yᵢ − μ̂ᵢ|)`. 
Stated for `p ≥ 2` coefficients (`hp`); `p = 1` is not covered.  PROVISO on `hv` for the log link: in this
idealised model the computed `exp` is never `0`; in binary64 `exp(η̂)` underflows to `0` for `η̂ < −745.13`, where
the hypothesis must be checked.  `Examples3` below runs the theorem with `u = 1/100` on an absorbed step `δ̂ ≠ 0`. -/
theorem fixed_point_exact_score (f : Family) (hf : Canonical f) (x y w coef eta : List (Fl M))
    (off : Option (List (Fl M))) (alpha : Fl M) (n p : Nat)
    (hn : 0 < n) (hp : 2 ≤ p) (hx : x.length = n * p) (hy : y.length = n) (hw : w.length = n)
    (hcl : coef.length = p) (hel : eta.length = n)
    (hv : ∀ i, i < n → (varF f (invLinkF f eta[i]!)).val ≠ 0)
    (s : List (Fl M))
    (h : scoringStep solveSqrt x y w alpha p coef (eta.map (invLinkF f))
      ((eta.map (invLinkF f)).map (varF f)) ((eta.map (invLinkF f)).map (varF f)) = some (s, coef))
    (hu1 : ((3 * p + 1 : Nat) : ℝ) * M.u < 1) (hu2 : ((n + 2 : Nat) : ℝ) * M.u < 1)
    (hf1 : ((1 : Nat) : ℝ) * uF M < 1)
    (hd : LuPivotsOk x y w coef (eta.map (invLinkF f)) ((eta.map (invLinkF f)).map (varF f))
      ((eta.map (invLinkF f)).map (varF f)) alpha p) :
    ∃ (ww g H : List (Fl M)) (W E : Nat → Nat → ℝ) (e : Nat → ℝ),
      (∀ a b, a < p → b < p → |E a b| ≤
        M.γ (n + 2) * ∑ i ∈ range n, |ev p x i a| * (|ev p x i b| * |vv ww i|)
          + (if a = b then M.u * (|ev p H a a| + alphaEff alpha) else 0)
          + M.γ (3 * p + 1) * W a b) ∧
      (∀ a, a < p → |e a| ≤
        M.γ (n + 1) * ∑ i ∈ range n, |ev p x i a| *
            ((1 + M.γ 4) * (|xv w i| * |xv y i - (invLinkF f eta[i]!).val|))
          + (if a = 0 then 0 else M.γ 2 * (|vv g a| + alphaEff alpha * |vv coef a|))) ∧
      ∀ a, a < p →
        |scoreExact f x y w coef n p off (alphaEff alpha) a| ≤
          M.γ 1 * ∑ b ∈ range p, (|∑ i ∈ range n, ev p x i a * (ev p x i b * vv ww i)
              + (if a = b then alphaEff alpha else 0)| + |E a b|) * |vv coef b|
            + |e a|
            + ∑ i ∈ range n, |xv x (i * p + a)| * (|xv w i| *
                (muErr M f (xv eta i) (etaExact x coef p off i)
                  + M.γ 4 * |xv y i - (invLinkF f eta[i]!).val|)) := by
  set mu := eta.map (invLinkF f) with hmu
  set var := mu.map (varF f) with hvar
  have hmul : mu.length = n := by simp [hmu, hel]
  have hvl : var.length = n := by simp [hvar, hmul]
  have hun := M.u_nonneg
  obtain ⟨ww, r, g, H, W, E, e, h2, hE, he, hscore⟩ :=
    scoring_fixed_point' x y w coef mu var var alpha n p hn hp hx hy hmul hvl hvl hw hcl s h hu1 hu2 hd
  -- the computed working residuals
  obtain ⟨r', hr', hrl, hre⟩ := workingResiduals_fl y mu var var w n hy hmul hvl hvl hw
  have hrr : r' = r := Option.some.inj (hr'.symm.trans h2)
  subst hrr
  have h4u : ((4 : Nat) : ℝ) * M.u < 1 :=
    lt_of_le_of_lt (mul_le_mul_of_nonneg_right (Nat.cast_le.mpr (by omega)) hun) hu1
  have h2u : ((2 : Nat) : ℝ) * M.u < 1 :=
    lt_of_le_of_lt (mul_le_mul_of_nonneg_right (Nat.cast_le.mpr (by omega)) hun) hu1
  have hγ4 := M.γ_nonneg 4 h4u
  have hmui : ∀ i, i < n → mu[i]! = invLinkF f eta[i]! := by
    intro i hi
    rw [hmu, C06L.getBang_map _ _ _ (by omega)]
  have hvari : ∀ i, i < n → var[i]! = varF f (invLinkF f eta[i]!) := by
    intro i hi
    rw [hvar, C06L.getBang_map _ _ _ (by omega), hmui i hi]
  have hri : ∀ i, i < n → ∃ gi, M.Fac 4 gi ∧
      xv r' i = xv w i * (xv y i - (invLinkF f eta[i]!).val) * gi := by
    intro i hi
    obtain ⟨gi, hgi, hval⟩ := wres_fac w[i]! y[i]! mu[i]! var[i]! var[i]!
    refine ⟨gi, hgi, ?_⟩
    unfold xv
    rw [hre i hi, hval, hmui i hi, hvari i hi, div_self (hv i hi), mul_one]
  -- distance between the two scores
  have hdiff : ∀ a, a < p →
      |scoreExact f x y w coef n p off (alphaEff alpha) a
        - (-(∑ i ∈ range n, ev p x i a * vv r' i) + (if a = 0 then 0 else alphaEff alpha * vv coef a))| ≤
      ∑ i ∈ range n, |xv x (i * p + a)| * (|xv w i| *
        (muErr M f (xv eta i) (etaExact x coef p off i) + M.γ 4 * |xv y i - (invLinkF f eta[i]!).val|)) := by
    intro a ha
    unfold scoreExact
    have e1 : ∀ i, ev p x i a * vv r' i = xv x (i * p + a) * xv r' i := by
      intro i; rw [ev, vv, ← xv_eq_rd, ← xv_eq_rd]
    have e2 : vv coef a = xv coef a := by rw [vv, ← xv_eq_rd]
    simp only [e1, e2]
    rw [show ∀ A B C : ℝ, (-A + C) - (-B + C) = B - A from fun A B C => by ring, ← Finset.sum_sub_distrib]
    refine le_trans (Finset.abs_sum_le_sum_abs _ _) (Finset.sum_le_sum fun i hi => ?_)
    have hi' := Finset.mem_range.mp hi
    obtain ⟨gi, hgi, hval⟩ := hri i hi'
    have hme := muHat_error f eta[i]! (etaExact x coef p off i) h2u hf1
    have hg1 := hgi.abs_sub_one_le h4u
    rw [hval]
    have e3 : xv x (i * p + a) * (xv w i * (xv y i - (invLinkF f eta[i]!).val) * gi)
        - xv x (i * p + a) * (xv w i * (xv y i - muF f (etaExact x coef p off i))) =
        xv x (i * p + a) * (xv w i * ((xv y i - (invLinkF f eta[i]!).val) * (gi - 1)
          - ((invLinkF f eta[i]!).val - muF f (etaExact x coef p off i)))) := by ring
    rw [e3, abs_mul, abs_mul]
    refine mul_le_mul_of_nonneg_left (mul_le_mul_of_nonneg_left ?_ (abs_nonneg _)) (abs_nonneg _)
    refine le_trans (abs_sub _ _) ?_
    rw [abs_mul]
    have t1 : |xv y i - (invLinkF f eta[i]!).val| * |gi - 1| ≤
        M.γ 4 * |xv y i - (invLinkF f eta[i]!).val| := by
      rw [mul_comm]; exact mul_le_mul_of_nonneg_right hg1 (abs_nonneg _)
    have t2 : |(invLinkF f eta[i]!).val - muF f (etaExact x coef p off i)| ≤
        muErr M f (xv eta i) (etaExact x coef p off i) := hme
    linarith
  -- the bound on `e` in terms of `w`, `y`, `μ̂`
  have he' : ∀ a, a < p → |e a| ≤
      M.γ (n + 1) * ∑ i ∈ range n, |ev p x i a| *
          ((1 + M.γ 4) * (|xv w i| * |xv y i - (invLinkF f eta[i]!).val|))
        + (if a = 0 then 0 else M.γ 2 * (|vv g a| + alphaEff alpha * |vv coef a|)) := by
    intro a ha
    refine le_trans (he a ha) (add_le_add ?_ (le_refl _))
    have hu1' : ((n + 1 : Nat) : ℝ) * M.u < 1 :=
      lt_of_le_of_lt (mul_le_mul_of_nonneg_right (Nat.cast_le.mpr (by omega)) hun) hu2
    refine mul_le_mul_of_nonneg_left (Finset.sum_le_sum fun i hi => ?_) (M.γ_nonneg _ hu1')
    have hi' := Finset.mem_range.mp hi
    obtain ⟨gi, hgi, hval⟩ := hri i hi'
    have hgabs : |gi| ≤ 1 + M.γ 4 := by
      have : gi = 1 + (gi - 1) := by ring
      rw [this]
      exact le_trans (abs_add_le _ _) (by simpa using hgi.abs_sub_one_le h4u)
    refine mul_le_mul_of_nonneg_left ?_ (abs_nonneg _)
    rw [vv, ← xv_eq_rd, hval, abs_mul, abs_mul]
    calc |xv w i| * |xv y i - (invLinkF f eta[i]!).val| * |gi|
        ≤ |xv w i| * |xv y i - (invLinkF f eta[i]!).val| * (1 + M.γ 4) :=
          mul_le_mul_of_nonneg_left hgabs (by positivity)
      _ = _ := by ring
  refine ⟨ww, g, H, W, E, e, hE, he', fun a ha => ?_⟩
  have := hdiff a ha
  have hs := hscore a ha
  have tri : |scoreExact f x y w coef n p off (alphaEff alpha) a| ≤
      |-(∑ i ∈ range n, ev p x i a * vv r' i) + (if a = 0 then 0 else alphaEff alpha * vv coef a)|
      + |scoreExact f x y w coef n p off (alphaEff alpha) a
        - (-(∑ i ∈ range n, ev p x i a * vv r' i) + (if a = 0 then 0 else alphaEff alpha * vv coef a))| := by
    have := abs_add_le (-(∑ i ∈ range n, ev p x i a * vv r' i) + (if a = 0 then 0 else alphaEff alpha * vv coef a))
      (scoreExact f x y w coef n p off (alphaEff alpha) a
        - (-(∑ i ∈ range n, ev p x i a * vv r' i) + (if a = 0 then 0 else alphaEff alpha * vv coef a)))
    rwa [add_sub_cancel] at this
  linarith

end Cv.Rounding8

/-! #### the tie to `loopBody` -/

namespace Cv.Rounding8
open Cv Cv.FlModel Cv.Rounding Cv.Rounding3 Cv.Rounding7 Cv.Glm

variable {M : FlModel} [ExpLnStd M] [GlmScalar (Fl M)]

/-- **`loopBody` feeds the scoring step exactly the link maps assumed by `fixed_point_exact_score`**: for a
canonical family (with the `exp`-based scalar instance for the link functions, any solver) one pass of the loop
computes `η̂ = linearPredictor`, `μ̂ = η̂.map invLinkF`, `dμ̂ = v̂ = μ̂.map varF` and then `scoringStep` on them. -/
theorem loopBody_links (solveP : List (Fl M) → List (Fl M) → Option (List (Fl M))) (P : Problem (Fl M))
    (st st' : LoopState (Fl M)) (hf : Canonical P.family) (h : loopBody solveP P st = some st') :
    ∃ eta s, linearPredictor P.x st.coef P.n P.p P.offsets = some eta ∧
      scoringStep solveP P.x P.y P.weights P.alpha P.p st.coef (eta.map (invLinkF P.family))
        ((eta.map (invLinkF P.family)).map (varF P.family))
        ((eta.map (invLinkF P.family)).map (varF P.family)) = some (s, st'.coef) := by
  obtain ⟨eta, s, h1, _, h3⟩ := loopBody_scoringStep solveP P st st' h
  refine ⟨eta, s, h1, ?_⟩
  rw [invLink_map] at h3
  rw [dInvLink_eq_variance P.family hf eta _ (by simp), variance_map P.family hf] at h3
  exact h3

end Cv.Rounding8

/-! ### C10: a full run of the model's LM loop on a linear model (ℝ, exact solver) -/

namespace Cv.Rounding8.LMrun
open Cv Cv.Opt Cv.C10 Cv.C10D Cv.Rounding7.LM Finset

section
variable [Inhabited ℝ] [BEq ℝ] [LawfulBEq ℝ] [Transc ℝ] [FMax ℝ]
variable {σ : Type}
variable {E : LMEval σ ℝ} {WF : σ → Prop} {R Jf : List ℝ → List ℝ} {Jl : List ℝ} {yv : ℕ → ℝ} {p : ℕ}

theorem lmLoop_of_stop (h : LMHP ℝ) (fuel : Nat) (s s' : LMSt σ ℝ) (hst : s.stop = true)
    (hl : lmLoop E h fuel s = some s') : s' = s := by
  cases fuel with
  | zero => simpa [lmLoop] using hl.symm
  | succ fuel => simpa [lmLoop, hst] using hl.symm

/-- **geometric convergence of the iterates the loop actually produces**: from any state satisfying the loop
invariant (`LinInv`: in particular `μ ≤ Λ`, `Λ ≥ 2`), `lmLoop` with `fuel` passes returns a state `s'` with

  `‖θ' − θ*‖²_A ≤ ‖θ − θ*‖²_A`   and   (`s'.stop`  or  `‖θ' − θ*‖²_A ≤ q^fuel·‖θ − θ*‖²_A`),   `q = Λκ/(1+Λκ) < 1`,

for every least-squares solution `θ*`: as long as neither stop test fires, every pass contracts (every step is
accepted — `lm_linear_rho_pos` — and the damping stays `≤ Λ` — `lm_mu_update_lt_two`). -/
theorem lmLoop_linear (L : LinModel E WF R Jf Jl yv p) (h : LMHP ℝ) (Lam κ : ℝ) (hLam : 2 ≤ Lam) (hκ : 0 ≤ κ)
    (hκD : ∀ x : ℕ → ℝ, bD (Jm Jl p) E.n p x x ≤ κ * bA (Jm Jl p) E.n p x x)
    (θs : ℕ → ℝ) (hs : IsLS (Jm Jl p) E.n p yv θs) (fuel : Nat) (s s' : LMSt σ ℝ)
    (hI : LinInv E WF R Jf Jl yv p Lam s) (hl : lmLoop E h fuel s = some s') :
    LinInv E WF R Jf Jl yv p Lam s' ∧
    errA Jl E.n p θs (E.vals s'.tp) ≤ errA Jl E.n p θs (E.vals s.tp) ∧
    (s'.stop = true ∨
      errA Jl E.n p θs (E.vals s'.tp) ≤ (Lam * κ / (1 + Lam * κ)) ^ fuel * errA Jl E.n p θs (E.vals s.tp)) := by
  have hq0 : 0 ≤ Lam * κ / (1 + Lam * κ) := div_nonneg (by nlinarith) (by nlinarith)
  induction fuel generalizing s with
  | zero =>
    simp only [lmLoop, Option.some.injEq] at hl
    subst hl
    exact ⟨hI, le_refl _, Or.inr (by simp)⟩
  | succ fuel ih =>
    by_cases hst : s.stop = true
    · have := lmLoop_of_stop h (fuel + 1) s s' hst hl
      subst this
      exact ⟨hI, le_refl _, Or.inl hst⟩
    · simp only [lmLoop, hst] at hl
      rcases hb : lmBody E h s with _ | s1
      · rw [hb] at hl; simp at hl
      · rw [hb] at hl
        simp only [Bool.false_eq_true, if_false] at hl
        obtain ⟨hI1, hle1, hc1⟩ := pass_linear L h Lam κ hLam hκ hκD θs hs s s1 hI hb
        obtain ⟨hI', hle', hc'⟩ := ih s1 hI1 hl
        refine ⟨hI', le_trans hle' hle1, ?_⟩
        rcases hc1 with hstop1 | hcon1
        · have := lmLoop_of_stop h fuel s1 s' hstop1 hl
          subst this
          exact Or.inl hstop1
        · rcases hc' with hstop' | hcon'
          · exact Or.inl hstop'
          · right
            calc errA Jl E.n p θs (E.vals s'.tp)
                ≤ (Lam * κ / (1 + Lam * κ)) ^ fuel * errA Jl E.n p θs (E.vals s1.tp) := hcon'
              _ ≤ (Lam * κ / (1 + Lam * κ)) ^ fuel *
                    (Lam * κ / (1 + Lam * κ) * errA Jl E.n p θs (E.vals s.tp)) :=
                  mul_le_mul_of_nonneg_left hcon1 (pow_nonneg hq0 _)
              _ = _ := by rw [pow_succ]; ring

/-- **the start state of `lmG` satisfies the invariant** with `Λ = max(μ₀, 2)`: the tape state is well formed, the
stored quantities belong to `θ₀`, `ν₀ = 2`, and `μ₀ = τ·max diag(JᵀJ) > 0` for `τ > 0` (no vanishing column) -/
theorem linInv_start (L : LinModel E WF R Jf Jl yv p) (h : LMHP ℝ) (hτ : 0 < h.tau) (hp : 0 < p)
    (θ0 : List ℝ) (hθ : θ0.length = p) (s0 : LMSt σ ℝ) (hs0 : lmStart E h θ0 = some s0) :
    LinInv E WF R Jf Jl yv p (max s0.mu 2) s0 := by
  obtain ⟨hwf, hB, hv, hnu, hmu⟩ := invW_start E WF R Jf L.laws h θ0 s0 hs0
  have hjtj : jtjOf E.n Jl = some s0.jtj := by
    have := hB.2.1
    rwa [hv, L.hJf θ0 hθ] at this
  have hpos := statMax_diag_pos L.hF E.n p L.hn hp Jl s0.jtj L.hJl hjtj L.hcol
  refine ⟨hwf, hB, by rw [hv]; exact hθ, ?_, by rw [hnu]; norm_num, Or.inl (le_max_left _ _)⟩
  rw [hmu, hθ]
  exact mul_pos hτ hpos

/-! #### the two stop tests -/

/-- weighted Cauchy–Schwarz: `(Σ eᵢgᵢ)² ≤ (Σ dᵢeᵢ²)(Σ gᵢ²/dᵢ)` for positive weights -/
theorem weighted_cs (p : ℕ) (d e g : ℕ → ℝ) (hd : ∀ i, i < p → 0 < d i) :
    (∑ i ∈ range p, e i * g i) ^ 2 ≤ (∑ i ∈ range p, d i * (e i * e i)) * ∑ i ∈ range p, g i ^ 2 / d i := by
  have hq : ∀ t : ℝ, 0 ≤ (∑ i ∈ range p, g i ^ 2 / d i) * (t * t) + (2 * ∑ i ∈ range p, e i * g i) * t
      + ∑ i ∈ range p, d i * (e i * e i) := by
    intro t
    have : (∑ i ∈ range p, g i ^ 2 / d i) * (t * t) + (2 * ∑ i ∈ range p, e i * g i) * t
        + ∑ i ∈ range p, d i * (e i * e i) = ∑ i ∈ range p, d i * (e i + t * (g i / d i)) ^ 2 := by
      simp only [Finset.sum_mul, Finset.mul_sum, ← Finset.sum_add_distrib]
      refine Finset.sum_congr rfl fun i hi => ?_
      have := (hd i (Finset.mem_range.mp hi)).ne'
      field_simp
      ring
    rw [this]
    exact Finset.sum_nonneg fun i hi => mul_nonneg (hd i (Finset.mem_range.mp hi)).le (sq_nonneg _)
  have := discrim_le_zero hq
  unfold discrim at this
  nlinarith

/-- **from a small gradient to a small error**: for `D ⪯ κ·JᵀJ` and any least-squares solution `θ*`,
`‖θ − θ*‖²_A ≤ κ·Σᵢ (Jᵀ(y−Jθ))ᵢ²/dᵢ`, `dᵢ = (JᵀJ)ᵢᵢ` -/
theorem errA_le_of_grad (J : ℕ → ℕ → ℝ) (n p : ℕ) (κ : ℝ) (hκ : 0 ≤ κ)
    (hκD : ∀ x : ℕ → ℝ, bD J n p x x ≤ κ * bA J n p x x) (hcol : ∀ i, i < p → 0 < A J n i i)
    (y θ θs : ℕ → ℝ) (hs : IsLS J n p y θs) :
    bA J n p (fun j => θ j - θs j) (fun j => θ j - θs j) ≤
      κ * ∑ i ∈ range p, grad J n p y θ i ^ 2 / A J n i i := by
  set e : ℕ → ℝ := fun j => θ j - θs j with he
  have hAe : ∀ i, i < p → ∑ j ∈ range p, A J n i j * e j = -grad J n p y θ i := by
    intro i hi
    have : θ = fun j => θs j + (θ j - θs j) := by funext j; ring
    have hg := grad_add (J := J) (n := n) (p := p) y θs e i
    rw [← this, hs i hi] at hg
    linarith
  have hE : bA J n p e e = -∑ i ∈ range p, e i * grad J n p y θ i := by
    rw [← sum_A, ← Finset.sum_neg_distrib]
    exact Finset.sum_congr rfl fun i hi => by rw [hAe i (Finset.mem_range.mp hi)]; ring
  have hcs := weighted_cs p (fun i => A J n i i) e (fun i => grad J n p y θ i) hcol
  have hD : ∑ i ∈ range p, A J n i i * (e i * e i) = bD J n p e e := rfl
  rw [hD] at hcs
  set G := ∑ i ∈ range p, grad J n p y θ i ^ 2 / A J n i i with hG
  have hG0 : 0 ≤ G := Finset.sum_nonneg fun i hi =>
    div_nonneg (sq_nonneg _) (hcol i (Finset.mem_range.mp hi)).le
  have a1 := bA_self_nonneg (J := J) (n := n) (p := p) e
  have a2 := hκD e
  set B := bA J n p e e with hB
  have hsq : B ^ 2 ≤ (κ * B) * G := by
    calc B ^ 2 = (∑ i ∈ range p, e i * grad J n p y θ i) ^ 2 := by rw [hE]; ring
      _ ≤ bD J n p e e * G := hcs
      _ ≤ (κ * B) * G := mul_le_mul_of_nonneg_right a2 hG0
  by_cases hB0 : B = 0
  · rw [hB0]; exact mul_nonneg hκ hG0
  · have hBpos : 0 < B := lt_of_le_of_ne a1 (Ne.symm hB0)
    have : B * B ≤ B * (κ * G) := by nlinarith
    exact le_of_mul_le_mul_left this hBpos

/-- **stop by `eps1`** (`jtr.inf_norm() <= eps1`, the one row sum `Σ|(Jᵀr)ᵢ|`): the returned parameters
satisfy `Σᵢ |(Jᵀ(y − Jθ))ᵢ| ≤ eps1`, hence (`errA_le_of_grad`) `‖θ − θ*‖²_A ≤ κ·Σᵢ gᵢ²/dᵢ ≤ κ·eps1²/min dᵢ`. -/
theorem stop_eps1 (L : LinModel E WF R Jf Jl yv p) (eps1 : ℝ) (s : LMSt σ ℝ) (hB : Belongs E R Jf s)
    (hlen : (E.vals s.tp).length = p) (hstop : infNormRow s.jtr ≤ eps1) :
    ∑ i ∈ range p, |grad (Jm Jl p) E.n p yv (θv (E.vals s.tp)) i| ≤ eps1 := by
  obtain ⟨_, _, hjtr⟩ := hB
  rw [L.hJf _ hlen] at hjtr
  obtain ⟨hRl, _⟩ := L.hR (E.vals s.tp) hlen
  obtain ⟨hbl, hb⟩ := jtr_entry E.n p L.hn Jl (R (E.vals s.tp)) s.jtr L.hJl hRl hjtr
  have : infNormRow s.jtr = ∑ i ∈ range p, |grad (Jm Jl p) E.n p yv (θv (E.vals s.tp)) i| := by
    unfold infNormRow
    rw [C06L.sum8_eq, C06L.list_sum_eq_range, List.length_map, hbl]
    refine Finset.sum_congr rfl fun i hi => ?_
    have hi' := Finset.mem_range.mp hi
    rw [C06L.getBang_map _ _ _ (by omega), L.habs, getBang_eq_nth _ _ (by omega), hb i hi',
      grad_of_list L _ hlen]
  rw [← this]; exact hstop

/-- **stop by `eps2`** (`‖δ‖₂ ≤ eps2·(‖θ‖₂ + eps2)`, with `sqrt` the real square root): the parameters are
returned unchanged and every component of the gradient obeys
`(Jᵀ(y − Jθ))ᵢ² ≤ (Σⱼ Bᵢⱼ²)·(eps2·(‖θ‖₂ + eps2))²`, `B = JᵀJ + μ·diag(JᵀJ)` the damped matrix of that pass
(then `errA_le_of_grad` bounds `‖θ − θ*‖²_A`). -/
theorem stop_eps2 (L : LinModel E WF R Jf Jl yv p) (hsqrt : ∀ x : ℝ, Transc.sqrt x = Real.sqrt x) (eps2 : ℝ)
    (s : LMSt σ ℝ) (hB : Belongs E R Jf s) (hlen : (E.vals s.tp).length = p) (hmu : 0 < s.mu) (δ : List ℝ)
    (hsolve : luSolveVec (damp (E.vals s.tp).length s.mu s.jtj) s.jtr = some δ)
    (hsmall : norm2 δ ≤ eps2 * (norm2 (E.vals s.tp) + eps2)) :
    ∀ i, i < p → grad (Jm Jl p) E.n p yv (θv (E.vals s.tp)) i ^ 2 ≤
      (∑ j ∈ range p, (A (Jm Jl p) E.n i j + (if i = j then s.mu * A (Jm Jl p) E.n i i else 0)) ^ 2) *
        (eps2 * (norm2 (E.vals s.tp) + eps2)) ^ 2 := by
  obtain ⟨hδl, _, _, hstep⟩ := pass_step L s hB hlen hmu δ hsolve
  intro i hi
  rw [← hstep i hi]
  have hcs := Finset.sum_mul_sq_le_sq_mul_sq (range p)
    (fun j => A (Jm Jl p) E.n i j + (if i = j then s.mu * A (Jm Jl p) E.n i i else 0)) (θv δ)
  refine le_trans hcs (mul_le_mul_of_nonneg_left ?_ (Finset.sum_nonneg fun j _ => sq_nonneg _))
  have hn2 : norm2 δ = Real.sqrt (∑ j ∈ range p, θv δ j ^ 2) := by
    unfold norm2
    rw [hsqrt, dot8_sum _ _ rfl, hδl]
    congr 1
    exact Finset.sum_congr rfl fun j _ => by simp only [θv]; ring
  have hS0 : 0 ≤ ∑ j ∈ range p, θv δ j ^ 2 := Finset.sum_nonneg fun j _ => sq_nonneg _
  have h0 : 0 ≤ norm2 δ := by rw [hn2]; exact Real.sqrt_nonneg _
  calc ∑ j ∈ range p, θv δ j ^ 2 = norm2 δ ^ 2 := by rw [hn2, Real.sq_sqrt hS0]
    _ ≤ (eps2 * (norm2 (E.vals s.tp) + eps2)) ^ 2 := pow_le_pow_left₀ h0 hsmall 2

end

end Cv.Rounding8.LMrun

/-! #### the evaluator of the source on an RPN program linear in the parameters is a `LinModel` -/

namespace Cv.Rounding8.LMrun
open Cv Cv.AD Cv.Opt Cv.C10 Cv.C10D Cv.Rounding7.LM Finset

section tape
variable [Inhabited ℝ] [BEq ℝ] [LawfulBEq ℝ] [Transc ℝ] [FMax ℝ]

/-- the constant Jacobian of a model `f(θ, x) = Σⱼ cf x j · θⱼ`, row-major, one row per data point -/
def linJac (cf : ℝ → ℕ → ℝ) (p : ℕ) (xs : List ℝ) : List ℝ := xs.flatMap fun x => (List.range p).map (cf x)

theorem linJac_length (cf : ℝ → ℕ → ℝ) (p : ℕ) (xs : List ℝ) : (linJac cf p xs).length = xs.length * p := by
  induction xs with
  | nil => simp [linJac]
  | cons x xs ih =>
    simp only [linJac, List.flatMap_cons, List.length_append, List.length_map, List.length_range,
      List.length_cons] at ih ⊢
    rw [ih]; ring

theorem nth_linJac (cf : ℝ → ℕ → ℝ) (p : ℕ) (xs : List ℝ) (k j : ℕ) (hk : k < xs.length) (hj : j < p) :
    nth (linJac cf p xs) (k * p + j) = cf (nth xs k) j := by
  induction xs generalizing k with
  | nil => simp at hk
  | cons x xs ih =>
    simp only [linJac, List.flatMap_cons]
    cases k with
    | zero =>
      simp only [Nat.zero_mul, Nat.zero_add, nth]
      rw [List.getD_eq_getElem?_getD, List.getElem?_append_left (by simpa using hj)]
      simp [hj]
    | succ k =>
      have hk' : k < xs.length := by simpa using hk
      have e : (k + 1) * p + j = ((List.range p).map (cf x)).length + (k * p + j) := by
        simp only [List.length_map, List.length_range]; ring
      simp only [nth] at ih ⊢
      rw [e, List.getD_eq_getElem?_getD, List.getElem?_append_right (by omega), Nat.add_sub_cancel_left,
        ← List.getD_eq_getElem?_getD]
      have := ih k hk'
      simpa [linJac] using this

theorem nth_resOf (prog : List (Op ℝ)) (xs ys θ : List ℝ) (h : xs.length = ys.length) (k : ℕ)
    (hk : k < xs.length) : nth (resOf prog xs ys θ) k = nth ys k - valOf prog θ (nth xs k) := by
  induction xs generalizing ys k with
  | nil => simp at hk
  | cons x xs ih =>
    cases ys with
    | nil => simp at h
    | cons y ys =>
      cases k with
      | zero => simp [resOf, nth]
      | succ k =>
        have := ih ys (by simpa using h) k (by simpa using hk)
        simpa [resOf, nth] using this

theorem jacOf_lin (prog : List (Op ℝ)) (cf : ℝ → ℕ → ℝ) (p : ℕ)
    (hrow : ∀ (x : ℝ) (θ : List ℝ), θ.length = p → rowOf prog θ x = (List.range p).map (cf x))
    (xs θ : List ℝ) (hθ : θ.length = p) : jacOf prog xs θ = linJac cf p xs := by
  induction xs with
  | nil => simp [jacOf, linJac]
  | cons x xs ih =>
    simp only [jacOf, linJac, List.flatMap_cons] at ih ⊢
    rw [hrow x θ hθ, ih]

/-- **`tapeEval` of an RPN program that is linear in its `p` parameters** (`f(θ,x) = Σⱼ cf x j·θⱼ`, derivative row
`cf x ·`, for every parameter list of length `p`) **is a `LinModel`** with respect to the well-formedness invariant
`WFSt` of the shared tape (`C10DeepEval.tapeEval_laws`) — so `pass_linear`, `lmLoop_linear`, `stop_eps1`,
`stop_eps2` are statements about `lm prog …` of the source's evaluator. -/
theorem tapeEval_linModel (prog : List (Op ℝ)) (xs ys : List ℝ) (hlen : xs.length = ys.length)
    (hn : 0 < xs.length) (p : ℕ) (cf : ℝ → ℕ → ℝ)
    (hval : ∀ (x : ℝ) (θ : List ℝ), θ.length = p → valOf prog θ x = ∑ j ∈ range p, cf x j * nth θ j)
    (hrow : ∀ (x : ℝ) (θ : List ℝ), θ.length = p → rowOf prog θ x = (List.range p).map (cf x))
    (hcol : ∀ i, i < p → ∃ k, k < xs.length ∧ cf (nth xs k) i ≠ 0)
    (habs : ∀ x : ℝ, Transc.abs x = |x|) (hF : FMaxLaw ℝ) :
    LinModel (tapeEval prog xs ys) WFSt (resOf prog xs ys) (jacOf prog xs) (linJac cf p xs)
      (fun k => nth ys k) p where
  laws := tapeEval_laws prog xs ys hlen
  hJf := fun θ hθ => jacOf_lin prog cf p hrow xs θ hθ
  hJl := linJac_length cf p xs
  hn := hn
  hR := by
    intro θ hθ
    refine ⟨resOf_length prog xs ys θ hlen, fun k hk => ?_⟩
    have hk' : k < xs.length := hk
    rw [nth_resOf prog xs ys θ hlen k hk', hval _ θ hθ]
    congr 1
    exact Finset.sum_congr rfl fun j hj => by rw [nth_linJac cf p xs k j hk' (Finset.mem_range.mp hj)]
  hcol := by
    intro i hi
    obtain ⟨k, hk, hne⟩ := hcol i hi
    exact ⟨k, hk, by rw [nth_linJac cf p xs k i hk hi]; exact hne⟩
  habs := habs
  hF := hF

end tape

end Cv.Rounding8.LMrun

/-! ### Non-vacuity: concrete runs -/

namespace Cv.Rounding8.Examples
open Cv Cv.FlModel Cv.LA Cv.LA.Lu Cv.Rounding Cv.FactorRounding Cv.RoundingLU Cv.Rounding3 Cv.Rounding6
  Cv.Rounding7 Cv.Glm Finset
open Cv.Rounding6.Examples (M0 M0_rnd M0_u M0_γ G4)
open Cv.Rounding7.Examples (X4 ones4 y4 b2 step4 route4 H4)

noncomputable local instance : ExpLnStd M0 := ExpLnStd.ofRnd M0

theorem maps4 : y4.map (invLinkF Family.gaussian) = y4 ∧
    (y4.map (invLinkF Family.gaussian)).map (varF Family.gaussian) = ones4 := by
  constructor
  · show y4.map (fun η => η) = y4
    simp
  · rfl

/-- `fixed_point_exact_score` on the concrete Gaussian run of `Rounding7.Examples.step4` (`η̂ = y`, so the exact
score vanishes there and every hypothesis holds) -/
example : ∀ a, a < 2 → ∃ B : ℝ,
    |scoreExact Family.gaussian X4 y4 ones4 b2 4 2 none (alphaEff (⟨0⟩ : Fl M0)) a| ≤ B := by
  obtain ⟨s, hs⟩ := step4
  obtain ⟨l, hr, _⟩ := route4
  have hd : LuPivotsOk X4 y4 ones4 b2 (y4.map (invLinkF Family.gaussian))
      ((y4.map (invLinkF Family.gaussian)).map (varF Family.gaussian))
      ((y4.map (invLinkF Family.gaussian)).map (varF Family.gaussian)) (⟨0⟩ : Fl M0) 2 := by
    rw [maps4.2, maps4.1]
    intro g H hg hH hroute
    have e1 : H = G4 := Option.some.inj (hH.symm.trans H4)
    have : (penalised (⟨0⟩ : Fl M0) 2 b2 g H).2 = G4 := by
      unfold penalised
      rw [if_neg (show ¬ (0 : Fl M0) < ⟨0⟩ from lt_irrefl (0 : ℝ)), e1]
    rw [this, hr] at hroute
    simp at hroute
  have h : scoringStep solveSqrt X4 y4 ones4 (⟨0⟩ : Fl M0) 2 b2 (y4.map (invLinkF Family.gaussian))
      ((y4.map (invLinkF Family.gaussian)).map (varF Family.gaussian))
      ((y4.map (invLinkF Family.gaussian)).map (varF Family.gaussian)) = some (s, b2) := by
    rw [maps4.2, maps4.1]; exact hs
  obtain ⟨ww, g, H, W, E, e, _, _, hsc⟩ := fixed_point_exact_score Family.gaussian (Or.inl rfl) X4 y4 ones4 b2 y4
    none (⟨0⟩ : Fl M0) 4 2 (by norm_num) (le_refl 2) rfl rfl rfl rfl rfl
    (by intro i hi; simp [varF]) s h (by rw [M0_u]; norm_num) (by rw [M0_u]; norm_num)
    (by show ((1 : Nat) : ℝ) * M0.u < 1; rw [M0_u]; norm_num) hd
  intro a ha
  exact ⟨_, hsc a ha⟩

end Cv.Rounding8.Examples

namespace Cv.Rounding8.Examples2
open Cv Cv.FlModel Cv.Rounding Cv.Rounding3 Cv.Rounding7 Cv.Glm Finset
open Cv.RoundingLU.Examples (Minf Minf_u)

noncomputable local instance : ExpLnStd Minf := ExpLnStd.ofRnd Minf

/-- `linearPredictor_error` in the 1 % model with an offset (`n = 2`, `p = 2`: `(2+2)·u < 1`) -/
example : ∃ eta, linearPredictor ([⟨1⟩, ⟨2⟩, ⟨1⟩, ⟨3⟩] : List (Fl Minf)) [⟨1⟩, ⟨-1⟩] 2 2 (some [⟨5⟩, ⟨6⟩]) = some eta ∧
    eta.length = 2 := by
  obtain ⟨eta, h1, h2, _⟩ := linearPredictor_error ([⟨1⟩, ⟨2⟩, ⟨1⟩, ⟨3⟩] : List (Fl Minf)) [⟨1⟩, ⟨-1⟩] 2 2
    (some [⟨5⟩, ⟨6⟩]) (by norm_num) (by norm_num) rfl rfl
    (by intro o ho; simp only [Option.some.injEq] at ho; subst ho; rfl) (by rw [Minf_u]; norm_num)
  exact ⟨eta, h1, h2⟩

/-- `muHat_error` for the three kinds of canonical link at `η̂ = 1`, exact `η = 1.01` -/
example : |(invLinkF Family.bernoulli (⟨1⟩ : Fl Minf)).val - muF Family.bernoulli 1.01| ≤
    muErr Minf Family.bernoulli 1 1.01 :=
  muHat_error Family.bernoulli (⟨1⟩ : Fl Minf) 1.01 (by rw [Minf_u]; norm_num)
    (by show ((1 : Nat) : ℝ) * (1 / 100) < 1; norm_num)
example : |(invLinkF Family.poisson (⟨1⟩ : Fl Minf)).val - muF Family.poisson 1.01| ≤
    muErr Minf Family.poisson 1 1.01 :=
  muHat_error Family.poisson (⟨1⟩ : Fl Minf) 1.01 (by rw [Minf_u]; norm_num)
    (by show ((1 : Nat) : ℝ) * (1 / 100) < 1; norm_num)

/-- the logistic variance does vanish when `μ̂` saturates — the reason for the hypothesis `hv` — but not for the
identity and log links (`varF_ne_zero`) -/
example : (varF Family.poisson (invLinkF Family.poisson (⟨-700⟩ : Fl Minf))).val ≠ 0 :=
  varF_ne_zero Family.poisson (Or.inr (Or.inl rfl)) _

end Cv.Rounding8.Examples2

namespace Cv.Rounding8.Examples3
open Cv Cv.FlModel Cv.LA Cv.LA.Lu Cv.Rounding Cv.FactorRounding Cv.RoundingLU Cv.Rounding3 Cv.Rounding6
  Cv.Rounding7 Cv.Glm Finset
open Cv.RoundingLU.Examples (Minf Minf_u)
open Cv.Rounding7.Examples3

noncomputable local instance : ExpLnStd Minf := ExpLnStd.ofRnd Minf

theorem mapsI : muI.map (invLinkF Family.gaussian) = muI ∧
    (muI.map (invLinkF Family.gaussian)).map (varF Family.gaussian) = oI := by
  constructor
  · show muI.map (fun η => η) = muI
    simp
  · rfl

theorem stepI' : scoringStep solveSqrt Xi yI wI (⟨0⟩ : Fl Minf) 2 bI (muI.map (invLinkF Family.gaussian))
    ((muI.map (invLinkF Family.gaussian)).map (varF Family.gaussian))
    ((muI.map (invLinkF Family.gaussian)).map (varF Family.gaussian)) = some (sI, bI) := by
  rw [mapsI.2, mapsI.1]; exact stepI

theorem hdI' : LuPivotsOk Xi yI wI bI (muI.map (invLinkF Family.gaussian))
    ((muI.map (invLinkF Family.gaussian)).map (varF Family.gaussian))
    ((muI.map (invLinkF Family.gaussian)).map (varF Family.gaussian)) (⟨0⟩ : Fl Minf) 2 := by
  rw [mapsI.2, mapsI.1]; exact hdI

/-- **`fixed_point_exact_score` with `u = 1/100 > 0` and a nonzero absorbed step**: the Gaussian family on the
identity design, `β = (101, 202)`, `η̂ = muI` the COMPUTED linear predictor at `β` (`Rounding7.Examples3.etaIv`),
the scoring step `δ̂ = (1, 2) ≠ 0` leaves `β` unchanged (`stepI`); every hypothesis holds, so the whole conclusion
holds for this run -/
example := fixed_point_exact_score Family.gaussian (Or.inl rfl) Xi yI wI bI muI none (⟨0⟩ : Fl Minf) 2 2
  (by norm_num) (le_refl 2) rfl rfl rfl rfl rfl (by intro i hi; simp [varF]) sI stepI'
  (by rw [Minf_u]; norm_num) (by rw [Minf_u]; norm_num)
  (by show ((1 : Nat) : ℝ) * Minf.u < 1; rw [Minf_u]; norm_num) hdI'

/-- and the exact score at that float-converged `β` is NOT zero (so the bound is not a bound on `0`) -/
example : scoreExact Family.gaussian Xi yI wI bI 2 2 none (alphaEff (⟨0⟩ : Fl Minf)) 0 ≠ 0 := by
  norm_num [scoreExact, etaExact, xv, muF, offv, Finset.sum_range_succ, alphaEff]

end Cv.Rounding8.Examples3

namespace Cv.Rounding8.LMrun.Examples
open Cv Cv.Opt Cv.C10 Cv.C10D Cv.Rounding7.LM Finset

noncomputable local instance : BEq ℝ := ⟨fun a b => @decide (a = b) (Classical.propDecidable _)⟩
local instance : LawfulBEq ℝ where
  rfl := by intro a; show @decide (a = a) (Classical.propDecidable _) = true; simp
  eq_of_beq := by
    intro a b h
    have : @decide (a = b) (Classical.propDecidable _) = true := h
    simpa using this
noncomputable local instance : Transc ℝ :=
  ⟨Real.sqrt, Real.exp, Real.log, fun a _ => a, id, id, id, abs, id, id⟩
noncomputable local instance : FMax ℝ := ⟨max⟩

/-- the one-parameter linear model `f(θ) = θ·(1,1)ᵀ`, `y = (1,3)`, as an evaluator for `lmG` (state = the
parameter list) -/
noncomputable def R1 (θ : List ℝ) : List ℝ := [1 - nth θ 0, 3 - nth θ 0]
noncomputable def E1 : LMEval (List ℝ) ℝ where
  init θ := some (θ, R1 θ, [1, 1])
  vals tp := tp
  try_ tp δ := some (List.zipWith (· + ·) tp δ, R1 (List.zipWith (· + ·) tp δ))
  jac _ := some [1, 1]
  fresh tp := tp
  n := 2

theorem lin1 : LinModel E1 (fun _ => True) R1 (fun _ => [1, 1]) [1, 1] (fun k => if k = 0 then 1 else 3) 1 where
  laws := EvalLaws.on ⟨fun θ tp res jac h => by
      simp only [E1, Option.some.injEq, Prod.mk.injEq] at h
      obtain ⟨rfl, rfl, rfl⟩ := h; exact ⟨rfl, rfl, rfl⟩,
    fun tp δ tp' res' h => by
      simp only [E1, Option.some.injEq, Prod.mk.injEq] at h
      obtain ⟨rfl, rfl⟩ := h; exact ⟨rfl, rfl⟩,
    fun tp j h => by simp only [E1, Option.some.injEq] at h; exact h.symm,
    fun tp => rfl⟩
  hJf := fun _ _ => rfl
  hJl := rfl
  hn := by show 0 < 2; norm_num
  hR := by
    intro θ hθ
    refine ⟨rfl, fun k hk => ?_⟩
    have hk' : k < 2 := hk
    have : k = 0 ∨ k = 1 := by omega
    rcases this with rfl | rfl <;> simp [R1, nth]
  hcol := by
    intro i hi
    have : i = 0 := by omega
    subst this
    exact ⟨0, by show 0 < 2; norm_num, by simp [nth]⟩
  habs := fun _ => rfl
  hF := fun _ _ => rfl

/-- `D = A` for one parameter: `κ = 1` -/
theorem kappa1 : ∀ x : ℕ → ℝ, bD (Jm [1, 1] 1) 2 1 x x ≤ 1 * bA (Jm [1, 1] 1) 2 1 x x := by
  intro x
  simp [bD, bA, Jv, A, Jm, nth, Finset.sum_range_succ]
  nlinarith [sq_nonneg (x 0)]

theorem ls1 : IsLS (Jm [1, 1] 1) 2 1 (fun k => if k = 0 then (1 : ℝ) else 3) (fun _ => 2) := by
  intro i hi
  have : i = 0 := by omega
  subst this
  simp [grad, Jv, Jm, nth, Finset.sum_range_succ]
  norm_num

/-- the hypotheses of `lmLoop_linear` are satisfiable: the start state of `lmG` on this model satisfies the loop
invariant (`linInv_start`), `κ = 1`, `θ* = 2`; and `errA_le_of_grad` at `θ = 0` (gradient `4`, `d = 2`):
`‖0 − 2‖²_A = 8 ≤ 1·4²/2` -/
example : bA (Jm [1, 1] 1) 2 1 (fun j => (fun _ => (0 : ℝ)) j - (fun _ => (2 : ℝ)) j)
      (fun j => (fun _ => (0 : ℝ)) j - (fun _ => (2 : ℝ)) j) ≤
    1 * ∑ i ∈ range 1, grad (Jm [1, 1] 1) 2 1 (fun k => if k = 0 then (1 : ℝ) else 3) (fun _ => 0) i ^ 2
      / A (Jm [1, 1] 1) 2 i i :=
  errA_le_of_grad _ 2 1 1 zero_le_one kappa1 (A_pos lin1) _ _ _ ls1

example (h : LMHP ℝ) (hτ : 0 < h.tau) (s0 : LMSt (List ℝ) ℝ) (hs0 : lmStart E1 h [0] = some s0) :
    LinInv E1 (fun _ => True) R1 (fun _ => [1, 1]) [1, 1] (fun k => if k = 0 then 1 else 3) 1
      (max s0.mu 2) s0 :=
  linInv_start lin1 h hτ (by norm_num) [0] rfl s0 hs0

/-- `lmStart` does return on this model (so `linInv_start` is about an existing state) -/
example (h : LMHP ℝ) : ∃ s0, lmStart E1 h [0] = some s0 := by
  obtain ⟨c1, hc1, _, _⟩ := C05L.matmul_entry ([1, 1] : List ℝ) [1, 1] 2 1 2 1 true false rfl rfl
    (by norm_num) (by norm_num) (by simp)
  obtain ⟨c2, hc2, _, _⟩ := C05L.matmul_entry ([1, 1] : List ℝ) (R1 [0]) 2 1 2 1 true false rfl rfl
    (by norm_num) (by norm_num) (by simp)
  unfold lmStart
  simp [E1, jtjOf, jtrOf, hc1, hc2]

/-- the RPN program `p0 + p1·x` of the source's model-function interface -/
def prog01 : List (AD.Op ℝ) := [.param 0, .param 1, .x, .mul, .add]
noncomputable def cf01 (x : ℝ) (j : ℕ) : ℝ := if j = 0 then 1 else x

theorem prog01_lin (x : ℝ) (θ : List ℝ) (hθ : θ.length = 2) :
    valOf prog01 θ x = ∑ j ∈ range 2, cf01 x j * nth θ j ∧
    rowOf prog01 θ x = (List.range 2).map (cf01 x) := by
  obtain ⟨a, b, rfl⟩ : ∃ a b, θ = [a, b] := by
    match θ, hθ with
    | [a, b], _ => exact ⟨a, b, rfl⟩
  constructor
  · simp [valOf, sEval, sRun, sStep, prog01, sMul, sAdd, cf01, nth, Finset.sum_range_succ]
    ring
  · simp [rowOf, sEval, sRun, sStep, prog01, sMul, sAdd, cf01, List.range_succ]

/-- **the evaluator of the source on `p0 + p1·x` with data `x = (0,1,2)`, `y = (1,3,5)` is a `LinModel`** (w.r.t.
`WFSt`), so the LM-convergence theorems of this file apply to `lm prog01 …` -/
example : LinModel (tapeEval prog01 [0, 1, 2] [1, 3, 5]) WFSt (resOf prog01 [0, 1, 2] [1, 3, 5])
    (jacOf prog01 [0, 1, 2]) (linJac cf01 2 [0, 1, 2]) (fun k => nth ([1, 3, 5] : List ℝ) k) 2 :=
  tapeEval_linModel prog01 [0, 1, 2] [1, 3, 5] rfl (by norm_num) 2 cf01
    (fun x θ hθ => (prog01_lin x θ hθ).1) (fun x θ hθ => (prog01_lin x θ hθ).2)
    (by
      intro i hi
      have : i = 0 ∨ i = 1 := by omega
      rcases this with rfl | rfl
      · exact ⟨0, by norm_num, by simp [cf01]⟩
      · exact ⟨1, by norm_num, by simp [cf01, nth]⟩)
    (fun _ => rfl) (fun _ _ => rfl)

end Cv.Rounding8.LMrun.Examples
