import Compute.Model.Poly
import Compute.Generated.SrcC14Mut
/-
Source tie for C14, fifth pass (`Compute/Generated/SrcC14Mut.lean`, regenerated from the Rust source on every run by
`tools/rs2lean.py`, option `mut`): `PolynomialRegressor::fit` of `src/predict/polynomial.rs` as a whole function; its value is the
coefficient vector that `self.update(&coeffs)` stores.  `fit_eq`: it is the hand model `Cv.Poly.fit` at `p = coef.len()` — the length
assert, the Vandermonde matrix with `coef.len()` columns, `XᵀX` by `xtx(xv, x.len())`, its inverse, `Xᵀy` by
`matmul(xv, y, x.len(), y.len(), true, false)` and the final product `matmul(xtxinv, xty, p, p, false, false)`, in this order (each
step can panic: binds).  The model writes the chain in `do` notation and tests `x.len() ≠ y.len()`; nothing about the scalar is used.
-/
set_option linter.unusedSectionVars false
namespace Cv.SrcTie.C14Mut

variable {α : Type} [Add α] [Sub α] [Mul α] [Div α] [Neg α] [Zero α] [One α] [NatCast α] [IntCast α]
  [LT α] [DecidableLT α] [LE α] [DecidableLE α] [BEq α] [Cv.Transc α] [Inhabited α]

theorem fit_eq (coef x y : List α) : Cv.Src.C14Mut.fit coef x y = Cv.Poly.fit coef.length x y := by
  unfold Cv.Src.C14Mut.fit Cv.Poly.fit
  by_cases h : x.length = y.length
  · rw [if_pos h, if_neg (fun hn => hn h)]
    simp only [Option.bind_eq_bind, Option.bind_fun_some]
  · rw [if_neg h, if_pos h]

end Cv.SrcTie.C14Mut
