import Compute.Model.Rng
/-
Range and counting lemmas about the generator model `Model/Rng.lean` (no Mathlib).
-/
namespace Cv.Rng

theorem toNat_ofNat_lt {n : Nat} (h : n < 2 ^ 64) : (UInt64.ofNat n).toNat = n := by
  simp [UInt64.toNat_ofNat', Nat.mod_eq_of_lt h]

/-- `mulHi` is the quotient of the exact product by `2^64`. -/
theorem mulHi_toNat (a b : UInt64) : (mulHi a b).toNat = a.toNat * b.toNat / 2 ^ 64 := by
  unfold mulHi
  apply toNat_ofNat_lt
  have ha := a.toNat_lt
  have hb := b.toNat_lt
  apply Nat.div_lt_of_lt_mul
  exact Nat.mul_lt_mul'' ha hb

/-- The high word of `r·m` is below `m` (for `m > 0`). -/
theorem mulHi_lt (r m : UInt64) (hm : 0 < m.toNat) : (mulHi r m).toNat < m.toNat := by
  rw [mulHi_toNat]
  apply Nat.div_lt_of_lt_mul
  exact Nat.mul_lt_mul_of_pos_right r.toNat_lt hm

theorem f53_lt (g : Rng) : (g.f53).1 < 2 ^ 53 := by
  simp only [f53, u64]
  rw [UInt64.toNat_shiftRight]
  have h := (wyMix (g.s + wyInc)).toNat_lt
  have : (11 : UInt64).toNat % 64 = 11 := by decide
  rw [this, Nat.shiftRight_eq_div_pow]
  omega


/-! ### Lemire's bounded draw -/

/-- Rejection threshold of Lemire's method: `2^64 mod m` (computed as `(-m) mod m`). -/
def lemireT (m : UInt64) : UInt64 := (0 - m) % m

/-- A raw word `r` is accepted for bound `m` iff the low word of `r·m` is not below the threshold. -/
def lemireAccept (m r : UInt64) : Prop := ¬ (r * m < lemireT m)

theorem lemireT_toNat (m : UInt64) (hm : 0 < m.toNat) : (lemireT m).toNat = 2 ^ 64 % m.toNat := by
  unfold lemireT
  rw [UInt64.toNat_mod, UInt64.toNat_sub]
  have h := m.toNat_lt
  have h0 : (0 : UInt64).toNat = 0 := rfl
  have h1 : (2 ^ 64 - m.toNat) % 2 ^ 64 = 2 ^ 64 - m.toNat := Nat.mod_eq_of_lt (by omega)
  rw [h0, Nat.add_zero, h1]
  have h2 : 2 ^ 64 % m.toNat = ((2 ^ 64 - m.toNat) + m.toNat) % m.toNat := by
    congr 1; omega
  rw [h2, Nat.add_mod_right]

theorem lemireT_lt (m : UInt64) (hm : 0 < m.toNat) : (lemireT m).toNat < m.toNat := by
  rw [lemireT_toNat m hm]; exact Nat.mod_lt _ hm

theorem lemireLoop_spec {m t : UInt64} {fuel : Nat} {g g' : Rng} {v : UInt64}
    (h : lemireLoop m t fuel g = some (v, g')) : ∃ r : UInt64, ¬ (r * m < t) ∧ v = mulHi r m := by
  induction fuel generalizing g with
  | zero => simp [lemireLoop] at h
  | succ k ih =>
    simp only [lemireLoop] at h
    split at h
    · exact ih h
    · rename_i hr
      simp only [Option.some.injEq, Prod.mk.injEq] at h
      exact ⟨_, hr, h.1.symm⟩

/-- Every value returned by `u64LessThan` is the high word `mulHi r m` of an *accepted* raw word `r`. -/
theorem u64LessThan_spec {fuel : Nat} {m : UInt64} {g g' : Rng} {v : UInt64}
    (h : u64LessThan fuel m g = some (v, g')) : ∃ r : UInt64, lemireAccept m r ∧ v = mulHi r m := by
  simp only [u64LessThan] at h
  split at h
  · split at h
    · exact lemireLoop_spec h
    · rename_i _ hr
      simp only [Option.some.injEq, Prod.mk.injEq] at h
      exact ⟨_, hr, h.1.symm⟩
  · rename_i hr
    simp only [Option.some.injEq, Prod.mk.injEq] at h
    refine ⟨_, ?_, h.1.symm⟩
    intro hlt
    apply hr
    rw [UInt64.lt_iff_toNat_lt] at hlt ⊢
    by_cases hm : 0 < m.toNat
    · exact Nat.lt_trans hlt (lemireT_lt m hm)
    · have hm0 : m.toNat = 0 := by omega
      have : (lemireT m).toNat = 0 := by
        unfold lemireT; rw [UInt64.toNat_mod, hm0, Nat.mod_zero, UInt64.toNat_sub, hm0]; rfl
      omega

/-- Range of the bounded draw: for `m > 0` every returned value is `< m`. -/
theorem u64LessThan_lt {fuel : Nat} {m : UInt64} {g g' : Rng} {v : UInt64}
    (h : u64LessThan fuel m g = some (v, g')) (hm : 0 < m) : v < m := by
  obtain ⟨r, _, rfl⟩ := u64LessThan_spec h
  rw [UInt64.lt_iff_toNat_lt] at hm ⊢
  exact mulHi_lt r m hm

theorem lemireLoop_fuel_mono {m t : UInt64} {f f' : Nat} {g : Rng} {r : UInt64 × Rng}
    (h : lemireLoop m t f g = some r) (hf : f ≤ f') : lemireLoop m t f' g = some r := by
  induction f generalizing g f' with
  | zero => simp [lemireLoop] at h
  | succ k ih =>
    obtain ⟨k', rfl⟩ : ∃ k', f' = k' + 1 := ⟨f' - 1, by omega⟩
    simp only [lemireLoop] at h ⊢
    split
    · rename_i hr; rw [if_pos hr] at h; exact ih h (by omega)
    · rename_i hr; rw [if_neg hr] at h; exact h

/-- More fuel never changes a successful bounded draw (value and next state). -/
theorem u64LessThan_fuel_mono {f f' : Nat} {m : UInt64} {g : Rng} {r : UInt64 × Rng}
    (h : u64LessThan f m g = some r) (hf : f ≤ f') : u64LessThan f' m g = some r := by
  simp only [u64LessThan] at h ⊢
  split
  · rename_i h1; rw [if_pos h1] at h
    split
    · rename_i h2; rw [if_pos h2] at h; exact lemireLoop_fuel_mono h hf
    · rename_i h2; rw [if_neg h2] at h; exact h
  · rename_i h1; rw [if_neg h1] at h; exact h



/-! ### Signed and inclusive ranges -/

theorem asU64_toNat {i : Int} (h0 : 0 ≤ i) (h1 : i < 2 ^ 64) : (asU64 i).toNat = i.toNat := by
  unfold asU64
  have : i % 2 ^ 64 = i := Int.emod_eq_of_lt h0 h1
  rw [this]
  apply toNat_ofNat_lt
  omega

theorem i64LessThan_range {fuel : Nat} {m : Int} {g g' : Rng} {v : Int}
    (h : i64LessThan fuel m g = some (v, g')) (h0 : 0 < m) (h1 : m < 2 ^ 63) : 0 ≤ v ∧ v < m := by
  unfold i64LessThan at h
  rw [Option.map_eq_some_iff] at h
  obtain ⟨⟨u, g1⟩, hu, he⟩ := h
  simp only [Prod.mk.injEq] at he
  have hm : (asU64 m).toNat = m.toNat := asU64_toNat (by omega) (by omega)
  have hpos : 0 < asU64 m := by rw [UInt64.lt_iff_toNat_lt, hm]; show 0 < m.toNat; omega
  have hlt := u64LessThan_lt hu hpos
  rw [UInt64.lt_iff_toNat_lt, hm] at hlt
  have : u.toNat < 2 ^ 63 := by omega
  rw [← he.1]
  unfold asI64
  rw [if_pos this]
  omega

/-- Range of `i64_in_range`: every returned value lies in `[min, max]`. -/
theorem i64InRange_range {fuel : Nat} {a b : Int} {g g' : Rng} {v : Int}
    (h : i64InRange fuel a b g = some (v, g')) : a ≤ v ∧ v ≤ b := by
  unfold i64InRange at h
  split at h
  · split at h
    · rename_i hab hov
      rw [Option.map_eq_some_iff] at h
      obtain ⟨⟨w, g1⟩, hw, he⟩ := h
      simp only [Prod.mk.injEq] at he
      have := i64LessThan_range hw (by omega) hov.2
      omega
    · simp at h
  · simp at h

/-- `i64_in_range` panics exactly on a failed assert or an `i64` overflow of `max + 1 - min`;
apart from that it fails only if the bounded draw ran out of fuel. -/
theorem i64InRange_eq_none_iff {fuel : Nat} {a b : Int} {g : Rng} :
    i64InRange fuel a b g = none ↔
      ¬ (a < b ∧ b + 1 < 2 ^ 63 ∧ b + 1 - a < 2 ^ 63) ∨ u64LessThan fuel (asU64 (b + 1 - a)) g = none := by
  unfold i64InRange i64LessThan
  by_cases h1 : a < b
  · by_cases h2 : b + 1 < 2 ^ 63 ∧ b + 1 - a < 2 ^ 63
    · rw [if_pos h1, if_pos h2, Option.map_eq_none_iff, Option.map_eq_none_iff]
      constructor
      · intro h; exact Or.inr h
      · rintro (h | h)
        · exact absurd ⟨h1, h2.1, h2.2⟩ h
        · exact h
    · rw [if_pos h1, if_neg h2]
      constructor
      · intro _; exact Or.inl (fun h => h2 ⟨h.2.1, h.2.2⟩)
      · intro _; rfl
  · rw [if_neg h1]
    constructor
    · intro _; exact Or.inl (fun h => h1 h.1)
    · intro _; rfl

theorem u64InRange_range {fuel : Nat} {a b : UInt64} {g g' : Rng} {v : UInt64}
    (h : u64InRange fuel a b g = some (v, g')) : a ≤ v ∧ v ≤ b := by
  unfold u64InRange at h
  split at h
  · split at h
    · rename_i hab hov
      rw [Option.map_eq_some_iff] at h
      obtain ⟨⟨w, g1⟩, hw, he⟩ := h
      simp only [Prod.mk.injEq] at he
      rw [UInt64.lt_iff_toNat_lt] at hab
      have hb := b.toNat_lt
      have hspan : (b + 1 - a).toNat = b.toNat + 1 - a.toNat := by
        rw [UInt64.toNat_sub, UInt64.toNat_add]
        have : (1 : UInt64).toNat = 1 := rfl
        rw [this, Nat.mod_eq_of_lt hov]
        omega
      have hlt := u64LessThan_lt hw (by rw [UInt64.lt_iff_toNat_lt, hspan]; show 0 < _; omega)
      rw [UInt64.lt_iff_toNat_lt, hspan] at hlt
      rw [← he.1, UInt64.le_iff_toNat_le, UInt64.le_iff_toNat_le, UInt64.toNat_add]
      have : (a.toNat + w.toNat) % 2 ^ 64 = a.toNat + w.toNat := Nat.mod_eq_of_lt (by omega)
      rw [this]
      omega
    · simp at h
  · simp at h

/-! ### Sequences of draws -/

theorem drawN_length {β : Type} (f : Rng → β × Rng) (n : Nat) (g : Rng) : (drawN f n g).1.length = n := by
  induction n generalizing g with
  | zero => rfl
  | succ k ih => simp [drawN, ih]

theorem drawN?_spec {β : Type} {f : Rng → Option (β × Rng)} {P : β → Prop}
    (hf : ∀ g x g', f g = some (x, g') → P x) {n : Nat} {g g' : Rng} {xs : List β}
    (h : drawN? f n g = some (xs, g')) : xs.length = n ∧ ∀ x ∈ xs, P x := by
  induction n generalizing g g' xs with
  | zero =>
    simp only [drawN?, Option.some.injEq, Prod.mk.injEq] at h
    rw [← h.1]; simp
  | succ k ih =>
    simp only [drawN?] at h
    rw [Option.bind_eq_some_iff] at h
    obtain ⟨⟨x, g1⟩, hx, h⟩ := h
    rw [Option.map_eq_some_iff] at h
    obtain ⟨⟨ys, g2⟩, hys, he⟩ := h
    simp only [Prod.mk.injEq] at he
    obtain ⟨hl, hall⟩ := ih hys
    rw [← he.1]
    refine ⟨by simp [hl], ?_⟩
    intro y hy
    rcases List.mem_cons.1 hy with rfl | hy
    · exact hf _ _ _ hx
    · exact hall y hy

end Cv.Rng

namespace Cv.DiscreteUniform
open Cv.Rng

/-- Range of `DiscreteUniform::sample` (integer value): within `[lower, upper]`. -/
theorem sampleInt_range {fuel : Nat} {lo hi : Int} {g g' : Rng} {v : Int}
    (h : sampleInt fuel lo hi g = some (v, g')) : lo ≤ v ∧ v ≤ hi := by
  unfold sampleInt at h
  split at h
  · rename_i heq
    simp only [Option.some.injEq, Prod.mk.injEq] at h
    omega
  · exact i64InRange_range h

/-- Repaired F22: equal bounds return `lower` without touching the generator, for every fuel. -/
theorem sampleInt_eq (fuel : Nat) (lo : Int) (g : Rng) : sampleInt fuel lo lo g = some (lo, g) := by
  simp [sampleInt]

theorem sampleIntN_spec {fuel : Nat} {lo hi : Int} {n : Nat} {g g' : Rng} {xs : List Int}
    (h : sampleIntN fuel lo hi n g = some (xs, g')) : xs.length = n ∧ ∀ x ∈ xs, lo ≤ x ∧ x ≤ hi :=
  drawN?_spec (P := fun x => lo ≤ x ∧ x ≤ hi) (fun _ _ _ hx => sampleInt_range hx) h

end Cv.DiscreteUniform
