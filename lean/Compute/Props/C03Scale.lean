import Compute.Props.C03
import Compute.Props.C03Witness
/-
C03 — scale equivariance of the MVN sampler (exact arithmetic).

`MVN::sample` returns `mean + L·z` with `L` the cached Cholesky factor and `z` the `dim` standard-normal draws.  Replacing the
factor `L` by `c·L` (what replacing the covariance `Σ` by `c²Σ` does to its Cholesky factor for `c > 0`) and keeping the
generator state gives `mean + c·(x − mean)`: the same draws are consumed, the same state is left, and every coordinate moves
by the factor `c` about its mean.  In particular no coordinate can collapse onto its mean when the covariance is scaled down
(the seeded change C03u: a "skip small entries" shortcut in `matmul` made coordinates with a Cholesky row below `2⁻⁵²`
degenerate).  The run-time counterpart is `oracle_scale` / `oracle_mvn_rows` in tools/cv/c03.py (bit-exact at powers of two).
-/
set_option linter.unusedSectionVars false
set_option linter.unusedSimpArgs false
set_option linter.unusedVariables false

namespace Cv.C03Scale
open Cv Cv.C03L Cv.C03
open scoped Cv.C09 Cv.C03L

/-- the sampling record with the factor multiplied by `c` -/
def scaleDist (c : ℝ) (d : MVN.Dist ℝ) : MVN.Dist ℝ :=
  ⟨d.mean, ⟨d.chol.data.map (fun v => c * v), d.chol.nrows, d.chol.ncols⟩⟩

/-- **Scale equivariance of `MVN::sample`** (partial correctness: given that the `dim` normal draws return). -/
theorem mvn_scale_equivariance_partial (fuel : Nat) (d : MVN.Dist ℝ) (c : ℝ) (g g' : Rng) (z : List ℝ) (dim : Nat) (hdim : 0 < dim)
    (hmean : d.mean.length = dim) (hr : d.chol.nrows = dim) (hc : d.chol.ncols = dim) (hwf : d.chol.WF)
    (hz : Rng.drawN? (Normal.sample fuel (0 : ℝ) 1) dim g = some (z, g')) :
    ∃ x xc, MVN.sample fuel d g = some (x, g') ∧ MVN.sample fuel (scaleDist c d) g = some (xc, g') ∧
      x.length = dim ∧ xc.length = dim ∧ ∀ i, i < dim → xc[i]! = d.mean[i]! + c * (x[i]! - d.mean[i]!) := by
  obtain ⟨x, hx, hxl, hxe⟩ := mvn_sample_spec_partial fuel d g g' z dim hdim hmean hr hc hwf hz
  have hwf' : (scaleDist c d).chol.WF := by
    unfold scaleDist Mat.WF; simp only [List.length_map]; exact hwf
  obtain ⟨xc, hxc, hxcl, hxce⟩ := mvn_sample_spec_partial fuel (scaleDist c d) g g' z dim hdim hmean hr hc hwf' hz
  refine ⟨x, xc, hx, hxc, hxl, hxcl, ?_⟩
  intro i hi
  rw [hxce i hi, hxe i hi]
  have hlen : d.chol.data.length = dim * dim := by
    have := hwf; unfold Mat.WF at this; rw [hr, hc] at this; exact this
  have hent : ∀ k, k < dim → (scaleDist c d).chol.data[i * dim + k]! = c * d.chol.data[i * dim + k]! := by
    intro k hk
    have hlt : i * dim + k < d.chol.data.length := by
      rw [hlen]; nlinarith [Nat.succ_le_of_lt hi]
    have hlt' : i * dim + k < (d.chol.data.map (fun v => c * v)).length := by simpa using hlt
    show (d.chol.data.map (fun v => c * v))[i * dim + k]! = _
    rw [getElem!_pos (d.chol.data.map (fun v => c * v)) (i * dim + k) hlt', getElem!_pos d.chol.data (i * dim + k) hlt,
      List.getElem_map]
  have hsum : ∑ k ∈ Finset.range dim, (scaleDist c d).chol.data[i * dim + k]! * z[k]!
      = c * ∑ k ∈ Finset.range dim, d.chol.data[i * dim + k]! * z[k]! := by
    rw [Finset.mul_sum]
    apply Finset.sum_congr rfl
    intro k hk
    rw [hent k (Finset.mem_range.mp hk)]; ring
  show (scaleDist c d).mean[i]! + _ = _
  rw [hsum]
  show d.mean[i]! + _ = _
  ring

/-- Non-vacuity: dimension 2, factor `[[2,0],[1,3]]`, scale `2⁻⁶⁰`, seed 1 (the two normal draws return: `C03Witness`). -/
example : ∃ z g', Rng.drawN? (Normal.sample 1 (0 : ℝ) 1) 2 ⟨1⟩ = some (z, g') := by
  obtain ⟨z, g', h, _⟩ := Cv.C03W.normal_pair_witness
  exact ⟨z, g', h⟩

end Cv.C03Scale
