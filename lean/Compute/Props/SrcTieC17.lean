import Compute.Model.Transforms
import Compute.Generated.SrcC17
/-
Source tie for C17 (`src/functions/statistical.rs`): the definitions of `Compute/Generated/SrcC17.lean` are
regenerated from the Rust source by `tools/rs2lean.py` on every run (`tools/cv/srctie.py`); each theorem below
says that the regenerated function IS the hand-written model function of `Compute/Model/Transforms.lean` — as
functions, for every scalar type carrying the classes (so in particular at `Float`: the same computation,
operation by operation).  Proofs are `rfl` or unfolding plus the Boolean identity `ite_not`
(`if ¬c then a else b = if c then b else a`); no arithmetic rewriting of any kind.
An edit of a formula in the Rust source changes the regenerated term and the theorem stops checking.
-/
set_option linter.unusedSectionVars false
namespace Cv.SrcTie.C17

variable {α : Type} [Add α] [Sub α] [Mul α] [Div α] [Neg α] [Zero α] [One α] [NatCast α] [IntCast α]
  [LT α] [DecidableLT α] [LE α] [DecidableLE α] [BEq α] [Cv.Transc α]

/-- `logistic` of the source is the model's `Cv.logistic`. -/
theorem logistic_eq : (Cv.Src.C17.logistic : α → α) = Cv.logistic := rfl

/-- `logit` of the source (`if !(0. ..=1.).contains(&p) { panic }`) is the model's `Cv.logit`
(which tests the un-negated range and swaps the branches). -/
theorem logit_eq : (Cv.Src.C17.logit : α → Option α) = Cv.logit := by
  funext p
  simp only [Cv.Src.C17.logit, Cv.logit, ite_not]

/-- `boxcox` of the source is the model's `Cv.boxcox` (the model shares `boxcoxBody` between both transforms). -/
theorem boxcox_eq : (Cv.Src.C17.boxcox : α → α → Option α) = Cv.boxcox := rfl

/-- `boxcox_shifted` of the source is the model's `Cv.boxcoxShifted`. -/
theorem boxcoxShifted_eq : (Cv.Src.C17.boxcoxShifted : α → α → α → Option α) = Cv.boxcoxShifted := rfl

/-- The instance used by the compiled driver: at `Float` the regenerated and the hand-written `boxcox` coincide. -/
example : (Cv.Src.C17.boxcox : Float → Float → Option Float) = Cv.boxcox := boxcox_eq

end Cv.SrcTie.C17
