import Compute.Model.Interp
namespace Cv.C16
theorem placeholder : scanIdx (3 : Nat) [1, 2, 5, 7] = 2 := by decide
end Cv.C16
