import Compute.Lemmas.Rounding6
import Compute.Props.C20
import Compute.Props.Rounding5
import Mathlib.Tactic.NormNum
/-
Worst-case rounding-error theorems, sixth batch: END-TO-END residual bounds of the least-squares routes
(C14 `fit`, C13 Yule–Walker fit), composed from what is already proved about the pieces: products
(`Rounding3.matmul_error_succ`), factorisations and triangular solves (`RoundingLU`), for the *same*
model terms that are tied bit for bit to the Rust code at `Float`, instantiated at `Fl M`.

THE ROUTE.  Both fits compute an explicit inverse, `invert_matrix(Ĝ)` = `solve_sys(Ĝ, I)` (one
Cholesky/LU route of `solve` for all `n` unit vectors), and multiply: `ĉ = fl(X̂·b̂)`.  For such a route
there is no componentwise backward error in general; the honest statement is the RESIDUAL bound

    |Ĝ·ĉ − b̂| ≤ γ_{3n+1}·W·(|X̂||b̂|) + γ_{n+1}·|Ĝ|·(|X̂||b̂|),      W = |L̂||L̂ᵀ|  or  Pᵀ|L̂||Û|,

(first term: each column of `X̂` solves a perturbed system — `RoundingLU`; second: rounding of the
final product), plus the errors of forming `Ĝ`, `b̂`.

TRUSTED LINK (stated, not proved), as in `Props/RoundingLU.lean`: IEEE binary64 arithmetic and `sqrt` obey
`fl(x) = x(1+δ)`, `|δ| ≤ 2⁻⁵³` barring overflow/underflow.  Bare model throughout.

Headline theorems (namespace `Cv.Rounding6`):
* `invertMatrix_residual` (Lemmas)   |I − Ĝ·X̂| ≤ γ_{3n+1}·W|X̂|
* C14 `vandermonde_entry_fac`         V̂[r,j] = x_rʲ·(1+θ), at most `j` rounding factors (`powi_fac`)
* C14 `fit_residual`                  |V̂ᵀV̂·ĉ − V̂ᵀy| ≤ γ_{3p+1}·W·Z + γ_{p+1}·|Ĝ|·Z
                                          + γ_{N+1}·(|V̂|ᵀ|V̂|·|ĉ| + |V̂|ᵀ|y|),   Z = |X̂||b̂|
* C13 `yuleWalker_residual`           |R̂·φ̂ − r̂| ≤ γ_{3p+1}·W·Z + γ_{p+1}·|R̂|·Z for the Toeplitz system of
                                      the *computed* autocorrelations
* C08 `online_error`                  full forward bound of `sample_covariance_online` (completes
                                      `Rounding5.online_error_partial`)
* C20 `rbf_matrix_near`, `rbf_matrix_range_stdmodel`, `rq_matrix_near`   the Gram matrices `fwdM`, entrywise; with the
                                      extra hypothesis `ExpLeOne` (library `exp ≤ 1` on `x ≤ 0`): `0 < K̂ ≤ σ²(1+u)`
* C01 `luRoute_residual_norm` / `luRoute_residual_growth` (‖b−Ax̂‖∞ ≤ γ_{3n}·ρ·‖A‖∞·‖x̂‖∞, `ρ` explicit, not
      bounded), `chol_weight_le`, `choleskyRoute_residual_norm` (‖b−Ax̂‖∞ ≤ γ_{3n+1}·n/(1−γ_{n+1})·max aᵢᵢ·‖x̂‖∞:
      no growth quantity on the SPD route)
NOT DONE: the C06 IRLS step as a perturbed weighted normal system.
Non-vacuity: `namespace Examples` / `Examples2` at the end.
-/
set_option linter.unusedSectionVars false
set_option linter.unusedVariables false
namespace Cv.Rounding6
open Cv Cv.FlModel Cv.LA Cv.LA.Lu Cv.Rounding Cv.FactorRounding Cv.RoundingLU Cv.Rounding3 Finset

variable {M : FlModel} [FlSqrt M]

/-! ### C14: `PolynomialRegressor::fit` -/

/-- **entries of the computed Vandermonde matrix**: `V̂[r,j] = x_rʲ·(1+θ)` with at most `j` rounding factors -/
theorem vandermonde_entry_fac (x : List (Fl M)) (p r j : Nat) (hr : r < x.length) (hj : j < p)
    (hj64 : j < 2 ^ 64) :
    ∃ f, M.Fac j f ∧ ev p (Poly.vandermonde x p) r j = (vv x r) ^ j * f := by
  obtain ⟨f, hf, hv⟩ := powi_fac (rd x r) j hj64
  refine ⟨f, hf, ?_⟩
  unfold ev vv
  rw [← bang_eq_rd, C14L.vandermonde_get x p r j hr hj, bang_eq_rd, hv]

/-- **end-to-end residual of `fit`** (route: `Ĝ = xtx(V̂)`, `X̂ = invert_matrix(Ĝ)`, `b̂ = V̂ᵀy`, `ĉ = X̂·b̂`).
With `V̂` the computed `N × p` Vandermonde matrix, for every row `i` of the normal equations

  `|(V̂ᵀV̂·ĉ − V̂ᵀy)ᵢ| ≤ γ_{3p+1}·Σ_m W[i,m]·Z_m + γ_{p+1}·Σ_j |Ĝ[i,j]|·Z_j
                      + γ_{N+1}·Σ_j (|V̂|ᵀ|V̂|)[i,j]·|ĉ_j| + γ_{N+1}·(|V̂|ᵀ|y|)ᵢ`,

`Z = |X̂||b̂|`, `W` the weight of the route taken on `Ĝ` (`SolverWeight`).  On the LU route the pivots of
the factorisation of `Ĝ` are assumed non-zero (`hd`). -/
theorem fit_residual (p : Nat) (x y c : List (Fl M)) (hp : 2 ≤ p) (hN : 0 < x.length)
    (h : Poly.fit p x y = some c)
    (hu1 : ((3 * p + 1 : Nat) : ℝ) * M.u < 1) (hu2 : ((x.length + 1 : Nat) : ℝ) * M.u < 1)
    (hd : ∀ g, xtx (Poly.vandermonde x p) x.length = some g → route g = some none →
      ∀ f piv, lu g = some (f, piv) → ∀ k, k < p → ev p f k k ≠ 0) :
    ∃ g ginv xty W, xtx (Poly.vandermonde x p) x.length = some g ∧ invertMatrix g = some ginv ∧
      matmul (Poly.vandermonde x p) y x.length x.length true false = some xty ∧
      SolverWeight p g W ∧ c.length = p ∧
      ∀ i, i < p →
        |∑ j ∈ range p, (∑ r ∈ range x.length,
              ev p (Poly.vandermonde x p) r i * ev p (Poly.vandermonde x p) r j) * vv c j
            - ∑ r ∈ range x.length, ev p (Poly.vandermonde x p) r i * vv y r| ≤
          M.γ (3 * p + 1) * ∑ m ∈ range p, W i m * (∑ k ∈ range p, |ev p ginv m k| * |vv xty k|)
          + M.γ (p + 1) * ∑ j ∈ range p, |ev p g i j| * (∑ k ∈ range p, |ev p ginv j k| * |vv xty k|)
          + M.γ (x.length + 1) * ∑ j ∈ range p, (∑ r ∈ range x.length,
              |ev p (Poly.vandermonde x p) r i| * |ev p (Poly.vandermonde x p) r j|) * |vv c j|
          + M.γ (x.length + 1) * ∑ r ∈ range x.length, |ev p (Poly.vandermonde x p) r i| * |vv y r| := by
  obtain ⟨hxy, g, ginv, xty, hg, hginv, hxty, hc⟩ := fit_parts p x y c h
  set V := Poly.vandermonde x p with hV
  set N := x.length with hNdef
  have hVl : V.length = N * p := C14L.vandermonde_length x p
  have hun := M.u_nonneg
  -- forming the normal matrix and the right-hand side
  obtain ⟨g', hg1, hg2, hg3⟩ := matmulTN_error V V N p p hVl hVl hN hu2
  have hgg : g' = g := Option.some.inj (hg1.symm.trans hg)
  subst hgg
  obtain ⟨b', hb1, hb2, hb3⟩ := matmulTN_error V y N p 1 hVl (by rw [← hxy]; simp [hNdef]) hN hu2
  have hbb : b' = xty := Option.some.inj (hb1.symm.trans hxty)
  subst hbb
  -- the computed inverse
  obtain ⟨hXl, W, hW, hinv⟩ := invertMatrix_residual g' ginv p hg2 hp hginv hu1 (hd g' hg)
  -- the final product
  have hup : ((p + 1 : Nat) : ℝ) * M.u < 1 :=
    lt_of_le_of_lt (mul_le_mul_of_nonneg_right (Nat.cast_le.mpr (by omega)) hun) hu1
  obtain ⟨c', hc1, hc2, hc3⟩ := matmulNN_error ginv b' p p 1 hXl hb2 (by omega) (by omega) hup
  have hcc : c' = c := Option.some.inj (hc1.symm.trans hc)
  subst hcc
  refine ⟨g', ginv, b', W, hg, hginv, hxty, hW, by simpa using hc2, fun i hi => ?_⟩
  have hprod : ∀ j, j < p → |vv c' j - ∑ k ∈ range p, ev p ginv j k * vv b' k| ≤
      M.γ (p + 1) * ∑ k ∈ range p, |ev p ginv j k| * |vv b' k| := by
    intro j hj
    have := hc3 j 0 hj (by norm_num)
    simpa only [ev_one] using this
  have hE := normal_residual_core p (ev p g') (ev p ginv) W (vv b') (vv c') _ _ hinv hprod i hi
  have hG : ∀ j, j < p → |ev p g' i j - ∑ r ∈ range N, ev p V r i * ev p V r j| ≤
      M.γ (N + 1) * ∑ r ∈ range N, |ev p V r i| * |ev p V r j| := fun j hj => hg3 i j hi hj
  have hb : |vv b' i - ∑ r ∈ range N, ev p V r i * vv y r| ≤
      M.γ (N + 1) * ∑ r ∈ range N, |ev p V r i| * |vv y r| := by
    have := hb3 i 0 hi (by norm_num)
    simpa only [ev_one] using this
  exact formed_system_residual p (fun i j => ∑ r ∈ range N, ev p V r i * ev p V r j) (ev p g')
    (fun i j => ∑ r ∈ range N, |ev p V r i| * |ev p V r j|)
    (fun i => ∑ r ∈ range N, ev p V r i * vv y r) (vv b')
    (fun i => ∑ r ∈ range N, |ev p V r i| * |vv y r|) (vv c') (M.γ (N + 1)) _ i hG hb hE

/-! ### C13: the Yule–Walker fit of `AR::fit` -/

/-- **end-to-end residual of the Yule–Walker solve** (route: `R̂ = toeplitz(âc[..p])`,
`X̂ = invert_matrix(R̂)`, `φ̂ = X̂·âc[1..]`, stored reversed): with `âc = fitAcf p data` the *computed*
autocorrelations, for every row `i`

  `|Σ_j âc[|i−j|]·φ̂_j − âc[i+1]| ≤ γ_{3p+1}·Σ_m W[i,m]·Z_m + γ_{p+1}·Σ_j |âc[|i−j|]|·Z_j`,

`Z_m = Σ_k |X̂[m,k]|·|âc[k+1]|` — the Toeplitz matrix is assembled without rounding, so there is no
forming error.  (The error of `âc` itself is the subject of `Rounding3.acf_*`.) -/
theorem yuleWalker_residual (p : Nat) (data : List (Fl M)) (ic : Fl M) (co : List (Fl M)) (hp : 2 ≤ p)
    (h : TS.arFit p data = some (ic, co))
    (hu1 : ((3 * p + 1 : Nat) : ℝ) * M.u < 1)
    (hd : route (TS.toeplitz ((TS.fitAcf p data).take p)) = some none →
      ∀ f piv, lu (TS.toeplitz ((TS.fitAcf p data).take p)) = some (f, piv) → ∀ k, k < p → ev p f k k ≠ 0) :
    ∃ rinv W, invertMatrix (TS.toeplitz ((TS.fitAcf p data).take p)) = some rinv ∧
      SolverWeight p (TS.toeplitz ((TS.fitAcf p data).take p)) W ∧
      ic = TS.mean data ∧ co.length = p ∧
      ∀ i, i < p →
        |∑ j ∈ range p, vv (TS.fitAcf p data) (if j ≤ i then i - j else j - i) * vv co.reverse j
            - vv (TS.fitAcf p data) (i + 1)| ≤
          M.γ (3 * p + 1) * ∑ m ∈ range p, W i m *
              (∑ k ∈ range p, |ev p rinv m k| * |vv (TS.fitAcf p data) (k + 1)|)
          + M.γ (p + 1) * ∑ j ∈ range p, |vv (TS.fitAcf p data) (if j ≤ i then i - j else j - i)| *
              (∑ k ∈ range p, |ev p rinv j k| * |vv (TS.fitAcf p data) (k + 1)|) := by
  obtain ⟨hp0, rinv, c, hrinv, hc, hic, hco⟩ := arFit_parts p data ic co h
  set ac := TS.fitAcf p data with hac
  have hacl : ac.length = p + 1 := fitAcf_length p data
  have hun := M.u_nonneg
  have hTl : (TS.toeplitz (ac.take p)).length = p * p :=
    (toeplitz_ev ac p 0 0 (by omega) (by omega) (by omega)).1
  obtain ⟨hXl, W, hW, hinv⟩ := invertMatrix_residual _ rinv p hTl hp hrinv hu1 hd
  have hup : ((p + 1 : Nat) : ℝ) * M.u < 1 :=
    lt_of_le_of_lt (mul_le_mul_of_nonneg_right (Nat.cast_le.mpr (by omega)) hun) hu1
  obtain ⟨c', hc1, hc2, hc3⟩ := matmulNN_error rinv (ac.drop 1) p p 1 hXl (by simp [hacl])
    (by omega) (by omega) hup
  have hcc : c' = c := Option.some.inj (hc1.symm.trans hc)
  subst hcc
  have hdrop : ∀ k, vv (ac.drop 1) k = vv ac (k + 1) := by
    intro k
    simp [vv, rd, List.getD_eq_getElem?_getD]
  have hrev : co.reverse = c' := by rw [hco, List.reverse_reverse]
  refine ⟨rinv, W, hrinv, hW, hic, by rw [hco]; simpa using hc2, fun i hi => ?_⟩
  have hprod : ∀ j, j < p → |vv c' j - ∑ k ∈ range p, ev p rinv j k * vv (ac.drop 1) k| ≤
      M.γ (p + 1) * ∑ k ∈ range p, |ev p rinv j k| * |vv (ac.drop 1) k| := by
    intro j hj
    have := hc3 j 0 hj (by norm_num)
    simpa only [ev_one] using this
  have hE := normal_residual_core p (ev p (TS.toeplitz (ac.take p))) (ev p rinv) W (vv (ac.drop 1))
    (vv c') _ _ hinv hprod i hi
  rw [hrev]
  have eT : ∀ j, j ∈ range p → ev p (TS.toeplitz (ac.take p)) i j =
      vv ac (if j ≤ i then i - j else j - i) := fun j hj =>
    (toeplitz_ev ac p i j (by omega) hi (Finset.mem_range.mp hj)).2
  rw [Finset.sum_congr rfl fun j hj => by rw [eT j hj],
    Finset.sum_congr rfl (fun j hj => by rw [eT j hj] :
      ∀ j ∈ range p, |ev p (TS.toeplitz (ac.take p)) i j| * _ = _)] at hE
  simp only [hdrop] at hE
  exact hE

/-! ### C08: the online covariance, full forward bound -/

section online
open Cv.C08 Cv.Rounding2

omit [FlSqrt M] in
/-- **`sample_covariance_online`, forward error** (completes `Rounding5.online_error_partial`).  Data bounded
by `X`, `Y`, spreads by `R_x`, `R_y`, representable data, `1 as f64` and the counter values `0..n` exact
(`n < 2⁵³` at `f64`); `E_x = wE M n X ≈ (n/2+6.5)·u·X`, `E_y` likewise bound the errors of all running
means (`Rounding2.welford_prefix_mean_error`, the running means of the online loop *are* Welford's:
`online_means`).  With `D = n·(R_x·E_y + R_y·E_x + E_x·E_y)`:

  `|ĉ − C(x,y)/(n−1)| ≤ (γ_{n+4}·(n·R_x·R_y + D) + D)/(n−1)`,   `C(x,y) = Σ(xᵢ−x̄)(yᵢ−ȳ)`.

As for Welford's variance the first-order term `D/(n−1) ≈ n²·u·(R_x·Y + R_y·X)/(n−1)` is proportional to
the *size* of the data (`Rounding2.welford_mean_term_necessary`), the rest is shift invariant. -/
theorem online_error (x y : List (Fl M)) (X Y Rx Ry : ℝ) (hxy : x.length = y.length) (hn : 2 ≤ x.length)
    (hX : ∀ a ∈ x, |a.val| ≤ X) (hY : ∀ a ∈ y, |a.val| ≤ Y)
    (hRx : ∀ a ∈ x, ∀ b ∈ x, |a.val - b.val| ≤ Rx) (hRy : ∀ a ∈ y, ∀ b ∈ y, |a.val - b.val| ≤ Ry)
    (h1 : M.rnd 1 = 1) (hrx : ∀ a ∈ x, a.Rep) (hry : ∀ a ∈ y, a.Rep)
    (hN : ∀ k : Nat, k ≤ x.length → M.rnd (k : ℝ) = k)
    (h : ((4 * x.length : Nat) : ℝ) * M.u < 1) (h4 : ((x.length + 4 : Nat) : ℝ) * M.u < 1) :
    ∃ v, sampleCovarianceOnline x y = some v ∧
      |v.val - comoment (vals x) (vals y) / ((x.length - 1 : Nat) : ℝ)| ≤
        (M.γ (x.length + 4) * (x.length * (Rx * Ry)
            + x.length * (Rx * wE M x.length Y + Ry * wE M x.length X + wE M x.length X * wE M x.length Y))
          + x.length * (Rx * wE M x.length Y + Ry * wE M x.length X + wE M x.length X * wE M x.length Y))
          / ((x.length - 1 : Nat) : ℝ) := by
  obtain ⟨v, hv, hp⟩ := Rounding5.online_pert_partial x y hxy (by omega) hN
  refine ⟨v, hv, ?_⟩
  set P := List.zip x y with hP
  have hPl : P.length = x.length := by simp [hP, hxy]
  have hPx : P.map Prod.fst = x := List.map_fst_zip (by omega)
  have hPy : P.map Prod.snd = y := List.map_snd_zip (by omega)
  have hy4 : ((4 * y.length : Nat) : ℝ) * M.u < 1 := by rw [← hxy]; exact h
  obtain ⟨es, hl, hsum, habs, hclose⟩ := onlineC_invariant Rx Ry (wE M x.length X) (wE M x.length Y) h1 P
    (fun p hp' => ⟨hrx _ (List.of_mem_zip hp').1, hry _ (List.of_mem_zip hp').2⟩)
    (fun k hk => hN k (by omega))
    (fun p hp' q hq => ⟨hRx _ (List.of_mem_zip hp').1 _ (List.of_mem_zip hq).1,
      hRy _ (List.of_mem_zip hp').2 _ (List.of_mem_zip hq).2⟩)
    (by
      intro Q hQ hne
      obtain ⟨m1, m2⟩ := online_means Q (fun k hk => hN k (by have := hQ.length_le; omega))
      rw [m1, m2]
      have p1 : Q.map Prod.fst <+: x := hPx ▸ hQ.map Prod.fst
      have p2 : Q.map Prod.snd <+: y := hPy ▸ hQ.map Prod.snd
      refine ⟨welford_prefix_mean_error x X hX h _ p1 (by simpa using hne), ?_⟩
      have := welford_prefix_mean_error y Y hY hy4 _ p2 (by simpa using hne)
      rwa [← hxy] at this)
  rw [hPx, hPy] at hsum
  rw [hPl] at habs hclose
  set ts := Rounding5.onlineTerms (s0 (M := M)) P with hts
  set m : ℝ := ((x.length - 1 : Nat) : ℝ) with hm
  have hm0 : 0 ≤ m := Nat.cast_nonneg _
  have herr := hp.error h4
  rw [sum_map_div, sum_map_abs_div _ _ hm0] at herr
  obtain ⟨c1, c2⟩ := sum_abs_le_of_close ts es hl
  have hγ := M.γ_nonneg (x.length + 4) h4
  set D := (x.length : ℝ) * (Rx * wE M x.length Y + Ry * wE M x.length X
    + wE M x.length X * wE M x.length Y) with hD
  have hts_abs : (ts.map (|·|)).sum ≤ x.length * (Rx * Ry) + D := by
    linarith
  have e : v.val - comoment (vals x) (vals y) / m = (v.val - ts.sum / m) + (ts.sum - es.sum) / m := by
    rw [← hsum]; ring
  rw [e]
  refine le_trans (abs_add_le _ _) ?_
  have t1 : |v.val - ts.sum / m| ≤ M.γ (x.length + 4) * ((x.length * (Rx * Ry) + D) / m) :=
    le_trans herr (mul_le_mul_of_nonneg_left (div_le_div_of_nonneg_right hts_abs hm0) hγ)
  have t2 : |(ts.sum - es.sum) / m| ≤ D / m := by
    rw [abs_div, abs_of_nonneg hm0]
    refine div_le_div_of_nonneg_right ?_ hm0
    linarith
  have : (M.γ (x.length + 4) * (x.length * (Rx * Ry) + D) + D) / m =
      M.γ (x.length + 4) * ((x.length * (Rx * Ry) + D) / m) + D / m := by ring
  rw [this]
  linarith

end online

end Cv.Rounding6

/-! ### C20: the matrix forms `fwdM` -/

namespace Cv.Rounding6
open Cv Cv.FlModel Cv.Rounding Cv.Rounding3 Cv.Rounding5 Cv.C20

variable {M : FlModel}

/-- **RBF Gram matrix, entrywise** (idempotent rounding, so that `powi(·,2)` and the `x*x` of the
vectorised kernel coincide and the matrix route — broadcast subtraction, square, negation, scaling,
`exp`, scaling — performs for each entry exactly the operations of the scalar form,
`C20.rbf_matrix_form_eq_scalar`): the call returns an `n × m` matrix with, for every entry,
`c·K ≤ K̂ᵢⱼ ≤ K/c`, `c = e^{−γ₇·A}(1−uf)(1−u)` (seven rounding factors on the exponent on this route), and
`K̂ᵢⱼ > 0`.  PROVISO: the conjunct `K̂ᵢⱼ > 0` is a theorem of the idealised no-underflow model (`ExpLnStd`) only; with
underflow the honest statement is `0 ≤` (`Rounding3U.rbf_range_ufl`, `rq_nonneg_ufl`). -/
theorem rbf_matrix_near [ExpLnStd M] [PowStd M] (hid : M.Idem) (k : Gp.RBF (Fl M)) (x y : Gp.Pts (Fl M))
    (hx : PtsWF x) (hy : PtsWF y) (hxn : 0 < x.points.length) (hyn : 0 < y.points.length)
    (hv : 0 < k.var.val) (h : ((7 : Nat) : ℝ) * M.u < 1) :
    ∃ R, k.fwdM x y = some R ∧ R.nrows = x.points.length ∧ R.ncols = y.points.length ∧
      ∀ i j, i < x.points.length → j < y.points.length →
        Near (Real.exp (-(M.γ 7 * rbfArg k x.points[i]! y.points[j]!)) * ((1 - uF M) * (1 - M.u)))
          (rbfExact k x.points[i]! y.points[j]!) (R.get i j).val ∧
        0 < (R.get i j).val := by
  obtain ⟨R, hR, h1, h2, _, h4⟩ := rbf_matrix_form_eq_scalar (powi_two_idem hid) k x y hx hy hxn hyn
  refine ⟨R, hR, h1, h2, fun i j hi hj => ?_⟩
  rw [h4 i j hi hj]
  exact ⟨rbf_near_gen k _ _ 7 (rbfArg_fac_idem hid k _ _) hv.le h, Cv.Rounding5.rbf_pos_stdmodel k _ _ hv⟩

/-- **RBF Gram matrix, range**: if moreover the library `exp` is `≤ 1` on non-positive arguments
(`ExpLeOne`, a hypothesis separate from `ExpLnStd`), every entry satisfies `0 < K̂ᵢⱼ ≤ σ²(1+u)` IN THE
IDEALISED MODEL `ExpLnStd` (relative accuracy of `exp` for every argument); at IEEE binary64 entries of well
separated points underflow to exactly `0`, and only `0 ≤ K̂ᵢⱼ ≤ σ²(1+u)` holds (`Rounding3U.rbf_range_ufl` for the
scalar form, to which every entry is equal by `C20.rbf_matrix_form_eq_scalar`). -/
theorem rbf_matrix_range_stdmodel [ExpLnStd M] [PowStd M] [ExpLeOne M] (hid : M.Idem) (k : Gp.RBF (Fl M))
    (x y : Gp.Pts (Fl M)) (hx : PtsWF x) (hy : PtsWF y) (hxn : 0 < x.points.length)
    (hyn : 0 < y.points.length) (hv : 0 < k.var.val) :
    ∃ R, k.fwdM x y = some R ∧
      ∀ i j, i < x.points.length → j < y.points.length →
        0 < (R.get i j).val ∧ (R.get i j).val ≤ k.var.val * (1 + M.u) := by
  obtain ⟨R, hR, _, _, _, h4⟩ := rbf_matrix_form_eq_scalar (powi_two_idem hid) k x y hx hy hxn hyn
  refine ⟨R, hR, fun i j hi hj => ?_⟩
  rw [h4 i j hi hj]
  exact ⟨Cv.Rounding5.rbf_pos_stdmodel k _ _ hv, rbf_le_var k _ _ hv.le⟩

/-- **rational-quadratic Gram matrix, entrywise**: `c·K ≤ K̂ᵢⱼ ≤ K/c`, `c = ((1−u)¹¹)^α(1−uf)(1−u)` (the
constant of the scalar form in the bare model, an upper bound for this route), and `K̂ᵢⱼ > 0`.  PROVISO: the conjunct `K̂ᵢⱼ > 0` is a theorem of the idealised no-underflow model (`ExpLnStd`) only; with
underflow the honest statement is `0 ≤` (`Rounding3U.rbf_range_ufl`, `rq_nonneg_ufl`). -/
theorem rq_matrix_near [ExpLnStd M] [PowStd M] (hid : M.Idem) (k : Gp.RQ (Fl M)) (x y : Gp.Pts (Fl M))
    (hx : PtsWF x) (hy : PtsWF y) (hxn : 0 < x.points.length) (hyn : 0 < y.points.length)
    (hv : 0 < k.var.val) (hα : 0 ≤ k.alpha.val) :
    ∃ R, k.fwdM x y = some R ∧ R.nrows = x.points.length ∧ R.ncols = y.points.length ∧
      ∀ i j, i < x.points.length → j < y.points.length →
        Near (((1 - M.u) ^ 11) ^ k.alpha.val * ((1 - uF M) * (1 - M.u)))
          (rqExact k x.points[i]! y.points[j]!) (R.get i j).val ∧
        0 < (R.get i j).val := by
  obtain ⟨R, hR, h1, h2, _, h4⟩ := rq_matrix_form_eq_scalar (powi_two_idem hid) k x y hx hy hxn hyn
  refine ⟨R, hR, h1, h2, fun i j hi hj => ?_⟩
  rw [h4 i j hi hj]
  exact ⟨Cv.Rounding5.rq_near k _ _ hv.le hα, Cv.Rounding5.rq_pos_stdmodel k _ _ hv hα⟩

end Cv.Rounding6

/-! ### C01: the residual in the property's norm-wise form -/

namespace Cv.Rounding6
open Cv Cv.FlModel Cv.LA Cv.LA.Lu Cv.Rounding Cv.FactorRounding Cv.RoundingLU Finset

variable {M : FlModel} [FlSqrt M]

/-- from a weighted rowwise residual to the ∞-norm form -/
theorem residual_norm_of_weighted (n : Nat) (W : Nat → ℝ) (xv : Nat → ℝ) (res g Wn xn : ℝ) (hg : 0 ≤ g)
    (hres : res ≤ g * ∑ m ∈ range n, W m * |xv m|) (hW0 : ∀ m, m < n → 0 ≤ W m)
    (hW : ∑ m ∈ range n, W m ≤ Wn) (hx : ∀ m, m < n → |xv m| ≤ xn) (hxn : 0 ≤ xn) :
    res ≤ g * Wn * xn := by
  have h1 : ∑ m ∈ range n, W m * |xv m| ≤ ∑ m ∈ range n, W m * xn :=
    Finset.sum_le_sum fun m hm =>
      mul_le_mul_of_nonneg_left (hx m (Finset.mem_range.mp hm)) (hW0 m (Finset.mem_range.mp hm))
  rw [← Finset.sum_mul] at h1
  have h2 : (∑ m ∈ range n, W m) * xn ≤ Wn * xn := mul_le_mul_of_nonneg_right hW hxn
  calc res ≤ g * ∑ m ∈ range n, W m * |xv m| := hres
    _ ≤ g * (Wn * xn) := mul_le_mul_of_nonneg_left (le_trans h1 h2) hg
    _ = g * Wn * xn := by ring

/-- **LU route, norm-wise residual (the property's form, growth made explicit)**: if every absolute row
sum of `|L̂||Û|` is at most `Wn` (`= ‖|L̂||Û|‖∞`) and `|x̂_m| ≤ xn` (`= ‖x̂‖∞`) then every component of
the residual obeys `|b − A·x̂| ≤ γ_{3n}·Wn·xn`; with `Wn ≤ ρ·‖A‖∞` this is
`‖b − A·x̂‖∞ ≤ γ_{3n}·ρ·‖A‖∞·‖x̂‖∞` — `ρ = ‖|L̂||Û|‖∞/‖A‖∞` is the growth quantity of partial pivoting,
which is *not* bounded by a theorem. -/
theorem luRoute_residual_norm (a f b x : List (Fl M)) (piv : List Nat) (n : Nat) (ha : a.length = n * n)
    (hb : b.length = n) (hlu : lu a = some (f, piv)) (hd : ∀ k, k < n → ev n f k k ≠ 0)
    (hs : luSolve f piv b = some x) (hu : ((3 * n : Nat) : ℝ) * M.u < 1) (Wn xn : ℝ)
    (hW : ∀ i, i < n → ∑ m ∈ range n, ∑ j ∈ range n, |Lv n f i j| * |Uv n f j m| ≤ Wn)
    (hx : ∀ m, m < n → |(rd x m).val| ≤ xn) :
    ∀ r, r < n → |(rd b r).val - ∑ m ∈ range n, ev n a r m * (rd x m).val| ≤ M.γ (3 * n) * Wn * xn := by
  intro r hr
  obtain ⟨_, hperm, _⟩ := luRoute_backward_error a f b x piv n ha hb hlu hd hs hu
  have hmem : r ∈ piv := hperm.mem_iff.mpr (List.mem_range.mpr hr)
  obtain ⟨i, hi, hgi⟩ := List.getElem_of_mem hmem
  have hpl : piv.length = n := by have := hperm.length_eq; simpa using this
  have hgd : piv.getD i 0 = r := by
    rw [List.getD_eq_getElem?_getD, List.getElem?_eq_getElem hi]; simpa using hgi
  have hres := luRoute_residual a f b x piv n ha hb hlu hd hs hu i (by omega)
  rw [hgd] at hres
  exact residual_norm_of_weighted n (fun m => ∑ j ∈ range n, |Lv n f i j| * |Uv n f j m|)
    (fun m => (rd x m).val) _ _ Wn xn (M.γ_nonneg _ hu) hres
    (fun m _ => Finset.sum_nonneg fun j _ => mul_nonneg (abs_nonneg _) (abs_nonneg _))
    (hW i (by omega)) hx (le_trans (abs_nonneg _) (hx r hr))

/-- … with the growth quantity `ρ` spelled out -/
theorem luRoute_residual_growth (a f b x : List (Fl M)) (piv : List Nat) (n : Nat) (ha : a.length = n * n)
    (hb : b.length = n) (hlu : lu a = some (f, piv)) (hd : ∀ k, k < n → ev n f k k ≠ 0)
    (hs : luSolve f piv b = some x) (hu : ((3 * n : Nat) : ℝ) * M.u < 1) (ρ An xn : ℝ)
    (hW : ∀ i, i < n → ∑ m ∈ range n, ∑ j ∈ range n, |Lv n f i j| * |Uv n f j m| ≤ ρ * An)
    (hx : ∀ m, m < n → |(rd x m).val| ≤ xn) :
    ∀ r, r < n → |(rd b r).val - ∑ m ∈ range n, ev n a r m * (rd x m).val| ≤
      M.γ (3 * n) * ρ * An * xn := by
  intro r hr
  have := luRoute_residual_norm a f b x piv n ha hb hlu hd hs hu (ρ * An) xn hW hx r hr
  rw [← mul_assoc] at this
  exact this

/-- **the Cholesky factor cannot grow** (Higham (10.7)): every entry of `|L̂||L̂ᵀ|` is at most
`max aᵢᵢ/(1 − γ_{n+1})` — from the diagonal of `L̂L̂ᵀ = A + ΔA` and `2|l_ik||l_jk| ≤ l_ik² + l_jk²`. -/
theorem chol_weight_le (a l : List (Fl M)) (n : Nat) (hc : cholLoops n a = some l) (hn : 2 ≤ n)
    (hu : ((n + 1 : Nat) : ℝ) * M.u < 1) (hγ : M.γ (n + 1) < 1) (amax : ℝ)
    (ha : ∀ i, i < n → ev n a i i ≤ amax) :
    ∀ i j, i < n → j < n →
      ∑ k ∈ range n, |ev n l i k| * |ev n l j k| ≤ amax / (1 - M.γ (n + 1)) := by
  have hle : max n 3 ≤ n + 1 := by omega
  have hu' : ((max n 3 : Nat) : ℝ) * M.u < 1 :=
    lt_of_le_of_lt (mul_le_mul_of_nonneg_right (Nat.cast_le.mpr hle) M.u_nonneg) hu
  obtain ⟨_, _, _, h4⟩ := cholLoops_backward_error n a l hc hu'
  have hγ0 := M.γ_nonneg (n + 1) hu
  have hmono := M.γ_mono hle hu
  have hden : 0 < 1 - M.γ (n + 1) := by linarith
  -- the squared row norms
  have hrow : ∀ i, i < n → ∑ k ∈ range n, ev n l i k ^ 2 ≤ amax / (1 - M.γ (n + 1)) := by
    intro i hi
    have h := h4 i i (le_refl i) hi
    have e1 : ∑ k ∈ range n, ev n l i k * ev n l i k = ∑ k ∈ range n, ev n l i k ^ 2 :=
      Finset.sum_congr rfl fun k _ => by ring
    have e2 : ∑ k ∈ range n, |ev n l i k| * |ev n l i k| = ∑ k ∈ range n, ev n l i k ^ 2 :=
      Finset.sum_congr rfl fun k _ => by rw [← abs_mul, abs_mul_self]; ring
    rw [e1, e2] at h
    have hS : 0 ≤ ∑ k ∈ range n, ev n l i k ^ 2 := Finset.sum_nonneg fun k _ => sq_nonneg _
    have := (abs_le.mp h).2
    have h5 : M.γ (max n 3) * ∑ k ∈ range n, ev n l i k ^ 2 ≤ M.γ (n + 1) * ∑ k ∈ range n, ev n l i k ^ 2 :=
      mul_le_mul_of_nonneg_right hmono hS
    rw [le_div_iff₀ hden]
    have := ha i hi
    nlinarith
  intro i j hi hj
  have hij : ∑ k ∈ range n, |ev n l i k| * |ev n l j k| ≤
      ∑ k ∈ range n, (ev n l i k ^ 2 + ev n l j k ^ 2) / 2 := by
    refine Finset.sum_le_sum fun k _ => ?_
    have := sq_nonneg (|ev n l i k| - |ev n l j k|)
    have e1 : |ev n l i k| ^ 2 = ev n l i k ^ 2 := sq_abs _
    have e2 : |ev n l j k| ^ 2 = ev n l j k ^ 2 := sq_abs _
    nlinarith
  refine le_trans hij ?_
  rw [← Finset.sum_div, Finset.sum_add_distrib]
  have := hrow i hi
  have := hrow j hj
  linarith

/-- **Cholesky route, norm-wise residual — no growth quantity**: for an exactly symmetric `a` with
`aᵢᵢ ≤ amax` (`≤ ‖A‖∞`) on which the factorisation succeeds, `|x̂_m| ≤ xn`:
`|b − A·x̂|ᵢ ≤ γ_{3n+1}·n·amax/(1 − γ_{n+1})·xn`, i.e.
`‖b − A·x̂‖∞ ≤ γ_{3n+1}·n·(1−γ_{n+1})⁻¹·‖A‖∞·‖x̂‖∞` unconditionally on the SPD route (Higham Thm 10.4). -/
theorem choleskyRoute_residual_norm (a l b x : List (Fl M)) (n : Nat) (hn : 2 ≤ n)
    (hc : cholLoops n a = some l) (hsym : Symm n a) (hs : choleskySolve l b = some x)
    (hu : ((3 * n + 1 : Nat) : ℝ) * M.u < 1) (hγ : M.γ (n + 1) < 1) (amax xn : ℝ)
    (ha : ∀ i, i < n → ev n a i i ≤ amax) (hx : ∀ m, m < n → |(rd x m).val| ≤ xn) :
    ∀ i, i < n → |(rd b i).val - ∑ m ∈ range n, ev n a i m * (rd x m).val| ≤
      M.γ (3 * n + 1) * (n * (amax / (1 - M.γ (n + 1)))) * xn := by
  intro i hi
  have hun := M.u_nonneg
  have hle := cholK_le n hn
  have huK : ((cholK n : Nat) : ℝ) * M.u < 1 :=
    lt_of_le_of_lt (mul_le_mul_of_nonneg_right (Nat.cast_le.mpr hle) hun) hu
  have hu1 : ((n + 1 : Nat) : ℝ) * M.u < 1 :=
    lt_of_le_of_lt (mul_le_mul_of_nonneg_right (Nat.cast_le.mpr (by omega)) hun) hu
  have hres := choleskyRoute_residual a l b x n hc hsym hs huK i hi
  have hW := chol_weight_le a l n hc hn hu1 hγ amax ha
  have hres' : |(rd b i).val - ∑ m ∈ range n, ev n a i m * (rd x m).val| ≤
      M.γ (3 * n + 1) * ∑ m ∈ range n, (∑ j ∈ range n, |ev n l i j| * |ev n l m j|) * |(rd x m).val| :=
    le_trans hres (mul_le_mul_of_nonneg_right (M.γ_mono hle hu)
      (Finset.sum_nonneg fun m _ => mul_nonneg
        (Finset.sum_nonneg fun k _ => mul_nonneg (abs_nonneg _) (abs_nonneg _)) (abs_nonneg _)))
  refine residual_norm_of_weighted n (fun m => ∑ j ∈ range n, |ev n l i j| * |ev n l m j|)
    (fun m => (rd x m).val) _ _ _ xn (M.γ_nonneg _ hu) hres'
    (fun m _ => Finset.sum_nonneg fun j _ => mul_nonneg (abs_nonneg _) (abs_nonneg _)) ?_ hx
    (le_trans (abs_nonneg _) (hx i hi))
  calc ∑ m ∈ range n, ∑ j ∈ range n, |ev n l i j| * |ev n l m j|
      ≤ ∑ m ∈ range n, amax / (1 - M.γ (n + 1)) :=
        Finset.sum_le_sum fun m hm => hW i m hi (Finset.mem_range.mp hm)
    _ = n * (amax / (1 - M.γ (n + 1))) := by
        rw [Finset.sum_const, Finset.card_range, nsmul_eq_mul]

end Cv.Rounding6

/-! ### Non-vacuity: concrete runs -/

namespace Cv.Rounding6.Examples
open Cv Cv.FlModel Cv.LA Cv.LA.Lu Cv.Rounding Cv.FactorRounding Cv.RoundingLU Cv.Rounding3 Finset
open Cv.RoundingLU.Examples (sqrt4)

/-- the exact model (`rnd = id`): used only to witness that `fit` returns on a concrete input, so that the
hypothesis `fit … = some c` of `fit_residual` is satisfiable; the runs in the 1 % model below exercise the
components where rounding errors occur -/
noncomputable abbrev M0 : FlModel := FlModel.exact
noncomputable instance : FlSqrt M0 := FlSqrt.ofRnd M0
theorem M0_rnd (x : ℝ) : M0.rnd x = x := rfl
theorem M0_u : M0.u = 0 := rfl
theorem M0_sqrt (x : ℝ) : FlSqrt.sqrtR (M := M0) x = Real.sqrt x := rfl
theorem M0_γ (k : Nat) : M0.γ k = 0 := by simp [FlModel.γ, M0_u]

noncomputable abbrev G4 : List (Fl M0) := [⟨4⟩, ⟨0⟩, ⟨0⟩, ⟨4⟩]

/-- the Cholesky sweep runs on `diag(4,4)` (factor `diag(2,2)`) -/
theorem G4_chol : ∃ l, tryCholesky G4 = some (some l) ∧ l.length = 2 * 2 := by
  have hE : ¬ (4503599627370496 : Fl M0).val < 0 := by
    show ¬ M0.rnd ((4503599627370496 : ℕ) : ℝ) < 0
    rw [M0_rnd]; norm_num
  unfold tryCholesky isSymmetric
  simp only [show G4.length = 2 * 2 from rfl, isSquare_sq]
  norm_num [cholLoops, cholRow, List.range_succ, List.foldlM_cons, List.foldlM_nil, cholCell, List.replicate,
    Fl.isNan_false, Fl.le_def, Fl.lt_def, rd, dot8, dot8Go, M0_rnd, List.set, List.take, List.drop,
    M0_sqrt, sqrt4, eps, List.range', ev, hE]

theorem bigE0 : (4503599627370496 : Fl M0).val = 4503599627370496 := by
  show M0.rnd ((4503599627370496 : ℕ) : ℝ) = _
  rw [M0_rnd]; norm_num

theorem G4_pred : routePredicate G4 = some true := by
  unfold routePredicate isPositiveDefinite isSymmetric isExactlySymmetric
  simp only [show G4.length = 2 * 2 from rfl, isSquare_sq]
  norm_num [List.range_succ, List.range', rd, eps, Fl.lt_def, Fl.le_def, M0_rnd, bigE0]

noncomputable abbrev x4 : List (Fl M0) := [⟨-1⟩, ⟨1⟩, ⟨-1⟩, ⟨1⟩]
noncomputable abbrev y4 : List (Fl M0) := [⟨0⟩, ⟨2⟩, ⟨0⟩, ⟨2⟩]

theorem one_mul_fl (a : ℝ) : (1 : Fl M0) * ⟨a⟩ = ⟨a⟩ := by
  apply Fl.ext; show M0.rnd (1 * a) = a; rw [M0_rnd, one_mul]

theorem V4 : Poly.vandermonde x4 2 = [⟨1⟩, ⟨-1⟩, ⟨1⟩, ⟨1⟩, ⟨1⟩, ⟨-1⟩, ⟨1⟩, ⟨1⟩] := by
  have p0 : ∀ v : Fl M0, powi v ((0 : Nat) : Int) = 1 := fun v => rfl
  have p1 : ∀ v : Fl M0, powi v ((1 : Nat) : Int) = 1 * v := fun v => rfl
  simp only [Poly.vandermonde, List.flatMap_cons, List.flatMap_nil, List.range_succ, List.range_zero,
    List.nil_append, List.map_cons, List.map_nil, List.cons_append, p0, p1, one_mul_fl,
    List.append_nil]
  rfl

theorem xtx4 : xtx (Poly.vandermonde x4 2) 4 = some G4 := by
  obtain ⟨g, h1, h2, h3⟩ := matmulTN_error (Poly.vandermonde x4 2) (Poly.vandermonde x4 2) 4 2 2
    (by rw [V4]; rfl) (by rw [V4]; rfl) (by norm_num) (by rw [M0_u]; norm_num)
  have hg : g = G4 := by
    have e : ∀ i j, i < 2 → j < 2 → ev 2 g i j =
        ∑ k ∈ range 4, ev 2 (Poly.vandermonde x4 2) k i * ev 2 (Poly.vandermonde x4 2) k j := by
      intro i j hi hj
      have := h3 i j hi hj
      rw [M0_γ, zero_mul] at this
      have := abs_nonpos_iff.mp this
      linarith
    rcases g with _ | ⟨g0, _ | ⟨g1, _ | ⟨g2, _ | ⟨g3, _ | _⟩⟩⟩⟩ <;> simp at h2
    have e00 := e 0 0 (by norm_num) (by norm_num)
    have e01 := e 0 1 (by norm_num) (by norm_num)
    have e10 := e 1 0 (by norm_num) (by norm_num)
    have e11 := e 1 1 (by norm_num) (by norm_num)
    rw [V4] at e00 e01 e10 e11
    simp [ev, rd, Finset.sum_range_succ] at e00 e01 e10 e11
    norm_num at e00 e01 e10 e11
    simp only [G4, List.cons.injEq, and_true]
    exact ⟨Fl.ext e00, Fl.ext e01, Fl.ext e10, Fl.ext e11⟩
  rw [← hg]; exact h1

theorem fit4 : ∃ c, Poly.fit 2 x4 y4 = some c := by
  obtain ⟨l, hl, hll⟩ := G4_chol
  have hroute : route G4 = some (some l) := by simp [route, G4_pred, hl]
  obtain ⟨X, hX⟩ := invertMatrix_some_chol G4 l 2 (by norm_num) rfl hroute hll
  have hXl := (invertMatrix_residual G4 X 2 rfl (le_refl 2) hX (by rw [M0_u]; norm_num)
    (fun h => by rw [hroute] at h; simp at h)).1
  obtain ⟨b, hb1, hb2, _⟩ := matmulTN_error (Poly.vandermonde x4 2) y4 4 2 1 (by rw [V4]; rfl) rfl
    (by norm_num) (by rw [M0_u]; norm_num)
  obtain ⟨c, hc1, _, _⟩ := matmulNN_error X b 2 2 1 hXl hb2 (by norm_num) (by norm_num)
    (by rw [M0_u]; norm_num)
  refine ⟨c, ?_⟩
  unfold Poly.fit
  simp only [show x4.length = 4 from rfl, show y4.length = 4 from rfl, ne_eq, not_true_eq_false,
    if_false, xtx4, hX, hb1, hc1, Option.bind_eq_bind, Option.bind_some]

/-- `fit_residual` on that run: all hypotheses hold (the LU-route hypothesis is void: the route is Cholesky) -/
example : ∃ c g ginv xty W, Poly.fit 2 x4 y4 = some c ∧ xtx (Poly.vandermonde x4 2) x4.length = some g ∧
    invertMatrix g = some ginv ∧ matmul (Poly.vandermonde x4 2) y4 x4.length x4.length true false = some xty ∧
    SolverWeight 2 g W ∧ c.length = 2 := by
  obtain ⟨c, hc⟩ := fit4
  obtain ⟨l, hl, hll⟩ := G4_chol
  have hroute : route G4 = some (some l) := by simp [route, G4_pred, hl]
  obtain ⟨g, ginv, xty, W, h1, h2, h3, h4, h5, _⟩ := fit_residual 2 x4 y4 c (le_refl 2) (by norm_num) hc
    (by rw [M0_u]; norm_num) (by rw [M0_u]; norm_num)
    (by
      intro g hg hr
      have : g = G4 := Option.some.inj (hg.symm.trans xtx4)
      rw [this, hroute] at hr; simp at hr)
  exact ⟨c, g, ginv, xty, W, hc, h1, h2, h3, h4, h5⟩

open Cv.RoundingLU.Examples in
/-- `invertMatrix_residual` on a concrete run in the 1 % model (Cholesky route; the computed factor is not
the exact one, `RoundingLU.Examples.A2_chol`): `(3·2+1)·u = 0.07 < 1` -/
example : ∃ X W, invertMatrix A2 = some X ∧ X.length = 2 * 2 ∧ SolverWeight 2 A2 W ∧
    ∀ i c, i < 2 → c < 2 →
      |(if i = c then (1 : ℝ) else 0) - ∑ m ∈ range 2, ev 2 A2 i m * ev 2 X m c| ≤
        Minf.γ (3 * 2 + 1) * ∑ m ∈ range 2, W i m * |ev 2 X m c| := by
  obtain ⟨l, hl, _, _⟩ := A2_chol
  have ht : tryCholesky A2 = some (some l) := by
    unfold cholesky at hl
    exact Option.join_eq_some_iff.mp hl
  have hll := (cholesky_backward_error A2 l 2 rfl (le_refl 2) hl (by rw [Minf_u]; norm_num)).1
  have hroute : route A2 = some (some l) := by simp [route, A2_pred, ht]
  obtain ⟨X, hX⟩ := invertMatrix_some_chol A2 l 2 (by norm_num) rfl hroute hll
  obtain ⟨h1, W, hW, h2⟩ := invertMatrix_residual A2 X 2 rfl (le_refl 2) hX (by rw [Minf_u]; norm_num)
    (fun h => by rw [hroute] at h; simp at h)
  exact ⟨X, W, hX, h1, hW, h2⟩

open Cv.RoundingLU.Examples in
/-- `vandermonde_entry_fac`, `powi_fac` in the 1 % model: `3.powi(2) = 9·1.01²` -/
example : ∃ f, Minf.Fac 2 f ∧ ev 3 (Poly.vandermonde ([⟨2⟩, ⟨3⟩] : List (Fl Minf)) 3) 1 2 = (3 : ℝ) ^ 2 * f := by
  have := vandermonde_entry_fac ([⟨2⟩, ⟨3⟩] : List (Fl Minf)) 3 1 2 (by simp) (by norm_num) (by norm_num)
  simpa [vv, rd] using this

open Cv.RoundingLU.Examples in
/-- `choleskyRoute_residual_norm` on the concrete Cholesky run: `γ₃ < 1`, `aᵢᵢ ≤ 5` -/
example : ∃ l x : List (Fl Minf), choleskySolve l ([⟨1⟩, ⟨1⟩] : List (Fl Minf)) = some x ∧ ∀ xn, (∀ m, m < 2 → |(rd x m).val| ≤ xn) →
    ∀ i, i < 2 → |(rd ([⟨1⟩, ⟨1⟩] : List (Fl Minf)) i).val - ∑ m ∈ range 2, ev 2 A2 i m * (rd x m).val| ≤
      Minf.γ (3 * 2 + 1) * (2 * (5 / (1 - Minf.γ (2 + 1)))) * xn := by
  obtain ⟨l, hl, _, _⟩ := A2_chol
  have hll := (cholesky_backward_error A2 l 2 rfl (le_refl 2) hl (by rw [Minf_u]; norm_num)).1
  obtain ⟨x, hx⟩ := choleskySolve_isSome l [⟨1⟩, ⟨1⟩] 2 (by norm_num) hll rfl
  refine ⟨l, x, hx, fun xn hxn => ?_⟩
  have := choleskyRoute_residual_norm A2 l [⟨1⟩, ⟨1⟩] x 2 (le_refl 2) (cholesky_someG A2 l 2 rfl hl) A2_symm hx
    (by rw [Minf_u]; norm_num) (by unfold FlModel.γ; rw [Minf_u]; norm_num) 5 xn
    (by
      intro i hi
      have : i = 0 ∨ i = 1 := by omega
      rcases this with rfl | rfl <;> norm_num [ev, rd]) hxn
  simpa using this

open Cv.RoundingLU.Examples in
/-- `chol_weight_le` itself on the concrete Cholesky run (1 %-inflating model, `u = 1/100 > 0`): every entry
of `|L̂||L̂ᵀ|` of the computed factor of `A2` is at most `5/(1 − γ₃)` -/
example : ∃ l : List (Fl Minf), cholLoops 2 A2 = some l ∧ ∀ i j, i < 2 → j < 2 →
    ∑ k ∈ range 2, |ev 2 l i k| * |ev 2 l j k| ≤ 5 / (1 - Minf.γ (2 + 1)) := by
  obtain ⟨l, hl, _, _⟩ := A2_chol
  have hc := cholesky_someG A2 l 2 rfl hl
  refine ⟨l, hc, ?_⟩
  exact chol_weight_le A2 l 2 hc (le_refl 2) (by rw [Minf_u]; norm_num)
    (by unfold FlModel.γ; rw [Minf_u]; norm_num) 5
    (by
      intro i hi
      have : i = 0 ∨ i = 1 := by omega
      rcases this with rfl | rfl <;> norm_num [ev, rd])

open Cv.RoundingLU.Examples in
/-- `luRoute_residual_norm` / `luRoute_residual_growth` on the concrete LU run (`A3`, row exchange) -/
example : ∃ x : List (Fl Minf), luSolve F3 [1, 0] ([⟨1⟩, ⟨1⟩] : List (Fl Minf)) = some x ∧ ∀ Wn xn,
    (∀ i, i < 2 → ∑ m ∈ range 2, ∑ j ∈ range 2, |Lv 2 F3 i j| * |Uv 2 F3 j m| ≤ Wn) →
    (∀ m, m < 2 → |(rd x m).val| ≤ xn) →
    ∀ r, r < 2 → |(rd ([⟨1⟩, ⟨1⟩] : List (Fl Minf)) r).val - ∑ m ∈ range 2, ev 2 A3 r m * (rd x m).val| ≤
      Minf.γ (3 * 2) * Wn * xn := by
  obtain ⟨x, hx⟩ := A3_solve
  have hs : luSolve F3 [1, 0] [⟨1⟩, ⟨1⟩] = some x := by
    unfold solve at hx
    simp only [show A3.length = 2 * 2 from rfl] at hx
    simpa [A3_route, solveWith, A3_lu] using hx
  exact ⟨x, hs, fun Wn xn hW hxn =>
    luRoute_residual_norm A3 F3 [⟨1⟩, ⟨1⟩] x [1, 0] 2 rfl rfl A3_lu F3_pivots hs
      (by rw [Minf_u]; norm_num) Wn xn hW hxn⟩

end Cv.Rounding6.Examples

namespace Cv.Rounding6.Examples2
open Cv Cv.FlModel Cv.Rounding Cv.Rounding3 Cv.Rounding5 Cv.C20 Cv.C08 Cv.Rounding2
open Cv.Rounding5.Examples (Mb Mb_u Mb_rnd)

theorem Mb_one : Mb.rnd 1 = 1 := by rw [Mb_rnd]; norm_num

/-- `online_error` in the idempotent model (`3 ↦ 3.03`, `u = 1/100`) on two points: data representable, the
counter values `0, 1, 2` exact, `4·2·u < 1`, `(2+4)·u < 1` -/
example : ∃ v, sampleCovarianceOnline ([⟨1⟩, ⟨2⟩] : List (Fl Mb)) [⟨2⟩, ⟨5⟩] = some v ∧
    |v.val - comoment (vals ([⟨1⟩, ⟨2⟩] : List (Fl Mb))) (vals ([⟨2⟩, ⟨5⟩] : List (Fl Mb))) / ((2 - 1 : Nat) : ℝ)| ≤
      (Mb.γ (2 + 4) * (2 * (1 * 3) + 2 * (1 * wE Mb 2 5 + 3 * wE Mb 2 2 + wE Mb 2 2 * wE Mb 2 5))
        + 2 * (1 * wE Mb 2 5 + 3 * wE Mb 2 2 + wE Mb 2 2 * wE Mb 2 5)) / ((2 - 1 : Nat) : ℝ) := by
  have mem2 : ∀ {a b c : Fl Mb}, a ∈ [b, c] → a = b ∨ a = c := by
    intro a b c h; simpa using h
  have := online_error ([⟨1⟩, ⟨2⟩] : List (Fl Mb)) [⟨2⟩, ⟨5⟩] 2 5 1 3 rfl (by simp)
    (by intro a ha; rcases mem2 ha with rfl | rfl <;> norm_num)
    (by intro a ha; rcases mem2 ha with rfl | rfl <;> norm_num)
    (by intro a ha b hb; rcases mem2 ha with rfl | rfl <;> rcases mem2 hb with rfl | rfl <;> norm_num)
    (by intro a ha b hb; rcases mem2 ha with rfl | rfl <;> rcases mem2 hb with rfl | rfl <;> norm_num)
    Mb_one
    (by intro a ha; rcases mem2 ha with rfl | rfl <;> simp [Fl.Rep, Mb_rnd])
    (by intro a ha; rcases mem2 ha with rfl | rfl <;> simp [Fl.Rep, Mb_rnd])
    (by
      intro k hk
      simp only [List.length_cons, List.length_nil] at hk
      have : k = 0 ∨ k = 1 ∨ k = 2 := by omega
      rcases this with rfl | rfl | rfl <;> simp [Mb_rnd])
    (by rw [Mb_u]; norm_num) (by rw [Mb_u]; norm_num)
  simpa using this

noncomputable local instance : ExpLnStd Mb := ExpLnStd.ofRnd Mb
noncomputable local instance : PowStd Mb := PowStd.ofRnd Mb

/-- the correctly rounded `exp` of this model is `≤ 1` on non-positive arguments (`exp x ≤ 1 ≠ 3`) -/
local instance : ExpLeOne Mb where
  exp_le_one := by
    intro x hx
    show Mb.rnd (Real.exp x) ≤ 1
    have h1 : Real.exp x ≤ 1 := Real.exp_le_one_iff.mpr hx
    rw [Mb_rnd, if_neg (by linarith)]
    exact h1

/-- `rbf_matrix_near`, `rbf_matrix_range_stdmodel`, `rq_matrix_near` on the point sets `[0, 1]`, `[0, 2, 5]` (as
`Vector`s): idempotent model, `σ² = 2 > 0`, `7·u < 1` -/
example : ∃ R, (⟨⟨2⟩, ⟨1⟩⟩ : Gp.RBF (Fl Mb)).fwdM (.vec [⟨0⟩, ⟨1⟩]) (.vec [⟨0⟩, ⟨2⟩, ⟨5⟩]) = some R ∧
    R.nrows = 2 ∧ R.ncols = 3 := by
  obtain ⟨R, h1, h2, h3, _⟩ := rbf_matrix_near (FlModel.bump_idem _ _ _ _) (⟨⟨2⟩, ⟨1⟩⟩ : Gp.RBF (Fl Mb))
    (.vec [⟨0⟩, ⟨1⟩]) (.vec [⟨0⟩, ⟨2⟩, ⟨5⟩]) trivial trivial (by simp [Gp.Pts.points])
    (by simp [Gp.Pts.points]) (by norm_num) (by rw [Mb_u]; norm_num)
  exact ⟨R, h1, by simpa [Gp.Pts.points] using h2, by simpa [Gp.Pts.points] using h3⟩
example : ∃ R, (⟨⟨2⟩, ⟨1⟩⟩ : Gp.RBF (Fl Mb)).fwdM (.vec [⟨0⟩, ⟨1⟩]) (.vec [⟨0⟩, ⟨2⟩, ⟨5⟩]) = some R ∧
    0 < (R.get 1 2).val ∧ (R.get 1 2).val ≤ 2 * (1 + Mb.u) := by
  obtain ⟨R, h1, h2⟩ := rbf_matrix_range_stdmodel (FlModel.bump_idem _ _ _ _) (⟨⟨2⟩, ⟨1⟩⟩ : Gp.RBF (Fl Mb))
    (.vec [⟨0⟩, ⟨1⟩]) (.vec [⟨0⟩, ⟨2⟩, ⟨5⟩]) trivial trivial (by simp [Gp.Pts.points])
    (by simp [Gp.Pts.points]) (by norm_num)
  exact ⟨R, h1, h2 1 2 (by simp [Gp.Pts.points]) (by simp [Gp.Pts.points])⟩
example : ∃ R, (⟨⟨2⟩, ⟨1⟩, ⟨1⟩⟩ : Gp.RQ (Fl Mb)).fwdM (.vec [⟨0⟩, ⟨1⟩]) (.vec [⟨0⟩, ⟨2⟩, ⟨5⟩]) = some R ∧
    0 < (R.get 0 1).val := by
  obtain ⟨R, h1, _, _, h4⟩ := rq_matrix_near (FlModel.bump_idem _ _ _ _) (⟨⟨2⟩, ⟨1⟩, ⟨1⟩⟩ : Gp.RQ (Fl Mb))
    (.vec [⟨0⟩, ⟨1⟩]) (.vec [⟨0⟩, ⟨2⟩, ⟨5⟩]) trivial trivial (by simp [Gp.Pts.points])
    (by simp [Gp.Pts.points]) (by norm_num) (by norm_num)
  exact ⟨R, h1, (h4 0 1 (by simp [Gp.Pts.points]) (by simp [Gp.Pts.points])).2⟩

end Cv.Rounding6.Examples2
