import Compute.Model.Matmul
import Compute.Generated.SrcC05Mut
import Compute.Lemmas.SrcMut
/-
Source tie for C05, third pass: the naive triple loop of `matmul` (`src/linalg/utils.rs`, default features) as a fragment
(`Compute/Generated/SrcC05Mut.lean`, regenerated from the Rust source on every run by `tools/rs2lean.py`, option `mut`,
fragment kind `for`).

The hand model `Cv.mmLoop` (Model/Matmul.lean) is NOT syntactically the source: its accumulator is an `Array` updated with
`Array.modify`, its operands are `Array`s read with `[i]!`; the generated definition works on `List`s (`List.set`, `[i]!`).
`matmulLoops_eq` proves, for every scalar type: started from `vec![0.; m * n]` the generated loops return the list of the
model's array — same loop order `i / k / j`, same `temp`, same `c[i*n+j] + temp * b[k*n+j]` per cell (the three nested folds are
related state by state through `Array.toList`; `Array.modify` = `List.set` of the modified element).  No algebra on the
scalar is used.
-/
set_option linter.unusedSectionVars false
namespace Cv.SrcTie.C05Mut

variable {α : Type} [Add α] [Sub α] [Mul α] [Div α] [Neg α] [Zero α] [One α] [NatCast α] [IntCast α]
  [LT α] [DecidableLT α] [LE α] [DecidableLE α] [BEq α] [Cv.Transc α] [Inhabited α]

/-- `Array.modify` on the underlying list: a `set` of the modified element (both are no-ops out of range). -/
theorem toList_modify_eq_set {β : Type} [Inhabited β] (c : Array β) (i : Nat) (f : β → β) :
    (c.modify i f).toList = c.toList.set i (f c.toList[i]!) := by
  rw [Array.toList_modify, List.modify_eq_set, List.getElem!_eq_getElem?_getD]

/-- The product loops of `matmul`, started from the zero vector, are the model's `mmLoop`. -/
theorem matmulLoops_eq (a b : List α) (m l n : Nat) :
    Cv.Src.C05Mut.matmulLoops a b (List.replicate (m * n) 0) m l n = (Cv.mmLoop a.toArray b.toArray m l n).toList := by
  unfold Cv.Src.C05Mut.matmulLoops Cv.mmLoop
  refine Cv.SrcMut.foldl_rel (fun (cl : List α) (ca : Array α) => cl = ca.toList) _ _ ?_ (List.range m) _ _ (by simp)
  intro cl ca i h
  refine Cv.SrcMut.foldl_rel (fun (cl : List α) (ca : Array α) => cl = ca.toList) _ _ ?_ (List.range l) _ _ h
  intro cl ca k h
  refine Cv.SrcMut.foldl_rel (fun (cl : List α) (ca : Array α) => cl = ca.toList) _ _ ?_ (List.range n) _ _ h
  intro cl ca j h
  subst h
  rw [toList_modify_eq_set, List.getElem!_toArray, List.getElem!_toArray]

end Cv.SrcTie.C05Mut
