import Compute.Drv.Common
import Compute.Model.Scalar
import Compute.Model.Poly
/-
Driver for C14 (model of src/predict/polynomial.rs at `Float`).  Requests (the regime tag of the
executor's protocol is dropped by `model_line`):
  fit <deg> <vec x> <vec y>            -> `= <vec coef>`
  predict <vec coef> <vec x>           -> `= <vec>`
  fitpred <deg> <vec x> <vec y> <vec xs> -> `= <vec coef> <vec pred>`
  vander <n> <vec x>                   -> `= <vec>`
  refit <deg> <k> (<vec x> <vec y>)*k  -> `= <vec coef>`*k : one regressor fitted k times.  The only state `fit`
        keeps is `coef.len()` (the number of Vandermonde columns of the next fit), modelled as such.
-/
open Cv

def c14Refit : Nat → List (List Float × List Float) → Option (List String)
  | _, [] => some []
  | p, (x, y) :: rest =>
    match Poly.fit p x y with
    | none => none
    | some c =>
      match c14Refit c.length rest with
      | none => none
      | some out => some (showVec c :: out)

def c14Step (args : List String) : String :=
  match args with
  | "fit" :: rest =>
    withArgs (do let d ← pNat; let x ← pVec; let y ← pVec; pure (d, x, y)) rest fun (d, x, y) =>
      match Poly.fit (d + 1) x y with
      | some c => ok (showVec c)
      | none => panicked
  | "predict" :: rest =>
    withArgs (do let c ← pVec; let x ← pVec; pure (c, x)) rest fun (c, x) =>
      ok (showVec (Poly.predict c x))
  | "fitpred" :: rest =>
    withArgs (do let d ← pNat; let x ← pVec; let y ← pVec; let xs ← pVec; pure (d, x, y, xs)) rest
      fun (d, x, y, xs) =>
      match Poly.fit (d + 1) x y with
      | some c => ok (showVec c ++ " " ++ showVec (Poly.predict c xs))
      | none => panicked
  | "refit" :: rest =>
    withArgs (do
      let d ← pNat; let k ← pNat
      let sets ← pMany (do let x ← pVec; let y ← pVec; pure (x, y)) k
      pure (d, sets)) rest fun (d, sets) =>
      match c14Refit (d + 1) sets with
      | none => panicked
      | some out => ok (" ".intercalate out)
  | "vander" :: rest =>
    withArgs (do let n ← pNat; let x ← pVec; pure (n, x)) rest fun (n, x) =>
      ok (showVec (Poly.vandermonde x n))
  | _ => badOp

def main (args : List String) : IO UInt32 := mainWith () (fun _ t => ((), c14Step t)) args
