import Compute.Model.ShapeExtra
import Compute.Props.C15
import Mathlib.Data.List.Sort
import Mathlib.Algebra.BigOperators.Group.Finset.Basic
import Mathlib.Algebra.BigOperators.Group.List.Basic
import Mathlib.Order.Defs.LinearOrder
set_option linter.unusedSectionVars false
/-
C15 (coverage extension) — theorems about `Model/ShapeExtra.lean`:
`Matrix::{shape, size, with_shape, with_capacity, data_mut, sum_rows, sum_cols}`,
`Vector::{new, empty, empty_n, zeros, ones, with_capacity, sort}`.

(1) shape / size agree with the invariant, also after every program; (2) the constructors return
well-formed objects of the stated shape filled with the stated value (`with_capacity` only for an
empty shape); (3) row / column sums are the mathematical sums in every commutative additive monoid and
both add up to the total; (4) `sort` returns the stably sorted permutation, and panics exactly when a
NaN meets a comparison; (5) the invariant is preserved by programs that mix the 19 structural
operations with the new state-changing ones.
-/
namespace Cv.C15
open Cv Cv.Mat Cv.Shape Cv.ShapeX
variable {α : Type}

/-! ## (1) shape and size -/

theorem shape_eq (m : Mat α) : ShapeX.shape m = (m.nrows, m.ncols) := rfl

/-- **C15 (size).** On a well-formed matrix `size() = nrows * ncols = data.len()`. -/
theorem size_eq_length (m : Mat α) (hm : m.WF) :
    ShapeX.size m = m.data.length ∧ ShapeX.size m = (ShapeX.shape m).1 * (ShapeX.shape m).2 :=
  ⟨hm.symm, rfl⟩

/-- … in particular after every program of public structural operations started from a well-formed matrix. -/
theorem size_after_run [Inhabited α] (ops : List (Op α)) (m m' : Mat α) (hm : m.WF) (h : run ops m = some m') :
    ShapeX.size m' = m'.data.length :=
  (wf_preserved ops m m' hm h).symm

example : ShapeX.size (⟨[1, 2, 3, 4, 5, 6], 2, 3⟩ : Mat Nat) = 6 ∧ ShapeX.shape (⟨[1, 2, 3, 4, 5, 6], 2, 3⟩ : Mat Nat) = (2, 3) := by decide

/-! ## (2) constructors -/

theorem vecNew_eq (d : List α) : vecNew d = d := rfl
theorem vecEmpty_length : (vecEmpty : List α).length = 0 := rfl
theorem vecWithCapacity_length (n : Nat) : (vecWithCapacity n : List α).length = 0 := rfl

/-- **C15 (Vector::zeros / ones).** `n` entries, all equal to the stated value. -/
theorem vecZeros_spec [Zero α] (n : Nat) : (vecZeros n : List α).length = n ∧ ∀ x ∈ (vecZeros n : List α), x = 0 := by
  simp [vecZeros]

theorem vecOnes_spec [One α] (n : Nat) : (vecOnes n : List α).length = n ∧ ∀ x ∈ (vecOnes n : List α), x = 1 := by
  simp [vecOnes]

/-- `Vector::empty_n(n)` has `n` elements whatever the buffer holds. -/
theorem vecEmptyN_length (g : Nat → α) (n : Nat) : (vecEmptyN g n).length = n := by simp [vecEmptyN]

/-- **C15 (with_shape).** For every content of the uninitialised buffer the result is the well-formed
`r × c` matrix over that buffer. -/
theorem withShape_spec (g : Nat → α) (r c : Nat) :
    ∃ m, withShape g r c = some m ∧ m.nrows = r ∧ m.ncols = c ∧ m.WF ∧ m.data.length = r * c := by
  refine ⟨⟨vecEmptyN g (r * c), r, c⟩, ?_, rfl, rfl, ?_, ?_⟩
  · unfold withShape; rw [mnewN_eq, if_pos (vecEmptyN_length g _).symm]
  · exact vecEmptyN_length g _
  · exact vecEmptyN_length g _

/-- Overwriting every element after `with_shape` gives the constant matrix, independently of the buffer. -/
theorem withShapeFill_spec (g : Nat → α) (r c : Nat) (v : α) :
    withShapeFill g r c v = some ⟨List.replicate (r * c) v, r, c⟩ := by
  unfold withShapeFill withShape
  rw [mnewN_eq, if_pos (vecEmptyN_length g _).symm]
  simp [vecEmptyN, List.map_const']

/-- **C15 (with_capacity).** `Matrix::with_capacity(r, c)` hands an *empty* vector to `Matrix::new`, so it
returns (the well-formed empty `r × c` matrix) exactly when `r * c = 0`, and panics otherwise. -/
theorem withCapacity_spec (r c : Nat) :
    (withCapacity r c : Option (Mat α)) = if r * c = 0 then some ⟨[], r, c⟩ else none := by
  unfold withCapacity vecWithCapacity
  rw [mnewN_eq]; rfl

theorem withCapacity_wf (r c : Nat) (m : Mat α) (h : withCapacity r c = some m) : m.WF ∧ m.data = [] := by
  rw [withCapacity_spec] at h
  split at h
  · cases h; rename_i h0; exact ⟨by simp [WF, h0], rfl⟩
  · cases h

example : (withCapacity 2 3 : Option (Mat Nat)) = none ∧ (withCapacity 0 3 : Option (Mat Nat)) = some ⟨[], 0, 3⟩ := by decide
example : withShapeFill (fun _ => 0) 2 2 (7 : Nat) = some ⟨[7, 7, 7, 7], 2, 2⟩ := by decide

/-- **C15 (element write through data_mut).** Position `k` is replaced, nothing else, shape kept;
rejected for `k ≥ data.len()`. -/
theorem dataMutSet_spec (m : Mat α) (k : Nat) (v : α) (hm : m.WF) :
    dataMutSet m k v = if k < m.nrows * m.ncols then some ⟨m.data.set k v, m.nrows, m.ncols⟩ else none := by
  unfold dataMutSet; rw [hm]

theorem dataMutSet_eq_flatIdxReplace (m : Mat α) (k : Nat) (v : α) (hm : m.WF) :
    dataMutSet m k v = flatIdxReplace m k v := by
  rw [dataMutSet_spec m k v hm]; rfl

/-! ## (3) row and column sums -/
section sums
variable [AddCommMonoid α]

theorem foldl_add_eq_sum (l : List α) (s : α) : l.foldl (· + ·) s = s + l.sum := by
  induction l generalizing s with
  | nil => simp
  | cons a l ih => simp [List.foldl_cons, ih, add_assoc]

theorem sum8Go_eq_sum (s : α) (x : List α) : sum8Go s x = s + x.sum := by
  fun_induction sum8Go s x with
  | case1 s x0 x1 x2 x3 x4 x5 x6 x7 rest ih => rw [ih]; simp [List.sum_cons, add_assoc]
  | case2 s rest _ => exact foldl_add_eq_sum rest s

/-- The 8-way unrolled `sum` is the sum. -/
theorem sum8_eq_sum (x : List α) : sum8 x = x.sum := by simp [sum8, sum8Go_eq_sum]

theorem sum_map_range (f : Nat → α) (n : Nat) : ((List.range n).map f).sum = ∑ i ∈ Finset.range n, f i := by
  induction n with
  | zero => simp
  | succ n ih => rw [List.range_succ, List.map_append, List.sum_append, ih, Finset.sum_range_succ]; simp

theorem sumRows_length (m : Mat α) : (sumRows m).length = m.nrows := by simp [sumRows]
theorem sumCols_length [Inhabited α] (m : Mat α) : (sumCols m).length = m.ncols := by simp [sumCols]

/-- **C15 (sum_rows).** Entry `i` is `Σ_j a_ij`. -/
theorem sumRows_get [Inhabited α] (m : Mat α) (hm : m.WF) (i : Nat) (hi : i < m.nrows) :
    (sumRows m)[i]! = ∑ j ∈ Finset.range m.ncols, m.get i j := by
  rw [getBang (by simpa [sumRows] using hi)]
  simp only [sumRows, List.getElem_map, List.getElem_range]
  rw [sum8_eq_sum, row_eq_map hm hi, sum_map_range]

/-- **C15 (sum_cols).** Entry `j` is `Σ_i a_ij`. -/
theorem sumCols_get [Inhabited α] (m : Mat α) (j : Nat) (hj : j < m.ncols) :
    (sumCols m)[j]! = ∑ i ∈ Finset.range m.nrows, m.get i j := by
  rw [getBang (by simpa [sumCols] using hj)]
  simp only [sumCols, List.getElem_map, List.getElem_range]
  have : ∀ (l : List Nat) (s : α), l.foldl (fun s i => s + m.get i j) s = s + (l.map fun i => m.get i j).sum := by
    intro l
    induction l with
    | nil => intro s; simp
    | cons a l ih => intro s; simp [List.foldl_cons, ih, add_assoc]
  rw [this, zero_add, sum_map_range]

/-- **C15 (totals).** The row sums and the column sums both add up to the sum of all elements. -/
theorem sumRows_sum [Inhabited α] (m : Mat α) (hm : m.WF) : (sumRows m).sum = m.data.sum := by
  have h1 : sumRows m = (rows m).map List.sum := by
    simp only [sumRows, rows, List.map_map]
    apply List.map_congr_left
    intro i _
    exact sum8_eq_sum _
  rw [h1, ← rows_flatten hm, List.sum_flatten]

theorem sumCols_sum [Inhabited α] (m : Mat α) (hm : m.WF) : (sumCols m).sum = m.data.sum := by
  rw [← sumRows_sum m hm]
  have hc : sumCols m = (List.range m.ncols).map fun j => ∑ i ∈ Finset.range m.nrows, m.get i j := by
    apply List.ext_getElem
    · simp [sumCols]
    · intro j h1 h2
      have hj : j < m.ncols := by simpa [sumCols] using h1
      rw [← getBang h1, sumCols_get m j hj]; simp
  have hr : sumRows m = (List.range m.nrows).map fun i => ∑ j ∈ Finset.range m.ncols, m.get i j := by
    apply List.ext_getElem
    · simp [sumRows]
    · intro i h1 h2
      have hi : i < m.nrows := by simpa [sumRows] using h1
      rw [← getBang h1, sumRows_get m hm i hi]; simp
  rw [hc, hr, sum_map_range, sum_map_range, Finset.sum_comm]

example : sumRows (⟨[1, 2, 3, 4, 5, 6], 2, 3⟩ : Mat Nat) = [6, 15] ∧ sumCols (⟨[1, 2, 3, 4, 5, 6], 2, 3⟩ : Mat Nat) = [5, 7, 9] := by
  decide

end sums

/-! ## (4) sort -/
section sort
variable [LE α] [DecidableLE α]

theorem insertLe_eq_orderedInsert (x : α) (l : List α) : insertLe x l = l.orderedInsert (· ≤ ·) x := by
  induction l with
  | nil => rfl
  | cons y ys ih => simp only [insertLe, List.orderedInsert_cons, ih]

/-- The model's stable sort is Mathlib's insertion sort. -/
theorem stableSort_eq_insertionSort (l : List α) : stableSort l = l.insertionSort (· ≤ ·) := by
  induction l with
  | nil => rfl
  | cons a l ih =>
    show insertLe a (stableSort l) = _
    rw [ih, insertLe_eq_orderedInsert]; rfl

/-- **C15 (sort panics exactly when a NaN meets a comparison).** -/
theorem vecSort_none_iff (l : List α) : vecSort l = none ↔ 2 ≤ l.length ∧ ∃ x ∈ l, ¬ x ≤ x := by
  unfold vecSort
  by_cases h : 2 ≤ l.length ∧ l.any (fun x => !(decide (x ≤ x))) = true
  · rw [if_pos h]
    simp only [true_iff]
    refine ⟨h.1, ?_⟩
    obtain ⟨x, hx, hnx⟩ := List.any_eq_true.mp h.2
    exact ⟨x, hx, by simpa using hnx⟩
  · rw [if_neg h]
    simp only [reduceCtorEq, false_iff]
    rintro ⟨h2, x, hx, hnx⟩
    exact h ⟨h2, List.any_eq_true.mpr ⟨x, hx, by simpa using hnx⟩⟩

/-- A vector with at most one element is returned as it is, NaN or not. -/
theorem vecSort_short (l : List α) (h : l.length ≤ 1) : vecSort l = some l := by
  unfold vecSort
  rw [if_neg (by omega)]
  match l, h with
  | [], _ => rfl
  | [a], _ => rfl

/-- **C15 (sort, total preorder — e.g. floats without NaN, with `-0.0 ≤ 0.0 ≤ -0.0`).** The result is a
permutation of the input, sorted, and stable: every sorted sublist of the input (in particular every
pair of equal keys in input order) is still a sublist of the result. -/
theorem vecSort_spec [Std.Total (α := α) (· ≤ ·)] [IsTrans α (· ≤ ·)] (l : List α) :
    ∃ l', vecSort l = some l' ∧ l'.Perm l ∧ l'.Pairwise (· ≤ ·) ∧
      ∀ c : List α, c.Pairwise (· ≤ ·) → c.Sublist l → c.Sublist l' := by
  have hrefl : ∀ x : α, x ≤ x := fun x => (Std.Total.total (r := (· ≤ ·)) x x).elim id id
  refine ⟨stableSort l, ?_, ?_, ?_, ?_⟩
  · unfold vecSort
    rw [if_neg]
    rintro ⟨_, h⟩
    obtain ⟨x, _, hnx⟩ := List.any_eq_true.mp h
    simp at hnx
  · rw [stableSort_eq_insertionSort]; exact List.perm_insertionSort _ l
  · rw [stableSort_eq_insertionSort]; exact List.pairwise_insertionSort _ l
  · intro c hc hs
    rw [stableSort_eq_insertionSort]; exact List.sublist_insertionSort hc hs

end sort

/-- **C15 (sort, totally ordered input).** A sorted permutation of the input. -/
theorem vecSort_linearOrder [LinearOrder α] (l : List α) :
    ∃ l', vecSort l = some l' ∧ l'.Perm l ∧ l'.Pairwise (· ≤ ·) := by
  obtain ⟨l', h1, h2, h3, _⟩ := vecSort_spec l
  exact ⟨l', h1, h2, h3⟩

example : vecSort [3, 1, 2, 1] = some [1, 1, 2, (3 : Nat)] := by decide

/-- A model of "float with NaN" for the non-vacuity of the NaN clause: `none` is incomparable with itself. -/
instance : LE (Option Nat) := ⟨fun a b => match a, b with | some x, some y => x ≤ y | _, _ => False⟩
instance : DecidableLE (Option Nat) := fun a b => match a, b with
  | some x, some y => inferInstanceAs (Decidable (x ≤ y))
  | none, _ => isFalse (by intro h; exact h)
  | some _, none => isFalse (by intro h; exact h)
example : vecSort [some 3, none, some 1] = none ∧ vecSort [(none : Option Nat)] = some [none] ∧
    vecSort [some 3, some 1] = some [some 1, some 3] := by decide

/-! ## (5) the invariant under the extended operation set -/
section programs
variable [Inhabited α] [Add α] [Zero α] [LE α] [DecidableLE α]

theorem stableSort_length (l : List α) : (stableSort l).length = l.length := by
  rw [stableSort_eq_insertionSort]; exact List.length_insertionSort _ l

theorem sortData_wf (m m' : Mat α) (hm : m.WF) (h : sortData m = some m') :
    m'.WF ∧ m'.nrows = m.nrows ∧ m'.ncols = m.ncols := by
  unfold sortData vecSort at h
  split at h
  · simp at h
  · simp only [Option.map_some, Option.some.injEq] at h
    subst h
    exact ⟨by simpa [WF, stableSort_length] using hm, rfl, rfl⟩

/-- Every operation of the extended set maps a well-formed matrix to a well-formed matrix (or panics). -/
theorem applyOpX_wf (g : Nat → α) (op : OpX α) (m m' : Mat α) (hm : m.WF) (h : applyOpX g op m = some m') : m'.WF := by
  cases op with
  | base op => exact applyOp_wf op m m' hm h
  | sortData => exact (sortData_wf m m' hm h).1
  | dataMutSet k v =>
    simp only [applyOpX, dataMutSet] at h
    split at h
    · cases h; simpa [WF] using hm
    · simp at h
  | withShapeFill r c v =>
    simp only [applyOpX, withShapeFill_spec, Option.some.injEq] at h
    subst h; simp [WF]
  | withCapacity r c => exact (withCapacity_wf r c m' h).1
  | sumRowsToMatrix => exact mnewN_wf h
  | sumColsToMatrix => exact mnewN_wf h

/-- **C15 (invariant, extended programs).** -/
theorem wf_preserved_X (g : Nat → α) (ops : List (OpX α)) (m m' : Mat α) (hm : m.WF) (h : runX g ops m = some m') : m'.WF := by
  induction ops generalizing m with
  | nil => simp only [runX, Option.some.injEq] at h; exact h ▸ hm
  | cons op ops ih =>
    simp only [runX] at h
    cases h1 : applyOpX g op m with
    | none => simp [h1] at h
    | some m1 =>
      rw [h1, Option.bind_some] at h
      exact ih m1 (applyOpX_wf g op m m1 hm h1) h

theorem wf_preserved_keep_X (g : Nat → α) (ops : List (OpX α)) (m : Mat α) (hm : m.WF) : (runKeepX g ops m).WF := by
  induction ops generalizing m with
  | nil => exact hm
  | cons op ops ih =>
    simp only [runKeepX]
    apply ih
    cases h1 : applyOpX g op m with
    | none => simpa using hm
    | some m1 => simpa using applyOpX_wf g op m m1 hm h1

end programs

example : runX (fun _ => 0) [OpX.base Op.t, OpX.sortData, OpX.dataMutSet 0 9, OpX.sumRowsToMatrix]
    (⟨[3, 1, 2, 6, 5, 4], 2, 3⟩ : Mat Nat) = some ⟨[11, 7, 11], 1, 3⟩ := by decide

end Cv.C15
