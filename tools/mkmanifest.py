#!/usr/bin/env python3
"""Regenerates /verif/MANIFEST.json from the table below (one entry per claimed property)."""
import json, os
VERIF = os.path.dirname(os.path.dirname(os.path.abspath(__file__)))
ALL = ["C%02d" % i for i in range(1, 21)]

NOTE = ("Trusted: Lean 4.33 kernel (axioms audited per theorem to lie within propext, Classical.choice, Quot.sound; "
        "no sorry/admit/own axioms/native_decide/bv_decide), Mathlib definitions used as specifications, the hand-written "
        "Lean model of the anchored Rust code, the bit-exact correspondence harness (generators, Rust executor, Lean driver, "
        "comparer), Lean's compiled Float arithmetic and glibc libm. Theorems are about exact arithmetic / arbitrary element "
        "types; IEEE rounding is covered by the bit-exact tie plus the exact-rational oracle, not by proof.")

CLAIMED = {
    "C04": dict(
        text=("Kernel-checked theorems: each of the 8 unrolled kernel macros of vops.rs (8-at-a-time body + remainder) equals List.map / List.zipWith at every "
              "length, for every element type and operator, with `none` (panic) on length mismatch and the scalar on the correct side; vpowi's exponent-2/3 fast path "
              "in full chunks is consistent with powi = x^n in every commutative monoid (square-and-multiply = x^n for every i32 exponent); every one of the 44+44 "
              "Vector/Matrix operator impl rows and 62 map rows, re-extracted from the macro invocations in vec.rs/matrix.rs/vops.rs on every run, is proved by `decide` "
              "to call the kernel generated from its own operator token with arguments in order (self, other), the right shape source and (for matrix compound "
              "assignment) a shape assert, so each operator form computes the scalar op at each position with shape preserved; reductions in exact arithmetic: "
              "sum8 = sum, dot8 = sum of products, prod, norm = sqrt(sum x^2), max, inf_norm, logsumexp = log sum exp x_i and logmeanexp over R with all shifted "
              "exponents <= 0 and 1 <= sum exp(x_i - m) <= n (no overflow at any magnitude). Tied bit for bit to the Rust code on all lengths 0..40 and random lengths "
              "to 1e4 for every form, map and special value; exact element-wise oracle and worst-case gamma_n-bound oracles for the reductions (rounding bounds are "
              "checked, not proved)."),
        design="DESIGN.md §6 C04",
        technique="Lean 4 proof (functional induction over the 8-way pattern, decide over translated macro wiring, real analysis for logsumexp) + bit-exact correspondence"),
    "C05": dict(
        text=("Kernel-checked theorems over any commutative semiring: for each of the four transpose-flag pairs the model of `matmul` returns "
              "a value iff the inner dimensions agree, of length m*n, whose (i,j) entry is sum_k op(A)[i,k]*op(B)[k,j]; non-conformable or malformed "
              "operands give a panic; the blocked variant equals the plain one for every block size >= 1 (proved for every scalar type with only "
              "Add/Mul/Zero by projecting both loop nests onto one cell, so the k-order is identical and the Float instances coincide bit for bit for "
              "the non-TT flags); xtx = X^T X and symmetric; the 16 Dot impls x 4 ownership forms are checked by `decide` over a wiring table regenerated "
              "from dot.rs on every run. The model is tied bit for bit to the Rust code on all shapes 1..9^3 x flags x block sizes (integer entries, exact "
              "equality oracle) and random real shapes to 64 (exact dyadic oracle with the rigorous l*2^-52*sum|a||b| bound)."),
        design="DESIGN.md §6 C05",
        technique="Lean 4 proof (loop-nest projection, Finset sums over CommSemiring, decide over translated wiring) + bit-exact correspondence"),
    "C06": dict(
        text=("Kernel-checked theorems over any field with exp/ln/sqrt abstract: entry formulas of the score (compute_dbeta) and information (compute_ddbeta); the penalty step "
              "adds alpha*beta_j to components j >= 1 only (intercept unpenalised) and alpha to the information diagonal; for any exact solver one scoring pass leaves beta "
              "unchanged iff the ridge-penalised score equations hold at mu = g^-1(X beta + offset); the six family tables (link, derivative, variance, deviance terms), "
              "Gaussian deviance = residual sum of squares and Gaussian fixed points = weighted ridge normal equations; `fit` returns Err iff not converged within the budget "
              "and on Ok the last two penalised deviances differ relatively by < tolerance; accessor formulas (dispersion, covariance = dispersion * inverse information, "
              "standard errors, predict = inverse link of x.beta + offset, aic, bic); score, information, deviance and every iterate of the loop are invariant under any "
              "permutation of the observations. PARTIAL: that the convergence test implies a small score, rounding, and solver correctness (hypothesis; C01) are not proved - "
              "they are decided per run by the bit-exact tie (all reply fields) plus a 50-digit mpmath stationarity/inference oracle."),
        design="DESIGN.md §6 C06",
        technique="Lean 4 proof (entry-wise sum algebra, fixed-point characterisation, induction over scoring iterations, permutation of Finset sums) + bit-exact correspondence"),
    "C07": dict(
        text=("Kernel-checked theorems: the model of `trapz` equals Mathlib's `trapezoidal_integral` for every n, hence is exact for affine integrands, linear, "
              "antisymmetric in the limits and obeys Mathlib's C2 error bound |b-a|^3 max|f''|/(12 n^2); quad5 is linear/antisymmetric for any table and, for the "
              "actual doubles of the node/weight tables regenerated from the source on every run, its odd moments are exactly 0 and even moments up to degree 18 "
              "are within 1e-16 of 2/(d+1) (exact rational arithmetic on the decoded bit patterns); Romberg levels 1-3 are the trapezoid/Simpson/Boole rules with "
              "cubic and quintic exactness for every tolerance; sampled `trapezoid` equals the piecewise-linear integral, is additive and agrees with the dx form on "
              "uniform grids. PARTIAL: Romberg exactness beyond 3 levels, the order-of-tolerance clause and all rounding are decided by the bit-exact tie plus an "
              "exact-rational/mpmath oracle (including the exactly decided stop rule), not by proof."),
        design="DESIGN.md §6 C07",
        technique="Lean 4 proof (Mathlib trapezoidal rule transfer, exact dyadic table arithmetic, ring identities) + translated tables + bit-exact correspondence"),
    "C08": dict(
        text=("Kernel-checked theorems over any field of characteristic zero / linear order: Welford's aggregate after any list is (n, mean, sum of squared deviations), "
              "hence mean (through the 8-way unrolled sum), welford_mean, var, sample_var, std, sample_std equal their definitions and the two means agree; the four "
              "covariance algorithms (two-pass, sample, repaired one-pass and online) equal the textbook (sample) covariance and agree; shift invariance and "
              "quadratic/bilinear scaling; argmin/argmax return the first index of an extremum (guard: data within the f64::MAX/MIN seeds, the out-of-guard behaviour "
              "is a separate theorem); min/max equal List.minimum/maximum on NaN-free input; Matrix argmin = (i / ncols, i % ncols); histogram centres are midpoints of "
              "consecutive edges. PARTIAL: 'within the rounding bound of a stable algorithm' is decided by the bit-exact tie plus an exact-rational oracle with a "
              "condition-number-scaled bound, not by proof."),
        design="DESIGN.md §6 C08",
        technique="Lean 4 proof (loop invariants by induction over the data list, field_simp/ring) + bit-exact correspondence + exact-rational oracle"),
    "C12": dict(
        text=("Kernel-checked theorems (all element types, all operators, all shapes >= 1x1): a value is returned iff the shapes are "
              "NumPy-compatible, it has the element-wise maximum shape, is well formed, and entry (i,j) is left[i|0][j|0] op right[i|0][j|0] "
              "with operand order preserved in every leaf of the classifier; Vector operands are single rows. The model is tied to the "
              "Rust code on every run by executing all 1296 shape pairs x operators x operand kinds x ownership forms through both and "
              "comparing bit for bit; an independent NumPy-rule oracle supplies the failing input."),
        design="DESIGN.md §6 C12",
        technique="Lean 4 proof (case analysis over the classifier tree) + bit-exact model/implementation correspondence"),
    "C15": dict(
        text=("Kernel-checked theorems: the matrix invariant (element count = rows x cols) is preserved by each of the 19 state-changing structural operations and, by "
              "induction, by every program of them (also for sessions that catch panics); impossible shapes are rejected exactly (iff characterisations of reshape / "
              "reshape_mut / new incl. the inferred -1 dimension); every operation refines the plain row-major reference (transpose, layout conversion, hcat, vcat, "
              "repeats, row/column extraction and maps, indexing, reshape keeps the flat data) for all shapes; diag, eye, diag_matrix, toeplitz, vandermonde, design, "
              "linspace (n points, first a, last b, constant step) and arange (ceil count, half-open) patterns; rotations are orthogonal with determinant 1 and cw = ccw^T in "
              "any commutative ring with c^2+s^2=1; predicates equal their definitions and close_to never equates values of opposite sign. Tied bit for bit to the Rust "
              "code by stateful random programs (1..40 ops, 1..8 rows/cols) and constructor sweeps; independent list-of-rows oracle."),
        design="DESIGN.md §6 C15",
        technique="Lean 4 proof (invariant by induction over operation lists, row-view refinement, ring/linear_combination) + bit-exact stateful correspondence"),
}

REASONS = {}

def main():
    checks = []
    for pid in ALL:
        if pid not in CLAIMED:
            continue
        c = CLAIMED[pid]
        checks.append({
            "property_id": pid,
            "quick_cmd": "./check %s --tier quick" % pid,
            "thorough_cmd": "./check %s --tier thorough" % pid,
            "evidence_file": "/verif/evidence/%s.json" % pid,
            "replay_cmd_template": "./check %s --replay {path}" % pid,
            "engine": "lean-proof+correspondence",
            "level_claimed": {"category": "proof", "text": c["text"], "design_ref": c["design"]},
            "level_note": NOTE + (" " + c["note"] if c.get("note") else ""),
            "technique": c["technique"],
        })
    na = [{"property_id": pid, "reason": REASONS.get(pid, "not claimed yet: model, theorems and correspondence for this property are still being built (see DESIGN.md §6 for the plan); no other technique is substituted")}
          for pid in ALL if pid not in CLAIMED]
    m = {
        "version": 1,
        "setup_cmd": "./setup.sh",
        "hooks": {
            "guard": "compute_verif",
            "enable": "none needed: every anchor is reachable through the public API; the executor crate /verif/exec depends on /repo by path",
            "baseline_off_cmd": "cd /repo && cargo test --workspace --no-fail-fast --offline",
            "source_commits": [],
            "add_only": True,
        },
        "engines": [
            {"name": "lean-proof+correspondence", "path": "/verif/check",
             "serves_properties": sorted(CLAIMED),
             "kind_free_text": "Lean 4 theorems over an executable model (lean/Compute), regenerated tables (tools/extract), bit-exact differential execution of model (lean_exe) vs. Rust (exec/), independent Python oracles as failing-input search"},
        ],
        "checks": checks,
        "not_applicable": na,
        "notes": "See DESIGN.md. known_findings.txt lists open findings and fixed defects.",
    }
    with open(os.path.join(VERIF, "MANIFEST.json"), "w") as f:
        json.dump(m, f, indent=1)
        f.write("\n")

if __name__ == "__main__":
    main()
