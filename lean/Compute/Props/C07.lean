import Mathlib.Tactic.Ring
import Mathlib.Tactic.FieldSimp
import Mathlib.Tactic.Linarith
import Mathlib.Tactic.NormNum
import Mathlib.Algebra.BigOperators.Group.List.Basic
import Mathlib.Algebra.BigOperators.Intervals
import Mathlib.Algebra.BigOperators.Ring.List
import Mathlib.MeasureTheory.Integral.IntervalIntegral.TrapezoidalRule
import Compute.Lemmas.C08
import Compute.Model.Integrate
import Compute.Generated.C07Tables
/-
C07 — quadrature rules are exact on their polynomial class and converge at order.

Theorems about the model `Compute/Model/Integrate.lean` of `src/integrate/{functions,samples}.rs`,
instantiated at `ℝ` (tie to Mathlib's `trapezoidal_integral` and its error bound), at an arbitrary
field (linearity, symmetry, exactness identities) and at `ℚ` (the doubles of the Gauss–Legendre table).
-/
set_option linter.unusedSectionVars false
namespace Cv.C07
open Cv Cv.C08 Cv.C07Tables

section Trapz
variable {α : Type} [Field α]

theorem two_eq : (two : α) = 2 := by simp [two]
theorem half_eq : (half : α) = 1 / 2 := by simp [half]

/-- `trapz` as a plain list sum.  (All algebraic `trapz` theorems below are stated for every `n`; at `n = 0`,
outside the property's quantifier, they hold through `x / 0 = 0` while the code returns `±inf`/NaN:
`C07V.trapz_zero_panels`.) -/
theorem trapz_def (f : α → α) (a b : α) (n : ℕ) :
    trapz f a b n = (b - a) / n *
      (((List.range' 1 (n - 1)).map fun k : ℕ => f (a + (k : α) * ((b - a) / n))).sum + (f b + f a) / 2) := by
  simp [trapz, iterSum_eq, two_eq]

/-- Additivity in the integrand. -/
theorem trapz_add (f g : α → α) (a b : α) (n : ℕ) :
    trapz (fun x => f x + g x) a b n = trapz f a b n + trapz g a b n := by
  simp only [trapz_def]
  rw [List.sum_map_add]
  ring

/-- Homogeneity in the integrand. -/
theorem trapz_smul (c : α) (f : α → α) (a b : α) (n : ℕ) :
    trapz (fun x => c * f x) a b n = c * trapz f a b n := by
  simp only [trapz_def]
  rw [List.sum_map_mul_left]
  ring

/-- The rule vanishes on a degenerate interval. -/
theorem trapz_self (f : α → α) (a : α) (n : ℕ) : trapz f a a n = 0 := by
  simp [trapz_def]

end Trapz

section TrapzReal
open Finset

theorem sum_range'_one {β : Type} [AddCommMonoid β] (g : ℕ → β) (m : ℕ) :
    ((List.range' 1 m).map g).sum = ∑ k ∈ Finset.range m, g (k + 1) := by
  induction m with
  | zero => simp
  | succ m ih =>
    rw [List.range'_concat, List.map_append, List.sum_append, ih, Finset.sum_range_succ]
    simp [Nat.add_comm]

/-- **`trapz` is Mathlib's trapezoidal rule** (for every integrand, interval and `n`). -/
theorem trapz_eq_mathlib (f : ℝ → ℝ) (a b : ℝ) (n : ℕ) :
    trapz f a b n = trapezoidal_integral f n a b := by
  rw [trapz_def, sum_range'_one, trapezoidal_integral]
  congr 1
  rw [add_comm, add_comm (f b)]
  congr 1
  apply Finset.sum_congr rfl
  intro k _
  congr 1
  push_cast
  ring

/-- Hence Mathlib's error bound: for a `C²` integrand whose second derivative is bounded by `ζ` on
`[[a,b]]`, `|trapz f a b n − ∫_a^b f| ≤ |b−a|³ ζ / (12 n²)` `(= (b−a) h²/12 · max|f″|)`. -/
theorem trapz_error_bound {f : ℝ → ℝ} {a b : ℝ} (hf : ContDiffOn ℝ 2 f (Set.uIcc a b)) {ζ : ℝ}
    (hζ : ∀ x, |iteratedDerivWithin 2 f (Set.uIcc a b) x| ≤ ζ) {n : ℕ} (hn : 0 < n) :
    |trapz f a b n - ∫ x in a..b, f x| ≤ |b - a| ^ 3 * ζ / (12 * n ^ 2) := by
  rw [trapz_eq_mathlib]
  exact trapezoidal_error_le_of_c2 hf hζ hn

/-- Sign change under swapping the limits (`n ≥ 1`). -/
theorem trapz_swap (f : ℝ → ℝ) (a b : ℝ) {n : ℕ} (hn : 0 < n) :
    trapz f b a n = -trapz f a b n := by
  rw [trapz_eq_mathlib, trapz_eq_mathlib, trapezoidal_integral_symm f hn a b, neg_neg]

end TrapzReal

section TrapzAffine
variable {α : Type} [Field α] [CharZero α]

theorem sum_affine_nodes (c0 c1 a dx : α) (m : ℕ) :
    ((List.range' 1 m).map fun k : ℕ => c0 + c1 * (a + (k : α) * dx)).sum
      = m * (c0 + c1 * a) + c1 * dx * ((m : α) * (m + 1) / 2) := by
  induction m with
  | zero => simp
  | succ m ih =>
    rw [List.range'_1_concat, List.map_append, List.sum_append, ih]
    simp only [List.map_cons, List.map_nil, List.sum_cons, List.sum_nil]
    push_cast
    ring

/-- **The trapezoid rule is exact for affine integrands**, for every `n ≥ 1` and all limits
(also `a > b`, `a = b`): `trapz (c₀ + c₁x) a b n = (b − a)(c₀ + c₁(a + b)/2) = ∫_a^b`. -/
theorem trapz_affine (c0 c1 a b : α) (n : ℕ) (hn : 0 < n) :
    trapz (fun x => c0 + c1 * x) a b n = (b - a) * (c0 + c1 * (a + b) / 2) := by
  rw [trapz_def, sum_affine_nodes]
  have h0 : (n : α) ≠ 0 := by exact_mod_cast (Nat.pos_iff_ne_zero.mp hn)
  have h1 : ((n - 1 : ℕ) : α) = (n : α) - 1 := by
    rw [Nat.cast_sub hn]; simp
  rw [h1]
  field_simp
  ring

example : trapz (fun x : ℚ => 2 + 3 * x) 1 3 4 = 16 := by
  rw [trapz_affine _ _ _ _ _ (by norm_num)]; norm_num

end TrapzAffine

section Quad5
variable {α : Type} [Field α]

/-- `quad5` as a plain sum over (node, weight) pairs. -/
theorem quad5_def (nodes weights : List α) (f : α → α) (a b : α) :
    quad5 nodes weights f a b
      = ((List.zip nodes weights).map fun p =>
          p.2 * (f (1 / 2 * (b + a) + 1 / 2 * (b - a) * p.1) + f (1 / 2 * (b + a) - 1 / 2 * (b - a) * p.1))).sum
        * (1 / 2 * (b - a)) := by
  simp only [quad5, iterSum_eq, half_eq, List.map_zip_eq_zipWith]
  rfl

theorem quad5_add (nodes weights : List α) (f g : α → α) (a b : α) :
    quad5 nodes weights (fun x => f x + g x) a b
      = quad5 nodes weights f a b + quad5 nodes weights g a b := by
  simp only [quad5_def]
  rw [← add_mul, ← List.sum_map_add]
  congr 2
  apply List.map_congr_left
  intro p _
  ring

theorem quad5_smul (nodes weights : List α) (c : α) (f : α → α) (a b : α) :
    quad5 nodes weights (fun x => c * f x) a b = c * quad5 nodes weights f a b := by
  simp only [quad5_def]
  have e : ∀ p : α × α,
      p.2 * (c * f (1 / 2 * (b + a) + 1 / 2 * (b - a) * p.1) + c * f (1 / 2 * (b + a) - 1 / 2 * (b - a) * p.1))
        = c * (p.2 * (f (1 / 2 * (b + a) + 1 / 2 * (b - a) * p.1) + f (1 / 2 * (b + a) - 1 / 2 * (b - a) * p.1))) := by
    intro p; ring
  simp only [e]
  rw [List.sum_map_mul_left]
  ring

/-- Sign change under swapping the limits (every integrand, every table). -/
theorem quad5_swap (nodes weights : List α) (f : α → α) (a b : α) :
    quad5 nodes weights f b a = -quad5 nodes weights f a b := by
  simp only [quad5_def]
  rw [← mul_neg]
  have e : ∀ p : α × α,
      p.2 * (f (1 / 2 * (a + b) + 1 / 2 * (a - b) * p.1) + f (1 / 2 * (a + b) - 1 / 2 * (a - b) * p.1))
        = p.2 * (f (1 / 2 * (b + a) + 1 / 2 * (b - a) * p.1) + f (1 / 2 * (b + a) - 1 / 2 * (b - a) * p.1)) := by
    intro p
    have h1 : 1 / 2 * (a + b) + 1 / 2 * (a - b) * p.1 = 1 / 2 * (b + a) - 1 / 2 * (b - a) * p.1 := by ring
    have h2 : 1 / 2 * (a + b) - 1 / 2 * (a - b) * p.1 = 1 / 2 * (b + a) + 1 / 2 * (b - a) * p.1 := by ring
    rw [h1, h2, add_comm]
  simp only [e]
  ring

theorem quad5_self (nodes weights : List α) (f : α → α) (a : α) : quad5 nodes weights f a a = 0 := by
  simp [quad5_def]

end Quad5

section Tables

/-- Decode the bit pattern of a positive normal double below `2^52`: value = `m / 2^e` with
`m = 2^52 + mantissa`, `e = 1075 − exponent field`. Returns `(sign, exponent field, m, e)`. -/
def decodeDouble (b : UInt64) : ℕ × ℕ × ℕ × ℕ :=
  let n := b.toNat
  (n / 2 ^ 63, n / 2 ^ 52 % 2048, 2 ^ 52 + n % 2 ^ 52, 1075 - n / 2 ^ 52 % 2048)

/-- **The generated dyadic rationals are the values of the generated bit patterns** (which are what
the `Float` instance of the model and — through the correspondence check — the Rust code use): sign
bit 0, exponent field in the normal range `1..1074`, mantissa and exponent as listed. -/
theorem tables_decode :
    (nodeBits.map decodeDouble = (List.zip nodeNum nodeExp).map fun p => (0, 1075 - p.2, p.1, p.2)) ∧
    (weightBits.map decodeDouble = (List.zip weightNum weightExp).map fun p => (0, 1075 - p.2, p.1, p.2)) ∧
    (∀ e ∈ nodeExp ++ weightExp, 1 ≤ e ∧ e ≤ 1074) ∧
    nodeBits.length = 5 ∧ weightBits.length = 5 := by
  refine ⟨by decide, by decide, by decide, rfl, rfl⟩

/-- The nodes and weights of the table as exact rationals (the values of the doubles). -/
def nodesQ : List ℚ := List.zipWith (fun n e => (n : ℚ) / 2 ^ e) nodeNum nodeExp
def weightsQ : List ℚ := List.zipWith (fun n e => (n : ℚ) / 2 ^ e) weightNum weightExp

/-- `Σᵢ wᵢ (tᵢᵈ + (−tᵢ)ᵈ)`: what `quad5` returns for the monomial `xᵈ` on `[-1, 1]`. -/
def moment (d : ℕ) : ℚ := ((List.zip nodesQ weightsQ).map fun p => p.2 * (p.1 ^ d + (-p.1) ^ d)).sum

theorem quad5_monomial (d : ℕ) : quad5 nodesQ weightsQ (fun x => x ^ d) (-1) 1 = moment d := by
  rw [quad5_def, moment]
  norm_num

/-- Odd monomials are integrated exactly (to `0`) by symmetry, whatever the table. -/
theorem quad5_moment_odd (d : ℕ) (hd : Odd d) : moment d = 0 := by
  unfold moment
  have : ∀ p : ℚ × ℚ, p.2 * (p.1 ^ d + (-p.1) ^ d) = 0 := by
    intro p; rw [Odd.neg_pow hd]; ring
  simp [this]

set_option linter.unusedSimpArgs false in
/-- **Residuals of the table actually used**: for the doubles in `GAUSS_QUAD_NODES/WEIGHTS`, the rule
integrates every even monomial of degree `≤ 18` on `[-1,1]` with error at most `10⁻¹⁶`
(exact value `2/(d+1)`); degree 20 is not integrated exactly (the table is the 10-point rule). -/
theorem quad5_moment_even (d : ℕ) (hd : d ≤ 18) (he : Even d) :
    |moment d - 2 / ((d : ℚ) + 1)| ≤ 1 / 10 ^ 16 := by
  obtain ⟨k, rfl⟩ := he
  have hk : k ≤ 9 := by omega
  interval_cases k <;>
    (simp only [moment, nodesQ, weightsQ, nodeNum, nodeExp, weightNum, weightExp, List.zipWith_cons_cons,
      List.zipWith_nil_right, List.zip_cons_cons, List.zip_nil_right, List.map_cons, List.map_nil,
      List.sum_cons, List.sum_nil]
     norm_num [abs_le])

set_option linter.unusedSimpArgs false in
theorem quad5_moment_20 : 1 / 10 ^ 6 < |moment 20 - 2 / 21| := by
  simp only [moment, nodesQ, weightsQ, nodeNum, nodeExp, weightNum, weightExp, List.zipWith_cons_cons,
      List.zipWith_nil_right, List.zip_cons_cons, List.zip_nil_right, List.map_cons, List.map_nil,
      List.sum_cons, List.sum_nil]
  norm_num [lt_abs]

end Tables

set_option linter.unusedSimpArgs false
section Romberg
variable {α : Type} [Field α] [CharZero α] [LinearOrder α] [HasNaN α] [Transc α]

/-- One level: `romberg` is the one-panel trapezoid rule, whatever the tolerance. -/
theorem romberg_level1 (f : α → α) (a b eps : α) :
    romberg f a b eps 1 = some ((b - a) / 2 * (f a + f b)) ∧
    romberg f a b eps 1 = some (trapz f a b 1) := by
  have h : romberg f a b eps 1 = some ((b - a) / 2 * (f a + f b)) := by
    simp [romberg, rombergLoop, romberg00, two_eq]
  refine ⟨h, ?_⟩
  rw [h, trapz_def]; simp; ring

/-- Error branch: no levels at all indexes an empty tableau (panic). -/
theorem romberg_zero (f : α → α) (a b eps : α) : romberg f a b eps 0 = none := by
  simp [romberg]

theorem powi_one' (x : α) : powi x ((1 : ℕ) : Int) = x := by
  simp [powi, powiNat, powiNat.go]

theorem powi_one'' (x : α) : powi x ((0 + 1 : ℕ) : Int) = x := powi_one' x

/-- Row 1 of the tableau: the two-panel trapezoid value and **Simpson's rule**. -/
theorem rombergRow_one (f : α → α) (a b : α) :
    rombergRow f a b 1
      = [(b - a) / 4 * (f a + 2 * f ((a + b) / 2) + f b),
         (b - a) / 6 * (f a + 4 * f ((a + b) / 2) + f b)] := by
  simp only [rombergRow, richRow, rombergCol0Next, romberg00, List.headD_cons, iterSum_eq, half_eq,
    two_eq, powi_one', powi_one'', Nat.sub_self, pow_zero, List.range'_one, List.map_cons,
    List.map_nil, List.sum_cons, List.sum_nil]
  have e : a + ((2 * 1 - 1 : ℕ) : α) * ((b - a) / 2) = (a + b) / 2 := by push_cast; ring
  rw [e]
  congr 1
  · ring
  · congr 1; ring

/-- Two levels: `romberg` returns Simpson's rule, for every tolerance (the early-stop test is only
evaluated from level 2 on). -/
theorem romberg_simpson (f : α → α) (a b eps : α) :
    romberg f a b eps 2 = some ((b - a) / 6 * (f a + 4 * f ((a + b) / 2) + f b)) := by
  have h : richRow (rombergCol0Next f a b (romberg00 f a b) 1) 1 [romberg00 f a b]
      = [(b - a) / 4 * (f a + 2 * f ((a + b) / 2) + f b),
         (b - a) / 6 * (f a + 4 * f ((a + b) / 2) + f b)] := rombergRow_one f a b
  simp only [romberg, rombergLoop]
  norm_num
  rw [h]
  simp

/-- Simpson's rule, hence `romberg` with two levels, is **exact for cubics** on every interval. -/
theorem romberg_simpson_cubic (c0 c1 c2 c3 a b eps : α) :
    romberg (fun x => c0 + c1 * x + c2 * x ^ 2 + c3 * x ^ 3) a b eps 2
      = some (c0 * (b - a) + c1 * (b ^ 2 - a ^ 2) / 2 + c2 * (b ^ 3 - a ^ 3) / 3 + c3 * (b ^ 4 - a ^ 4) / 4) := by
  rw [romberg_simpson]
  congr 1
  field_simp
  ring

end Romberg

section Samples
variable {α : Type} [Field α]

/-- The sum of the panel areas `(yᵢ + yᵢ₋₁)/2 · (xᵢ − xᵢ₋₁)` (total: `0` on short or mismatched lists).
That this is the integral of the piecewise-linear interpolant is a theorem in `Props/C07Review.lean`
(`panel_integral`, `panelSum_eq_integrals`, `panelSum_eq_integral_pwl`). -/
def panelSum : List α → List α → α
  | y0 :: y1 :: ys, x0 :: x1 :: xs => (y1 + y0) / 2 * (x1 - x0) + panelSum (y1 :: ys) (x1 :: xs)
  | _, _ => 0

theorem zipWith_panels (y x : List α) :
    (List.zipWith (· * ·) (pairMeans y) (pairDiffs x)).sum = panelSum y x := by
  fun_induction panelSum y x with
  | case1 y0 y1 ys x0 x1 xs ih =>
    simp only [pairMeans, pairDiffs, List.zipWith_cons_cons, List.sum_cons, ih, two_eq]
  | case2 y x h =>
    match y, x, h with
    | [], _, _ => simp [pairMeans]
    | [_], _, _ => simp [pairMeans]
    | _ :: _ :: _, [], _ => simp [pairDiffs]
    | _ :: _ :: _, [_], _ => simp [pairDiffs]
    | y0 :: y1 :: ys, x0 :: x1 :: xs, h => exact (h y0 y1 ys x0 x1 xs rfl rfl).elim

/-- **Sampled integration equals the integral of the piecewise-linear interpolant**, for uniform or
non-uniform (even unsorted) abscissae. -/
theorem trapezoid_eq (y x : List α) (h : y.length = x.length) :
    trapezoid y (some x) none = some (panelSum y x) := by
  simp [trapezoid, h, iterSum_eq, zipWith_panels]

/-- Error branches: length mismatch, `dx` together with `x`, no samples and no abscissae. -/
theorem trapezoid_panics (y x : List α) (d : α) :
    (y.length ≠ x.length → trapezoid y (some x) none = none) ∧
    trapezoid y (some x) (some d) = none ∧
    trapezoid ([] : List α) none (some d) = none ∧ trapezoid ([] : List α) none none = none := by
  refine ⟨fun h => by simp [trapezoid, h], ?_, by simp [trapezoid], by simp [trapezoid]⟩
  by_cases h : y.length = x.length <;> simp [trapezoid, h]

/-- Additivity over concatenation at a shared sample. -/
theorem panelSum_append (ya xa : List α) (ym xm : α) (yb xb : List α) (h : ya.length = xa.length) :
    panelSum (ya ++ ym :: yb) (xa ++ xm :: xb)
      = panelSum (ya ++ [ym]) (xa ++ [xm]) + panelSum (ym :: yb) (xm :: xb) := by
  induction ya generalizing xa with
  | nil =>
    have : xa = [] := List.eq_nil_of_length_eq_zero (by simpa using h.symm)
    subst this; simp [panelSum]
  | cons y0 ya ih =>
    match xa, h with
    | x0 :: xa, h =>
      have h' : ya.length = xa.length := by simpa using h
      cases ya with
      | nil =>
        have : xa = [] := List.eq_nil_of_length_eq_zero (by simpa using h'.symm)
        subst this; simp [panelSum]
      | cons y1 ya =>
        match xa, h' with
        | x1 :: xa, h' =>
          have := ih (x1 :: xa) h'
          simp only [List.cons_append] at this ⊢
          simp only [panelSum, this]
          ring

theorem trapezoid_append (ya xa : List α) (ym xm : α) (yb xb : List α)
    (h : ya.length = xa.length) (h2 : yb.length = xb.length) :
    trapezoid (ya ++ ym :: yb) (some (xa ++ xm :: xb)) none
      = (fun u v => u + v) <$> trapezoid (ya ++ [ym]) (some (xa ++ [xm])) none
          <*> trapezoid (ym :: yb) (some (xm :: xb)) none := by
  rw [trapezoid_eq _ _ (by simp [h, h2]), trapezoid_eq _ _ (by simp [h]), trapezoid_eq _ _ (by simp [h2]),
    panelSum_append _ _ _ _ _ _ h]
  rfl

end Samples

section Uniform
variable {α : Type} [Field α]

theorem pairDiffs_uniform (x0 d : α) (s n : ℕ) :
    pairDiffs ((List.range' s n).map fun i : ℕ => x0 + (i : α) * d) = List.replicate (n - 1) d := by
  induction n generalizing s with
  | zero => simp [pairDiffs]
  | succ n ih =>
    cases n with
    | zero => simp [pairDiffs]
    | succ n =>
      have := ih (s + 1)
      simp only [List.range'_succ, List.map_cons] at this ⊢
      simp only [pairDiffs, this]
      simp only [Nat.add_sub_cancel, List.replicate_succ]
      congr 1
      push_cast; ring

theorem pairMeans_length (y : List α) : (pairMeans y).length = y.length - 1 := by
  fun_induction pairMeans y with
  | case1 a b r ih => simp [ih]
  | case2 l h =>
    match l, h with
    | [], _ => rfl
    | [_], _ => rfl
    | a :: b :: r, h => exact (h a b r rfl).elim

theorem zipWith_replicate (l : List α) (d : α) :
    List.zipWith (· * ·) l (List.replicate l.length d) = l.map (· * d) := by
  induction l with
  | nil => simp
  | cons a t ih => simp [List.replicate_succ, ih]

/-- On a uniform grid `xᵢ = x₀ + i·d` the abscissa form equals the `dx` form. -/
theorem trapezoid_uniform (y : List α) (x0 d : α) (hy : y ≠ []) :
    trapezoid y (some ((List.range' 0 y.length).map fun i : ℕ => x0 + (i : α) * d)) none
      = trapezoid y none (some d) := by
  have hlen : y.length ≠ 0 := fun h => hy (List.eq_nil_of_length_eq_zero h)
  simp only [trapezoid, List.length_map, List.length_range', ne_eq, not_true_eq_false, if_false,
    Option.isSome_none, Bool.false_eq_true, hlen, iterSum_eq, pairDiffs_uniform, one_mul]
  rw [← pairMeans_length, zipWith_replicate]

end Uniform

section Boole
variable {α : Type} [Field α] [CharZero α] [LinearOrder α] [HasNaN α] [Transc α]

theorem powi_two (x : α) : powi x ((2 : ℕ) : Int) = x * x := by
  simp [powi, powiNat, powiNat.go]

theorem powi_two_int (x : α) : powi x (2 : Int) = x * x := by
  simp [powi, powiNat, powiNat.go]

theorem powi_two_succ (x : α) : powi x ((1 + 1 : ℕ) : Int) = x * x := powi_two x

/-- Row 2 of the tableau ends in **Boole's rule**. -/
theorem rombergRow_two_last (f : α → α) (a b : α) :
    (rombergRow f a b 2).getLastD 0
      = (b - a) / 90 * (7 * f a + 32 * f (a + (b - a) / 4) + 12 * f ((a + b) / 2)
          + 32 * f (a + 3 * (b - a) / 4) + 7 * f b) := by
  have h1 := rombergRow_one f a b
  rw [show rombergRow f a b 2
      = richRow (rombergCol0Next f a b ((rombergRow f a b 1).headD 0) 2) 1 (rombergRow f a b 1) from rfl, h1]
  simp only [richRow, rombergCol0Next, List.headD_cons, iterSum_eq, half_eq, two_eq, powi_one', powi_two, powi_two_succ,
    List.getLastD_cons, List.getLastD_nil]
  have e1 : a + ((2 * 1 - 1 : ℕ) : α) * ((b - a) / (2 * 2)) = a + (b - a) / 4 := by push_cast; ring
  have e2 : a + ((2 * 2 - 1 : ℕ) : α) * ((b - a) / (2 * 2)) = a + 3 * (b - a) / 4 := by push_cast; ring
  have hr : List.range' 1 (2 ^ (2 - 1)) = [1, 2] := by decide
  simp only [hr, List.map_cons, List.map_nil, List.sum_cons, List.sum_nil, e1, e2, Nat.cast_ofNat, powi_two_int, powi_two_succ]
  field_simp
  ring


/-- Three levels: `romberg` returns Boole's rule `R[2][2]` for **every** tolerance (an early exit at
level 2 returns the same entry that the exhausted budget returns). -/
theorem romberg_boole (f : α → α) (a b eps : α) :
    romberg f a b eps 3 = some ((b - a) / 90 * (7 * f a + 32 * f (a + (b - a) / 4) + 12 * f ((a + b) / 2)
          + 32 * f (a + 3 * (b - a) / 4) + 7 * f b)) := by
  rw [← rombergRow_two_last]
  have h2 : rombergRow f a b 2
      = richRow (rombergCol0Next f a b ((rombergRow f a b 1).headD 0) 2) 1 (rombergRow f a b 1) := rfl
  have h1 : rombergRow f a b 1
      = richRow (rombergCol0Next f a b (romberg00 f a b) 1) 1 [romberg00 f a b] := rfl
  simp only [romberg, rombergLoop]
  norm_num
  rw [← h1]
  simp [h2, List.getLastD_eq_getLast?, List.headD_eq_head?_getD]

/-- Boole's rule, hence `romberg` with three levels, is **exact for quintics** on every interval. -/
theorem romberg_boole_quintic (c0 c1 c2 c3 c4 c5 a b eps : α) :
    romberg (fun x => c0 + c1 * x + c2 * x ^ 2 + c3 * x ^ 3 + c4 * x ^ 4 + c5 * x ^ 5) a b eps 3
      = some (c0 * (b - a) + c1 * (b ^ 2 - a ^ 2) / 2 + c2 * (b ^ 3 - a ^ 3) / 3 + c3 * (b ^ 4 - a ^ 4) / 4
          + c4 * (b ^ 5 - a ^ 5) / 5 + c5 * (b ^ 6 - a ^ 6) / 6) := by
  rw [romberg_boole]
  congr 1
  field_simp
  ring

end Boole
end Cv.C07
