import Compute.Drv.Common
import Compute.Model.Scalar
import Compute.Model.DistState
import Compute.Model.C18Obs
/-
Driver for C18 (model at `Float`).  One request line = one self-contained history on one object:

  hist <kind> <seed> <probe0> <probe1> <probe2> <nsteps> <step>*
    step = new <arg>* | set <field> <arg> | upd <n> <f64>*n

Reply `= <stepreply> | <stepreply> | …` with
  <panicked 0|1> C <c> -                                    (no object yet)
  <panicked 0|1> C <c> S <state> O <obs> D <draws> R <draws> T <twin>
  <c> = 1 | 0 | -   would the constructor accept the parameter list a `set` / `upd` produces?
  draws = `N` when some number of the record is NaN (not sampled: rejection loops need not terminate)
  <twin> = X | S <state> O <obs> D <draws>                  (`new(current parameters)`)
exactly as `exec/src/bin/c18.rs` (see there).  The model has no other objects and no global generator, so its
`R` stream is by construction its `D` stream.

  bulk <kind> <seed> <rows> <cols> new <arg>* | default     (`sample_n(rows)` if cols = 0, else `sample_matrix(rows, cols)`;
                                                `default`: on `X::default().clone()`, reply extended by ` T <digest> <state>` of the twin)
Reply `= n <digest> <first 4> <last 4> <state> A <digest> <state> <digest> <state>`: the model has one sequential
`sampleN` (n successive `sample()` calls threading the generator state), so the repeated bulk call and the n single
calls are by construction the same value; the Rust executor really runs the three variants.
-/
open Cv Cv.DS

def c18Fuel : Nat := 100000
def c18IFuel : Nat := 100000000
def c18Draws : Nat := 32

inductive Ty where | real | nat | int

def kindOf : String → Option (Kind × List Ty)
  | "bernoulli" => some (.bernoulli, [.real])
  | "beta" => some (.beta, [.real, .real])
  | "binomial" => some (.binomial, [.nat, .real])
  | "chisquared" => some (.chisquared, [.nat])
  | "discreteuniform" => some (.discreteuniform, [.int, .int])
  | "exponential" => some (.exponential, [.real])
  | "gamma" => some (.gamma, [.real, .real])
  | "gumbel" => some (.gumbel, [.real, .real])
  | "normal" => some (.normal, [.real, .real])
  | "pareto" => some (.pareto, [.real, .real])
  | "poisson" => some (.poisson, [.real])
  | "t" => some (.t, [.real])
  | "uniform" => some (.uniform, [.real, .real])
  | _ => none

def isDiscrete : Kind → Bool
  | .bernoulli | .binomial | .discreteuniform | .poisson => true
  | _ => false

def pArg : Ty → P (Arg Float)
  | .real => do let x ← pFloat; pure (.real x)
  | .nat => do let n ← pNat; pure (.int n)
  | .int => do let i ← pInt; pure (.int i)

def pArgs : List Ty → P (List (Arg Float))
  | [] => pure []
  | t :: ts => do let a ← pArg t; let as ← pArgs ts; pure (a :: as)

/-- A step of a session: a call of the `Op` language, `X::default()` (modelled as `new(defaultArgs)`), or a
`Clone` / `Copy` of the object (the identity on records). -/
inductive SStep where
  | op (o : Op Float)
  | dflt
  | clone

def pOp (sig : List Ty) : P SStep := do
  let t ← tok
  match t with
  | "default" => pure .dflt
  | "clone" => pure .clone
  | "copy" => pure .clone
  | _ => SStep.op <$> (match t with
  | "new" => do let as ← pArgs sig; pure (.new as)
  | "set" => do
    let i ← pNat
    match sig[i]? with
    | none => failure
    | some ty => do let a ← pArg ty; pure (.set i a)
  | "upd" => do let n ← pNat; let ps ← pMany pFloat n; pure (.update ps)
  | _ => failure)

def showArg : Arg Float → String
  | .real x => showFloat x
  | .int i => toString i

def showArgs (l : List (Arg Float)) : String := " ".intercalate (l.map showArg)

def showOptF : Option Float → String
  | some x => showFloat x
  | none => "X"

def showObs (d : Dist Float) (probes : List Probe) : String :=
  " ".intercalate ((probes.map fun p => showOptF (densityD d p)) ++ [showOptF (meanD d), showOptF (varD d)])

def argIsNaN : Arg Float → Bool
  | .real x => x.isNaN
  | .int _ => false

def showDraws (d : Dist Float) (seed : UInt64) : String :=
  if d.flat.any argIsNaN then "N" else
  match drawsD c18Fuel c18IFuel d seed c18Draws with
  | some xs => showFloats xs
  | none => "X"

def observe (d : Dist Float) (probes : List Probe) (seed : UInt64) : String :=
  let dr := showDraws d seed
  let own := s!"S {showArgs d.flat} O {showObs d probes} D {dr} R {dr}"
  match fresh d with
  | none => own ++ " T X"
  | some tw => own ++ s!" T S {showArgs tw.flat} O {showObs tw probes} D {showDraws tw seed}"

/-- One step of a session whose object may not exist yet. -/
def sessionStep (k : Kind) (obj : Option (Dist Float)) (op : Op Float) : Option (Dist Float) × Bool :=
  match obj, op with
  | none, .new args =>
    match newD k args with
    | some d => (some d, false)
    | none => (none, true)
  | none, _ => (none, false)
  | some d, op => let r := step d op; (some r.1, r.2)

def runSteps (k : Kind) (sig : List Ty) (probes : List Probe) (seed : UInt64) :
    Nat → Option (Dist Float) → List String → P (List String)
  | 0, _, acc => pure acc.reverse
  | n + 1, obj, acc => do
    let sstep ← pOp sig
    let (c, obj, p) : String × Option (Dist Float) × Bool := match sstep with
      | .clone => ("-", obj, false)
      | .dflt => let r := sessionStep k obj (.new (defaultArgs k)); ("-", r.1, r.2)
      | .op op =>
        let c : String := match obj, op with
          | some d, .set i a => showBool (newD k (d.params.set i a)).isSome
          | some _, .update ps =>
            (match castArgs k ps with
             | some args => showBool (newD (α := Float) k args).isSome
             | none => "-")
          | _, _ => "-"
        let r := sessionStep k obj op
        (c, r.1, r.2)
    let body := match obj with
      | none => "-"
      | some d => observe d probes seed
    runSteps k sig probes seed n obj (s!"{showBool p} C {c} {body}" :: acc)

/-- FNV-1a over the bit patterns of the draws (NaN canonical). -/
def fnvStep (h : UInt64) (x : Float) : UInt64 :=
  let b : UInt64 := if x.isNaN then 0x7ff8000000000000 else x.toBits
  (h ^^^ b) * 0x100000001b3

/-- `n` successive `sample()` calls (tail recursive; `none` = a draw diverged / panicked). -/
def bulkLoop (d : Dist Float) : Nat → Rng → Array Float → Option (Array Float × Rng)
  | 0, g, acc => some (acc, g)
  | n + 1, g, acc =>
    match sampleD c18Fuel c18IFuel d g with
    | none => none
    | some (x, g) => bulkLoop d n g (acc.push x)

def c18Bulk (k : Kind) (sig : List Ty) (rest : List String) : String :=
  withArgs (do
    let seed ← pU64
    let rows ← pNat; let cols ← pNat
    let mode ← tok
    let args ← (if mode == "default" then pure (defaultArgs k) else if mode == "new" then pArgs sig else failure)
    pure (seed, rows, cols, mode, args)) rest fun (seed, rows, cols, mode, args) =>
    match newD k args with
    | none => panicked
    | some d =>
      let n := if cols == 0 then rows else rows * cols
      match bulkLoop d n (Rng.ofSeed seed) (Array.mkEmpty n) with
      | none => diverged
      | some (xs, g) =>
        let h := natToHex16 (xs.foldl fnvStep 0xcbf29ce484222325).toNat
        let kk := min xs.size 4
        let first := (xs.extract 0 kk).toList
        let last := (xs.extract (xs.size - kk) xs.size).toList
        let st := toString g.s.toNat
        let digestOf (o : Dist Float) : String :=
          match bulkLoop o n (Rng.ofSeed seed) (Array.mkEmpty n) with
          | none => "X"
          | some (ys, g') => s!"{natToHex16 (ys.foldl fnvStep 0xcbf29ce484222325).toNat} {g'.s.toNat}"
        let twin := if mode == "default" then
            (match fresh d with
             | none => " T X"
             | some tw => " T " ++ digestOf tw)
          else ""
        ok s!"{xs.size} {h} {showFloats first} {showFloats last} {st} A {h} {st} {h} {st}{twin}"

def c18Step (args : List String) : String :=
  match args with
  | "bulk" :: kindS :: rest =>
    match kindOf kindS with
    | none => badOp
    | some (k, sig) => c18Bulk k sig rest
  | "hist" :: kindS :: rest =>
    match kindOf kindS with
    | none => badOp
    | some (k, sig) =>
      withArgs (do
        let seed ← pU64
        let probes ← pMany (if isDiscrete k then pArg .int else pArg .real) 3
        let n ← pNat
        runSteps k sig probes seed n none []) rest fun replies => ok (" | ".intercalate replies)
  | _ => badOp

def main (args : List String) : IO UInt32 := mainWith () (fun _ t => ((), c18Step t)) args
