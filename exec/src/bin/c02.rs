//! C02 executor: pdf / pmf / ln_pdf / cdf / mean / var of the distributions of `compute::distributions`.
//! Requests (floats as 16 hex digits, integers decimal):
//!   `pdf   <dist> <params> n x1 … xn`  -> `= y1 … yn`    (continuous)
//!   `lnpdf <dist> <params> n x1 … xn`  -> `= y1 … yn`
//!   `cdf   normal mu sigma n x1 … xn`  -> `= y1 … yn`    (`! diverged` if an erf argument would be NaN:
//!                                                          `erf(NaN)` recurses until the stack overflows)
//!   `pmf   <dist> <params> n k1 … kn`  -> `= y1 … yn`    (discrete)
//!   `mean <dist> <params>` | `var <dist> <params>`       -> `= y`
//!   `mvn_pdf k mean[k] cov[k*k] m xs[m*k]` | `mvn_lnpdf …` -> `= y1 … ym`
//! `<dist> <params>`: normal μ σ | gamma α β | beta α β | chi2 dof | t ν | pareto α xm | gumbel μ β |
//! exponential λ | uniform lo hi | poisson λ | binomial n p | bernoulli p | duniform lo hi
use compute::distributions::*;
use compute::linalg::Matrix;
use cvexec::*;

enum Obj {
    Normal(Normal),
    Gamma(Gamma),
    Beta(Beta),
    Chi2(ChiSquared),
    T(T),
    Pareto(Pareto),
    Gumbel(Gumbel),
    Exponential(Exponential),
    Uniform(Uniform),
    Poisson(Poisson),
    Binomial(Binomial),
    Bernoulli(Bernoulli),
    DUniform(DiscreteUniform),
}

/// Reads `<dist> <params>` completely (so that a malformed line is `bad-op`, not a panic), and returns a
/// closure that runs the real constructor.
fn parse_obj(t: &mut Toks) -> R<Box<dyn FnOnce() -> Obj>> {
    let d = t.tok()?;
    Ok(match d {
        "normal" => {
            let (a, b) = (t.f64()?, t.f64()?);
            Box::new(move || Obj::Normal(Normal::new(a, b)))
        }
        "gamma" => {
            let (a, b) = (t.f64()?, t.f64()?);
            Box::new(move || Obj::Gamma(Gamma::new(a, b)))
        }
        "beta" => {
            let (a, b) = (t.f64()?, t.f64()?);
            Box::new(move || Obj::Beta(Beta::new(a, b)))
        }
        "chi2" => {
            let k = t.usize()?;
            Box::new(move || Obj::Chi2(ChiSquared::new(k)))
        }
        "t" => {
            let v = t.f64()?;
            Box::new(move || Obj::T(T::new(v)))
        }
        "pareto" => {
            let (a, b) = (t.f64()?, t.f64()?);
            Box::new(move || Obj::Pareto(Pareto::new(a, b)))
        }
        "gumbel" => {
            let (a, b) = (t.f64()?, t.f64()?);
            Box::new(move || Obj::Gumbel(Gumbel::new(a, b)))
        }
        "exponential" => {
            let l = t.f64()?;
            Box::new(move || Obj::Exponential(Exponential::new(l)))
        }
        "uniform" => {
            let (a, b) = (t.f64()?, t.f64()?);
            Box::new(move || Obj::Uniform(Uniform::new(a, b)))
        }
        "poisson" => {
            let l = t.f64()?;
            Box::new(move || Obj::Poisson(Poisson::new(l)))
        }
        "binomial" => {
            let n = t.u64()?;
            let p = t.f64()?;
            Box::new(move || Obj::Binomial(Binomial::new(n, p)))
        }
        "bernoulli" => {
            let p = t.f64()?;
            Box::new(move || Obj::Bernoulli(Bernoulli::new(p)))
        }
        "duniform" => {
            let (a, b) = (t.i64()?, t.i64()?);
            Box::new(move || Obj::DUniform(DiscreteUniform::new(a, b)))
        }
        _ => return Err(BadOp),
    })
}

fn pdf(o: &Obj, x: f64) -> R<f64> {
    Ok(match o {
        Obj::Normal(d) => d.pdf(x),
        Obj::Gamma(d) => d.pdf(x),
        Obj::Beta(d) => d.pdf(x),
        Obj::Chi2(d) => d.pdf(x),
        Obj::T(d) => d.pdf(x),
        Obj::Pareto(d) => d.pdf(x),
        Obj::Gumbel(d) => d.pdf(x),
        Obj::Exponential(d) => d.pdf(x),
        Obj::Uniform(d) => d.pdf(x),
        _ => return Err(BadOp),
    })
}

fn ln_pdf(o: &Obj, x: f64) -> R<f64> {
    Ok(match o {
        Obj::Normal(d) => d.ln_pdf(x),
        Obj::Gamma(d) => d.ln_pdf(x),
        Obj::Beta(d) => d.ln_pdf(x),
        Obj::Chi2(d) => d.ln_pdf(x),
        Obj::T(d) => d.ln_pdf(x),
        Obj::Pareto(d) => d.ln_pdf(x),
        Obj::Gumbel(d) => d.ln_pdf(x),
        Obj::Exponential(d) => d.ln_pdf(x),
        Obj::Uniform(d) => d.ln_pdf(x),
        _ => return Err(BadOp),
    })
}

fn pmf(o: &Obj, k: i64) -> R<f64> {
    Ok(match o {
        Obj::Poisson(d) => d.pmf(k),
        Obj::Binomial(d) => d.pmf(k),
        Obj::Bernoulli(d) => d.pmf(k),
        Obj::DUniform(d) => d.pmf(k),
        _ => return Err(BadOp),
    })
}

fn mean(o: &Obj) -> f64 {
    match o {
        Obj::Normal(d) => d.mean(),
        Obj::Gamma(d) => d.mean(),
        Obj::Beta(d) => d.mean(),
        Obj::Chi2(d) => d.mean(),
        Obj::T(d) => d.mean(),
        Obj::Pareto(d) => d.mean(),
        Obj::Gumbel(d) => d.mean(),
        Obj::Exponential(d) => d.mean(),
        Obj::Uniform(d) => d.mean(),
        Obj::Poisson(d) => d.mean(),
        Obj::Binomial(d) => d.mean(),
        Obj::Bernoulli(d) => d.mean(),
        Obj::DUniform(d) => d.mean(),
    }
}

fn var(o: &Obj) -> f64 {
    match o {
        Obj::Normal(d) => d.var(),
        Obj::Gamma(d) => d.var(),
        Obj::Beta(d) => d.var(),
        Obj::Chi2(d) => d.var(),
        Obj::T(d) => d.var(),
        Obj::Pareto(d) => d.var(),
        Obj::Gumbel(d) => d.var(),
        Obj::Exponential(d) => d.var(),
        Obj::Uniform(d) => d.var(),
        Obj::Poisson(d) => d.var(),
        Obj::Binomial(d) => d.var(),
        Obj::Bernoulli(d) => d.var(),
        Obj::DUniform(d) => d.var(),
    }
}

fn is_discrete(o: &Obj) -> bool {
    matches!(o, Obj::Poisson(_) | Obj::Binomial(_) | Obj::Bernoulli(_) | Obj::DUniform(_))
}

fn step(_: &mut (), t: &mut Toks) -> R<String> {
    let op = t.tok()?;
    match op {
        "pdf" | "lnpdf" => {
            let mk = parse_obj(t)?;
            let xs = t.vec()?;
            t.end()?;
            let o = mk();
            if is_discrete(&o) {
                return Err(BadOp);
            }
            let mut ys = Vec::with_capacity(xs.len());
            for x in xs {
                ys.push(if op == "pdf" { pdf(&o, x)? } else { ln_pdf(&o, x)? });
            }
            Ok(ok(show_fs(&ys)))
        }
        "cdf" => {
            let d = t.tok()?;
            if d != "normal" {
                return Err(BadOp);
            }
            let (mu, sigma) = (t.f64()?, t.f64()?);
            let xs = t.vec()?;
            t.end()?;
            let o = Normal::new(mu, sigma);
            let mut ys = Vec::with_capacity(xs.len());
            for x in xs {
                // the argument `Normal::cdf` hands to `erf`; erf(NaN) never returns
                let z = (x - mu) / (sigma * 2_f64.sqrt());
                if z.is_nan() {
                    return Ok("! diverged".to_string());
                }
                ys.push(o.cdf(x));
            }
            Ok(ok(show_fs(&ys)))
        }
        "pmf" => {
            let mk = parse_obj(t)?;
            let ks = t.i64s()?;
            t.end()?;
            let o = mk();
            if !is_discrete(&o) {
                return Err(BadOp);
            }
            let mut ys = Vec::with_capacity(ks.len());
            for k in ks {
                ys.push(pmf(&o, k)?);
            }
            Ok(ok(show_fs(&ys)))
        }
        "mean" | "var" => {
            let mk = parse_obj(t)?;
            t.end()?;
            let o = mk();
            Ok(ok(show_f(if op == "mean" { mean(&o) } else { var(&o) })))
        }
        "mvn_pdf" | "mvn_lnpdf" => {
            let k = t.usize()?;
            let mu = t.f64s(k)?;
            let cov = t.f64s(k * k)?;
            let m = t.usize()?;
            let xs = t.f64s(m * k)?;
            t.end()?;
            let c = Matrix::new(cov, k as i32, k as i32);
            let d = MVN::new(mu, c);
            let mut ys = Vec::with_capacity(m);
            for i in 0..m {
                let x = &xs[i * k..(i + 1) * k];
                ys.push(if op == "mvn_pdf" { (&d).pdf(x) } else { (&d).ln_pdf(x) });
            }
            Ok(ok(show_fs(&ys)))
        }
        _ => Err(BadOp),
    }
}

fn main() {
    run((), step);
}
