import Compute.Model.Scalar
import Compute.Generated.C09Tables
/-
Model of the special functions of `/repo/src/functions/gamma.rs` (`gamma`, `ln_gamma`, `beta`, `digamma`)
and of `erf` in `/repo/src/functions/statistical.rs`, polymorphic in the scalar `α`.  No Mathlib.

API for other models (pdfs/pmfs/cdfs of the distributions):
  `Cv.gammaFn  : α → α`       Rust `gamma`
  `Cv.lnGammaFn: α → α`       Rust `ln_gamma`
  `Cv.betaFn   : α → α → α`   Rust `beta`
  `Cv.digammaFn: α → α`       Rust `digamma`  (recursion with fuel `digammaFuel`, see below)
  `Cv.erfFn    : α → α`       Rust `erf`  (needs `[Cv.SignBit α]`: branch on the sign bit, `Float` instance included)
All need `[Add α] [Sub α] [Mul α] [Div α] [Neg α] [One α] [NatCast α] [LT α] [DecidableLT α]
[Cv.Transc α] [Cv.OfLit α]`, `erfFn` also `[Cv.SignBit α]` (only the ones a function really uses).  At `α = Float` every
instance exists after `import Compute.Model.Special`, and each function is bit-identical to the Rust one
(checked by `./check C09` on ~10⁵–10⁶ arguments per run).  For `ℝ` the instances `Cv.C09.instOfLitReal` and
`Cv.C09.instTranscReal` are in `Compute/Lemmas/C09.lean` (scoped: `open scoped Cv.C09`).

Float literals of the source come from `Compute/Generated/C09Tables.lean` as `Cv.Lit` (bits + exact rational);
`OfLit.ofLit` turns one into a scalar (`Float.ofBits` at `Float`, `num/den` at `ℝ`/`ℚ`).  Small integer literals
(`1.`, `2.`, `6.`, `12.` …) are `One`/`NatCast`, `0.5` is `1 / 2` (exact in binary floating point).

The Rust functions `gamma`, `ln_gamma`, `erf`, `digamma` are recursive.  The faithful transcriptions with fuel
are `gammaF`, `lnGammaF`, `erfF`, `digammaF` (`none` = fuel exhausted).  `gammaFn`, `lnGammaFn`, `erfFn` are the
closed forms after the (at most one) reflection step; `Props/C09.lean` proves `gammaF (n+2) z = some (gammaFn z)`
etc. over every linearly ordered field, and the driver checks at `Float` that both coincide on every request.
-/
namespace Cv

/-- Scalars into which a source literal can be injected. -/
class OfLit (α : Type) where
  ofLit : Lit → α

export OfLit (ofLit)

instance : OfLit Float := ⟨fun l => Float.ofBits l.bits⟩

/-- Rust's `f64::is_sign_positive`: the sign bit is clear (`+0.0`, positive numbers, `+∞`, NaNs whose sign bit is clear).
At `Float` it is read off `Float.toBits`, which CANONICALISES NaN: every NaN counts as sign-positive here, whereas Rust
mirrors a NaN whose sign bit is set (`-erf(-x)`).  The difference is invisible: `erf` of any NaN is NaN on both routes, and
NaNs travel as the token `nan`.  For every non-NaN double the instance is exactly Rust's predicate.  Over an ordered field
(one zero, no NaN) it is `0 ≤ x` (`Cv.C09.instSignBitReal`, and `Cv.C09.LawfulSignBitField` for abstract fields, in the
proof files). -/
class SignBit (α : Type) where
  isSignPositive : α → Bool

instance : SignBit Float := ⟨fun x => x.toBits >>> 63 == 0⟩

namespace Special
open C09T

section
variable {α : Type} [Add α] [Sub α] [Mul α] [Div α] [Neg α] [One α] [NatCast α] [Transc α] [OfLit α]

/-- `2.` -/
def two : α := ((2 : Nat) : α)
/-- `0.5` -/
def half : α := (1 : α) / two
/-- `std::f64::consts::PI` -/
def piC : α := ofLit C09T.pi
/-- `const G: f64 = 4.7421875 + 1.;` -/
def gC : α := ofLit C09T.gBase + 1

/-- The loop `for (idx, val) in GAMMA_COEFFS.iter().enumerate() { x += val / ((z - 1.) + (idx as f64) + 1.) }`
started at accumulator `x` and index `idx`. -/
def lanczosLoop (z : α) : List Lit → Nat → α → α
  | [], _, x => x
  | val :: rest, idx, x => lanczosLoop z rest (idx + 1) (x + ofLit val / (((z - 1) + (idx : α)) + 1))

/-- The series factor `x` of both Lanczos bodies. -/
def lanczosSum (z : α) : α := lanczosLoop z C09T.lanczos 0 (ofLit C09T.lanczosC0)

/-- `let t = (z - 1.) + G - 0.5;` -/
def lanczosT (z : α) : α := ((z - 1) + gC) - half

/-- `let half_pow = t.powf(((z - 1.) + 0.5) / 2.);` -/
def halfPow (z : α) : α := Transc.pow (lanczosT z) (((z - 1) + half) / two)

/-- `else` branch of `gamma` (`z ≥ 0.5`): `sqrt(2π) * half_pow * exp(-t) * half_pow * x`, left-associated. -/
def gammaPos (z : α) : α :=
  (((Transc.sqrt (two * piC) * halfPow z) * Transc.exp (-(lanczosT z))) * halfPow z) * lanczosSum z

/-- `else` branch of `ln_gamma`: `0.5 * (2. * PI).ln() + ((z - 1.) + 0.5) * t.ln() - t + x.ln()`. -/
def lnGammaPos (z : α) : α :=
  (((half * Transc.ln (two * piC)) + ((z - 1) + half) * Transc.ln (lanczosT z)) - lanczosT z)
    + Transc.ln (lanczosSum z)

/-- One term `± num / (den * x.powi(k))` of the digamma series. -/
def digammaTerm (x : α) (acc : α) (t : Bool × Nat × Nat × Nat) : α :=
  let v : α := (t.2.1 : α) / ((t.2.2.1 : α) * powi x (t.2.2.2 : Int))
  if t.1 then acc - v else acc + v

/-- `else` branch of `digamma` (`x ≥ 6`): `x.ln() - 1/(2x) - 1/(12x²) + 1/(120x⁴) - …`, left-associated. -/
def digammaSeries (x : α) : α := C09T.digammaSeries.foldl (digammaTerm x) (Transc.ln x)

/-- `ERF_A5*t + … ` Horner polynomial of `erf`: `((((A5*t + A4)*t) + A3)*t + A2)*t + A1`. -/
def erfPoly (t : α) : α :=
  ((((ofLit erfA5 * t + ofLit erfA4) * t) + ofLit erfA3) * t + ofLit erfA2) * t + ofLit erfA1

/-- `x >= 0.` branch of `erf`: `t = 1/(1 + P x)`, `1 - poly(t) * t * exp(-x * x)`. -/
def erfPos (x : α) : α :=
  let t : α := 1 / (1 + ofLit erfP * x)
  1 - (erfPoly t * t) * Transc.exp ((-x) * x)

end

section
variable {α : Type} [Add α] [Sub α] [Mul α] [Div α] [Neg α] [One α] [NatCast α] [Transc α] [OfLit α]
  [LT α] [DecidableLT α]

/-- Rust `gamma`, recursion transcribed with fuel (`none` = fuel exhausted). -/
def gammaF : Nat → α → Option α
  | 0, _ => none
  | n + 1, z =>
    if z < half then (gammaF n (1 - z)).map fun g => piC / (Transc.sin (piC * z) * g)
    else some (gammaPos z)

/-- Rust `gamma` after the single reflection step. -/
def gammaFn (z : α) : α :=
  if z < half then piC / (Transc.sin (piC * z) * gammaPos (1 - z)) else gammaPos z

/-- Rust `ln_gamma`, recursion transcribed with fuel. -/
def lnGammaF : Nat → α → Option α
  | 0, _ => none
  | n + 1, z =>
    if z < half then
      (lnGammaF n (1 - z)).map fun g => Transc.ln (piC / Transc.abs (Transc.sin (piC * z))) - g
    else some (lnGammaPos z)

/-- Rust `ln_gamma` after the single reflection step. -/
def lnGammaFn (z : α) : α :=
  if z < half then Transc.ln (piC / Transc.abs (Transc.sin (piC * z))) - lnGammaPos (1 - z)
  else lnGammaPos z

/-- Rust `beta`: `gamma(a) * gamma(b) / gamma(a + b)`. -/
def betaFn (a b : α) : α := gammaFn a * gammaFn b / gammaFn (a + b)

/-- Rust `digamma`, recursion transcribed with fuel: `if x < 6. { digamma(x + 1.) - 1. / x } else { series }`. -/
def digammaF : Nat → α → Option α
  | 0, _ => none
  | n + 1, x =>
    if x < ((C09T.digammaShift : Nat) : α) then (digammaF n (x + 1)).map fun d => d - 1 / x
    else some (digammaSeries x)

/-- Fuel used by `digammaFn`: enough for every `x ≥ -100000` (one step per unit below 6). -/
def digammaFuel : Nat := 100010

/-- Rust `digamma` for arguments `x ≥ -100000` (below that the Rust recursion is ≥ 10⁵ frames deep, and it never
returns for `x = -∞` or `x ≤ -2⁵³`); when the fuel runs out the series value is returned (junk, documented). -/
def digammaFn (x : α) : α := (digammaF digammaFuel x).getD (digammaSeries x)

end

section
variable {α : Type} [Add α] [Sub α] [Mul α] [Div α] [Neg α] [One α] [Transc α] [OfLit α] [SignBit α]

/-- Rust `erf` (since repair F56), recursion transcribed with fuel:
`if x.is_sign_positive() { … } else { -erf(-x) }`.  The branch is on the SIGN BIT, not on an order comparison, so `-0.0`
is mirrored like every other negative argument and a NaN takes one of the two branches like any other value. -/
def erfF : Nat → α → Option α
  | 0, _ => none
  | n + 1, x => if SignBit.isSignPositive x then some (erfPos x) else (erfF n (-x)).map fun e => -e

/-- Rust `erf` after the single sign-flip step. -/
def erfFn (x : α) : α := if SignBit.isSignPositive x then erfPos x else -(erfPos (-x))

end
end Special

export Special (gammaFn lnGammaFn betaFn digammaFn erfFn gammaF lnGammaF digammaF erfF)

end Cv
