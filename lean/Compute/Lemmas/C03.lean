import Compute.Model.Samplers
import Compute.Lemmas.C09
import Compute.Lemmas.C19Rng
import Mathlib.Analysis.SpecialFunctions.Pow.Real
import Mathlib.Analysis.SpecialFunctions.Log.Basic
import Mathlib.Tactic.Ring
import Mathlib.Tactic.Linarith
import Mathlib.Tactic.NormNum
import Mathlib.Tactic.Positivity
import Mathlib.Tactic.FieldSimp
/-
Helper material for C03: the remaining real-number instances of the scalar interface (`Log1p ℝ`, `ToU64 ℝ`, scoped in
`Cv.C03L`; `Transc ℝ` and `OfLit ℝ` come from `Cv.C09`), the range of the uniform draw, loop invariants of the gamma
loop and of `drawN?`.
-/
set_option linter.unusedSectionVars false
set_option linter.unusedSimpArgs false
set_option linter.unusedVariables false

namespace Cv.C03L
open Cv
open scoped Cv.C09

/-- `ln_1p` over the reals. -/
noncomputable scoped instance instLog1pReal : Log1p ℝ := ⟨fun x => Real.log (1 + x)⟩
/-- `x as u64` over the reals: truncation, saturating. -/
noncomputable scoped instance instToU64Real : ToU64 ℝ := ⟨fun x => min ⌊x⌋₊ (2 ^ 64 - 1)⟩

/-- `is_finite` over the reals: always. -/
scoped instance instFiniteTestReal : FiniteTest ℝ := ⟨fun _ => true⟩

/-! ### the uniform draw -/

/-- Over the reals the repaired `Uniform::sample` (F44) is the plain affine map of `Model/Rng.lean`. -/
theorem uniformF_real (a b : ℝ) (g : Rng) : UniformF.sample a b g = Uniform.sample a b g := by
  simp [UniformF.sample, Uniform.sample, FiniteTest.isFinite]

/-- `Uniform(0,1).sample()` over the reals is the raw uniform. -/
theorem uniformF_unit (g : Rng) : UniformF.sample (0 : ℝ) 1 g = g.f64 (α := ℝ) := by
  rw [uniformF_real]; simp [Uniform.sample]

theorem f64_eq (g : Rng) : (g.f64 (α := ℝ)).1 = ((g.f53).1 : ℝ) / ((2 ^ 53 : Nat) : ℝ) := rfl

theorem f64_mem (g : Rng) : 0 ≤ (g.f64 (α := ℝ)).1 ∧ (g.f64 (α := ℝ)).1 < 1 := by
  rw [f64_eq]
  have h := Rng.f53_lt g
  have hp : (0 : ℝ) < ((2 ^ 53 : Nat) : ℝ) := by positivity
  constructor
  · positivity
  · rw [div_lt_one hp]
    exact_mod_cast h

theorem f64_pos_of_f53_ne_zero (g : Rng) (h : (g.f53).1 ≠ 0) : 0 < (g.f64 (α := ℝ)).1 := by
  rw [f64_eq]
  have : (0 : ℝ) < ((g.f53).1 : ℝ) := by exact_mod_cast Nat.pos_of_ne_zero h
  positivity

/-! ### gamma loop -/

theorem gamma_result_boost (boost d v beta : ℝ) :
    Gamma.result boost d v beta = boost * Gamma.result 1 d v beta := by
  unfold Gamma.result; ring

/-- The loop with boost `c` returns `c` times what the loop without boost returns, from the same state, consuming the
same draws. -/
theorem gamma_loop_boost (zf : Nat) (c d beta : ℝ) (fuel : Nat) (g : Rng) :
    Gamma.loop zf c d beta fuel g = (Gamma.loop zf 1 d beta fuel g).map (fun r => (c * r.1, r.2)) := by
  induction fuel generalizing g with
  | zero => simp [Gamma.loop]
  | succ n ih =>
    simp only [Gamma.loop]
    cases hN : Normal.sample zf (0 : ℝ) 1 g with
    | none => simp
    | some r =>
      obtain ⟨x, g1⟩ := r
      simp only []
      split_ifs <;> simp [ih, gamma_result_boost c]

theorem gamma_loop_pos' (zf : Nat) (boost d beta : ℝ) (hb : 0 < boost) (hd : 0 < d) (hbeta : 0 < beta)
    (fuel : Nat) (g g' : Rng) (x : ℝ) (h : Gamma.loop zf boost d beta fuel g = some (x, g')) : 0 < x := by
  induction fuel generalizing g with
  | zero => simp [Gamma.loop] at h
  | succ n ih =>
    simp only [Gamma.loop] at h
    cases hN : Normal.sample zf (0 : ℝ) 1 g with
    | none => simp [hN] at h
    | some r =>
      obtain ⟨z, g1⟩ := r
      simp only [hN] at h
      have hres : ∀ v : ℝ, 0 < v → 0 < Gamma.result boost d v beta := by
        intro v hv; unfold Gamma.result; positivity
      split_ifs at h with hv h1 h2
      · simp at h; rw [← h.1]; exact hres _ hv
      · simp at h; rw [← h.1]; exact hres _ hv
      · exact ih _ h
      · exact ih _ h

/-! ### `drawN?` -/

theorem drawN_length {β : Type} (f : Rng → Option (β × Rng)) (n : Nat) (g g' : Rng) (xs : List β)
    (h : Rng.drawN? f n g = some (xs, g')) : xs.length = n := by
  induction n generalizing g xs with
  | zero => simp [Rng.drawN?] at h; simp [h.1.symm]
  | succ n ih =>
    simp only [Rng.drawN?] at h
    cases hf : f g with
    | none => simp [hf] at h
    | some r =>
      obtain ⟨x, g1⟩ := r
      simp only [hf] at h
      cases hr : Rng.drawN? f n g1 with
      | none => simp [hr] at h
      | some p =>
        obtain ⟨ys, g2⟩ := p
        simp [hr] at h
        rw [← h.1]
        simp [ih g1 ys (by rw [hr, h.2])]

theorem drawN_chain {β : Type} (f : Rng → Option (β × Rng)) (n : Nat) (g g' : Rng) (xs : List β)
    (h : Rng.drawN? f n g = some (xs, g')) :
    ∃ st : Nat → Rng, st 0 = g ∧ st n = g' ∧ ∀ i (hi : i < xs.length), f (st i) = some (xs[i], st (i + 1)) := by
  induction n generalizing g xs with
  | zero =>
    simp [Rng.drawN?] at h
    refine ⟨fun _ => g, rfl, h.2, ?_⟩
    intro i hi; rw [h.1] at hi; simp at hi
  | succ n ih =>
    simp only [Rng.drawN?] at h
    cases hf : f g with
    | none => simp [hf] at h
    | some r =>
      obtain ⟨x, g1⟩ := r
      simp only [hf] at h
      cases hr : Rng.drawN? f n g1 with
      | none => simp [hr] at h
      | some p =>
        obtain ⟨ys, g2⟩ := p
        simp [hr] at h
        obtain ⟨st, h0, hn, hst⟩ := ih g1 ys (by rw [hr, h.2])
        refine ⟨fun i => match i with | 0 => g | i + 1 => st i, rfl, hn, ?_⟩
        intro i hi
        obtain ⟨hxs, _⟩ := h
        subst hxs
        cases i with
        | zero => simp [hf, h0]
        | succ j =>
          simp only [List.length_cons, Nat.add_lt_add_iff_right] at hi
          simpa using hst j hi

end Cv.C03L
