import Compute.Model.Optim
import Compute.Generated.SrcC10Mut
/-
Source tie for C10, third pass: the per-parameter update formulas of `Adam::optimize` (`src/optimize/adam.rs`) and
`SGD::optimize` (`src/optimize/sgd.rs`) as scalar fragments (`Compute/Generated/SrcC10Mut.lean`, regenerated from the Rust source
on every run by `tools/rs2lean.py`, option `mut`, fragment kinds `assign` / `let`).

* `adamCoord_eq`: the model's per-coordinate step `adamCoord` (Model/Optim.lean) is the composition of the five source
  formulas in the order of the loop body (`m[p]`, `v[p]` are updated first, `mhat` / `vhat` read the NEW values, `params[p]` last).
  The model takes `t as i32` with its two's complement wrap (`asI32`), the generated side the plain cast: the statement carries
  `t < 2^31` (`asI32_of_lt`), under which they agree.  Everything else is `rfl`.
* `sgdCoord_eq` / `sgdUpd_cons`: the model's `sgdUpd` computes per coordinate exactly the two source formulas
  (`update_vec[p]` first, `params[p]` with the NEW `update_vec[p]`).
Every fragment takes ALL hyper-parameters of its optimizer as binders (used or not), so that a formula reading the wrong one
(`beta2` for `beta1`) stays inside the translated subset and fails its theorem.
`params[p] - x` is a subtraction of an `f64` from a tape variable; the `reverse` crate implements it as `add(neg x)`, and both the
model and the translator spell it `θ + -x`.  No algebra on the scalar is used.
-/
set_option linter.unusedSectionVars false
namespace Cv.SrcTie.C10Mut

variable {α : Type} [Add α] [Sub α] [Mul α] [Div α] [Neg α] [Zero α] [One α] [NatCast α] [IntCast α]
  [LT α] [DecidableLT α] [LE α] [DecidableLE α] [BEq α] [Cv.Transc α] [Inhabited α]

open Cv.Opt Cv.Src.C10Mut

/-- Below `2^31` the `usize → i32` cast does not wrap. -/
theorem asI32_of_lt (t : Nat) (h : t < 2147483648) : asI32 t = ((t : Nat) : Int) := by
  unfold asI32
  omega

/-- One coordinate of the Adam update is the five formulas of the source, in the source's order. -/
theorem adamCoord_eq (h : AdamHP α) (t : Nat) (ht : t < 2147483648) (θ m v g : α) :
    adamCoord h t θ m v g =
      (let m' := adamM h.stepsize h.beta1 h.beta2 h.epsilon m g
       let v' := adamV h.stepsize h.beta1 h.beta2 h.epsilon v g
       let mhat := adamMhat h.stepsize h.beta1 h.beta2 h.epsilon t m'
       let vhat := adamVhat h.stepsize h.beta1 h.beta2 h.epsilon t v'
       (adamTheta h.stepsize h.beta1 h.beta2 h.epsilon mhat vhat θ, m', v')) := by
  unfold adamCoord adamM adamV adamMhat adamVhat adamTheta
  rw [asI32_of_lt t ht]

/-- One coordinate of the SGD update: the new `update_vec[p]` and `params[p]`. -/
theorem sgdCoord_eq (h : SgdHP α) (θ u g : α) :
    (θ + -(h.momentum * u + h.stepsize * g), h.momentum * u + h.stepsize * g) =
      (sgdTheta h.stepsize h.momentum θ (sgdU h.stepsize h.momentum u g), sgdU h.stepsize h.momentum u g) := rfl

/-- The model's `sgdUpd` applies the two source formulas to the heads and recurses on the tails. -/
theorem sgdUpd_cons (h : SgdHP α) (θ u g : α) (θs us gs : List α) :
    sgdUpd h (θ :: θs) (u :: us) (g :: gs) =
      ⟨sgdTheta h.stepsize h.momentum θ (sgdU h.stepsize h.momentum u g) :: (sgdUpd h θs us gs).θ,
       sgdU h.stepsize h.momentum u g :: (sgdUpd h θs us gs).u⟩ := rfl

/-- non-vacuity of `adamCoord_eq`: the first step -/
example : (1 : Nat) < 2147483648 := by decide

end Cv.SrcTie.C10Mut
