import Compute.Model.Timeseries
import Compute.Props.C05
import Mathlib.Algebra.BigOperators.Ring.Finset
import Mathlib.Algebra.BigOperators.Intervals
import Mathlib.Algebra.BigOperators.Group.List.Basic
import Mathlib.Algebra.Order.Field.Basic
import Mathlib.Tactic.Ring
import Mathlib.Tactic.Linarith
/-
Helper lemmas for C13: the reductions of the time-series model (`sum8`, `iterSum`, `dot8`) are plain
sums, the lag products as an indexed sum, and the list bookkeeping of the forecasting window.
-/
namespace Cv.C13L
open Cv Cv.TS

section sums
variable {α : Type} [CommRing α]

theorem foldl_add_eq (l : List α) (s : α) : l.foldl (· + ·) s = s + l.sum := by
  induction l generalizing s with
  | nil => simp
  | cons x xs ih => simp [ih, add_assoc]

theorem sum8Go_eq (s : α) (l : List α) : sum8Go s l = s + l.sum := by
  fun_induction sum8Go s l with
  | case1 s x0 x1 x2 x3 x4 x5 x6 x7 rest ih => rw [ih]; simp [List.sum_cons]; ring
  | case2 s rest _ => exact foldl_add_eq _ _

theorem sum8_eq (l : List α) : sum8 l = l.sum := by simp [sum8, sum8Go_eq]

theorem iterSum_eq (l : List α) : iterSum l = l.sum := by simp [iterSum, foldl_add_eq]

theorem dot8Go_eq (s : α) (x y : List α) : dot8Go s x y = s + (List.zipWith (· * ·) x y).sum := by
  fun_induction dot8Go s x y with
  | case1 s x0 x1 x2 x3 x4 x5 x6 x7 xs y0 y1 y2 y3 y4 y5 y6 y7 ys ih =>
    rw [ih]; simp [List.zipWith_cons_cons, List.sum_cons]; ring
  | case2 s xs ys _ => exact foldl_add_eq _ _

theorem dot8_eq (x y : List α) : dot8 x y = (List.zipWith (· * ·) x y).sum := by
  simp [dot8, dot8Go_eq]

/-- sum of a list as an indexed sum -/
theorem list_sum_eq_range [Inhabited α] (l : List α) : l.sum = ∑ i ∈ Finset.range l.length, l[i]! := by
  induction l with
  | nil => simp
  | cons x xs ih =>
    rw [List.sum_cons, List.length_cons, Finset.sum_range_succ', ih]
    simp [add_comm]

theorem lagProducts_length (ts : List α) (m : α) (k : Nat) :
    (lagProducts ts m k).length = ts.length - k := by
  simp [lagProducts, List.length_zipWith]

theorem lagProducts_get [Inhabited α] (ts : List α) (m : α) (k i : Nat) (hi : i < ts.length - k) :
    (lagProducts ts m k)[i]! = (ts[i + k]! - m) * (ts[i]! - m) := by
  have h1 : i < (lagProducts ts m k).length := by rw [lagProducts_length]; exact hi
  rw [getElem!_pos (lagProducts ts m k) i h1]
  have h2 : i + k < ts.length := by omega
  have h3 : i < ts.length := by omega
  simp only [lagProducts, List.getElem_zipWith, List.getElem_drop]
  rw [getElem!_pos ts (i + k) h2, getElem!_pos ts i h3]
  congr 2
  congr 1
  omega

/-- The sum the code forms for lag `k`, as an indexed sum. -/
theorem lagProducts_sum [Inhabited α] (ts : List α) (m : α) (k : Nat) :
    (lagProducts ts m k).sum = ∑ i ∈ Finset.range (ts.length - k), (ts[i + k]! - m) * (ts[i]! - m) := by
  rw [list_sum_eq_range, lagProducts_length]
  exact Finset.sum_congr rfl fun i hi => lagProducts_get ts m k i (Finset.mem_range.mp hi)

theorem lagProducts_shift (ts : List α) (m c : α) (k : Nat) :
    lagProducts (ts.map (· - c)) (m - c) k = lagProducts ts m k := by
  unfold lagProducts
  rw [← List.map_drop, List.zipWith_map]
  congr 1
  funext a b
  ring

theorem lagProducts_large (ts : List α) (m : α) (k : Nat) (h : ts.length ≤ k) : lagProducts ts m k = [] := by
  simp [lagProducts, List.drop_eq_nil_of_le h]

end sums

end Cv.C13L
