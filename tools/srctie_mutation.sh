#!/bin/bash
# Validation of the source tie: mutate ONE Rust file in a scratch copy of /repo/src (never /repo itself), regenerate
# Generated/SrcCxx.lean from the scratch copy, compile it to a scratch .olean and re-check Props/SrcTieCxx.lean
# against it.  Nothing under /verif/lean is modified; no lake build is run (single-file `lean` runs only).
#
#   tools/srctie_mutation.sh C20 src/predict/gps/kernels.rs 's/\.powf(-self\.alpha)/.powf(self.alpha)/'
#
# exit 0: the mutation was DETECTED (a theorem of SrcTieCxx no longer checks, or the translator refused the source)
# exit 1: not detected (the theorems still check)      exit 2: the sed expression did not change the file
set -u
PID="$1"; FILE="$2"; SED="$3"
REPO="${CV_REPO_SRC:-/repo}"
VERIF="$(cd "$(dirname "$0")/.." && pwd)"
W="$(mktemp -d /tmp/srctie-mut.XXXXXX)"
mkdir -p "$W/repo" "$W/lean" "$W/olean"
# overlay of the built library: symlinks to every .olean, the regenerated module replaced by a scratch build
cp -rs "$VERIF/lean/.lake/build/lib/lean/." "$W/olean/"
rm -f "$W/olean/Compute/Generated/Src$PID."* "$W/olean/Compute/Props/SrcTie$PID."*
cp -r "$REPO/src" "$W/repo/src"
sed -i -e "$SED" "$W/repo/$FILE"
if diff -q "$REPO/$FILE" "$W/repo/$FILE" >/dev/null; then echo "sed expression changed nothing"; rm -rf "$W"; exit 2; fi
echo "--- mutation of $FILE"; diff "$REPO/$FILE" "$W/repo/$FILE"
if ! python3 "$VERIF/tools/cv/srctie.py" --repo "$W/repo" --outdir "$W/lean" "$PID" >"$W/extract.log" 2>&1; then
  echo "--- DETECTED by the translator (source left the subset / shape):"; tail -3 "$W/extract.log"; rm -rf "$W"; exit 0
fi
echo "--- regenerated definition(s) that differ from the committed copy"
diff "$VERIF/lean/Compute/Generated/Src$PID.lean" "$W/lean/Compute/Generated/Src$PID.lean" | grep '^[<>]' | cut -c1-220
cd "$VERIF/lean"
LP="$(lake env printenv LEAN_PATH)"
if ! (cd "$W/lean" && LEAN_PATH="$LP" lean -o "$W/olean/Compute/Generated/Src$PID.olean" "Compute/Generated/Src$PID.lean") >"$W/gen.log" 2>&1; then
  echo "--- DETECTED: the regenerated file does not compile"; head -5 "$W/gen.log"; rm -rf "$W"; exit 0
fi
if LEAN_PATH="$W/olean:${LP#*:}" timeout 1800 lean "Compute/Props/SrcTie$PID.lean" >"$W/tie.log" 2>&1; then
  echo "--- NOT detected: Compute/Props/SrcTie$PID.lean still checks against the mutated source"; rm -rf "$W"; exit 1
fi
echo "--- DETECTED: Compute/Props/SrcTie$PID.lean no longer checks:"
grep -A6 'error' "$W/tie.log" | cut -c1-200 | head -40
rm -rf "$W"; exit 0
