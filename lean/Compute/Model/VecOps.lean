import Compute.Model.Vops
import Compute.Model.Mat
import Compute.Model.Kernels
import Compute.Model.Broadcast
import Compute.Generated.C04Wiring
/-
Model of the operator / map / reduction surface of `Vector` (vec.rs) and `Matrix` (matrix.rs) and of
the reductions of `src/linalg/utils.rs`, *defined through the generated wiring table*
(`Generated/C04Wiring.lean`, re-extracted from the macro invocations of the source on every check):
an operator form is evaluated by looking at its row — which function it calls, which operand goes
into which argument position, where the result shape comes from — and running the kernel of
`Model/Vops.lean` that the kernel name was generated from (`kdef`).  Generic in the element type and
in the interpretation of operator tokens and `f64` method names.  `none` = panic.  Core Lean only.
-/
namespace Cv.VecOps
open Cv Cv.Vops Cv.C04W
variable {α : Type}

/-- Interpretation of the tokens of the wiring table at an element type. -/
structure Interp (α : Type) where
  op : Tok → α → α → α          -- `+ - * /`
  ufn : UFn → α → α             -- `x.ln()`, `x.exp()`, …
  ufnI : UFn → α → Int → α      -- `x.powi(n)`
  ufnF : UFn → α → α → α        -- `x.powf(p)`
  neg : α → α                   -- unary minus

/-- An operand / result of an operator form. -/
inductive Val (α : Type) where
  | vec (x : List α)
  | mat (m : Mat α)
  | scal (s : α)

/-- `Matrix::new(data, nrows as i32, ncols as i32)` with non-negative dimensions:
`reshape_mut` asserts `nrows * ncols == len` (zero-sized shapes are accepted for empty data). -/
def matNew (d : List α) (r c : Nat) : Option (Mat α) :=
  if r * c = d.length then some ⟨d, r, c⟩ else none

def listOf : Val α → Option (List α)
  | .vec x => some x
  | .mat m => some m.data
  | .scal _ => none

def scalOf : Val α → Option α
  | .scal s => some s
  | _ => none

def shapeOf : Val α → Option (Nat × Nat)
  | .mat m => some (m.nrows, m.ncols)
  | _ => none

def pick (s : Src) (self other : Val α) : Val α :=
  match s with
  | .self => self
  | .other => other

/-- Call of a two-argument kernel `k(a, b)`: what it computes is decided by the macro and token the
kernel was generated from. -/
def runKern2 (op : Tok → α → α → α) (k : Kern) (a b : Val α) : Option (List α) :=
  match (kdef k).fam, (kdef k).tok with
  | .binary, some t => do let x ← listOf a; let y ← listOf b; vbin (op t) x y
  | .binaryMut, some t => do let x ← listOf a; let y ← listOf b; vbinMut (op t) x y
  | .vs, some t => do let x ← listOf a; let s ← scalOf b; pure (vs (op t) x s)
  | .vsMut, some t => do let x ← listOf a; let s ← scalOf b; pure (vsMut (op t) x s)
  | .sv, some t => do let s ← scalOf a; let x ← listOf b; pure (sv (op t) s x)
  | _, _ => none

/-- `makefn_matops!(name, kernel)`: shape assert, kernel on the data, `Matrix::new` with `m1`'s shape. -/
def matmatK (op : Tok → α → α → α) (mm : MMFn) (m1 m2 : Mat α) : Option (Mat α) :=
  if m1.nrows = m2.nrows ∧ m1.ncols = m2.ncols then
    match runKern2 op (mmdef mm) (.mat m1) (.mat m2) with
    | some d => matNew d m1.nrows m1.ncols
    | none => none
  else none

/-- `broadcast_op!(tok, name, matmatfn)`: equal shapes go to `matmatfn` (the element-wise kernel —
this property); every other shape pair is the broadcast classifier of property C12. -/
def bcastOp [Inhabited α] (op : Tok → α → α → α) (b : BFn) (m1 m2 : Mat α) : Option (Mat α) :=
  if m1.nrows = m2.nrows ∧ m1.ncols = m2.ncols then matmatK op (bdef b).2 m1 m2
  else broadcastOp (op (bdef b).1) m1 m2

def isAssign : Trait → Bool
  | .addAssign | .subAssign | .mulAssign | .divAssign => true
  | _ => false

/-- One `impl std::ops::…` row applied to its operands.  For the `*Assign` traits the result is the
new value of `self`. -/
def evalRow [Inhabited α] (op : Tok → α → α → α) (r : OpRow) (self other : Val α) : Option (Val α) :=
  match r.callee with
  | .bcast b =>
    match pick r.arg1 self other, pick r.arg2 self other with
    | .mat m1, .mat m2 => (bcastOp op b m1 m2).map .mat
    | _, _ => none
  | .kern k =>
    if r.shapeAssert = true ∧ shapeOf self ≠ shapeOf other then none else
    match runKern2 op k (pick r.arg1 self other) (pick r.arg2 self other) with
    | none => none
    | some d =>
      if isAssign r.trait then
        match self with
        | .vec _ => some (.vec d)
        | .mat m => some (.mat ⟨d, m.nrows, m.ncols⟩)
        | .scal _ => none
      else
        match r.shapeFrom with
        | .none => some (.vec d)
        | .self => (shapeOf self).bind fun (rc : Nat × Nat) => (matNew d rc.1 rc.2).map .mat
        | .other => (shapeOf other).bind fun (rc : Nat × Nat) => (matNew d rc.1 rc.2).map .mat

/-- `impl Neg for Vector` (a plain iterator map) and `impl Neg for Matrix`. -/
def negVal (neg : α → α) : Val α → Option (Val α)
  | .vec x => some (.vec (x.map neg))
  | .mat m => (matNew (m.data.map neg) m.nrows m.ncols).map .mat
  | .scal _ => none

/-- Call of a one-argument kernel. -/
def runKern1 (I : Interp α) (k : Kern) (x : List α) : Option (List α) :=
  match (kdef k).fam, (kdef k).ufn with
  | .unary, some f => some (vun (I.ufn f) x)
  | _, _ => none

def runKernI (I : Interp α) (k : Kern) (x : List α) (n : Int) : Option (List α) :=
  match (kdef k).fam, (kdef k).ufn with
  | .unaryArgI, some f => some (vunArgI (I.op .mul) (I.ufnI f) n x)
  | _, _ => none

def runKernF (I : Interp α) (k : Kern) (x : List α) (p : α) : Option (List α) :=
  match (kdef k).fam, (kdef k).ufn with
  | .unaryArgF, some f => some (vunArgF (I.ufnF f) p x)
  | _, _ => none

/-- `Vector::<meth>()` (vec.rs `impl_unaryops_vector!`). -/
def vecMap (I : Interp α) (meth : UFn) (x : List α) : Option (List α) :=
  match vecMaps.lookup meth with
  | some k => runKern1 I k x
  | none => none

def vecMapI (I : Interp α) (meth : UFn) (x : List α) (n : Int) : Option (List α) :=
  match vecArgMaps.lookup meth with
  | some k => runKernI I k x n
  | none => none

def vecMapF (I : Interp α) (meth : UFn) (x : List α) (p : α) : Option (List α) :=
  match vecArgMaps.lookup meth with
  | some k => runKernF I k x p
  | none => none

/-- `Matrix::<meth>()` (matrix.rs `impl_unary_ops_matrix!`): `Self::new(self.data.<inner>(), nrows, ncols)`. -/
def matMap (I : Interp α) (meth : UFn) (m : Mat α) : Option (Mat α) :=
  match matMaps.lookup meth with
  | some inner => (vecMap I inner m.data).bind (matNew · m.nrows m.ncols)
  | none => none

def matMapI (I : Interp α) (meth : UFn) (m : Mat α) (n : Int) : Option (Mat α) :=
  match matArgMaps.lookup meth with
  | some inner => (vecMapI I inner m.data n).bind (matNew · m.nrows m.ncols)
  | none => none

def matMapF (I : Interp α) (meth : UFn) (m : Mat α) (p : α) : Option (Mat α) :=
  match matArgMaps.lookup meth with
  | some inner => (vecMapF I inner m.data p).bind (matNew · m.nrows m.ncols)
  | none => none

/-! ### Reductions (`src/linalg/utils.rs`, `src/statistics/order.rs::max`) -/

/-- `utils::prod`: `x.iter().product()` (`1.0 * x0 * x1 * …`). -/
def prodL [Mul α] [One α] (x : List α) : α := x.foldl (· * ·) 1

/-- `utils::norm`: `dot(x, x).sqrt()`. -/
def normL [Add α] [Mul α] [Zero α] [Transc α] (x : List α) : α := sqrt (dot8 x x)

/-- `f64::max` (NaN-ignoring), generic in the NaN test. -/
def fmaxN [LT α] [DecidableLT α] (isNaN : α → Bool) (a b : α) : α :=
  if isNaN a then b else if isNaN b then a else if a < b then b else a

/-- `statistics::max`: `data.iter().fold(f64::NAN, |acc, i| f64::max(acc, *i))`. -/
def maxL [LT α] [DecidableLT α] (isNaN : α → Bool) (nan : α) (x : List α) : α :=
  x.foldl (fmaxN isNaN) nan

/-- The iterator sum `x.iter().map(|v| (v - xmax).exp()).sum::<f64>()` (sequential). -/
def shiftedExpSum [Add α] [Sub α] [Zero α] [Transc α] (m : α) (x : List α) : α :=
  (x.map fun v => exp (v - m)).foldl (· + ·) 0

/-- The shifted formula of `utils::logsumexp` (everything after its empty-slice guard; see `logsumexpE`). -/
def logsumexpL [Add α] [Sub α] [Zero α] [LT α] [DecidableLT α] [Transc α]
    (isNaN : α → Bool) (nan : α) (x : List α) : α :=
  let m := maxL isNaN nan x
  ln (shiftedExpSum m x) + m

/-- `utils::logsumexp` as it is since the repair F55 (`fix:` be4665b): `if x.is_empty() { return f64::NEG_INFINITY; }`
in front of the shifted formula `logsumexpL` (the sum over no element is 0, `ln 0 = −∞`; before the repair the empty
slice gave NaN, the maximum of no element).  `ninf` is the scalar's `f64::NEG_INFINITY` (`Cv.F64Consts.negInf` at
`Float`); a parameter, because ℝ and the other proof scalars have no such element. -/
def logsumexpE [Add α] [Sub α] [Zero α] [LT α] [DecidableLT α] [Transc α]
    (isNaN : α → Bool) (nan : α) (ninf : α) (x : List α) : α :=
  if x.isEmpty then ninf else logsumexpL isNaN nan x

/-- `utils::logmeanexp`. -/
def logmeanexpL [Add α] [Sub α] [Div α] [Zero α] [NatCast α] [LT α] [DecidableLT α] [Transc α]
    (isNaN : α → Bool) (nan : α) (x : List α) : α :=
  let m := maxL isNaN nan x
  ln (shiftedExpSum m x / (x.length : α)) + m

/-- `utils::inf_norm(x, nrows)`: `is_matrix(x, nrows).unwrap()` (division by `nrows`, exact
divisibility), sequential absolute row sums, `max`. -/
def infNormL [Add α] [Zero α] [LT α] [DecidableLT α] [Transc α] [Inhabited α]
    (isNaN : α → Bool) (nan : α) (x : List α) (nrows : Nat) : Option α :=
  if nrows = 0 then none else
  let ncols := x.length / nrows
  if nrows * ncols ≠ x.length then none else
  some (maxL isNaN nan ((List.range nrows).map fun i =>
    ((List.range ncols).map fun j => Transc.abs x[i * ncols + j]!).foldl (· + ·) 0))

/-- `Matrix::sum_rows`: `Vector::from(&self[row]).sum()` per row (the unrolled `sum`). -/
def sumRows [Add α] [Zero α] (m : Mat α) : List α :=
  (List.range m.nrows).map fun i => sum8 ((m.data.drop (i * m.ncols)).take m.ncols)

/-- `Matrix::inf_norm`: `self.abs().sum_rows().max()`. -/
def matInfNorm [Add α] [Zero α] [LT α] [DecidableLT α]
    (I : Interp α) (isNaN : α → Bool) (nan : α) (m : Mat α) : Option α :=
  (matMap I .abs m).map fun a => maxL isNaN nan (sumRows a)

end Cv.VecOps
