import Compute.Model.Poly
/-
C14 — `predict` is pointwise.  The model of `PolynomialRegressor::predict` evaluates the stored polynomial at each
input independently: the output has the length of the input, entry `i` depends on `xs[i]` only, and the prediction
of a concatenation is the concatenation of the predictions — for every scalar type (the `Float` instance included)
and every length, so no blocking of a long input can change which abscissa an output slot belongs to.
(Unfolding-level facts about `List.map`; the content is that the model has this shape and the code is tied to it.)
-/
namespace Cv.C14P
open Cv Cv.Poly

variable {α : Type} [Add α] [Mul α] [Zero α]

/-- **predict_length.** -/
theorem predict_length (c xs : List α) : (predict c xs).length = xs.length := by
  simp [predict]

/-- **predict_pointwise.**  Entry `i` of the prediction is the Horner value of the stored coefficients at `xs[i]`. -/
theorem predict_pointwise (c xs : List α) (i : Nat) (h : i < xs.length) :
    (predict c xs)[i]'(by rw [predict_length]; exact h) = horner c xs[i] := by
  simp [predict]

/-- **predict_append.**  Predicting a concatenation = concatenating the predictions (any split point). -/
theorem predict_append (c xs ys : List α) : predict c (xs ++ ys) = predict c xs ++ predict c ys := by
  simp [predict]

/-- in particular every tail of a long input is predicted as it would be on its own -/
theorem predict_drop (c xs : List α) (k : Nat) : (predict c xs).drop k = predict c (xs.drop k) := by
  simp [predict, List.map_drop]

theorem predict_nil (c : List α) : predict c [] = [] := rfl

example : predict ([1, 2] : List Int) ([3, 4] ++ [5]) = predict [1, 2] [3, 4] ++ predict [1, 2] [5] := by decide

end Cv.C14P
