import Compute.Lemmas.C08
import Mathlib.Data.List.MinMax
/-
C08 — descriptive statistics equal their textbook definitions.

Theorems about the model `Compute/Model/Stats.lean` of `src/statistics/{moments,covariance,order,hist}.rs`
and the `Vector`/`Matrix` wrappers, instantiated at an arbitrary field of characteristic zero
(moments, covariances: every ordered field, `ℚ`, `ℝ`), an arbitrary linear order (extrema) or an
arbitrary field (bin centres).  Textbook definitions: `mu`, `m2`, `comoment` in `Lemmas/C08.lean`.
-/
/-
Naming.  Theorems suffixed `_total` are the algebraic identities as they hold in a Lean field for EVERY list,
including the degenerate sizes where the code divides by `n = 0` or `n − 1 = 0`: there the identity holds only
through Lean's convention `x / 0 = 0`, whereas the Rust code returns NaN (`0.0 / 0.0`).  They are kept as internal
lemmas.  The property theorems (section `Guarded` at the end of this file) carry exactly the size guard under
which the statistic is defined — `1 ≤ n` for the population statistics, `2 ≤ n` for the sample statistics — and
section `Degenerate` states what the code computes below those sizes (a quotient with denominator `0`).
-/
set_option linter.unusedSectionVars false
namespace Cv.C08
open Cv

section Welford
variable {α : Type} [Field α] [CharZero α]

omit [CharZero α] in
theorem welfordStatistics_snoc (l : List α) (x : α) :
    welfordStatistics (l ++ [x]) = welfordUpdate (welfordStatistics l) x := by
  simp [welfordStatistics, List.foldl_append]

/-- Raw-moment form of the Welford invariant. -/
theorem welford_raw (l : List α) :
    welfordStatistics l
      = (l.length, l.sum / (l.length : α),
         (l.map fun x => x * x).sum - l.sum * l.sum / (l.length : α)) := by
  induction l using List.reverseRecOn with
  | nil => simp [welfordStatistics]
  | append_singleton l x ih =>
    rw [welfordStatistics_snoc, ih]
    simp only [welfordUpdate, List.length_append, List.length_singleton, List.sum_append,
      List.map_append, List.map_singleton, List.sum_cons, List.sum_nil]
    by_cases hn : l.length = 0
    · have hl : l = [] := List.eq_nil_of_length_eq_zero hn
      subst hl; simp
    · have h0 : (l.length : α) ≠ 0 := by exact_mod_cast hn
      have h1 : ((l.length : α) + 1) ≠ 0 := by exact_mod_cast Nat.succ_ne_zero l.length
      refine Prod.ext rfl (Prod.ext ?_ ?_)
      · simp only; push_cast; field_simp; ring
      · simp only; push_cast; field_simp; ring

/-- **Welford invariant**: after any data list the aggregate is
`(count, mean, M2) = (|l|, Σl/|l|, Σ(x − mean)²)`. -/
theorem welford_inv (l : List α) : welfordStatistics l = (l.length, mu l, m2 l) := by
  rw [welford_raw, m2_raw]; rfl


theorem welfordMean_eq_total (l : List α) : welfordMean l = mu l := by
  simp [welfordMean, welford_inv]

omit [CharZero α] in
/-- `mean` (through the 8-way unrolled sum) is the arithmetic mean. -/
theorem mean_eq_total (l : List α) : mean l = mu l := by
  simp [mean, mu, sum8_eq]

/-- The two mean algorithms agree. -/
theorem means_agree_total (l : List α) : welfordMean l = mean l := by
  rw [welfordMean_eq_total, mean_eq_total]

/-- Population variance `Σ(x − x̄)²/n`. -/
theorem var_eq_total (l : List α) : var l = m2 l / (l.length : α) := by
  simp [var, welford_inv]

/-- Sample variance `Σ(x − x̄)²/(n−1)` for non-empty data. -/
theorem sampleVar_eq_total (l : List α) (h : l ≠ []) :
    sampleVar l = some (m2 l / ((l.length - 1 : ℕ) : α)) := by
  have : l.length ≠ 0 := fun h0 => h (List.eq_nil_of_length_eq_zero h0)
  simp [sampleVar, welford_inv, this]

omit [CharZero α] in
/-- Error branch: `count - 1` underflows for empty data (panic). -/
theorem sampleVar_nil : sampleVar ([] : List α) = none := by
  simp [sampleVar, welfordStatistics]

example : sampleVar ([1, 2, 4] : List ℚ) = some (7 / 3) := by
  rw [sampleVar_eq_total _ (by simp)]; norm_num [m2, mu]

theorem std_eq_total [Transc α] (l : List α) : std l = Transc.sqrt (m2 l / (l.length : α)) := by
  simp [std, var_eq_total]

theorem sampleStd_eq_total [Transc α] (l : List α) (h : l ≠ []) :
    sampleStd l = some (Transc.sqrt (m2 l / ((l.length - 1 : ℕ) : α))) := by
  simp [sampleStd, sampleVar_eq_total l h]

end Welford

section Covariance
variable {α : Type} [Field α] [CharZero α]

theorem coMoment_eq (x y : List α) : coMoment x y = comoment x y := by
  simp only [coMoment, comoment, iterSum_eq, mean_eq_total, List.map_zip_eq_zipWith]
  rfl

/-- Population covariance `Σ(xᵢ−x̄)(yᵢ−ȳ)/n`. -/
theorem covariance_eq_total (x y : List α) (h : x.length = y.length) :
    covariance x y = some (comoment x y / (x.length : α)) := by
  simp [covariance, h, coMoment_eq]

omit [CharZero α] in
/-- Error branch: the `assert_eq!` on the lengths. -/
theorem covariance_length_mismatch (x y : List α) (h : x.length ≠ y.length) :
    covariance x y = none := by
  simp [covariance, h]

/-- Sample covariance `Σ(xᵢ−x̄)(yᵢ−ȳ)/(n−1)`. -/
theorem sampleCovariance_eq_total (x y : List α) (h : x.length = y.length) (hx : x ≠ []) :
    sampleCovariance x y = some (comoment x y / ((x.length - 1 : ℕ) : α)) := by
  have : y.length ≠ 0 := fun h0 => hx (List.eq_nil_of_length_eq_zero (h ▸ h0))
  simp [sampleCovariance, h, coMoment_eq, this]

omit [CharZero α] in
theorem sampleCovariance_nil : sampleCovariance ([] : List α) [] = none := by
  simp [sampleCovariance]


/-- Fold invariant of the one-pass loop from an arbitrary accumulator. -/
theorem onepass_fold (x0 y0 : α) (P : List (α × α)) (s : α × α × α) :
    P.foldl (onepassStep x0 y0) s
      = (s.1 + (P.map fun p => (p.1 - x0) * (p.2 - y0)).sum,
         s.2.1 + (P.map fun p => p.1 - x0).sum,
         s.2.2 + (P.map fun p => p.2 - y0).sum) := by
  induction P generalizing s with
  | nil => simp
  | cons p t ih =>
    simp only [List.foldl_cons, ih, onepassStep, List.map_cons, List.sum_cons]
    refine Prod.ext ?_ (Prod.ext ?_ ?_) <;> simp only <;> ring

/-- The repaired shifted one-pass algorithm (F17) computes the sample covariance. -/
theorem onepass_eq_sampleCovariance_total (x y : List α) (h : x.length = y.length) (hx : x ≠ []) :
    sampleCovarianceOnepass x y = sampleCovariance x y := by
  rw [sampleCovariance_eq_total x y h hx]
  obtain ⟨x0, xt, rfl⟩ := List.exists_cons_of_ne_nil hx
  obtain ⟨y0, yt, rfl⟩ : ∃ y0 yt, y = y0 :: yt := by
    cases y with
    | nil => simp at h
    | cons a t => exact ⟨a, t, rfl⟩
  simp only [sampleCovarianceOnepass, h, if_true]
  rw [onepass_fold]
  congr 2
  rw [comoment_raw _ _ h]
  have e1 : ((List.zip (x0 :: xt) (y0 :: yt)).map fun p => p.1 - x0)
      = ((List.zip (x0 :: xt) (y0 :: yt)).map Prod.fst).map fun a => a - x0 := by
    rw [List.map_map]; rfl
  have e2 : ((List.zip (x0 :: xt) (y0 :: yt)).map fun p => p.2 - y0)
      = ((List.zip (x0 :: xt) (y0 :: yt)).map Prod.snd).map fun a => a - y0 := by
    rw [List.map_map]; rfl
  rw [e1, e2, List.map_fst_zip (by omega), List.map_snd_zip (by omega), sum_map_sub_const,
    sum_map_sub_const, sum_shifted_prod, List.map_fst_zip (by omega), List.map_snd_zip (by omega)]
  have hl : (List.zip (x0 :: xt) (y0 :: yt)).length = (x0 :: xt).length := by
    simp only [List.length_zip, h, Nat.min_self]
  rw [hl, ← h]
  have hn : (((x0 :: xt).length : ℕ) : α) ≠ 0 := by
    exact_mod_cast (by simp : (x0 :: xt).length ≠ 0)
  simp only [zero_add]
  field_simp
  ring

example : sampleCovarianceOnepass ([0, 1, 2] : List ℚ) [0, 1, 2] = some 1 := by
  rw [onepass_eq_sampleCovariance_total _ _ rfl (by simp), sampleCovariance_eq_total _ _ rfl (by simp)]
  norm_num [comoment, mu]

theorem online_snoc (P : List (α × α)) (p : α × α) (s : α × α × α × α) :
    (P ++ [p]).foldl onlineStep s = onlineStep (P.foldl onlineStep s) p := by
  simp [List.foldl_append]

/-- Invariant of the online loop: `(meanx, meany, C, n) = (Σx/k, Σy/k, Σxy − ΣxΣy/k, k)`. -/
theorem online_inv (P : List (α × α)) :
    P.foldl onlineStep (0, 0, 0, 0)
      = ((P.map Prod.fst).sum / (P.length : α), (P.map Prod.snd).sum / (P.length : α),
         (P.map fun p => p.1 * p.2).sum
           - (P.map Prod.fst).sum * (P.map Prod.snd).sum / (P.length : α),
         (P.length : α)) := by
  induction P using List.reverseRecOn with
  | nil => simp
  | append_singleton P p ih =>
    rw [online_snoc, ih]
    simp only [onlineStep, List.length_append, List.length_singleton, List.sum_append,
      List.map_append, List.map_singleton, List.sum_cons, List.sum_nil]
    by_cases hn : P.length = 0
    · have hl : P = [] := List.eq_nil_of_length_eq_zero hn
      subst hl; simp
    · have h0 : (P.length : α) ≠ 0 := by exact_mod_cast hn
      have h1 : ((P.length : α) + 1) ≠ 0 := by exact_mod_cast Nat.succ_ne_zero P.length
      refine Prod.ext ?_ (Prod.ext ?_ (Prod.ext ?_ ?_))
      · simp only; push_cast; field_simp; ring
      · simp only; push_cast; field_simp; ring
      · simp only; push_cast; field_simp; ring
      · simp only [Nat.cast_add, Nat.cast_one]

/-- The repaired online algorithm (F18) computes the sample covariance. -/
theorem online_eq_sampleCovariance_total (x y : List α) (h : x.length = y.length) (hx : x ≠ []) :
    sampleCovarianceOnline x y = sampleCovariance x y := by
  rw [sampleCovariance_eq_total x y h hx]
  simp only [sampleCovarianceOnline, if_pos h]
  rw [online_inv, comoment_raw _ _ h, List.map_fst_zip (by omega), List.map_snd_zip (by omega)]
  have hl : (List.zip x y).length = x.length := by simp [h]
  have hpos : 1 ≤ x.length := List.length_pos_iff.mpr hx
  rw [hl]
  congr 2
  push_cast [Nat.cast_sub hpos]
  ring

/-- All provided sample-covariance algorithms agree, and the population covariance is the same
co-moment divided by `n`. -/
theorem covariance_algorithms_agree_total (x y : List α) (h : x.length = y.length) (hx : x ≠ []) :
    sampleCovarianceOnepass x y = sampleCovariance x y ∧
    sampleCovarianceOnline x y = sampleCovariance x y ∧
    sampleCovariance x y = some (comoment x y / ((x.length - 1 : ℕ) : α)) ∧
    covariance x y = some (comoment x y / (x.length : α)) :=
  ⟨onepass_eq_sampleCovariance_total x y h hx, online_eq_sampleCovariance_total x y h hx,
   sampleCovariance_eq_total x y h hx, covariance_eq_total x y h⟩

/-- On empty input the online algorithm does not panic (`n` is a float there): it returns
`0 / (0 − 1)`, unlike the other two sample-covariance algorithms. -/
theorem online_nil : sampleCovarianceOnline ([] : List α) [] = some (0 / (0 - 1)) := by
  simp [sampleCovarianceOnline]

end Covariance

section Invariance
variable {α : Type} [Field α] [CharZero α]

theorem mu_shift (l : List α) (c : α) (h : l ≠ []) : mu (l.map (· + c)) = mu l + c := by
  have hn : (l.length : α) ≠ 0 := by
    exact_mod_cast fun h0 => h (List.eq_nil_of_length_eq_zero h0)
  simp only [mu, sum_map_add_const, List.length_map]
  field_simp

omit [CharZero α] in
theorem mu_scale (l : List α) (s : α) : mu (l.map (s * ·)) = s * mu l := by
  simp only [mu, sum_map_mul_left, List.length_map]
  ring

theorem comoment_shift (x y : List α) (c d : α) (h : x.length = y.length) :
    comoment (x.map (· + c)) (y.map (· + d)) = comoment x y := by
  by_cases hx : x = []
  · subst hx; simp [comoment]
  have hy : y ≠ [] := fun h0 => hx (List.eq_nil_of_length_eq_zero (by simp [h, h0]))
  unfold comoment
  rw [mu_shift x c hx, mu_shift y d hy, List.zip_map, List.map_map]
  congr 1
  apply List.map_congr_left
  intro p _
  simp only [Function.comp, Prod.map]
  ring

omit [CharZero α] in
theorem comoment_scale (x y : List α) (s t : α) :
    comoment (x.map (s * ·)) (y.map (t * ·)) = s * t * comoment x y := by
  unfold comoment
  rw [mu_scale, mu_scale, List.zip_map, List.map_map, ← sum_map_mul_left, List.map_map]
  congr 1
  apply List.map_congr_left
  intro p _
  simp only [Function.comp, Prod.map]
  ring

theorem m2_shift (l : List α) (c : α) : m2 (l.map (· + c)) = m2 l := by
  rw [m2_eq_comoment, m2_eq_comoment, comoment_shift l l c c rfl]

theorem m2_scale (l : List α) (s : α) : m2 (l.map (s * ·)) = s ^ 2 * m2 l := by
  rw [m2_eq_comoment, m2_eq_comoment, comoment_scale, pow_two]

/-- Variance is unchanged by adding a constant to the data (for every size of the constant). -/
theorem var_shift_total (l : List α) (c : α) : var (l.map (· + c)) = var l := by
  simp [var_eq_total, m2_shift]

/-- Variance scales quadratically. -/
theorem var_scale_total (l : List α) (s : α) : var (l.map (s * ·)) = s ^ 2 * var l := by
  simp [var_eq_total, m2_scale, mul_div_assoc]

theorem sampleVar_shift_total (l : List α) (c : α) : sampleVar (l.map (· + c)) = sampleVar l := by
  by_cases h : l = []
  · subst h; rfl
  · rw [sampleVar_eq_total _ (by simpa using h), sampleVar_eq_total _ h, m2_shift, List.length_map]

theorem sampleVar_scale_total (l : List α) (s : α) :
    sampleVar (l.map (s * ·)) = (sampleVar l).map (s ^ 2 * ·) := by
  by_cases h : l = []
  · subst h; rfl
  · rw [sampleVar_eq_total _ (by simpa using h), sampleVar_eq_total _ h, m2_scale, List.length_map]
    simp [mul_div_assoc]

/-- Covariance (all four algorithms, through `covariance_algorithms_agree_total`) is unchanged by adding
constants to either variable. -/
theorem cov_shift_total (x y : List α) (c d : α) :
    covariance (x.map (· + c)) (y.map (· + d)) = covariance x y ∧
    sampleCovariance (x.map (· + c)) (y.map (· + d)) = sampleCovariance x y := by
  by_cases h : x.length = y.length
  · constructor
    · rw [covariance_eq_total _ _ (by simpa using h), covariance_eq_total _ _ h, comoment_shift _ _ _ _ h,
        List.length_map]
    · by_cases hx : x = []
      · subst hx
        have : y = [] := List.eq_nil_of_length_eq_zero (by simpa using h.symm)
        subst this; rfl
      · rw [sampleCovariance_eq_total _ _ (by simpa using h) (by simpa using hx),
          sampleCovariance_eq_total _ _ h hx, comoment_shift _ _ _ _ h, List.length_map]
  · simp [covariance, sampleCovariance, h]

/-- Covariance is bilinear under scaling of the variables. -/
theorem cov_scale_total (x y : List α) (s t : α) :
    covariance (x.map (s * ·)) (y.map (t * ·)) = (covariance x y).map (s * t * ·) ∧
    sampleCovariance (x.map (s * ·)) (y.map (t * ·)) = (sampleCovariance x y).map (s * t * ·) := by
  by_cases h : x.length = y.length
  · constructor
    · rw [covariance_eq_total _ _ (by simpa using h), covariance_eq_total _ _ h, comoment_scale, List.length_map]
      simp [mul_div_assoc]
    · by_cases hx : x = []
      · subst hx
        have : y = [] := List.eq_nil_of_length_eq_zero (by simpa using h.symm)
        subst this; rfl
      · rw [sampleCovariance_eq_total _ _ (by simpa using h) (by simpa using hx),
          sampleCovariance_eq_total _ _ h hx, comoment_scale, List.length_map]
        simp [mul_div_assoc]
  · simp [covariance, sampleCovariance, h]

example : var ([100000001, 100000002, 100000003] : List ℚ) = var [1, 2, 3] := by
  have := var_shift_total ([1, 2, 3] : List ℚ) 100000000
  norm_num at this; exact this

end Invariance

section Order
variable {α : Type} [LinearOrder α]

/-- Specification of the `argmin` fold from an arbitrary accumulator `(index, value)`: either the
accumulator survives and bounds every element from below, or the result is the first position of
the minimum of the scanned elements, which is strictly below the accumulator value. -/
theorem argminGo_spec (xs : List α) (i : ℕ) (acc : ℕ × α) :
    (argminGo i acc xs = acc ∧ ∀ x ∈ xs, acc.2 ≤ x) ∨
    ∃ j, ∃ hj : j < xs.length, argminGo i acc xs = (i + j, xs[j]) ∧ xs[j] < acc.2 ∧
      (∀ m, ∀ hm : m < xs.length, m < j → xs[j] < xs[m]) ∧
      (∀ m, ∀ hm : m < xs.length, xs[j] ≤ xs[m]) := by
  induction xs generalizing i acc with
  | nil => left; simp [argminGo]
  | cons x xs ih =>
    simp only [argminGo]
    by_cases hx : x < acc.2
    · rw [if_pos hx]
      rcases ih (i + 1) (i, x) with ⟨h1, h2⟩ | ⟨j, hj, h1, h2, h3, h4⟩
      · right
        refine ⟨0, by simp, by simpa using h1, by simpa using hx, by simp, ?_⟩
        intro m hm
        cases m with
        | zero => simp
        | succ m => simpa using h2 _ (List.getElem_mem _)
      · right
        refine ⟨j + 1, by simpa using hj, ?_, ?_, ?_, ?_⟩
        · rw [h1]; simp [Nat.add_assoc, Nat.add_comm 1 j]
        · simpa using lt_trans h2 hx
        · intro m hm hmj
          cases m with
          | zero => simpa using h2
          | succ m => simpa using h3 m (by simpa using hm) (by omega)
        · intro m hm
          cases m with
          | zero => simpa using le_of_lt h2
          | succ m => simpa using h4 m (by simpa using hm)
    · rw [if_neg hx]
      have hx' : acc.2 ≤ x := not_lt.mp hx
      rcases ih (i + 1) acc with ⟨h1, h2⟩ | ⟨j, hj, h1, h2, h3, h4⟩
      · left
        refine ⟨h1, ?_⟩
        intro y hy
        rcases List.mem_cons.mp hy with rfl | hy
        · exact hx'
        · exact h2 y hy
      · right
        refine ⟨j + 1, by simpa using hj, ?_, ?_, ?_, ?_⟩
        · rw [h1]; simp [Nat.add_assoc, Nat.add_comm 1 j]
        · simpa using h2
        · intro m hm hmj
          cases m with
          | zero => simpa using lt_of_lt_of_le h2 hx'
          | succ m => simpa using h3 m (by simpa using hm) (by omega)
        · intro m hm
          cases m with
          | zero => simpa using le_of_lt (lt_of_lt_of_le h2 hx')
          | succ m => simpa using h4 m (by simpa using hm)

/-- **argmin returns the first index of a minimum**, for non-empty data none of whose entries
exceeds the seed (`f64::MAX` in the source: true of every finite double). -/
theorem argmin_first_min (big : α) (l : List α) (hne : l ≠ []) (hb : ∀ x ∈ l, x ≤ big) :
    ∃ hi : argmin big l < l.length,
      (∀ m, ∀ hm : m < l.length, l[argmin big l] ≤ l[m]) ∧
      (∀ m, ∀ hm : m < l.length, m < argmin big l → l[argmin big l] < l[m]) := by
  have hpos : 0 < l.length := List.length_pos_iff.mpr hne
  unfold argmin
  rcases argminGo_spec l 0 (0, big) with ⟨h1, h2⟩ | ⟨j, hj, h1, h2, h3, h4⟩
  · rw [h1]
    refine ⟨hpos, ?_, ?_⟩
    · intro m hm
      have e0 : l[0] = big := le_antisymm (hb _ (List.getElem_mem _)) (h2 _ (List.getElem_mem _))
      simpa [e0] using h2 _ (List.getElem_mem hm)
    · intro m hm hm0; simp at hm0
  · rw [h1]
    simp only [Nat.zero_add]
    exact ⟨hj, h4, h3⟩

/-- What the seed does outside the guard: if no entry is below the seed the answer is index 0,
whatever the data (e.g. `argmin [+∞, f64::MAX] = 0` although the minimum sits at index 1). -/
theorem argmin_all_ge_seed (big : α) (l : List α) (h : ∀ x ∈ l, big ≤ x) : argmin big l = 0 := by
  unfold argmin
  rcases argminGo_spec l 0 (0, big) with ⟨h1, _⟩ | ⟨j, hj, _, h2, _, _⟩
  · rw [h1]
  · exact absurd (h _ (List.getElem_mem hj)) (not_le.mpr h2)

theorem argmaxGo_spec (xs : List α) (i : ℕ) (acc : ℕ × α) :
    (argmaxGo i acc xs = acc ∧ ∀ x ∈ xs, x ≤ acc.2) ∨
    ∃ j, ∃ hj : j < xs.length, argmaxGo i acc xs = (i + j, xs[j]) ∧ acc.2 < xs[j] ∧
      (∀ m, ∀ hm : m < xs.length, m < j → xs[m] < xs[j]) ∧
      (∀ m, ∀ hm : m < xs.length, xs[m] ≤ xs[j]) := by
  induction xs generalizing i acc with
  | nil => left; simp [argmaxGo]
  | cons x xs ih =>
    simp only [argmaxGo]
    by_cases hx : acc.2 < x
    · rw [if_pos hx]
      rcases ih (i + 1) (i, x) with ⟨h1, h2⟩ | ⟨j, hj, h1, h2, h3, h4⟩
      · right
        refine ⟨0, by simp, by simpa using h1, by simpa using hx, by simp, ?_⟩
        intro m hm
        cases m with
        | zero => simp
        | succ m => simpa using h2 _ (List.getElem_mem _)
      · right
        refine ⟨j + 1, by simpa using hj, ?_, ?_, ?_, ?_⟩
        · rw [h1]; simp [Nat.add_assoc, Nat.add_comm 1 j]
        · simpa using lt_trans hx h2
        · intro m hm hmj
          cases m with
          | zero => simpa using h2
          | succ m => simpa using h3 m (by simpa using hm) (by omega)
        · intro m hm
          cases m with
          | zero => simpa using le_of_lt h2
          | succ m => simpa using h4 m (by simpa using hm)
    · rw [if_neg hx]
      have hx' : x ≤ acc.2 := not_lt.mp hx
      rcases ih (i + 1) acc with ⟨h1, h2⟩ | ⟨j, hj, h1, h2, h3, h4⟩
      · left
        refine ⟨h1, ?_⟩
        intro y hy
        rcases List.mem_cons.mp hy with rfl | hy
        · exact hx'
        · exact h2 y hy
      · right
        refine ⟨j + 1, by simpa using hj, ?_, ?_, ?_, ?_⟩
        · rw [h1]; simp [Nat.add_assoc, Nat.add_comm 1 j]
        · simpa using h2
        · intro m hm hmj
          cases m with
          | zero => simpa using lt_of_le_of_lt hx' h2
          | succ m => simpa using h3 m (by simpa using hm) (by omega)
        · intro m hm
          cases m with
          | zero => simpa using le_of_lt (lt_of_le_of_lt hx' h2)
          | succ m => simpa using h4 m (by simpa using hm)

/-- **argmax returns the first index of a maximum**, for non-empty data none of whose entries is
below the seed (`f64::MIN`). -/
theorem argmax_first_max (small : α) (l : List α) (hne : l ≠ []) (hb : ∀ x ∈ l, small ≤ x) :
    ∃ hi : argmax small l < l.length,
      (∀ m, ∀ hm : m < l.length, l[m] ≤ l[argmax small l]) ∧
      (∀ m, ∀ hm : m < l.length, m < argmax small l → l[m] < l[argmax small l]) := by
  have hpos : 0 < l.length := List.length_pos_iff.mpr hne
  unfold argmax
  rcases argmaxGo_spec l 0 (0, small) with ⟨h1, h2⟩ | ⟨j, hj, h1, h2, h3, h4⟩
  · rw [h1]
    refine ⟨hpos, ?_, ?_⟩
    · intro m hm
      have e0 : l[0] = small := le_antisymm (h2 _ (List.getElem_mem _)) (hb _ (List.getElem_mem _))
      simpa [e0] using h2 _ (List.getElem_mem hm)
    · intro m hm hm0; simp at hm0
  · rw [h1]
    simp only [Nat.zero_add]
    exact ⟨hj, h4, h3⟩

example : argmin (100 : ℤ) [3, 1, 4, 1, 5] = 1 := by decide
example : argmax (-100 : ℤ) [3, 5, 4, 5, 1] = 1 := by decide

/-- `Matrix::argmin`: the flat first-minimum index split into `(row, column)`. -/
theorem matArgmin_eq (big : α) (data : List α) (ncols : ℕ) (hc : 0 < ncols) :
    ∃ r c, matArgmin big data ncols = some (r, c) ∧ c < ncols ∧ r * ncols + c = argmin big data := by
  refine ⟨argmin big data / ncols, argmin big data % ncols, ?_, Nat.mod_lt _ hc, ?_⟩
  · simp [matArgmin, Nat.pos_iff_ne_zero.mp hc]
  · rw [Nat.mul_comm]; exact Nat.div_add_mod _ _

theorem matArgmax_eq (small : α) (data : List α) (ncols : ℕ) (hc : 0 < ncols) :
    ∃ r c, matArgmax small data ncols = some (r, c) ∧ c < ncols ∧ r * ncols + c = argmax small data := by
  refine ⟨argmax small data / ncols, argmax small data % ncols, ?_, Nat.mod_lt _ hc, ?_⟩
  · simp [matArgmax, Nat.pos_iff_ne_zero.mp hc]
  · rw [Nat.mul_comm]; exact Nat.div_add_mod _ _

/-- Error branch: a matrix without columns divides by zero. -/
theorem matArgmin_zero_cols (big : α) (data : List α) : matArgmin big data 0 = none := by
  simp [matArgmin]

end Order

section Extrema
variable {α : Type} [LinearOrder α] [HasNaN α]

theorem fminG_of_not_nan (a b : α) (ha : HasNaN.isNaN a = false) (hb : HasNaN.isNaN b = false) :
    fminG a b = min a b := by
  simp only [fminG, ha, hb, Bool.false_eq_true, if_false]
  by_cases h : b < a
  · rw [if_pos h, min_eq_right (le_of_lt h)]
  · rw [if_neg h, min_eq_left (not_lt.mp h)]

theorem fmaxG_of_not_nan (a b : α) (ha : HasNaN.isNaN a = false) (hb : HasNaN.isNaN b = false) :
    fmaxG a b = max a b := by
  simp only [fmaxG, ha, hb, Bool.false_eq_true, if_false]
  by_cases h : a < b
  · rw [if_pos h, max_eq_right (le_of_lt h)]
  · rw [if_neg h, max_eq_left (not_lt.mp h)]

theorem foldl_fminG_spec (xs : List α) (acc : α) (ha : HasNaN.isNaN acc = false)
    (hx : ∀ x ∈ xs, HasNaN.isNaN x = false) :
    (xs.foldl fminG acc = acc ∨ xs.foldl fminG acc ∈ xs) ∧ xs.foldl fminG acc ≤ acc ∧
      ∀ x ∈ xs, xs.foldl fminG acc ≤ x := by
  induction xs generalizing acc with
  | nil => simp
  | cons x xs ih =>
    have hxn : HasNaN.isNaN x = false := hx x (by simp)
    have hm : HasNaN.isNaN (min acc x) = false := by
      rcases min_choice acc x with h | h <;> rw [h] <;> assumption
    simp only [List.foldl_cons, fminG_of_not_nan acc x ha hxn]
    obtain ⟨h1, h2, h3⟩ := ih (min acc x) hm (fun y hy => hx y (by simp [hy]))
    refine ⟨?_, le_trans h2 (min_le_left _ _), ?_⟩
    · rcases h1 with h1 | h1
      · rcases min_choice acc x with h | h
        · left; rw [h1, h]
        · right; rw [h1, h]; simp
      · right; simp [h1]
    · intro y hy
      rcases List.mem_cons.mp hy with rfl | hy
      · exact le_trans h2 (min_le_right _ _)
      · exact h3 y hy

theorem foldl_fmaxG_spec (xs : List α) (acc : α) (ha : HasNaN.isNaN acc = false)
    (hx : ∀ x ∈ xs, HasNaN.isNaN x = false) :
    (xs.foldl fmaxG acc = acc ∨ xs.foldl fmaxG acc ∈ xs) ∧ acc ≤ xs.foldl fmaxG acc ∧
      ∀ x ∈ xs, x ≤ xs.foldl fmaxG acc := by
  induction xs generalizing acc with
  | nil => simp
  | cons x xs ih =>
    have hxn : HasNaN.isNaN x = false := hx x (by simp)
    have hm : HasNaN.isNaN (max acc x) = false := by
      rcases max_choice acc x with h | h <;> rw [h] <;> assumption
    simp only [List.foldl_cons, fmaxG_of_not_nan acc x ha hxn]
    obtain ⟨h1, h2, h3⟩ := ih (max acc x) hm (fun y hy => hx y (by simp [hy]))
    refine ⟨?_, le_trans (le_max_left _ _) h2, ?_⟩
    · rcases h1 with h1 | h1
      · rcases max_choice acc x with h | h
        · left; rw [h1, h]
        · right; rw [h1, h]; simp
      · right; simp [h1]
    · intro y hy
      rcases List.mem_cons.mp hy with rfl | hy
      · exact le_trans (le_max_right _ _) h2
      · exact h3 y hy

/-- **`min` is the minimum**: on non-empty NaN-free data the NaN-seeded fold of `f64::min` returns an
element of the data that is below every element; equivalently Mathlib's `List.minimum`. -/
theorem minFold_eq (l : List α) (hnan : HasNaN.isNaN (HasNaN.nan : α) = true) (hne : l ≠ [])
    (hfree : ∀ x ∈ l, HasNaN.isNaN x = false) :
    (minFold l ∈ l ∧ ∀ x ∈ l, minFold l ≤ x) ∧ l.minimum = ((minFold l : α) : WithTop α) := by
  obtain ⟨a, t, rfl⟩ := List.exists_cons_of_ne_nil hne
  have key : minFold (a :: t) ∈ (a :: t) ∧ ∀ x ∈ (a :: t), minFold (a :: t) ≤ x := by
    have h0 : minFold (a :: t) = t.foldl fminG a := by
      simp [minFold, fminG, hnan]
    rw [h0]
    obtain ⟨h1, h2, h3⟩ := foldl_fminG_spec t a (hfree a (by simp)) (fun y hy => hfree y (by simp [hy]))
    refine ⟨?_, ?_⟩
    · rcases h1 with h1 | h1
      · rw [h1]; simp
      · simp [h1]
    · intro y hy
      rcases List.mem_cons.mp hy with rfl | hy
      · exact h2
      · exact h3 y hy
  exact ⟨key, List.minimum_eq_coe_iff.mpr key⟩

/-- **`max` is the maximum** (dual statement). -/
theorem maxFold_eq (l : List α) (hnan : HasNaN.isNaN (HasNaN.nan : α) = true) (hne : l ≠ [])
    (hfree : ∀ x ∈ l, HasNaN.isNaN x = false) :
    (maxFold l ∈ l ∧ ∀ x ∈ l, x ≤ maxFold l) ∧ l.maximum = ((maxFold l : α) : WithBot α) := by
  obtain ⟨a, t, rfl⟩ := List.exists_cons_of_ne_nil hne
  have key : maxFold (a :: t) ∈ (a :: t) ∧ ∀ x ∈ (a :: t), x ≤ maxFold (a :: t) := by
    have h0 : maxFold (a :: t) = t.foldl fmaxG a := by
      simp [maxFold, fmaxG, hnan]
    rw [h0]
    obtain ⟨h1, h2, h3⟩ := foldl_fmaxG_spec t a (hfree a (by simp)) (fun y hy => hfree y (by simp [hy]))
    refine ⟨?_, ?_⟩
    · rcases h1 with h1 | h1
      · rw [h1]; simp
      · simp [h1]
    · intro y hy
      rcases List.mem_cons.mp hy with rfl | hy
      · exact h2
      · exact h3 y hy
  exact ⟨key, List.maximum_eq_coe_iff.mpr key⟩

/-- On empty data both folds return the NaN seed. -/
theorem minFold_nil : minFold ([] : List α) = HasNaN.nan := rfl

/-- A NaN datum is ignored (`f64::min` semantics), it does not poison the result. -/
theorem fminG_nan_right (a b : α) (ha : HasNaN.isNaN a = false) (hb : HasNaN.isNaN b = true) :
    fminG a b = a := by
  simp [fminG, ha, hb]

/-- Non-vacuity: a scalar type with one NaN value. -/
example : True := by
  let _i : HasNaN ℤ := ⟨fun x => decide (x = -999), -999⟩
  have := minFold_eq (α := ℤ) [3, 1, 2] (by decide) (by simp) (by decide)
  trivial

end Extrema

section Hist
variable {α : Type} [Field α]

theorem histBinCenters_length (l : List α) : (histBinCenters l).length = l.length - 1 := by
  fun_induction histBinCenters l with
  | case1 a b rest ih => simp [ih]
  | case2 l h =>
    match l, h with
    | [], _ => rfl
    | [_], _ => rfl
    | a :: b :: rest, h => exact absurd rfl (h a b rest)

/-- **Bin centres are the midpoints of consecutive edges**, for arbitrary (also non-uniform,
unsorted) edges: `n − 1` centres, the `i`-th being `(eᵢ + eᵢ₊₁)/2`. -/
theorem histBinCenters_eq (l : List α) :
    (histBinCenters l).length = l.length - 1 ∧
    ∀ i, ∀ h : i + 1 < l.length, ∀ h' : i < (histBinCenters l).length,
      (histBinCenters l)[i] = (l[i] + l[i + 1]) / 2 := by
  refine ⟨histBinCenters_length l, ?_⟩
  fun_induction histBinCenters l with
  | case1 a b rest ih =>
    intro i h h'
    cases i with
    | zero => simp
    | succ i =>
      simp only [List.getElem_cons_succ]
      have := ih i (by simpa using h) (by simpa using h')
      simpa using this
  | case2 l hl =>
    intro i h h'
    simp at h'

example : histBinCenters ([0, 1, 3, 7] : List ℚ) = [1 / 2, 2, 5] := by
  norm_num [histBinCenters]

end Hist

section Guarded
variable {α : Type} [Field α] [CharZero α]

private theorem ne_nil_of_le {l : List α} {k : ℕ} (h : k + 1 ≤ l.length) : l ≠ [] := by
  intro h0; subst h0; simp at h

/-- `mean` (through the 8-way unrolled sum) is the arithmetic mean of non-empty data. -/
theorem mean_eq (l : List α) (_h : 1 ≤ l.length) : mean l = mu l := mean_eq_total l

/-- `welford_mean` is the arithmetic mean of non-empty data. -/
theorem welfordMean_eq (l : List α) (_h : 1 ≤ l.length) : welfordMean l = mu l := welfordMean_eq_total l

/-- The two mean algorithms agree on non-empty data. -/
theorem means_agree (l : List α) (_h : 1 ≤ l.length) : welfordMean l = mean l := means_agree_total l

/-- Population variance `Σ(x − x̄)²/n`, `n ≥ 1`. -/
theorem var_eq (l : List α) (_h : 1 ≤ l.length) : var l = m2 l / (l.length : α) := var_eq_total l

/-- Population standard deviation, `n ≥ 1` (`Transc.sqrt` is whatever square root the scalar has:
the statement is `var_eq` under it). -/
theorem std_eq [Transc α] (l : List α) (_h : 1 ≤ l.length) :
    std l = Transc.sqrt (m2 l / (l.length : α)) := std_eq_total l

/-- Sample variance `Σ(x − x̄)²/(n−1)`, `n ≥ 2`. -/
theorem sampleVar_eq (l : List α) (h : 2 ≤ l.length) :
    sampleVar l = some (m2 l / ((l.length - 1 : ℕ) : α)) := sampleVar_eq_total l (ne_nil_of_le h)

theorem sampleStd_eq [Transc α] (l : List α) (h : 2 ≤ l.length) :
    sampleStd l = some (Transc.sqrt (m2 l / ((l.length - 1 : ℕ) : α))) :=
  sampleStd_eq_total l (ne_nil_of_le h)

/-- Population covariance `Σ(xᵢ−x̄)(yᵢ−ȳ)/n`, `n ≥ 1`. -/
theorem covariance_eq (x y : List α) (h : x.length = y.length) (_h1 : 1 ≤ x.length) :
    covariance x y = some (comoment x y / (x.length : α)) := covariance_eq_total x y h

/-- Sample covariance `Σ(xᵢ−x̄)(yᵢ−ȳ)/(n−1)`, `n ≥ 2`. -/
theorem sampleCovariance_eq (x y : List α) (h : x.length = y.length) (h2 : 2 ≤ x.length) :
    sampleCovariance x y = some (comoment x y / ((x.length - 1 : ℕ) : α)) :=
  sampleCovariance_eq_total x y h (ne_nil_of_le h2)

/-- The repaired shifted one-pass algorithm (F17) computes the sample covariance, `n ≥ 2`. -/
theorem onepass_eq_sampleCovariance (x y : List α) (h : x.length = y.length) (h2 : 2 ≤ x.length) :
    sampleCovarianceOnepass x y = sampleCovariance x y :=
  onepass_eq_sampleCovariance_total x y h (ne_nil_of_le h2)

/-- The repaired online algorithm (F18) computes the sample covariance, `n ≥ 2`. -/
theorem online_eq_sampleCovariance (x y : List α) (h : x.length = y.length) (h2 : 2 ≤ x.length) :
    sampleCovarianceOnline x y = sampleCovariance x y :=
  online_eq_sampleCovariance_total x y h (ne_nil_of_le h2)

/-- All provided covariance algorithms agree (`n ≥ 2`): the three sample algorithms return the same
value `comoment / (n−1)` and the population covariance is the same co-moment divided by `n`. -/
theorem covariance_algorithms_agree (x y : List α) (h : x.length = y.length) (h2 : 2 ≤ x.length) :
    sampleCovarianceOnepass x y = sampleCovariance x y ∧
    sampleCovarianceOnline x y = sampleCovariance x y ∧
    sampleCovariance x y = some (comoment x y / ((x.length - 1 : ℕ) : α)) ∧
    covariance x y = some (comoment x y / (x.length : α)) :=
  covariance_algorithms_agree_total x y h (ne_nil_of_le h2)

/-- Variance is unchanged by adding a constant to the data (`n ≥ 1`, every size of the constant). -/
theorem var_shift (l : List α) (c : α) (_h : 1 ≤ l.length) : var (l.map (· + c)) = var l :=
  var_shift_total l c

theorem sampleVar_shift (l : List α) (c : α) (_h : 2 ≤ l.length) :
    sampleVar (l.map (· + c)) = sampleVar l := sampleVar_shift_total l c

/-- The two two-pass covariances are unchanged by adding constants to either variable (`n ≥ 2`); with
`covariance_algorithms_agree` the same holds for the one-pass and the online algorithm. -/
theorem cov_shift (x y : List α) (c d : α) (_h2 : 2 ≤ x.length) :
    covariance (x.map (· + c)) (y.map (· + d)) = covariance x y ∧
    sampleCovariance (x.map (· + c)) (y.map (· + d)) = sampleCovariance x y := cov_shift_total x y c d

/-- Shift invariance of the one-pass and online algorithms (through agreement with the two-pass one). -/
theorem cov_shift_all (x y : List α) (c d : α) (h : x.length = y.length) (h2 : 2 ≤ x.length) :
    sampleCovarianceOnepass (x.map (· + c)) (y.map (· + d)) = sampleCovarianceOnepass x y ∧
    sampleCovarianceOnline (x.map (· + c)) (y.map (· + d)) = sampleCovarianceOnline x y := by
  have hm : (x.map (· + c)).length = (y.map (· + d)).length := by simpa using h
  have hm2 : 2 ≤ (x.map (· + c)).length := by simpa using h2
  rw [onepass_eq_sampleCovariance _ _ hm hm2, online_eq_sampleCovariance _ _ hm hm2,
    onepass_eq_sampleCovariance _ _ h h2, online_eq_sampleCovariance _ _ h h2]
  exact ⟨(cov_shift x y c d h2).2, (cov_shift x y c d h2).2⟩

example : sampleCovarianceOnline ([1, 2, 4] : List ℚ) [3, 1, 1] = some (-4 / 3) := by
  rw [online_eq_sampleCovariance [1, 2, 4] [3, 1, 1] rfl (by decide),
    sampleCovariance_eq [1, 2, 4] [3, 1, 1] rfl (by decide)]
  norm_num [comoment, mu]

example : var ([5, 5, 8] : List ℚ) = 2 := by
  rw [var_eq _ (by decide)]; norm_num [m2, mu]

/-- Variance scales quadratically (`n ≥ 1`). -/
theorem var_scale (l : List α) (s : α) (_h : 1 ≤ l.length) : var (l.map (s * ·)) = s ^ 2 * var l :=
  var_scale_total l s

theorem sampleVar_scale (l : List α) (s : α) (_h : 2 ≤ l.length) :
    sampleVar (l.map (s * ·)) = (sampleVar l).map (s ^ 2 * ·) := sampleVar_scale_total l s

/-- The two two-pass covariances are bilinear under scaling of the variables (`n ≥ 2`). -/
theorem cov_scale (x y : List α) (s t : α) (_h2 : 2 ≤ x.length) :
    covariance (x.map (s * ·)) (y.map (t * ·)) = (covariance x y).map (s * t * ·) ∧
    sampleCovariance (x.map (s * ·)) (y.map (t * ·)) = (sampleCovariance x y).map (s * t * ·) :=
  cov_scale_total x y s t

example : var ([2, 4, 6] : List ℚ) = 2 ^ 2 * var [1, 2, 3] := by
  have := var_scale ([1, 2, 3] : List ℚ) 2 (by decide)
  norm_num at this; exact this

end Guarded

section Degenerate
variable {α : Type} [Field α] [CharZero α]

/-- **Below the guards the code divides by zero.**  Every quantity below is the quotient the model (and
the Rust code) forms at the degenerate size; the denominator is the literal `0`, so the `f64` result is
`0.0/0.0 = NaN` (observed and compared by the correspondence check on the corpus lines `mean 0`,
`var 0`, `svar 1 x`, `scov 1 x 1 y` …), while in a Lean field the same term is `0` by convention —
which is why the `_total` identities hold there and why the property theorems exclude these sizes. -/
theorem degenerate_sizes (x y : α) :
    mean ([] : List α) = 0 / 0 ∧ welfordMean ([] : List α) = 0 ∧ var ([] : List α) = 0 / 0 ∧
    covariance ([] : List α) [] = some (0 / 0) ∧
    sampleVar [x] = some (0 / 0) ∧ sampleCovariance [x] [y] = some (0 / 0) ∧
    sampleCovarianceOnepass [x] [y] = some (0 / 0) ∧ sampleCovarianceOnline [x] [y] = some (0 / 0) := by
  refine ⟨?_, ?_, ?_, ?_, ?_, ?_, ?_, ?_⟩
  · simp [mean, sum8, sum8Go]
  · simp [welfordMean, welfordStatistics]
  · simp [var, welfordStatistics]
  · simp [covariance]
  · simp [sampleVar, welfordStatistics, welfordUpdate]
  · simp [sampleCovariance]
  · simp [sampleCovarianceOnepass]
  · simp [sampleCovarianceOnline, onlineStep]

/-- The panicking sizes: `usize` underflow of `n − 1` at `n = 0` (overflow checks on; a release
build without them wraps and returns NaN — outside the property's quantifier). The online algorithm counts
in `f64` and returns `0/(0−1)` instead. -/
theorem panicking_sizes :
    sampleVar ([] : List α) = none ∧ sampleCovariance ([] : List α) [] = none ∧
    sampleCovarianceOnepass ([] : List α) [] = none ∧
    sampleCovarianceOnline ([] : List α) [] = some (0 / (0 - 1)) :=
  ⟨sampleVar_nil, sampleCovariance_nil, by simp [sampleCovarianceOnepass], online_nil⟩

end Degenerate
end Cv.C08
