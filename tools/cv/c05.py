"""C05 — matrix products follow the definition for every shape and transpose flag."""
import os
import re
from fractions import Fraction

from .common import Failure, f2h, h2f, parse_reply

ID = "C05"
BIN = "c05"
PROOF_MODULES = ["Compute.Props.C05", "Compute.Lemmas.C05Loops", "Compute.Lemmas.C05Spec", "Compute.Props.C05Review",
                 "Compute.Props.C05Matrix"]
REQUIRED_THEOREMS = [
    # headline: the definition (entry formulas on the stored operands, and with Mathlib's Matrix product)
    "Cv.C05.matmul_spec", "Cv.C05.matmul_spec_NN", "Cv.C05.matmul_spec_TN", "Cv.C05.matmul_spec_NT", "Cv.C05.matmul_spec_TT",
    "Cv.C05.matmul_matrix_NN", "Cv.C05.matmul_matrix_TN", "Cv.C05.matmul_matrix_NT", "Cv.C05.matmul_matrix_TT",
    "Cv.C05.xtx_matrix", "Cv.C05.matmulBlocked_spec", "Cv.C05.xtx_spec", "Cv.C05.transpose_get",
    # headline: blocked = plain
    "Cv.C05L.mmBlockedLoop_eq", "Cv.C05.matmulBlocked_eq_of_not_both", "Cv.C05.matmulBlocked_eq",
    # headline: exactly when a value is returned (review B1/B2)
    "Cv.C05.matmul_isSome_iff", "Cv.C05.matmulBlocked_isSome_iff", "Cv.C05.matmul_zero_rows",
    "Cv.C05.matmul_rejects", "Cv.C05.matmulBlocked_rejects", "Cv.C05.matmul_rejects_malformed",
    "Cv.C05.dotMM_isSome_iff", "Cv.C05.dotMV_isSome_iff", "Cv.C05.dotVM_isSome_iff", "Cv.C05.dotMM_zero_rows",
    "Cv.C05.dotMM_rejects", "Cv.C05.dotMV_rejects", "Cv.C05.dotVM_rejects",
    # headline: the Dot trait
    "Cv.C05.dotMM_spec", "Cv.C05.dotMV_spec", "Cv.C05.dotVM_spec", "Cv.C05.dotVV_spec",
    "Cv.C05.wiring_matMat", "Cv.C05.wiring_promotion",
    # rounding of the remaining Dot kinds (review B5; standard model)
    "Cv.C05.dotMV_error", "Cv.C05.dotVM_error", "Cv.C05.dotVV_error",
    # bridges for the whole-function source tie (review B3)
    "Cv.C05.isMatrix_src", "Cv.C05.transpose_src", "Cv.C05.transpose_bridge", "Cv.C05.isMatrixU_bridge",
    # supporting statements (unfoldings, instances, a definition local to the proof file) - required so that they cannot
    # silently disappear, not headline results
    "Cv.C05.dotMV_eq", "Cv.C05.dotVM_eq", "Cv.C05.dotVV_eq", "Cv.C05.matmulBlocked_eq_float", "Cv.C05.legacyTT_violates_spec",
]
RULE = ("every shape m,l,n in 1..9 x 4 flag pairs with integer entries for matmul, with block sizes from 1..2*max(m,l,n) "
        "for matmul_blocked (quick: 2 per shape, thorough: all); non-conformable and malformed operands; random real "
        "shapes up to 64 with 4-5 block sizes each; xtx/transpose for k,p in 1..9 and random up to 64; every Dot method x "
        "ownership form x operand kinds (mm shapes 1..9^3, mv/vm 1..9^2 x 3 vector lengths, vv lengths 0..40 and random "
        "to 200). Strata: exact special values mixed into real data; dimensions 2^k-1, 2^k, 2^k+1 up to 65; m*l*n around 32768 "
        "and the 63/64/65 corners; integer data times 2^p (p to +-1000, exact equality) and real data against its power-of-two "
        "scaled copy (bit-exact equivariance); zeros facing inf/nan (IEEE class of every entry); vector / operand lengths "
        "that are multiples or divisors of the contracted dimension (must panic); inner products of lengths 8k-1, 8k, 8k+1 up "
        "to 4097; block sizes at dimension +-1, 2^k, 2^20, 2^40. Aliasing sessions (`ses` lines, one state per line): the same "
        "slice / Matrix / Vector object as both operands of every entry point (sizes 1..9, 15..17, 33, random; non-symmetric, "
        "symmetric, real), overlapping views and two shapes of one buffer, operands mutated in place between identical calls, "
        "slots re-filled right after a drop (address reuse). Zero dimensions: every entry point with a 0 somewhere in shapes "
        "from 0..3 (decided by the oracle: non-conformable must panic; zero columns with positive row counts must give the "
        "empty / all-zero product; a conformable product with a 0-row operand may only panic or return the correct value - the "
        "panics are counted). Massive cancellation: Gram-Schmidt pairs w = v - ((v.u)/(u.u))u against u for every length 2..64 and "
        "some to 300, through every Vector.Vector form and as 1 x n / n x 2 matrix products; +-1 products cancelling exactly "
        "except one product 2^-44/2^-48 (exact-equality regime) or 2^-60..2^-100 in the last n % 8 slots; exactly orthogonal "
        "integer vectors. Structured operands: exactly lower / upper triangular, diagonal, rectangular diagonal, banded, symmetric, "
        "zero row / column matrices of sizes 2, 9, 15..17, 24, 32, 33, 40 (quick: 2, 9, 16, 17, 33) as left, right or both operands, "
        "all four flag pairs for matmul, matmul_blocked and every Dot method (mm, mv, vm), integer entries. non-trivial = distinct (op, flags/method, ownership, shapes, block size)")
EXHAUSTIVE = {"quick": False, "thorough": True}
NOT_PROVED = [
    "hand-modelled and tied at run time only (bit-exact correspondence over all four ownership forms), not regenerated from "
    "the source text: xtx (a one-line delegation to matmul), Matrix::new / reshape_mut, Matrix::t_mut, Vector::to_matrix, and "
    "the bodies of the Dot macros - their shape assert, matmul arguments and output shape are pulled out of dot.rs by regular "
    "expressions into the wiring table (the translator refuses when a macro body changes shape); wiring_matMat and "
    "wiring_promotion are `decide` over that extracted table (4 rows, two 4-entry maps, 16 instantiations), they are not "
    "theorems about the Rust source text. matmul, matmul_blocked, is_matrix and transpose ARE regenerated from the source "
    "and proved equal to the model (SrcTieC05Mut2 + the bridges isMatrix_src, transpose_src)",
    "that the four ownership forms of each Dot impl share one body is read off the macro by the translator (one model "
    "for the four forms) and checked by running all four forms against the model",
    "i32 casts of dimensions in Matrix::new (exact below 2^31)",
    "bit-identity of matmul_blocked and matmul at Float is a theorem for the three flag pairs without the both-transposed "
    "shortcut (no algebraic law used); for (true,true) the plain kernel multiplies b*a where the blocked one multiplies a*b, so "
    "the identity needs commutativity of f64 multiplication: checked by the correspondence and by the oracle's bitwise "
    "blocked-vs-plain comparison, not proved",
    "operands with 0 rows: every entry point panics (is_matrix divides by the row count), also for mathematically conformable "
    "products such as (2x0).(0x3) or Matrix(2x0).dot(empty Vector) - proved (matmul_zero_rows, dotMM_zero_rows, the isSome_iff "
    "theorems) and observed; the quantifier of the property starts at dimension 1, so this is reported to the lead as finding "
    "proposal key=zero-rows rather than counted as a violation",
]
TRUSTED = ["element operations are IEEE + and * on f64 (compared bit for bit between model and implementation)"]
ASSUMPTIONS = ["default cargo features (no `blas`): the #[cfg(not(feature = \"blas\"))] branch of matmul/dot is the code under test",
               "`returns a value` statements hold exactly under the conditions of the isSome_iff theorems: positive row counts "
               "that divide the lengths and agreeing inner dimensions (for Matrix.Vector additionally a non-empty vector)"]

METHS = ["dot", "t_dot", "dot_t", "t_dot_t"]
LEAN_METH = {"dot": "dot", "t_dot": "tDot", "dot_t": "dotT", "t_dot_t": "tDotT"}
LEAN_DIM = {("self", "nrows"): "selfRows", ("self", "ncols"): "selfCols",
            ("other", "nrows"): "otherRows", ("other", "ncols"): "otherCols"}


# ------------------------------------------------------------------------------------------------
# translator: src/linalg/array/dot.rs  ->  lean/Compute/Generated/C05Wiring.lean
def macro_body(src, name):
    m = re.search(r"macro_rules!\s+%s\s*\{" % re.escape(name), src)
    if not m:
        raise ValueError("macro %s not found in dot.rs" % name)
    i = m.end()
    depth = 1
    while depth:
        c = src[i]
        depth += (c == "{") - (c == "}")
        i += 1
    return src[m.end():i - 1]


def EXTRACT(repo):
    src = open(os.path.join(repo, "src/linalg/array/dot.rs")).read()
    src = re.sub(r"//[^\n]*", "", src)
    # --- Matrix . Matrix: one fn per method
    body = macro_body(src, "impl_mat_mat_dot")
    if not re.search(r"impl\s+Dot<\$othertype,\s*Matrix>\s+for\s+\$selftype", body):
        raise ValueError("impl_mat_mat_dot: unexpected impl header")
    fn_re = re.compile(
        r"fn\s+(\w+)\s*\(\s*&self\s*,\s*other:\s*\$othertype\s*\)\s*->\s*Matrix\s*\{\s*"
        r"assert_eq!\(\s*(self|other)\.(nrows|ncols)\s*,\s*(self|other)\.(nrows|ncols)\s*,\s*\"[^\"]*\"\s*\)\s*;\s*"
        r"let\s+output\s*=\s*matmul\(\s*&self\.data\(\)\s*,\s*&other\.data\(\)\s*,\s*"
        r"(self|other)\.(nrows|ncols)\s*,\s*(self|other)\.(nrows|ncols)\s*,\s*(true|false)\s*,\s*(true|false)\s*,?\s*\)\s*;\s*"
        r"Matrix::new\(\s*output\s*,\s*(self|other)\.(nrows|ncols)\s+as\s+i32\s*,\s*(self|other)\.(nrows|ncols)\s+as\s+i32\s*\)\s*\}")
    rows = []
    pos = 0
    for m in fn_re.finditer(body):
        rows.append(m.groups())
    if sorted(r[0] for r in rows) != sorted(METHS) or len(re.findall(r"\bfn\s+\w+", body)) != 4:
        raise ValueError("impl_mat_mat_dot: expected exactly the four methods with the shape "
                         "assert / matmul / Matrix::new pattern, found %r" % [r[0] for r in rows])
    mm = []
    for g in rows:
        d = lambda k: "." + LEAN_DIM[(g[k], g[k + 1])]
        mm.append("  ⟨.%s, %s, %s, %s, %s, %s, %s, %s, %s⟩" % (
            LEAN_METH[g[0]], d(1), d(3), d(5), d(7), g[9], g[10], d(11), d(13)))

    # --- promotion macros
    def promo(macro, helper, expect_helper_body):
        hb = re.sub(r"\s+", " ", macro_body(src, helper)).strip()
        if expect_helper_body not in hb:
            raise ValueError("%s: unexpected body %r" % (helper, hb))
        b = macro_body(src, macro)
        pairs = []
        for m in re.finditer(r"%s!\(\s*\$othertype\s*,\s*(\w+)\s*,\s*([\w\s,]+?)\s*\)\s*;" % helper, b):
            inner = m.group(1)
            for op in re.split(r"\s*,\s*", m.group(2).strip()):
                pairs.append((op, inner))
        if sorted(p[0] for p in pairs) != sorted(METHS):
            raise ValueError("%s: methods %r" % (macro, pairs))
        return pairs

    mv = promo("impl_mat_vec_dot", "impl_dot_append_one",
               "fn $op(&self, other: $othertype) -> Vector { let mut o = other.clone().to_owned().to_matrix(); "
               "o.t_mut(); self.$innerop(o).to_vec() }")
    vm = promo("impl_vec_mat_dot", "impl_dot_prepend_one",
               "fn $op(&self, other: $othertype) -> Vector { self.clone().to_owned().to_matrix().$innerop(other).to_vec() }")
    hb = re.sub(r"\s+", " ", macro_body(src, "impl_dot_vec_vec")).strip()
    if "fn $op(&self, other: $othertype) -> f64 { dot(&self.data(), &other.data()) }" not in hb:
        raise ValueError("impl_dot_vec_vec: unexpected body %r" % hb)
    b = macro_body(src, "impl_vec_vec_dot")
    m = re.search(r"impl_dot_vec_vec!\(\s*\$othertype\s*,\s*([\w\s,]+?)\s*\)\s*;", b)
    vv = re.split(r"\s*,\s*", m.group(1).strip()) if m else []
    if sorted(vv) != sorted(METHS):
        raise ValueError("impl_vec_vec_dot: methods %r" % vv)

    # --- ownership forms
    tb = re.sub(r"\s+", " ", macro_body(src, "impl_macro_for_types"))
    forms = re.findall(r"\$macro!\(\s*(&?)\$t1\s*,\s*(&?)\$t2\s*\)", tb)
    if len(forms) != 4:
        raise ValueError("impl_macro_for_types: %r" % forms)
    insts = re.findall(r"impl_macro_for_types!\(\s*(\w+)\s*,\s*(\w+)\s*,\s*(\w+)\s*\)", src)
    kind = {("impl_mat_mat_dot", "Matrix", "Matrix"): "matMat", ("impl_mat_vec_dot", "Matrix", "Vector"): "matVec",
            ("impl_vec_mat_dot", "Vector", "Matrix"): "vecMat", ("impl_vec_vec_dot", "Vector", "Vector"): "vecVec"}
    impls = []
    for inst in insts:
        if inst not in kind:
            raise ValueError("unexpected instantiation %r" % (inst,))
        for a, b_ in forms:
            impls.append("  (.%s, %s, %s)" % (kind[inst], "true" if a else "false", "true" if b_ else "false"))
    # any impl of Dot outside the macros would escape the table
    if len(re.findall(r"\bimpl\s+Dot<", src)) != 4:
        raise ValueError("dot.rs: expected exactly four `impl Dot<..>` (inside the four macros)")

    out = """/-
GENERATED by tools/cv/c05.py (EXTRACT) from src/linalg/array/dot.rs — do not edit.
Wiring of the `Dot` trait: for every Matrix·Matrix method the shape assert, the arguments handed to
`matmul` (row counts and transpose flags) and the shape handed to `Matrix::new`; for Matrix·Vector /
Vector·Matrix the inner Matrix·Matrix method each method delegates to after promoting the vector
(`to_matrix()` = one row; Matrix·Vector additionally `t_mut()` = one column); for Vector·Vector the
methods that are `utils::dot`; and the list of macro instantiations (operand kinds × ownership forms).
-/
namespace Cv.C05W

inductive Dim where | selfRows | selfCols | otherRows | otherCols
deriving DecidableEq, Repr

inductive Meth where | dot | tDot | dotT | tDotT
deriving DecidableEq, Repr

inductive Kind where | matMat | matVec | vecMat | vecVec
deriving DecidableEq, Repr

/-- `fn meth(&self, other) { assert_eq!(assertL, assertR); let output = matmul(self.data, other.data,
rowsArgA, rowsArgB, ta, tb); Matrix::new(output, outRows, outCols) }` -/
structure MMRow where
  meth : Meth
  assertL : Dim
  assertR : Dim
  rowsArgA : Dim
  rowsArgB : Dim
  ta : Bool
  tb : Bool
  outRows : Dim
  outCols : Dim
deriving DecidableEq, Repr

def matMat : List MMRow := [
%s
]

/-- Matrix·Vector: `(method, inner Matrix·Matrix method applied to (self, column(other)))`. -/
def matVec : List (Meth × Meth) := [%s]

/-- Vector·Matrix: `(method, inner Matrix·Matrix method applied to (row(self), other))`. -/
def vecMat : List (Meth × Meth) := [%s]

/-- Vector·Vector: methods whose body is `dot(&self.data(), &other.data())`. -/
def vecVec : List Meth := [%s]

/-- Macro instantiations: `(operand kinds, self is a reference type, other is a reference type)`. -/
def impls : List (Kind × Bool × Bool) := [
%s
]

end Cv.C05W
""" % (",\n".join(mm),
       ", ".join("(.%s, .%s)" % (LEAN_METH[a], LEAN_METH[b_]) for a, b_ in mv),
       ", ".join("(.%s, .%s)" % (LEAN_METH[a], LEAN_METH[b_]) for a, b_ in vm),
       ", ".join("." + LEAN_METH[a] for a in vv),
       ",\n".join(impls))
    return {"Compute/Generated/C05Wiring.lean": out}


# ------------------------------------------------------------------------------------------------
# request lines
def model_line(line):
    t = line.split(" ", 3)
    if t[0] in ("dmm", "dmv", "dvm", "dvv"):
        return " ".join([t[0], t[1], t[3]])  # drop the ownership form: one model for the four forms
    return line


_H = {}


def hx(x):
    h = _H.get(x)
    if h is None:
        h = f2h(x)
        if len(_H) < 4096:
            _H[x] = h
    return h


def hs(xs):
    return " ".join(hx(x) for x in xs)


def L_tr(nrows, a):
    return "tr %d %d %s" % (nrows, len(a), hs(a)) if a else "tr %d 0" % nrows


def L_mm(ta, tb, ra, rb, a, b):
    return ("mm %d %d %d %d %d %d %s %s" % (ta, tb, ra, rb, len(a), len(b), hs(a), hs(b))).rstrip().replace("  ", " ")


def L_mb(ta, tb, ra, rb, bs, a, b):
    return ("mb %d %d %d %d %d %d %d %s %s" % (ta, tb, ra, rb, bs, len(a), len(b), hs(a), hs(b))).rstrip().replace("  ", " ")


def L_xtx(k, x):
    return "xtx %d %d %s" % (k, len(x), hs(x)) if x else "xtx %d 0" % k


def L_d(kind, meth, own, dims, d1, d2):
    return ("%s %s %d %s %s %s" % (kind, meth, own, " ".join(map(str, dims)), hs(d1), hs(d2))).rstrip().replace("  ", " ")


def ints(rng, n, lo=-9, hi=9):
    return [float(rng.randint(0, hi - lo) + lo) for _ in range(n)]


def reals(rng, n):
    sc = 10.0 ** rng.randint(-3, 3) if rng.chance(0.3) else 1.0
    return [rng.normal() * sc for _ in range(n)]


SPECIALS = [float("inf"), -float("inf"), float("nan"), -0.0, 0.0, 5e-324, 1e-310, 1.7e308, -1.7e308, 1e200, 1e-200]


def specials(rng, n):
    return [rng.choice(SPECIALS) if rng.chance(0.25) else rng.normal() for _ in range(n)]


def stored(m, l, n, ta, tb):
    """stored shapes (rows_a, cols_a, rows_b, cols_b) so that op(A) is m x l and op(B) is l x n"""
    return ((l, m) if ta else (m, l)) + ((n, l) if tb else (l, n))


def corpus():
    one = hx(1.0)
    A = [float(x) for x in range(1, 7)]        # 2x3
    B = [float(x) for x in range(1, 9)]        # 4x2
    out = [
        # F12: both flags with shapes 2x3, 4x2: A^T B^T = (B A)^T is 3x4
        L_mm(1, 1, 2, 4, A, B),
        L_mb(1, 1, 2, 4, 2, A, B),
        L_d("dmm", "t_dot_t", 0, (2, 3, 4, 2), A, B),
        # F13: cols_a < rows_b used to return a value
        L_mm(0, 0, 2, 4, A, B),
        L_mm(0, 0, 3, 4, A, B),
        L_mb(0, 0, 3, 4, 1, A, B),
        L_mb(0, 0, 2, 2, 0, A[:4], B[:4]),       # bsize = 0: division by zero
    ]
    # massive cancellation (round-10 seed C05w: a compensated-summation fallback of `dot` that dropped the last n % 8
    # products when the sum had cancelled below n*eps*sum|x_k y_k|): a Gram-Schmidt pair of length 11, an exactly
    # cancelling +-1 pattern of length 13 with one product 2^-48 in the remainder loop, orthogonal +-1 vectors of length 12
    from .common import Rng
    r = Rng(0xC05)
    u, w = gs_pair(r, 11)
    out.append(L_d("dvv", "dot", 1, (11, 11), w, u))
    out.append(L_d("dvv", "t_dot_t", 2, (11, 11), u, w))
    x, y = tiny_pair(r, 13, -48)
    out.append(L_d("dvv", "dot_t", 3, (13, 13), x, y))
    x, y = pm_orthogonal(r, 12)
    out.append(L_d("dvv", "t_dot", 0, (12, 12), x, y))
    # structured operand (round-11 seed C05x: a lower-triangular fast path that scanned the raw A instead of op(A)):
    # 16 x 16 exactly lower-triangular A with flags (1,0) times a dense 16 x 3 B, through matmul and Matrix.t_dot
    A = struct_mat(r, "lower", 16, 16)
    B = nzints(r, 16 * 3)
    out.append(L_mm(1, 0, 16, 16, A, B))
    out.append(L_d("dmm", "t_dot", 1, (16, 16, 16, 3), A, B))
    return out


def gen(rng, tier):
    quick = tier != "thorough"
    lines = []
    cover = {"mm_exact": 0, "mb_exact": 0, "nonconformable": 0, "malformed": 0, "zero_dim": 0, "real": 0,
             "special_values": 0, "dot_mm": 0, "dot_mv": 0, "dot_vm": 0, "dot_vv": 0, "xtx": 0, "tr": 0,
             "block_sizes": 0}
    R = range(1, 10)
    flags = [(0, 0), (1, 0), (0, 1), (1, 1)]
    # ---- A. every shape m,l,n in 1..9 x 4 flag pairs, integer entries; blocked variant
    for m in R:
        for l in R:
            for n in R:
                for fi, (ta, tb) in enumerate(flags):
                    ra, ca, rb, cb = stored(m, l, n, ta, tb)
                    a, b = ints(rng, ra * ca), ints(rng, rb * cb)
                    lines.append(L_mm(ta, tb, ra, rb, a, b))
                    cover["mm_exact"] += 1
                    top = 2 * max(m, l, n)
                    if quick:
                        h = (m * 131 + l * 31 + n * 7 + fi * 3)
                        bss = sorted({1 + h % top, 1 + (h // 5 + 3 * fi) % max(1, min(top, max(l, n)))})
                    else:
                        bss = range(1, top + 1)
                    for bs in bss:
                        lines.append(L_mb(ta, tb, ra, rb, bs, a, b))
                        cover["mb_exact"] += 1
                        cover["block_sizes"] = max(cover["block_sizes"], bs)
    # ---- non-conformable inner dimensions must panic (both kernels)
    for m in R:
        for l in R:
            for l2 in R:
                if l2 == l:
                    continue
                for fi, (ta, tb) in enumerate(flags):
                    if quick and (m * 5 + l * 3 + l2 + fi) % 11 != 0:
                        continue
                    n = 1 + (m + l + l2 + fi) % 9 if quick else None
                    for n in ([n] if quick else R):
                        if not quick and (m + l + l2 + n + fi) % 3 != 0:
                            continue
                        ra, ca = ((l, m) if ta else (m, l))
                        rb, cb = ((n, l2) if tb else (l2, n))
                        a, b = ints(rng, ra * ca), ints(rng, rb * cb)
                        lines.append(L_mm(ta, tb, ra, rb, a, b))
                        lines.append(L_mb(ta, tb, ra, rb, 1 + (m + n) % 4, a, b))
                        cover["nonconformable"] += 2
    # ---- malformed operands / zero dimensions (tie; the oracle expects a panic for malformed ones)
    for _ in range(60 if quick else 600):
        ta, tb = rng.choice(flags)
        ra, rb = rng.randint(0, 5), rng.randint(0, 5)
        la, lb = rng.randint(0, 12), rng.randint(0, 12)
        a, b = ints(rng, la), ints(rng, lb)
        lines.append(L_mm(ta, tb, ra, rb, a, b))
        lines.append(L_mb(ta, tb, ra, rb, rng.randint(0, 4), a, b))
        lines.append(L_tr(ra, a))
        lines.append(L_xtx(rb, b))
        cover["malformed"] += 4
    # ---- B. random real shapes up to 64
    nreal = 120 if quick else 1500
    for q in range(nreal):
        big = 64 if q % 3 == 0 else 24
        m, l, n = rng.randint(1, big), rng.randint(1, big), rng.randint(1, big)
        ta, tb = flags[q % 4]
        ra, ca, rb, cb = stored(m, l, n, ta, tb)
        if q % 10 == 9:
            a, b = specials(rng, ra * ca), specials(rng, rb * cb)
            cover["special_values"] += 1
        else:
            a, b = reals(rng, ra * ca), reals(rng, rb * cb)
        lines.append(L_mm(ta, tb, ra, rb, a, b))
        top = 2 * max(m, l, n)
        for bs in sorted({1, rng.randint(1, top), rng.randint(1, max(l, n)), rng.choice([l, n, l + 1, n + 1, max(1, l - 1), top])}):
            lines.append(L_mb(ta, tb, ra, rb, bs, a, b))
            cover["block_sizes"] = max(cover["block_sizes"], bs)
        cover["real"] += 1
    # ---- xtx, transpose
    for k in range(1, 10):
        for p in range(1, 10):
            x = ints(rng, k * p)
            lines.append(L_xtx(k, x))
            lines.append(L_tr(k, x))
            cover["xtx"] += 1
            cover["tr"] += 1
    for _ in range(40 if quick else 400):
        k, p = rng.randint(1, 64), rng.randint(1, 64)
        x = reals(rng, k * p)
        lines.append(L_xtx(k, x))
        lines.append(L_tr(k, x))
        cover["xtx"] += 1
        cover["tr"] += 1
    # ---- C. the Dot trait: every method x ownership form x operand kinds
    for mi, meth in enumerate(METHS):
        ta, tb = (meth in ("t_dot", "t_dot_t")), (meth in ("dot_t", "t_dot_t"))
        for m in R:
            for l in R:
                for n in R:
                    owns = [(m + 2 * l + 3 * n + mi) % 4] if quick else range(4)
                    for own in owns:
                        r1, c1, r2, c2 = stored(m, l, n, ta, tb)
                        lines.append(L_d("dmm", meth, own, (r1, c1, r2, c2), ints(rng, r1 * c1), ints(rng, r2 * c2)))
                        cover["dot_mm"] += 1
        for own in range(4):
            for r in R:
                for c in R:
                    for n in sorted({r, c, 1 + (r + c + own) % 9}):
                        lines.append(L_d("dmv", meth, own, (r, c, n), ints(rng, r * c), ints(rng, n)))
                        lines.append(L_d("dvm", meth, own, (n, r, c), ints(rng, n), ints(rng, r * c)))
                        cover["dot_mv"] += 1
                        cover["dot_vm"] += 1
            for n in range(0, 41):
                lines.append(L_d("dvv", meth, own, (n, n), ints(rng, n), ints(rng, n)))
                cover["dot_vv"] += 1
            for _ in range(6):
                n1, n2 = rng.randint(0, 20), rng.randint(0, 20)
                lines.append(L_d("dvv", meth, own, (n1, n2), ints(rng, n1), ints(rng, n2)))
                cover["dot_vv"] += 1
            # zero-dimensional operands (tie only)
            for (r, c, n) in ((0, 3, 3), (3, 0, 0), (0, 0, 0), (2, 2, 0)):
                lines.append(L_d("dmv", meth, own, (r, c, n), ints(rng, r * c), ints(rng, n)))
                lines.append(L_d("dvm", meth, own, (n, r, c), ints(rng, n), ints(rng, r * c)))
                lines.append(L_d("dmm", meth, own, (r, c, c, n), ints(rng, r * c), ints(rng, c * n)))
                cover["zero_dim"] += 3
    # non-conformable and real-valued trait calls
    for q in range(400 if quick else 6000):
        meth, own = METHS[q % 4], (q // 4) % 4
        kind = ("dmm", "dmv", "dvm", "dvv")[(q // 16) % 4]
        big = 40 if q % 5 == 0 else 9
        val = reals if q % 2 else ints
        if kind == "dmm":
            r1, c1, r2, c2 = [rng.randint(1, big) for _ in range(4)]
            if rng.chance(0.6):  # make it conformable
                ta, tb = (meth in ("t_dot", "t_dot_t")), (meth in ("dot_t", "t_dot_t"))
                r1, c1, r2, c2 = stored(r1, c1, c2, ta, tb)
            lines.append(L_d(kind, meth, own, (r1, c1, r2, c2), val(rng, r1 * c1), val(rng, r2 * c2)))
            cover["dot_mm"] += 1
        elif kind in ("dmv", "dvm"):
            r, c = rng.randint(1, big), rng.randint(1, big)
            n = rng.choice([r, c, rng.randint(1, big)])
            if kind == "dmv":
                lines.append(L_d(kind, meth, own, (r, c, n), val(rng, r * c), val(rng, n)))
            else:
                lines.append(L_d(kind, meth, own, (n, r, c), val(rng, n), val(rng, r * c)))
            cover["dot_" + kind[1:]] += 1
        else:
            n1 = rng.randint(0, 200)
            n2 = n1 if rng.chance(0.7) else rng.randint(0, 200)
            lines.append(L_d(kind, meth, own, (n1, n2), val(rng, n1), val(rng, n2)))
            cover["dot_vv"] += 1
    strata(rng.fork("strata"), tier, lines, cover)
    alias_stratum(rng.fork("alias"), tier, lines, cover)
    zero_dim_stratum(rng.fork("zero"), tier, lines, cover)
    cancel_stratum(rng.fork("cancel"), tier, lines, cover)
    struct_stratum(rng.fork("struct"), tier, lines, cover)
    return lines, cover


# ------------------------------------------------------------------------------------------------
# generic strata (tools/GENERIC_STRATA.md): exact special values, size boundaries, extreme power-of-two
# scales, zeros facing inf/NaN, vector lengths that are multiples of the contracted dimension
import math as _m

MOD_SPECIALS = [0.0, -0.0, 1.0, -1.0, 0.5, 2.0, 3.0, 1.5, -2.5, 1.0 / 3.0, 2.0 / 3.0, 4.0, 1024.0, 2.0 ** -20,
                _m.nextafter(1.0, 2.0), _m.nextafter(1.0, 0.0), _m.nextafter(2.0, 3.0), _m.nextafter(0.5, 0.0),
                2.0 ** -52, 2.0 ** -53, 2.0 ** -60, 2.0 ** 60, 1e-16, 1e16]
NONFINITE = [float("inf"), -float("inf"), float("nan")]
EDGE_DIMS = [1, 2, 3, 7, 8, 9, 15, 16, 17, 31, 32, 33, 63, 64, 65]
# m, l, n with m*l*n just below / at / above 32768 (and the 63/64/65 cube corners)
VOLUMES = [(32, 32, 32), (32, 32, 33), (31, 32, 33), (33, 32, 31), (64, 64, 8), (8, 64, 64), (64, 8, 64), (64, 8, 65),
           (63, 8, 65), (128, 16, 16), (16, 16, 128), (16, 128, 16), (129, 16, 16), (127, 16, 16), (1, 32768, 1),
           (1, 32769, 1), (2, 16384, 1), (1, 16384, 2), (181, 181, 1), (182, 1, 181), (1, 181, 182), (32768, 1, 1),
           (1, 1, 32769), (63, 64, 65), (65, 64, 63), (64, 64, 64), (65, 65, 65), (63, 63, 63), (64, 65, 1), (1, 65, 64)]


def realsp(rng, n):
    """random reals with moderate exact special values mixed in"""
    out = reals(rng, n)
    for k in range(n):
        if rng.chance(0.2):
            out[k] = rng.choice(MOD_SPECIALS)
    return out


def zinf(rng, n):
    """zeros, moderate values and inf / nan side by side (0 * inf = nan must propagate)"""
    return [rng.choice([0.0, -0.0, 0.0, 1.0, -2.0, 0.5]) if rng.chance(0.5) else
            (rng.choice(NONFINITE) if rng.chance(0.35) else float(rng.randint(-3, 3))) for _ in range(n)]


def scale(xs, p):
    return [_m.ldexp(x, p) for x in xs]


def strata(rng, tier, lines, cover):
    quick = tier != "thorough"
    flags = [(0, 0), (1, 0), (0, 1), (1, 1)]
    for k_ in ("s_special", "s_edge_dims", "s_volume", "s_scale_exact", "s_scale_equiv", "s_zero_inf", "s_vec_multiple",
               "s_dot_8k", "s_block_edges", "s_extreme"):
        cover[k_] = 0
    rep = 1 if quick else 6

    def mm_with_blocks(ta, tb, ra, rb, a, b, m, l, n, nb):
        lines.append(L_mm(ta, tb, ra, rb, a, b))
        cands = [1, 2, 7, 8, 9, 16, 31, 32, 33, 63, 64, 65, l, n, m, l + 1, n + 1, max(1, l - 1), max(1, n - 1),
                 2 * max(m, l, n), 1 << 20, 1 << 40]
        for bs in sorted({rng.choice(cands) for _ in range(nb)}):
            lines.append(L_mb(ta, tb, ra, rb, bs, a, b))
            cover["s_block_edges"] += 1

    # 1. exact special values mixed into real data (mm/mb, xtx, every Dot kind)
    for q in range(60 * rep):
        m, l, n = (rng.choice(EDGE_DIMS[:9]) for _ in range(3))
        ta, tb = flags[q % 4]
        ra, ca, rb, cb = stored(m, l, n, ta, tb)
        mm_with_blocks(ta, tb, ra, rb, realsp(rng, ra * ca), realsp(rng, rb * cb), m, l, n, 2)
        meth, own = METHS[q % 4], (q // 4) % 4
        r1, c1, r2, c2 = stored(m, l, n, meth in ("t_dot", "t_dot_t"), meth in ("dot_t", "t_dot_t"))
        lines.append(L_d("dmm", meth, own, (r1, c1, r2, c2), realsp(rng, r1 * c1), realsp(rng, r2 * c2)))
        nv = r1 if meth in ("t_dot", "t_dot_t") else c1
        lines.append(L_d("dmv", meth, own, (r1, c1, nv), realsp(rng, r1 * c1), realsp(rng, nv)))
        nv = c2 if meth in ("dot_t", "t_dot_t") else r2
        lines.append(L_d("dvm", meth, own, (nv, r2, c2), realsp(rng, nv), realsp(rng, r2 * c2)))
        nv = rng.randint(1, 40)
        lines.append(L_d("dvv", meth, own, (nv, nv), realsp(rng, nv), realsp(rng, nv)))
        lines.append(L_xtx(m, realsp(rng, m * l)))
        cover["s_special"] += 7
    # 2. dimension boundaries 2^k-1, 2^k, 2^k+1 up to 65, non-square both orientations, a dimension of 1
    for q in range(48 * rep):
        m, l, n = (rng.choice(EDGE_DIMS) for _ in range(3))
        if q % 6 == 0:
            m = 1
        elif q % 6 == 1:
            n = 1
        elif q % 6 == 2:
            l = 1
        ta, tb = flags[q % 4]
        ra, ca, rb, cb = stored(m, l, n, ta, tb)
        val = ints if q % 2 else realsp
        mm_with_blocks(ta, tb, ra, rb, val(rng, ra * ca), val(rng, rb * cb), m, l, n, 3)
        meth, own = METHS[(q // 4) % 4], q % 4
        r1, c1, r2, c2 = stored(m, l, n, meth in ("t_dot", "t_dot_t"), meth in ("dot_t", "t_dot_t"))
        lines.append(L_d("dmm", meth, own, (r1, c1, r2, c2), val(rng, r1 * c1), val(rng, r2 * c2)))
        cover["s_edge_dims"] += 2
    # 3. m*l*n around 32768 and the 63/64/65 corners: slice kernels and the trait, all flags
    vols = VOLUMES if not quick else [VOLUMES[(7 * k + rng.randint(0, 2)) % len(VOLUMES)] for k in range(14)] + \
        [(63, 64, 65), (64, 64, 64), (65, 65, 65), (32, 32, 32), (32, 32, 33), (31, 32, 33)]
    for q, (m, l, n) in enumerate(vols):
        for fi in (range(4) if not quick else [q % 4, (q + 1 + q // 4) % 4]):
            ta, tb = flags[fi]
            ra, ca, rb, cb = stored(m, l, n, ta, tb)
            val = ints if (q + fi) % 2 else reals
            a, b = val(rng, ra * ca), val(rng, rb * cb)
            mm_with_blocks(ta, tb, ra, rb, a, b, m, l, n, 2)
            meth = METHS[fi]
            lines.append(L_d("dmm", meth, (q + fi) % 4, (ra, ca, rb, cb), a, b))
            cover["s_volume"] += 2
        if n == 1:   # the same product through Matrix . Vector and (m == 1) Vector . Matrix
            a, b = ints(rng, m * l), ints(rng, l)
            lines.append(L_d("dmv", "dot", q % 4, (m, l, l), a, b))
            lines.append(L_d("dmv", "t_dot", q % 4, (l, m, l), a, b))
            cover["s_volume"] += 2
        if m == 1:
            a, b = ints(rng, l), ints(rng, l * n)
            lines.append(L_d("dvm", "dot", q % 4, (l, l, n), a, b))
            lines.append(L_d("dvm", "dot_t", q % 4, (l, n, l), a, b))
            cover["s_volume"] += 2
    # 4. extreme exact power-of-two scales: integers * 2^p (every intermediate exact -> equality with the
    #    exactly scaled integer product), and real data against its scaled copy (bit-exact equivariance)
    for q in range(40 * rep):
        m, l, n = (rng.choice(EDGE_DIMS[:8]) for _ in range(3))
        ta, tb = flags[q % 4]
        ra, ca, rb, cb = stored(m, l, n, ta, tb)
        p, r = rng.choice([(-60, 60), (60, -60), (-500, 500), (500, -500), (-60, 0), (0, -60), (-300, -300), (400, 400),
                           (-53, 0), (0, -1000), (-1000, 900), (-537, -537), (300, 600)])
        a0, b0 = ints(rng, ra * ca), ints(rng, rb * cb)
        a, b = scale(a0, p), scale(b0, r)
        mm_with_blocks(ta, tb, ra, rb, a, b, m, l, n, 1)
        meth, own = METHS[q % 4], (q // 4) % 4
        lines.append(L_d("dmm", meth, own, (ra, ca, rb, cb), a, b))
        nv = ra if ta else ca
        v0 = ints(rng, nv)
        lines.append(L_d("dmv", meth, own, (ra, ca, nv), a, scale(v0, r)))
        nv = cb if tb else rb
        v0 = ints(rng, nv)
        lines.append(L_d("dvm", meth, own, (nv, rb, cb), scale(v0, p), b))
        nv = rng.choice([1, 7, 8, 9, 16, 17, 40])
        lines.append(L_d("dvv", meth, own, (nv, nv), scale(ints(rng, nv), p), scale(ints(rng, nv), r)))
        lines.append(L_xtx(ra, scale(a0, p // 2)))
        # one large entry next to tiny ones: terms far below eps * max must still be accumulated exactly
        a1 = [_m.ldexp(x, -60) for x in a0]
        a1[rng.randint(0, len(a1) - 1)] = 1.0
        lines.append(L_mm(ta, tb, ra, rb, a1, scale(b0, 0)))
        cover["s_scale_exact"] += 7
    for q in range(24 * rep):
        m, l, n = (rng.choice(EDGE_DIMS[:11]) for _ in range(3))
        ta, tb = flags[q % 4]
        ra, ca, rb, cb = stored(m, l, n, ta, tb)
        a0, b0 = reals(rng, ra * ca), reals(rng, rb * cb)
        lines.append(L_mm(ta, tb, ra, rb, a0, b0))
        for (p, r) in ((-500, 0), (0, 500), (-60, 60), (250, 250), (-250, -250)):
            lines.append(L_mm(ta, tb, ra, rb, scale(a0, p), scale(b0, r)))
        nv = rng.choice([5, 8, 9, 64, 65, 1000])
        x0, y0 = reals(rng, nv), reals(rng, nv)
        meth, own = METHS[q % 4], (q // 4) % 4
        lines.append(L_d("dvv", meth, own, (nv, nv), x0, y0))
        for (p, r) in ((-500, 0), (-60, 60), (250, 250)):
            lines.append(L_d("dvv", meth, own, (nv, nv), scale(x0, p), scale(y0, r)))
        lines.append(L_d("dmv", meth, own, (ra, ca, ra if ta else ca), a0, x0[:1] * (ra if ta else ca)))
        cover["s_scale_equiv"] += 11
    # 5. zeros facing inf / nan (0 * inf = nan must reach the result), tiny / huge magnitudes (tie)
    for q in range(60 * rep):
        m, l, n = (rng.choice(EDGE_DIMS[:6]) for _ in range(3))
        ta, tb = flags[q % 4]
        ra, ca, rb, cb = stored(m, l, n, ta, tb)
        a, b = zinf(rng, ra * ca), zinf(rng, rb * cb)
        if q % 3 == 0:   # an all-zero operand against inf / nan
            a = [0.0 if k % 2 else -0.0 for k in range(ra * ca)]
        mm_with_blocks(ta, tb, ra, rb, a, b, m, l, n, 1)
        meth, own = METHS[q % 4], (q // 4) % 4
        lines.append(L_d("dmm", meth, own, (ra, ca, rb, cb), a, b))
        nv = ra if ta else ca
        lines.append(L_d("dmv", meth, own, (ra, ca, nv), a, zinf(rng, nv)))
        nv = cb if tb else rb
        lines.append(L_d("dvm", meth, own, (nv, rb, cb), zinf(rng, nv), b))
        nv = rng.choice([1, 3, 8, 9, 17])
        lines.append(L_d("dvv", meth, own, (nv, nv), zinf(rng, nv), zinf(rng, nv)))
        lines.append(L_xtx(ra, a if q % 3 else b[:ra * ca] + a[len(b):]))
        cover["s_zero_inf"] += 6
    for q in range(20 * rep):
        m, l, n = (rng.randint(1, 6) for _ in range(3))
        ta, tb = flags[q % 4]
        ra, ca, rb, cb = stored(m, l, n, ta, tb)
        ext = lambda k: [rng.choice([1e300, -1e300, 1e-300, 5e-324, 2.0 ** -1022, 1.7976931348623157e308, 1e-310, 0.0, 1.0])
                         if rng.chance(0.5) else rng.normal() for _ in range(k)]
        mm_with_blocks(ta, tb, ra, rb, ext(ra * ca), ext(rb * cb), m, l, n, 1)
        nv = rng.randint(1, 20)
        lines.append(L_d("dvv", METHS[q % 4], q % 4, (nv, nv), ext(nv), ext(nv)))
        cover["s_extreme"] += 2
    # 6. vector / operand lengths that are a multiple (or a divisor) of the contracted dimension must panic
    for q in range(40 * rep):
        meth, own = METHS[q % 4], (q // 4) % 4
        r, c = rng.randint(1, 6), rng.randint(1, 6)
        con = r if meth in ("t_dot", "t_dot_t") else c          # Matrix . Vector contracts this dimension
        for nv in sorted({2 * con, 3 * con, r * c, con * con, con + con * rng.randint(1, 4), max(1, con // 2), 0} - {con}):
            lines.append(L_d("dmv", meth, own, (r, c, nv), ints(rng, r * c), ints(rng, nv)))
            cover["s_vec_multiple"] += 1
        con = c if meth in ("dot_t", "t_dot_t") else r          # Vector . Matrix
        for nv in sorted({2 * con, 3 * con, r * c, con * con, max(1, con // 2), 0} - {con}):
            lines.append(L_d("dvm", meth, own, (nv, r, c), ints(rng, nv), ints(rng, r * c)))
            cover["s_vec_multiple"] += 1
        # Matrix . Matrix / slice kernels: inner dimensions in ratio 1:2, same element counts
        k = rng.randint(1, 4)
        ta, tb = (meth in ("t_dot", "t_dot_t")), (meth in ("dot_t", "t_dot_t"))
        m, n = rng.randint(1, 5), rng.randint(1, 5)
        ra, ca = (k, m) if ta else (m, k)
        rb, cb = (n, 2 * k) if tb else (2 * k, n)
        a, b = ints(rng, ra * ca), ints(rng, rb * cb)
        lines.append(L_d("dmm", meth, own, (ra, ca, rb, cb), a, b))
        lines.append(L_mm(ta, tb, ra, rb, a, b))
        lines.append(L_mb(ta, tb, ra, rb, rng.randint(1, 4), a, b))
        ra2, ca2 = (2 * k, m) if ta else (m, 2 * k)
        rb2, cb2 = (n, k) if tb else (k, n)
        a, b = ints(rng, ra2 * ca2), ints(rng, rb2 * cb2)
        lines.append(L_d("dmm", meth, own, (ra2, ca2, rb2, cb2), a, b))
        lines.append(L_mm(ta, tb, ra2, rb2, a, b))
        lines.append(L_mb(ta, tb, ra2, rb2, rng.randint(1, 4), a, b))
        n1 = rng.randint(1, 16)
        lines.append(L_d("dvv", meth, own, (n1, 2 * n1), ints(rng, n1), ints(rng, 2 * n1)))
        lines.append(L_d("dvv", meth, own, (8 * n1, 8 * n1 + 8), ints(rng, 8 * n1), ints(rng, 8 * n1 + 8)))
        cover["s_vec_multiple"] += 8
    # 7. inner products of lengths 8k-1, 8k, 8k+1 up to 4097
    ks = [1, 2, 3, 4, 5, 8, 15, 16, 17, 32, 63, 64, 65, 128, 256, 511, 512] if quick else list(range(1, 66)) + [127, 128, 129, 255, 256, 257, 511, 512]
    q = 0
    for k in ks:
        for nv in (8 * k - 1, 8 * k, 8 * k + 1):
            for val in (ints, realsp):
                meth, own = METHS[q % 4], (q // 4) % 4
                q += 1
                lines.append(L_d("dvv", meth, own, (nv, nv), val(rng, nv), val(rng, nv)))
                cover["s_dot_8k"] += 1
    for nv in (4095, 4096, 4097):
        lines.append(L_d("dmv", "dot", nv % 4, (2, nv, nv), ints(rng, 2 * nv), ints(rng, nv)))
        lines.append(L_d("dvm", "dot", nv % 4, (nv, nv, 2), ints(rng, nv), ints(rng, 2 * nv)))
        cover["s_dot_8k"] += 2


# ------------------------------------------------------------------------------------------------
# ALIASING / OBJECT-IDENTITY stratum: `ses cmd | cmd | ...` lines (one self-contained session per line, see Drv/C05.lean).
# The executor keeps buffers / Matrix / Vector objects in slots, so the SAME object can be both operands, two views of one
# buffer can overlap, an operand can be mutated in place between two identical calls, and a slot can be re-filled right after
# its previous contents were dropped (same size -> the allocator hands back the same address).  The model sees values only.
# ------------------------------------------------------------------------------------------------
# MASSIVE CANCELLATION: inner products whose value is far below the size of their terms (a fallback / re-summation route
# that is only taken when |sum| <= n*eps*sum|x_k y_k| is otherwise never entered: integers, independent reals never do)
def gs_pair(rng, n):
    """u, v random; w = v - ((v.u)/(u.u)) u in f64: w.u is a rounding residue (~1e-17) of terms of size O(1)"""
    u = [rng.normal() for _ in range(n)]
    v = [rng.normal() for _ in range(n)]
    vu = 0.0
    uu = 0.0
    for a, b in zip(v, u):
        vu += a * b
        uu += b * b
    c = vu / uu if uu else 0.0
    return u, [a - c * b for a, b in zip(v, u)]


def tiny_pair(rng, n, e, slot=None, varied=False):
    """products +-1 (or +-2^k when `varied`) that cancel exactly, except one product 2^e placed in the last n % 8 slots
    (anywhere when n % 8 == 0): the exact value of x.y is 2^e"""
    rem = n % 8
    pos = slot if slot is not None else (n - 1 - rng.randint(0, rem - 1) if rem else rng.randint(0, n - 1))
    x, y = [0.0] * n, [0.0] * n
    others = [k for k in range(n) if k != pos]
    if len(others) % 2:
        others = others[:-1]          # one slot keeps the product 0 * 0
    sign = 1.0
    for k in others:
        sc = 2.0 ** rng.randint(-8, 8) if varied else 1.0
        x[k], y[k] = sign * sc, 1.0 / sc
        sign = -sign
    h = e // 2
    x[pos], y[pos] = 2.0 ** h, 2.0 ** (e - h)
    return x, y


def pm_orthogonal(rng, n):
    """two +-1 vectors (n even) with inner product exactly 0"""
    x = [float(rng.choice([-1, 1])) for _ in range(n)]
    idx = list(range(n))
    rng.shuffle(idx)
    flip = set(idx[:n // 2])
    return x, [(-a if k in flip else a) for k, a in enumerate(x)]


def cancel_stratum(rng, tier, lines, cover):
    quick = tier != "thorough"
    for k_ in ("cancel_gs", "cancel_tiny_exact", "cancel_tiny_tie", "cancel_zero", "cancel_matrix"):
        cover[k_] = 0
    q = 0

    def mo():
        nonlocal q
        q += 1
        return METHS[q % 4], (q // 4) % 4

    lens = list(range(2, 65)) + [100, 127, 129, 200, 255, 257, 300] + [rng.randint(65, 300) for _ in range(4 if quick else 40)]
    # (a) Gram-Schmidt pairs, both operand orders, every method name / ownership form in rotation (thorough: all 16)
    for n in lens:
        for rep in range(1 if quick else 4):
            u, w = gs_pair(rng, n)
            forms = [mo(), mo()] if quick else [(m_, o_) for m_ in METHS for o_ in range(4)]
            for k, (meth, own) in enumerate(forms):
                a, b = (w, u) if k % 2 == 0 else (u, w)
                lines.append(L_d("dvv", meth, own, (n, n), a, b))
                cover["cancel_gs"] += 1
            if n <= 40 or not quick:
                # the same pair as a 1 x n times n x 1 product through every other entry point
                meth, own = mo()
                lines.append(L_mm(0, 0, 1, n, w, u))
                lines.append(L_mb(0, 0, 1, n, 1 + n % 7, w, u))
                lines.append(L_d("dmv", ("dot", "dot_t")[n % 2], own, (1, n, n), w, u))
                lines.append(L_d("dvm", ("dot", "t_dot")[n % 2], own, (n, n, 1), w, u))
                # X = [u w] (n x 2): X^T X has the residue off the diagonal
                X = [v_ for pair in zip(u, w) for v_ in pair]
                lines.append(L_xtx(n, X))
                lines.append(L_d("dmm", "t_dot", own, (n, 2, n, 2), X, X))
                lines.append("ses M 0 %d 2 %s | dmm t_dot %d 0 0 | V 1 %d %s | V 2 %d %s | dvv %s %d 1 2 | dvv %s %d 2 1" % (
                    n, hs(X), (1, 3)[n % 2], n, hs(u), n, hs(w), meth, (1, 3)[n % 2], meth, (3, 1)[n % 2]))
                cover["cancel_matrix"] += 7
    # (b) exact cancellation down to one tiny product sitting in the remainder loop
    for n in [k for k in lens if k >= 3]:
        e = -48 if n < 32 else -44
        for slot_rep in range(1 if quick else 3):
            x, y = tiny_pair(rng, n, e)
            meth, own = mo()
            lines.append(L_d("dvv", meth, own, (n, n), x, y))
            lines.append(L_d("dvv", meth, (own + 1) % 4, (n, n), y, x))
            cover["cancel_tiny_exact"] += 2
            x, y = tiny_pair(rng, n, -60, varied=True)
            meth, own = mo()
            lines.append(L_d("dvv", meth, own, (n, n), x, y))
            x, y = tiny_pair(rng, n, rng.choice([-60, -75, -100]))
            lines.append(L_d("dvv", meth, (own + 2) % 4, (n, n), x, y))
            cover["cancel_tiny_tie"] += 2
            if n <= 24:
                x, y = tiny_pair(rng, n, e)
                lines.append(L_mm(0, 0, 1, n, x, y))
                lines.append(L_d("dmv", "dot", own, (1, n, n), x, y))
                cover["cancel_matrix"] += 2
    # (c) exactly zero inner products of non-zero vectors
    for n in [2, 4, 6, 10, 12, 14, 18, 20, 22, 26, 28, 30, 36, 44, 52, 60, 100, 204]:
        for rep in range(1 if quick else 4):
            x, y = pm_orthogonal(rng, n)
            meth, own = mo()
            lines.append(L_d("dvv", meth, own, (n, n), x, y))
            k1, k2 = float(rng.randint(1, 9)), float(rng.randint(1, 9))
            a = [k1, k2] * (n // 2)
            b = [-k2, k1] * (n // 2)
            lines.append(L_d("dvv", meth, (own + 1) % 4, (n, n), a, b))
            cover["cancel_zero"] += 2
            if n <= 28:
                lines.append(L_mm(0, 1, 2, 2, x + y, a + b))      # 2 x n times (2 x n)^T
                cover["cancel_matrix"] += 1


# ------------------------------------------------------------------------------------------------
# STRUCTURED OPERANDS: exactly triangular / diagonal / banded / symmetric / zero-row operands (a structure-detecting fast
# path is never entered by dense random data), all flag pairs (the structure of op(A) differs from that of the raw A)
STRUCT_KINDS = ["lower", "upper", "diag", "rectdiag", "banded", "sym", "zero_row", "zero_col"]


def nzints(rng, n):
    return [float(rng.choice([-1, 1]) * rng.randint(1, 9)) for _ in range(n)]


def struct_mat(rng, kind, r, c):
    d = nzints(rng, r * c)
    zr, zc = rng.randint(0, r - 1), rng.randint(0, c - 1)
    for i in range(r):
        for j in range(c):
            keep = {"lower": j <= i, "upper": j >= i, "diag": i == j, "rectdiag": i == j, "banded": abs(i - j) <= 1,
                    "sym": True, "zero_row": i != zr, "zero_col": j != zc}[kind]
            if not keep:
                d[i * c + j] = 0.0
            elif kind == "rectdiag":
                d[i * c + j] = 1.0
            elif kind == "sym" and j < i and i < c and j < r:
                d[i * c + j] = d[j * c + i]
    return d


def struct_stratum(rng, tier, lines, cover):
    quick = tier != "thorough"
    for k_ in ("struct_left", "struct_right", "struct_both", "struct_vec"):
        cover[k_] = 0
    sizes = [2, 9, 16, 17, 33] if quick else [2, 9, 15, 16, 17, 24, 32, 33, 40]
    q = 0
    for n in sizes:
        for kind in STRUCT_KINDS:
            # stored shape of the structured operand: square, except the rectangular "diagonal" [I 0] / [I;0]
            shapes = [(n, n)] if kind != "rectdiag" else [(n, n + 3), (n + 3, n)]
            for (sr, sc) in shapes:
                for fi, (ta, tb) in enumerate(FLAGS4):
                    q += 1
                    p = 3 if n > 2 else 2
                    meth = METHS[fi]      # METHS order = (F,F), (T,F), (F,T), (T,T)
                    # structured LEFT operand S (stored sr x sc), dense right operand
                    S = struct_mat(rng, kind, sr, sc)
                    l = sr if ta else sc
                    rb, cb = (p, l) if tb else (l, p)
                    B = nzints(rng, rb * cb)
                    lines.append(L_mm(ta, tb, sr, rb, S, B))
                    lines.append(L_mb(ta, tb, sr, rb, rng.choice([1, 4, 8, 16, n, n + 1]), S, B))
                    lines.append(L_d("dmm", meth, q % 4, (sr, sc, rb, cb), S, B))
                    cover["struct_left"] += 3
                    # structured RIGHT operand, dense left
                    l = sc if tb else sr
                    ra, ca = (l, p) if ta else (p, l)
                    A = nzints(rng, ra * ca)
                    S = struct_mat(rng, kind, sr, sc)
                    lines.append(L_mm(ta, tb, ra, sr, A, S))
                    lines.append(L_mb(ta, tb, ra, sr, rng.choice([1, 4, 8, 16, n, n + 1]), A, S))
                    lines.append(L_d("dmm", meth, (q + 1) % 4, (ra, ca, sr, sc), A, S))
                    cover["struct_right"] += 3
                    # Matrix . Vector and Vector . Matrix with the structured matrix
                    S = struct_mat(rng, kind, sr, sc)
                    nv = sr if ta else sc
                    lines.append(L_d("dmv", meth, (q + 2) % 4, (sr, sc, nv), S, nzints(rng, nv)))
                    nv = sc if tb else sr
                    lines.append(L_d("dvm", meth, (q + 3) % 4, (nv, sr, sc), nzints(rng, nv), S))
                    cover["struct_vec"] += 2
                    # both operands structured (square kinds), and xtx of the structured matrix
                    if sr == sc and (fi == (n + len(kind)) % 4 or not quick):
                        S2 = struct_mat(rng, STRUCT_KINDS[(q + fi) % len(STRUCT_KINDS)] if kind != "rectdiag" else "lower", n, n)
                        lines.append(L_mm(ta, tb, n, n, S, S2))
                        lines.append(L_d("dmm", meth, q % 4, (n, n, n, n), S2, S))
                        cover["struct_both"] += 2
                lines.append(L_xtx(sr, struct_mat(rng, kind, sr, sc)))


def zero_dim_stratum(rng, tier, lines, cover):
    """Every entry point with a zero somewhere in the shapes (zero rows: is_matrix divides by the row count and panics,
    conformable or not; zero columns with positive row counts: empty / all-zero results), decided by the oracle."""
    for k_ in ("zero_rows_conformable", "zero_cols_only", "zero_nonconformable"):
        cover[k_] = 0
    D = range(0, 4)
    q = 0
    for mi, meth in enumerate(METHS):
        ta, tb = (meth in ("t_dot", "t_dot_t")), (meth in ("dot_t", "t_dot_t"))
        for r1 in D:
            for c1 in D:
                for r2 in D:
                    for c2 in D:
                        if 0 not in (r1, c1, r2, c2):
                            continue
                        q += 1
                        own = q % 4
                        l, l2 = (r1 if ta else c1), (c2 if tb else r2)
                        cover["zero_nonconformable" if l != l2 else ("zero_rows_conformable" if 0 in (r1, r2) else "zero_cols_only")] += 1
                        a, b = ints(rng, r1 * c1), ints(rng, r2 * c2)
                        lines.append(L_d("dmm", meth, own, (r1, c1, r2, c2), a, b))
                        if r1 * c1 == 0 and r2 * c2 == 0 and q % 3 and tier == "quick":
                            continue
                        # the same operands through the slice kernels (a 0-row operand has an empty slice)
                        lines.append(L_mm(int(ta), int(tb), r1, r2, a, b))
                        lines.append(L_mb(int(ta), int(tb), r1, r2, 1 + q % 3, a, b))
        for r in D:
            for c in D:
                for n in D:
                    if 0 not in (r, c, n):
                        continue
                    q += 1
                    lines.append(L_d("dmv", meth, q % 4, (r, c, n), ints(rng, r * c), ints(rng, n)))
                    lines.append(L_d("dvm", meth, (q + 1) % 4, (n, r, c), ints(rng, n), ints(rng, r * c)))
                    con = r if ta else c
                    cover["zero_nonconformable" if con != n else ("zero_rows_conformable" if 0 in (r, n) else "zero_cols_only")] += 1
                    con = c if tb else r
                    cover["zero_nonconformable" if con != n else ("zero_rows_conformable" if r == 0 else "zero_cols_only")] += 1
    for k in D:
        for ln in (0, 3, 6):
            if k and ln % k:
                continue
            x = ints(rng, ln)
            if k == 0 or ln == 0:
                lines.append(L_xtx(k, x))
                lines.append(L_tr(k, x))
                cover["zero_rows_conformable" if k == 0 else "zero_cols_only"] += 2
    # zero-dimensional objects in sessions (same object on both sides)
    for (r, c) in ((0, 0), (0, 3), (3, 0), (1, 0), (0, 1)):
        S = Ses()
        S.M(0, r, c, [])
        S.V(1, [])
        for meth in METHS:
            S.add("dmm %s 1 0 0", meth)
            S.add("dmv %s 3 0 1", meth)
            S.add("dvm %s 1 1 0", meth)
            S.add("dmd %s 1 0", meth)
            S.add("ddm %s 3 0", meth)
        S.add("dvv dot 1 1 1")
        S.v(2, [])
        S.add("mm 1 0 %d %d 2 0 0 2 0 0", max(r, 1), max(r, 1))
        S.add("xtx %d 2 0 0", max(r, 1))
        lines.append(S.line())
        cover["zero_cols_only"] += 1


class Ses:
    def __init__(self):
        self.c = []

    def v(self, s, d):
        self.c.append("v %d %s" % (s, ("%d %s" % (len(d), hs(d))) if d else "0"))

    def M(self, s, r, c, d):
        self.c.append(("M %d %d %d %s" % (s, r, c, hs(d))).rstrip())

    def V(self, s, d):
        self.c.append("V %d %s" % (s, ("%d %s" % (len(d), hs(d))) if d else "0"))

    def p(self, kind, s, i, x):
        self.c.append("%s %d %d %s" % (kind, s, i, hx(x)))

    def add(self, fmt, *a):
        self.c.append(fmt % a)

    def line(self):
        return "ses " + " | ".join(self.c)


def sqmat(rng, n, kind):
    if kind == "sym":
        d = ints(rng, n * n)
        for i in range(n):
            for j in range(i):
                d[i * n + j] = d[j * n + i]
        return d
    if kind == "real":
        return reals(rng, n * n)
    d = ints(rng, n * n)
    if n >= 2 and all(d[i * n + j] == d[j * n + i] for i in range(n) for j in range(n)):
        d[1] = d[n] + 1.0
    return d


FLAGS4 = [(0, 0), (1, 0), (0, 1), (1, 1)]


def alias_stratum(rng, tier, lines, cover):
    quick = tier != "thorough"
    for k_ in ("alias_sessions", "alias_same_slice", "alias_same_object_dot", "alias_views", "alias_two_shapes",
               "alias_mutation", "alias_realloc", "alias_distinct_control"):
        cover[k_] = 0
    sizes = list(range(1, 10)) + [15, 16, 17, 33] + [rng.randint(10, 40) for _ in range(2 if quick else 8)]
    kinds = ["nonsym", "sym", "real"]
    for n in sizes:
        nn = n * n
        for kind in kinds:
            d = sqmat(rng, n, kind)
            # --- A. one slice as both operands: matmul / matmul_blocked with all four flag pairs, xtx
            S = Ses()
            S.v(0, d)
            S.v(1, d)          # identical values in a distinct buffer (control)
            for (ta, tb) in FLAGS4:
                S.add("mm %d %d %d %d 0 0 %d 0 0 %d", ta, tb, n, n, nn, nn)
                for bs in sorted({rng.choice([1, 2, n, n + 1, max(1, n - 1), 2 * n, 7, 8]) for _ in range(1 if quick else 3)}):
                    S.add("mb %d %d %d %d %d 0 0 %d 0 0 %d", ta, tb, n, n, bs, nn, nn)
                cover["alias_same_slice"] += 2
            S.add("mm 0 0 %d %d 0 0 %d 1 0 %d", n, n, nn, nn)
            S.add("mm 1 1 %d %d 1 0 %d 0 0 %d", n, n, nn, nn)
            cover["alias_distinct_control"] += 2
            S.add("xtx %d 0 0 %d", n, nn)
            S.add("tr %d 0 0 %d", n, nn)
            lines.append(S.line())
            # --- B. one Matrix / Vector object as both operands of every Dot method
            S = Ses()
            S.M(0, n, n, d)
            vd = (ints if kind != "real" else reals)(rng, n)
            S.V(1, vd)
            for mi, meth in enumerate(METHS):
                owns = [1, 3, 0, 2] if not quick else [(1, 3)[(n + mi) % 2], (3, 1)[(n + mi) % 2] if n <= 9 else 0]
                for own in owns:
                    S.add("dmm %s %d 0 0", meth, own)
                    cover["alias_same_object_dot"] += 1 if own in (1, 3) else 0
                S.add("dvv %s %d 1 1", meth, (1, 3)[mi % 2])
                S.add("dmv %s %d 0 1", meth, (mi + n) % 4)
                S.add("dvm %s %d 1 0", meth, (mi + n + 1) % 4)
                cover["alias_same_object_dot"] += 1
            S.M(2, 1, n, vd)
            S.M(3, n, 1, vd)
            for mi, meth in enumerate(METHS):
                S.add("dmd %s %d 2", meth, (1, 3)[mi % 2])
                S.add("dmd %s %d 3", meth, (3, 1)[mi % 2])
                S.add("ddm %s %d 2", meth, (1, 3)[mi % 2])
                S.add("ddm %s %d 3", meth, (3, 1)[mi % 2])
                cover["alias_same_object_dot"] += 4
            lines.append(S.line())
            cover["alias_sessions"] += 2
        # --- C. two views of one buffer: same length at a different offset (overlapping), prefix of the same start
        d = sqmat(rng, n, "nonsym") + ints(rng, nn + 3)
        S = Ses()
        S.v(0, d)
        for off in sorted({1, n, nn // 2, nn, nn + 3}):
            for (ta, tb) in (FLAGS4 if not quick else [FLAGS4[(n + off) % 4], FLAGS4[(n + off + 1) % 4]]):
                S.add("mm %d %d %d %d 0 0 %d 0 %d %d", ta, tb, n, n, nn, off, nn)
                S.add("mb %d %d %d %d %d 0 %d %d 0 0 %d", ta, tb, n, n, rng.choice([1, n, n + 1]), off, nn, nn)
                cover["alias_views"] += 2
        S.add("xtx %d 0 1 %d", n, nn)
        lines.append(S.line())
        cover["alias_sessions"] += 1
    # --- one buffer read with two shapes (r x c times c x r from the same slice), Gram products of a non-square slice,
    #     same start with different lengths
    for r in range(1, 7):
        for c in range(1, 7):
            if r == c and quick:
                continue
            d = ints(rng, r * c) if (r + c) % 3 else reals(rng, r * c)
            S = Ses()
            S.v(0, d)
            rc = r * c
            S.add("mm 0 0 %d %d 0 0 %d 0 0 %d", r, c, rc, rc)     # (r x c)(c x r)
            S.add("mm 1 1 %d %d 0 0 %d 0 0 %d", r, c, rc, rc)     # (r x c)^T (c x r)^T = c x r . r x c
            S.add("mm 1 0 %d %d 0 0 %d 0 0 %d", r, r, rc, rc)     # X^T X
            S.add("mm 0 1 %d %d 0 0 %d 0 0 %d", r, r, rc, rc)     # X X^T
            S.add("mm 0 0 %d %d 0 0 %d 0 0 %d", r, r, rc, rc)     # r x c . r x c: conformable only if r == c
            S.add("mb 0 0 %d %d %d 0 0 %d 0 0 %d", r, c, rng.randint(1, 4), rc, rc)
            S.add("mb 1 1 %d %d %d 0 0 %d 0 0 %d", r, c, rng.randint(1, 4), rc, rc)
            S.add("xtx %d 0 0 %d", r, rc)
            for k in range(1, r + 1):  # same start address, shorter second view: (r x c)(c x k) needs c*k elements
                if c * k < rc:
                    S.add("mm 0 0 %d %d 0 0 %d 0 0 %d", r, c, rc, c * k)
                    break
            lines.append(S.line())
            cover["alias_two_shapes"] += 1
            cover["alias_sessions"] += 1
    # --- D. an operand mutated in place between two identical calls (slice level and objects)
    for q in range(24 if quick else 120):
        m, l, n = (rng.randint(1, 7) for _ in range(3))
        ta, tb = FLAGS4[q % 4]
        ra, ca, rb, cb = stored(m, l, n, ta, tb)
        val = ints if q % 3 else reals
        a, b = val(rng, ra * ca), val(rng, rb * cb)
        S = Ses()
        S.v(0, a)
        S.v(1, b)
        call = "mm %d %d %d %d 0 0 %d 1 0 %d" % (ta, tb, ra, rb, len(a), len(b))
        callb = "mb %d %d %d %d %d 0 0 %d 1 0 %d" % (ta, tb, ra, rb, rng.randint(1, 5), len(a), len(b))
        S.add(call)
        S.p("p", 0, rng.randint(0, len(a) - 1), float(rng.randint(10, 99)))
        S.add(call)
        S.add(callb)
        S.p("p", 1, rng.randint(0, len(b) - 1), float(rng.randint(10, 99)))
        S.add(call)
        S.add(callb)
        S.add("xtx %d 0 0 %d", ra, len(a))
        S.add("tr %d 0 0 %d", ra, len(a))
        S.p("p", 0, rng.randint(0, len(a) - 1), float(rng.randint(100, 999)))
        S.add("xtx %d 0 0 %d", ra, len(a))
        S.add("tr %d 0 0 %d", ra, len(a))
        S.add(call)
        if ra * ra == len(a):   # the mutated slice as both operands
            S.add("mm %d %d %d %d 0 0 %d 0 0 %d", ta, ta, ra, ra, len(a), len(a))
            S.p("p", 0, rng.randint(0, len(a) - 1), -5.0)
            S.add("mm %d %d %d %d 0 0 %d 0 0 %d", ta, ta, ra, ra, len(a), len(a))
        lines.append(S.line())
        # objects
        meth, own = METHS[q % 4], (q // 4) % 4
        S = Ses()
        S.M(0, ra, ca, a)
        S.M(1, rb, cb, b)
        nv = ra if ta else ca
        v = val(rng, nv)
        S.V(2, v)
        nw = cb if tb else rb
        w = val(rng, nw)
        S.V(3, w)
        for call in ("dmm %s %d 0 1" % (meth, own), "dmv %s %d 0 2" % (meth, own), "dvm %s %d 3 1" % (meth, own),
                     "dvv %s %d 2 2" % (meth, (1, 3)[q % 2])):
            S.add(call)
        S.p("pM", 0, rng.randint(0, len(a) - 1), 77.0)
        S.p("pV", 2, rng.randint(0, nv - 1), -33.0)
        for call in ("dmm %s %d 0 1" % (meth, own), "dmv %s %d 0 2" % (meth, own), "dvv %s %d 2 2" % (meth, (1, 3)[q % 2])):
            S.add(call)
        S.p("pM", 1, rng.randint(0, len(b) - 1), 55.0)
        S.p("pV", 3, rng.randint(0, nw - 1), 11.0)
        for call in ("dmm %s %d 0 1" % (meth, own), "dvm %s %d 3 1" % (meth, own)):
            S.add(call)
        lines.append(S.line())
        cover["alias_mutation"] += 2
        cover["alias_sessions"] += 2
    # --- E. a slot re-filled right after its contents were dropped (same size: the address is reused), also with a
    #     different shape of the same length
    for q in range(24 if quick else 120):
        m, l, n = (rng.randint(1, 7) for _ in range(3))
        ta, tb = FLAGS4[q % 4]
        ra, ca, rb, cb = stored(m, l, n, ta, tb)
        val = ints if q % 3 else reals
        S = Ses()
        S.v(0, val(rng, ra * ca))
        S.v(1, val(rng, rb * cb))
        call = "mm %d %d %d %d 0 0 %d 1 0 %d" % (ta, tb, ra, rb, ra * ca, rb * cb)
        S.add(call)
        S.v(0, val(rng, ra * ca))
        S.add(call)
        S.add("xtx %d 0 0 %d", ra, ra * ca)
        S.add("d 0")
        S.v(0, val(rng, ra * ca))
        S.add(call)
        S.add("xtx %d 0 0 %d", ra, ra * ca)
        S.v(1, val(rng, rb * cb))
        S.add(call)
        S.add("mb %d %d %d %d %d 0 0 %d 1 0 %d", ta, tb, ra, rb, rng.randint(1, 5), ra * ca, rb * cb)
        # same length, transposed shape: A^T A with rows = ra, then a new buffer read with rows = ca
        S.v(0, val(rng, ra * ca))
        S.add("mm 1 0 %d %d 0 0 %d 0 0 %d", ra, ra, ra * ca, ra * ca)
        S.v(0, val(rng, ra * ca))
        S.add("mm 1 0 %d %d 0 0 %d 0 0 %d", ca, ca, ra * ca, ra * ca)
        S.add("xtx %d 0 0 %d", ca, ra * ca)
        S.add("tr %d 0 0 %d", ca, ra * ca)
        lines.append(S.line())
        meth, own = METHS[q % 4], (q // 4) % 4
        S = Ses()
        S.M(0, ra, ca, val(rng, ra * ca))
        S.M(1, rb, cb, val(rng, rb * cb))
        S.add("dmm %s %d 0 1", meth, own)
        S.M(0, ra, ca, val(rng, ra * ca))
        S.add("dmm %s %d 0 1", meth, own)
        S.add("dM 0")
        S.M(0, ra, ca, val(rng, ra * ca))
        S.add("dmm %s %d 0 1", meth, own)
        S.M(1, rb, cb, val(rng, rb * cb))
        S.add("dmm %s %d 0 1", meth, own)
        S.M(0, ca, ra, val(rng, ra * ca))     # same size, other orientation: the method with the other left flag fits
        other = {"dot": "t_dot", "t_dot": "dot", "dot_t": "t_dot_t", "t_dot_t": "dot_t"}[meth]
        S.add("dmm %s %d 0 1", other, own)
        S.add("dmm %s %d 0 1", meth, own)
        nv = rng.randint(1, 12)
        S.V(2, val(rng, nv))
        S.add("dvv dot 1 2 2")
        S.V(2, val(rng, nv))
        S.add("dvv t_dot 3 2 2")
        lines.append(S.line())
        cover["alias_realloc"] += 2
        cover["alias_sessions"] += 2


def expand_session(line, reply):
    """-> list of (flat request line | None, flat reply, command text): the equivalent stateless requests with the data the
    slots hold at that moment; None for state commands (their reply must be `ok`)."""
    cmds = [c.split() for c in line[4:].split(" | ")]
    st, toks = parse_reply(reply)
    reps = [r.strip() for r in " ".join(toks).split("|")] if st == "ok" else [None] * len(cmds)
    if len(reps) != len(cmds):
        reps = [None] * len(cmds)
    bufs, mats, vecs = {}, {}, {}
    out = []
    for c, r in zip(cmds, reps):
        fr = None if r is None else ("! panic" if r.startswith("panic") else ("=" + r[2:] if r.startswith("ok") else "? " + r))
        op = c[0]
        flat = None
        F = lambda xs: [h2f(x) for x in xs]
        if op == "v":
            bufs[int(c[1])] = F(c[3:])
        elif op == "V":
            vecs[int(c[1])] = F(c[3:])
        elif op == "M":
            mats[int(c[1])] = [int(c[2]), int(c[3]), F(c[4:])]
        elif op == "p":
            bufs[int(c[1])][int(c[2])] = h2f(c[3])
        elif op == "pV":
            vecs[int(c[1])][int(c[2])] = h2f(c[3])
        elif op == "pM":
            mats[int(c[1])][2][int(c[2])] = h2f(c[3])
        elif op == "d":
            bufs.pop(int(c[1]), None)
        elif op == "dV":
            vecs.pop(int(c[1]), None)
        elif op == "dM":
            mats.pop(int(c[1]), None)
        elif op in ("mm", "mb"):
            k = 6 if op == "mb" else 5
            sa, oa, la, sb, ob, lb = map(int, c[k:k + 6])
            a, b = bufs[sa][oa:oa + la], bufs[sb][ob:ob + lb]
            if op == "mm":
                flat = L_mm(int(c[1]), int(c[2]), int(c[3]), int(c[4]), a, b)
            else:
                flat = L_mb(int(c[1]), int(c[2]), int(c[3]), int(c[4]), int(c[5]), a, b)
        elif op in ("xtx", "tr"):
            k_, s_, o_, l_ = map(int, c[1:5])
            x = bufs[s_][o_:o_ + l_]
            flat = L_xtx(k_, x) if op == "xtx" else L_tr(k_, x)
        elif op == "dmm":
            A, B = mats[int(c[3])], mats[int(c[4])]
            flat = L_d("dmm", c[1], int(c[2]), (A[0], A[1], B[0], B[1]), A[2], B[2])
        elif op == "dmv":
            A, v = mats[int(c[3])], vecs[int(c[4])]
            flat = L_d("dmv", c[1], int(c[2]), (A[0], A[1], len(v)), A[2], v)
        elif op == "dvm":
            v, B = vecs[int(c[3])], mats[int(c[4])]
            flat = L_d("dvm", c[1], int(c[2]), (len(v), B[0], B[1]), v, B[2])
        elif op == "dvv":
            x, y = vecs[int(c[3])], vecs[int(c[4])]
            flat = L_d("dvv", c[1], int(c[2]), (len(x), len(y)), x, y)
        elif op == "dmd":
            A = mats[int(c[3])]
            flat = L_d("dmv", c[1], int(c[2]), (A[0], A[1], len(A[2])), A[2], A[2])
        elif op == "ddm":
            A = mats[int(c[3])]
            flat = L_d("dvm", c[1], int(c[2]), (len(A[2]), A[0], A[1]), A[2], A[2])
        out.append((flat, fr, " ".join(c[:12])))
    return out


# ------------------------------------------------------------------------------------------------
# oracle: the definition, evaluated independently (naive loops, exact integer / dyadic arithmetic)
import math

U = Fraction(1, 2 ** 53)
STATS = {"max_err_over_bound": 0.0, "exact_cells": 0, "tolerance_cells": 0}


def dyadic(x):
    """finite float -> (integer mantissa, exponent) with x = mant * 2**exp"""
    mant, exp = math.frexp(x)
    return int(mant * (1 << 53)), exp - 53


def scaled(xs):
    """list of finite floats -> (list of ints, e) with x = int * 2**e, e as large as possible"""
    ds = [dyadic(x) for x in xs]
    e = min([d[1] for d in ds if d[0]] or [0])
    out = [d[0] << (d[1] - e) if d[0] else 0 for d in ds]
    tz = min([(v & -v).bit_length() - 1 for v in out if v] or [0])
    if tz:
        out = [v >> tz for v in out]
        e += tz
    return out, e


def rows_of(d, r, c, t):
    """op(M)[i][k] as a list of rows; M is r x c row-major, t = transpose"""
    if t:
        return [[d[k * c + i] for k in range(r)] for i in range(c)]
    return [[d[i * c + k] for k in range(c)] for i in range(r)]


INF = float("inf")


def cls(x):
    return "nan" if x != x else ("+inf" if x == INF else ("-inf" if x == -INF else "finite"))


def check_product(i, key, got, opA, opBt, m, l, n, what):
    """got: list of m*n float tokens; opA: m rows of length l; opBt: n columns of length l.
    (1) operands containing inf / nan: the IEEE class of every entry is decided by the products alone
        (any nan product, e.g. 0 * inf, or infinities of both signs -> nan; else the infinity present; else finite);
    (2) operands that are integers times one power of two per operand, small enough that every product and
        partial sum is exactly representable: equality with the exactly scaled integer triple loop;
    (3) otherwise the classical forward bound |fl(sum) - sum| <= gamma_l * sum|a||b| <= l * 2^-52 * sum|a||b|."""
    fa = [x for r in opA for x in r]
    fb = [x for r in opBt for x in r]
    flat = fa + fb
    if any(x != x or x in (INF, -INF) for x in flat):
        fin = [abs(x) for x in flat if x == x and abs(x) != INF and x != 0]
        if fin and (max(fin) > 2.0 ** 300 or min(fin) < 2.0 ** -300):
            return None  # overflow / underflow could change the class: tie only
        for a in range(m):
            for b in range(n):
                ps = [x * y for x, y in zip(opA[a], opBt[b])]
                if any(p_ != p_ for p_ in ps) or (INF in ps and -INF in ps):
                    want = "nan"
                elif INF in ps:
                    want = "+inf"
                elif -INF in ps:
                    want = "-inf"
                else:
                    want = "finite"
                g = h2f(got[a * n + b])
                if cls(g) != want:
                    return Failure(i, key, "%s: entry (%d,%d) is %r, the products %r require a %s value" % (
                        what, a, b, g, ps[:12], want))
        STATS["class_cells"] = STATS.get("class_cells", 0) + m * n
        return None
    ia, ea = scaled(fa)
    ib, eb = scaled(fb)
    e = ea + eb
    ma = max([abs(x) for x in ia] or [0])
    mb = max([abs(x) for x in ib] or [0])
    if max(l, 1) * ma * mb < 2 ** 53 and -1074 <= e <= 960:
        # every product and every partial sum (in any order) is an integer < 2^53 times 2^e: no rounding at all
        for a in range(m):
            ra = ia[a * l:(a + 1) * l]
            for b in range(n):
                cb = ib[b * l:(b + 1) * l]
                s = 0
                for k in range(l):
                    s += ra[k] * cb[k]
                ex = f2h(math.ldexp(float(s), e))
                if got[a * n + b] != ex:
                    return Failure(i, key, "%s: entry (%d,%d) is %s = %r, expected %s = %d * 2^%d (exact integer triple loop)" % (
                        what, a, b, got[a * n + b], h2f(got[a * n + b]), ex, s, e), ex)
        STATS["exact_cells"] += m * n
        return None
    mags = [abs(x) for x in flat if x != 0]
    if mags and (max(mags) > 2.0 ** 300 or min(mags) < 2.0 ** -300):
        return None  # products may overflow / underflow: the rounding-error bound does not apply (tie only)
    for a in range(m):
        ra = ia[a * l:(a + 1) * l]
        for b in range(n):
            cb = ib[b * l:(b + 1) * l]
            s = 0
            sa = 0
            for k in range(l):
                p = ra[k] * cb[k]
                s += p
                sa += abs(p)
            g = h2f(got[a * n + b])
            if g != g or g in (INF, -INF):
                return Failure(i, key, "%s: entry (%d,%d) is %r for finite moderate inputs" % (what, a, b, g))
            gm, ge = dyadic(g)
            # compare got = gm*2^ge with s*2^e, bound = l * 2^-52 * sa * 2^e
            lo = min(ge, e - 52)
            err = abs((gm << (ge - lo)) - (s << (e - lo)))
            bound = (l * sa) << (e - 52 - lo)
            if err > bound:
                return Failure(i, key, "%s: entry (%d,%d) is %r, exact value %r, error exceeds l*2^-52*sum|a||b|" % (
                    what, a, b, g, float(Fraction(s) * Fraction(2) ** e)))
            if bound:
                r = err / bound
                if r > STATS["max_err_over_bound"]:
                    STATS["max_err_over_bound"] = r
    STATS["tolerance_cells"] += m * n
    return None


def scale_exp(prev, cur):
    """p such that cur[k] == prev[k] * 2^p exactly for every k (None if there is no such p)"""
    if len(prev) != len(cur):
        return None
    p = None
    for x, y in zip(prev, cur):
        if x != x or y != y or abs(x) == INF or abs(y) == INF:
            return None
        if x == 0 or y == 0:
            if x != y:
                return None
            continue
        mx, ex = math.frexp(x)
        my, ey = math.frexp(y)
        if mx != my:
            return None
        if p is None:
            p = ey - ex
        elif p != ey - ex:
            return None
    return 0 if p is None else p


def check_equivariance(i, key, base, hdr, a, b, toks, nskip, two=False):
    """base = [hdr, a, b, reply tokens] of an earlier request with the same header.  When the operands of this request are
    those of `base` times exact powers of two (2^p, 2^q) and nothing leaves the normal range, the product must be the base
    result times 2^(p+q), bit for bit (scaling by a power of two commutes with every rounding)."""
    if base is None or base[0] != hdr or (base[1] == a and base[2] == b):
        return None, False
    p, q = scale_exp(base[1], a), scale_exp(base[2], b)
    if p is None or q is None or (p == 0 and q == 0):
        return None, False
    sh = 2 * p if two else p + q
    mags = [abs(x) for x in base[1] + base[2] if x != 0]
    if abs(sh) > 500 or (mags and (max(mags) > 2.0 ** 200 or min(mags) < 2.0 ** -200)):
        return None, True   # an intermediate could leave the normal range: no exact relation
    for k, (t0, t1) in enumerate(zip(base[3][nskip:], toks[nskip:])):
        g0 = h2f(t0)
        if g0 != g0 or abs(g0) == INF:
            return None, True
        w = math.ldexp(g0, sh)
        if w != 0 and not (2.0 ** -1000 <= abs(w) <= 2.0 ** 1000):
            return None, True
        if g0 != 0 and not (2.0 ** -1000 <= abs(g0) <= 2.0 ** 1000):
            return None, True
        if f2h(w) != t1:
            return Failure(i, key + ":scale", "entry %d is %r; the same request with the operands divided by 2^%d, 2^%d gave %r, so "
                           "%r is required (exact power-of-two equivariance)" % (k, h2f(t1), p, q, g0, w), f2h(w)), True
    STATS["equivariant_lines"] = STATS.get("equivariant_lines", 0) + 1
    return None, True


def zero_rows_outcome(i, key, st, vals, what):
    if st == "panic":
        STATS["zero_row_panics"] = STATS.get("zero_row_panics", 0) + 1
        return None
    if st == "ok" and all(h2f(x) == 0 for x in vals):
        return None
    return Failure(i, key, "%s: neither a panic nor an all-zero result (%s %s)" % (what, st, " ".join(vals[:6])))


def parse_mm(t, blocked):
    ta, tb, ra, rb = int(t[1]), int(t[2]), int(t[3]), int(t[4])
    k = 5
    bs = None
    if blocked:
        bs = int(t[5])
        k = 6
    la, lb = int(t[k]), int(t[k + 1])
    a = [h2f(x) for x in t[k + 2:k + 2 + la]]
    b = [h2f(x) for x in t[k + 2 + la:k + 2 + la + lb]]
    return ta, tb, ra, rb, bs, a, b


def flat_oracle(lines, impl):
    fails = []
    last_mm = None   # (request suffix, reply) of the most recent `mm` line, to compare blocked == plain
    bases = {}       # op -> [header, a, b, reply tokens]: most recent unscaled request (power-of-two equivariance)

    def equiv(op_, hdr, a_, b_, toks_, nskip, key_, two=False):
        f_, related = check_equivariance(i, key_, bases.get(op_), hdr, a_, b_, toks_, nskip, two)
        if not related:
            bases[op_] = [hdr, a_, b_, toks_]
        return f_
    for i, (line, rep) in enumerate(zip(lines, impl)):
        t = line.split()
        st, toks = parse_reply(rep)
        if st == "skip":
            continue
        op = t[0]
        f = None
        if op in ("mm", "mb"):
            ta, tb, ra, rb, bs, a, b = parse_mm(t, op == "mb")
            key = "%s:%d%d:%dx?:%dx?" % (op, ta, tb, ra, rb)
            if op == "mm":
                last_mm = None       # set below, once this reply has passed its own check
            if ra == 0 or rb == 0:
                # a slice with 0 rows has no determinate column count (`len / 0`): is_matrix panics (theorem
                # matmul_zero_rows).  Compatible with the definition: that panic, or a result made of zeros only.
                f = zero_rows_outcome(i, key, st, toks[1:], "%s with a 0-row operand" % op)
                if f is not None:
                    fails.append(f)
                continue
            if len(a) % ra or len(b) % rb:
                if st != "panic":
                    fails.append(Failure(i, key, "operand is not a matrix with the given row count, yet a value was returned"))
                continue
            ca, cb = len(a) // ra, len(b) // rb
            key = "%s:%d%d:%dx%d:%dx%d" % (op, ta, tb, ra, ca, rb, cb)
            m, l = (ca, ra) if ta else (ra, ca)
            l2, n = (cb, rb) if tb else (rb, cb)
            if l != l2:
                if st != "panic":
                    fails.append(Failure(i, key, "non-conformable %dx%d%s . %dx%d%s returned a value instead of a panic" % (
                        ra, ca, "^T" if ta else "", rb, cb, "^T" if tb else "")))
                continue
            if op == "mb" and bs == 0:
                continue  # block size 0 is outside the quantifier (bsize >= 1); tie only
            if st != "ok":
                fails.append(Failure(i, key, "conformable product %dx%d%s . %dx%d%s: %s instead of a value" % (
                    ra, ca, "^T" if ta else "", rb, cb, "^T" if tb else "", st)))
                continue
            if int(toks[0]) != m * n or len(toks) != 1 + m * n:
                fails.append(Failure(i, key, "result has %s entries, expected %d x %d" % (toks[0], m, n)))
                continue
            got = toks[1:]
            opA = rows_of(a, ra, ca, ta)
            opBt = rows_of(b, rb, cb, not tb)
            f = check_product(i, key, got, opA, opBt, m, l, n, "matmul%s" % ("_blocked(bsize=%d)" % bs if bs else ""))
            if f is None and op == "mm":
                last_mm = ((ta, tb, ra, rb, t[5:]), rep.strip())
                f = equiv("mm", (ta, tb, ra, rb, len(a), len(b)), a, b, toks, 1, key)
            if f is None and op == "mb" and last_mm and last_mm[0] == (ta, tb, ra, rb, t[6:]):
                if last_mm[1] != rep.strip():
                    f = Failure(i, key + ":bs%d" % bs, "matmul_blocked(bsize=%d) differs from matmul on the same operands" % bs, last_mm[1])
        elif op == "xtx":
            k, x = int(t[1]), [h2f(v) for v in t[3:]]
            key = "xtx:%d:%d" % (k, len(x))
            if k == 0:
                f = zero_rows_outcome(i, key, st, toks[1:], "xtx with 0 rows")
                if f is not None:
                    fails.append(f)
                continue
            if len(x) % k:
                if st != "panic":
                    fails.append(Failure(i, key, "xtx of a non-matrix returned a value"))
                continue
            p = len(x) // k
            if st != "ok":
                fails.append(Failure(i, key, "xtx of a %dx%d matrix: %s" % (k, p, st)))
                continue
            if int(toks[0]) != p * p or len(toks) != 1 + p * p:
                fails.append(Failure(i, key, "xtx result has %s entries, expected %d x %d" % (toks[0], p, p)))
                continue
            got = toks[1:]
            cols = rows_of(x, k, p, True)
            f = check_product(i, key, got, cols, cols, p, k, p, "xtx")
            if f is None:
                f = equiv("xtx", (k, len(x)), x, x, toks, 1, key, two=True)
            if f is None:
                for a_ in range(p):
                    for b_ in range(a_):
                        if got[a_ * p + b_] != got[b_ * p + a_]:
                            f = Failure(i, key, "xtx result is not symmetric at (%d,%d)" % (a_, b_))
        elif op == "tr":
            r, x = int(t[1]), t[3:]
            key = "tr:%d:%d" % (r, len(x))
            if r == 0:
                f = zero_rows_outcome(i, key, st, toks[1:], "transpose with 0 rows")
                if f is not None:
                    fails.append(f)
                continue
            if len(x) % r:
                if st != "panic":
                    fails.append(Failure(i, key, "transpose of a non-matrix returned a value"))
                continue
            c = len(x) // r
            exp = [x[a_ * c + b_] for b_ in range(c) for a_ in range(r)]
            if st != "ok" or toks[1:] != exp or int(toks[0]) != len(exp):
                f = Failure(i, key, "transpose of a %dx%d matrix is wrong: %s" % (r, c, rep[:200]), " ".join(exp))
        elif op in ("dmm", "dmv", "dvm", "dvv"):
            meth, own = t[1], int(t[2])
            ta, tb = (meth in ("t_dot", "t_dot_t")), (meth in ("dot_t", "t_dot_t"))
            if op == "dmm":
                r1, c1, r2, c2 = map(int, t[3:7])
                d = t[7:]
            elif op == "dmv":   # the vector is a column, whatever the flag on it says
                r1, c1, n_ = map(int, t[3:6])
                r2, c2, tb = n_, 1, False
                d = t[6:]
            elif op == "dvm":   # the vector is a row
                n_, r2, c2 = map(int, t[3:6])
                r1, c1, ta = 1, n_, False
                d = t[6:]
            else:               # inner product: row times column
                n1, n2 = map(int, t[3:5])
                r1, c1, r2, c2, ta, tb = 1, n1, n2, 1, False, False
                d = t[5:]
            key = "%s:%s:%d:%dx%d:%dx%d" % (op, meth, own, r1, c1, r2, c2)
            d1 = [h2f(v) for v in d[:r1 * c1]]
            d2 = [h2f(v) for v in d[r1 * c1:]]
            m, l = (c1, r1) if ta else (r1, c1)
            l2, n = (c2, r2) if tb else (r2, c2)
            if l != l2:
                if st != "panic":
                    fails.append(Failure(i, key, "%s.%s with non-conformable shapes returned a value instead of a panic" % (op, meth)))
                continue
            if op != "dvv" and (r1 == 0 or r2 == 0) and st == "panic":
                # conformable, but an operand (after promotion: Matrix.Vector promotes to len x 1) has 0 rows: is_matrix
                # divides by the row count (theorems dotMM_zero_rows, dotMV_isSome_iff, dotVM_isSome_iff).  The panic is
                # recorded (finding proposal `zero-rows`, outside the quantifier `shapes 1..`); a value, if one is ever
                # returned, is judged by the definition below like any other.
                STATS["zero_row_panics"] = STATS.get("zero_row_panics", 0) + 1
                continue
            if st != "ok":
                fails.append(Failure(i, key, "%s.%s with conformable shapes: %s" % (op, meth, st)))
                continue
            if op == "dmm":
                if int(toks[0]) != m or int(toks[1]) != n or len(toks) != 2 + m * n:
                    fails.append(Failure(i, key, "result shape %sx%s (%d entries), expected %dx%d" % (toks[0], toks[1], len(toks) - 2, m, n)))
                    continue
                got = toks[2:]
            elif op == "dvv":
                if len(toks) != 1:
                    fails.append(Failure(i, key, "malformed scalar reply"))
                    continue
                got = toks
            else:
                if int(toks[0]) != m * n or len(toks) != 1 + m * n:
                    fails.append(Failure(i, key, "result length %s, expected %d" % (toks[0], m * n)))
                    continue
                got = toks[1:]
            opA = rows_of(d1, r1, c1, ta)
            opBt = rows_of(d2, r2, c2, not tb)
            f = check_product(i, key, got, opA, opBt, m, l, n, "%s.%s(own=%d)" % (op, meth, own))
            if f is None:
                f = equiv(op, (meth, own, r1, c1, r2, c2), d1, d2, toks, {"dmm": 2, "dvv": 0}.get(op, 1), key)
        if f is not None:
            fails.append(f)
    return fails


def oracle(lines, impl):
    """Sessions are expanded into the equivalent stateless requests (with the data the slots hold at that moment) and
    every product is decided by the same definition-based oracle as the stateless requests."""
    flat_l, flat_r, origin = [], [], []
    fails = []
    for i, (line, rep) in enumerate(zip(lines, impl)):
        if not line.startswith("ses "):
            flat_l.append(line)
            flat_r.append(rep)
            origin.append((i, None))
            continue
        st, _ = parse_reply(rep)
        if st == "skip":
            continue
        if st != "ok":
            fails.append(Failure(i, "ses:reply", "session line answered %r" % rep[:80]))
            continue
        for k, (fl, fr, txt) in enumerate(expand_session(line, rep)):
            if fr is None or fr.startswith("?"):
                fails.append(Failure(i, "ses:malformed", "session command #%d (%s): malformed reply" % (k, txt)))
                break
            if fl is None:
                if fr.strip() != "=":
                    fails.append(Failure(i, "ses:state:" + txt.split()[0], "state command #%d (%s) answered %r" % (k, txt, fr[:60])))
                continue
            flat_l.append(fl)
            flat_r.append(fr)
            origin.append((i, "command #%d `%s`" % (k, txt)))
    for f in flat_oracle(flat_l, flat_r):
        i, where = origin[f.idx]
        if where is not None:
            f = Failure(i, "ses:" + f.key, "session %s: %s" % (where, f.msg), f.expected)
        else:
            f.idx = i
        fails.append(f)
    fails.sort(key=lambda f: f.idx)
    return fails


def ses_skeleton(line):
    out = []
    for c in line[4:].split(" | "):
        t = c.split()
        if t[0] in ("v", "V"):
            out.append(" ".join(t[:3]))
        elif t[0] == "M":
            out.append(" ".join(t[:4]))
        elif t[0] in ("p", "pM", "pV"):
            out.append(" ".join(t[:3]))
        else:
            out.append(c)
    return "ses " + "|".join(out)


def nontrivial(line, reply):
    t = line.split()
    op = t[0]
    if reply.startswith("#"):
        return None
    if op == "ses":
        return ses_skeleton(line)
    if op == "mm":
        return " ".join(t[:7])
    if op == "mb":
        return " ".join(t[:8])
    if op in ("xtx", "tr"):
        return " ".join(t[:3])
    if op == "dmm":
        return " ".join(t[:7])
    if op in ("dmv", "dvm"):
        return " ".join(t[:6])
    return " ".join(t[:5])

# --- deep theorems (Rounding3)
PROOF_MODULES = PROOF_MODULES + ['Compute.Lemmas.MatmulRounding', 'Compute.Props.Rounding3']
REQUIRED_THEOREMS = REQUIRED_THEOREMS + ['Cv.Rounding3.matmul_error', 'Cv.Rounding3.matmul_error_succ', 'Cv.Rounding3.matmulBlocked_error', 'Cv.Rounding3.xtx_error', 'Cv.Rounding3.matmul_error_infnorm', 'Cv.Rounding3.dotMM_error', 'Cv.Rounding3.stdmodel_matmul_note']
NOT_PROVED = [x for x in NOT_PROVED if not any(k in str(x) for k in ('f64 rounding',))]
NOT_PROVED = NOT_PROVED + ['f64 rounding of products with real entries is bounded by theorem in the standard model (Props/Rounding3: |C - op(A)op(B)| <= gamma_l |op(A)||op(B)| entrywise for all four flag pairs, the blocked variant, xtx and the Dot methods); the trusted link is that IEEE binary64 obeys fl(a op b) = (a op b)(1+d), |d| <= 2^-53']

# --- source tie, in-place mutation / nested loops / decision trees (tools/rs2lean.py mut=True: regenerated from /repo/src into
# Generated/SrcC05Mut.lean and proved equal to the hand model in Props/SrcTieC05Mut.lean)
from . import srctie
srctie.wire_mut(globals(), 'C05')

# --- source tie, whole functions (translator pass 4: matmul and matmul_blocked regenerated from utils.rs into Generated/SrcC05Mut2.lean,
# proved equal to the hand model in Props/SrcTieC05Mut2.lean)
from . import srctie
srctie.wire_mut2(globals(), 'C05')

# --- review repairs in the Rounding layer (renamed stdmodel_* theorems, underflow-aware variants, genuine FlModel instance; wired by the lead)
PROOF_MODULES = PROOF_MODULES + [m for m in ['Compute.Lemmas.FlModelGrid', 'Compute.Props.RoundingGrid'] if m not in PROOF_MODULES]
REQUIRED_THEOREMS = REQUIRED_THEOREMS + [t for t in ['Cv.Rounding3.dotVV_error', 'Cv.Rounding3.dotMV_error', 'Cv.Rounding3.dotVM_error', 'Cv.FlModel.grid_abs_sub_le', 'Cv.FlModel.grid_idem', 'Cv.FlModel.grid_mono', 'Cv.FlModel.grid_rnd_one', 'Cv.FlModel.grid_rnd_natCast', 'Cv.FlModel.grid_rnd_dyadic', 'Cv.FlModel.f64grid_u', 'Cv.FlModel.f64grid_mono'] if t not in REQUIRED_THEOREMS]
NOT_PROVED = list(NOT_PROVED) + ['theorems named stdmodel_* hold in the idealised standard model (fl(x) = x(1+d) for every operation, library functions with relative error <= u_f for every argument) at u = 2^-53; they describe binary64 only where nothing overflows or underflows (for exp: arguments in [-708.39, 709.78]); outside that range computed values may be exactly 0 or inf', 'FlModel has a genuine instance, FlModel.grid p (radix 2, p digits, round to nearest, unbounded exponent; f64grid has u = 2^-53), proved to satisfy the standard model and to be idempotent and monotone, with integers <= 2^p and dyadics exact (Lemmas/FlModelGrid); headline rounding theorems are instantiated on it (Props/RoundingGrid); overflow and underflow remain outside the model']
