import Compute.Model.Vops
/-
C04 — every unrolled kernel of `vops.rs` equals the plain element-wise form (`List.map` /
`List.zipWith`) at every length: functional induction over the 8-way pattern.  Any element type, any
operator.  Core Lean only.
-/
namespace Cv.C04
open Cv Cv.Vops
variable {α : Type}

theorem vbinGo_eq (op : α → α → α) (x y : List α) : vbinGo op x y = List.zipWith op x y := by
  fun_induction vbinGo op x y with
  | case1 x0 x1 x2 x3 x4 x5 x6 x7 xs y0 y1 y2 y3 y4 y5 y6 y7 ys ih => simp [ih]
  | case2 => rfl

theorem vbinMutGo_eq (op : α → α → α) (x y : List α) : vbinMutGo op x y = List.zipWith op x y := by
  fun_induction vbinMutGo op x y with
  | case1 x0 x1 x2 x3 x4 x5 x6 x7 xs y0 y1 y2 y3 y4 y5 y6 y7 ys ih => simp [ih]
  | case2 => rfl

theorem vun_eq (f : α → α) (x : List α) : vun f x = x.map f := by
  fun_induction vun f x with
  | case1 x0 x1 x2 x3 x4 x5 x6 x7 xs ih => simp [ih]
  | case2 => rfl

theorem vunArgF_eq (f : α → α → α) (arg : α) (x : List α) : vunArgF f arg x = x.map (f · arg) := by
  fun_induction vunArgF f arg x with
  | case1 x0 x1 x2 x3 x4 x5 x6 x7 xs ih => simp [ih]
  | case2 => rfl

theorem vs_eq (op : α → α → α) (x : List α) (s : α) : vs op x s = x.map (op · s) := by
  fun_induction vs op x s with
  | case1 x0 x1 x2 x3 x4 x5 x6 x7 xs ih => simp [ih]
  | case2 => rfl

theorem vsMut_eq (op : α → α → α) (x : List α) (s : α) : vsMut op x s = x.map (op · s) := by
  fun_induction vsMut op x s with
  | case1 x0 x1 x2 x3 x4 x5 x6 x7 xs ih => simp [ih]
  | case2 => rfl

theorem sv_eq (op : α → α → α) (s : α) (x : List α) : sv op s x = x.map (op s ·) := by
  fun_induction sv op s x with
  | case1 x0 x1 x2 x3 x4 x5 x6 x7 xs ih => simp [ih]
  | case2 => rfl

end Cv.C04
