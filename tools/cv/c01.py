"""C01 — linear systems are solved to working precision through every entry point.

Also hosts the helpers shared with C11 (matrix generators, exact dyadic arithmetic, block parser)."""
import json
import math
import os
from fractions import Fraction

from .common import Failure, f2h, h2f, parse_reply, vec, OUT

ID = "C01"
BIN = "c01"
PROOF_MODULES = ["Compute.Props.C01"]
REQUIRED_THEOREMS = [
    "Cv.C01.colToRow_rowToCol", "Cv.C01.rowToCol_colToRow", "Cv.C01.rowToCol_eq_transpose",
    "Cv.C01.solve_routing", "Cv.C01.isPositiveDefinite_iff", "Cv.C01.solveSys_column",
    "Cv.C01.invertMatrix_eq_solveSys", "Cv.C01.matrix_inv_eq_solve_eye",
    "Cv.C01.forwardSubstitution_spec", "Cv.C01.backwardSubstitution_spec",
    "Cv.C01.legacy_indefinite_witness", "Cv.C01.repaired_indefinite_falls_back",
    "Cv.C01.asymmetric_within_eps_routes_to_lu", "Cv.C01.matrix_solve_is_lu",
]
RULE = ("orders 1..32 x generator classes {dense, scaled dense, integer with known solution, SPD, symmetric "
        "indefinite with positive diagonal, diagonally dominant, permuted/scaled triangular, graded to cond 1e10, "
        "tiny leading pivot, adversarial pivot columns (tiny diagonal, O(1) maximum mid-column, small decoys below), "
        "sparse SPD (arrowhead, banded, block), extreme power-of-two scale 2^k (|k| 400..1000), singular PSD B*B^T, tiny-scale near-symmetric (one asymmetric pair below the absolute epsilon, in every block position)} x 1..6 right-hand sides x every entry point (solve, solve_sys, invert_matrix, "
        "Matrix::solve for Vector and Matrix, Matrix::inv) plus explicit LU / Cholesky routes; "
        "non-trivial = distinct (op, class, order, nrhs)")
EXHAUSTIVE = {"quick": False, "thorough": False}
NOT_PROVED = [
    "floating-point rounding: the residual bound itself (decided per run by the exact-arithmetic oracle)",
    "lu_correct (P*A = L*U) and cholesky_correct (L*L^T = A) for every order (T-B); proved for the substitutions only",
    "luSolve_spec for every order (checked by the oracle on generated inputs)",
]
TRUSTED = [
    "is_square modelled with an exact integer square root (f32 sqrt is exact below 2^24 elements)",
    "numpy condition-number estimate, used only to decide whether an input is inside the property's quantifier (cond <= 1e10)",
]
ASSUMPTIONS = ["default cargo features (no blas/lapack)", "matrix element count < 2^24"]

EPS = 2.0 ** -52
# calibrated: max observed ratio residual / (n*eps*scale) over seeds 1..5 quick + thorough is < 1.5; see report
C_RESID = 200.0
C_ROUTE = 500.0


# ---------------------------------------------------------------- exact dyadic arithmetic
def dy(x):
    """finite float -> (integer mantissa, exponent) with x = m * 2**e exactly"""
    m, e = math.frexp(x)
    return int(m * (1 << 53)), e - 53


class Dy:
    """exact sums of products of doubles as one big integer times a power of two"""
    __slots__ = ("m", "e")

    def __init__(self, m=0, e=0):
        self.m, self.e = m, e

    def add(self, m, e):
        if m == 0:
            return
        if self.m == 0:
            self.m, self.e = m, e
        elif e >= self.e:
            self.m += m << (e - self.e)
        else:
            self.m = (self.m << (self.e - e)) + m
            self.e = e

    def frac(self):
        return Fraction(self.m) * (Fraction(2) ** self.e)

    def absfloat(self):
        """|value| rounded to a double (upwards enough for a bound: correctly rounded +- 1ulp)"""
        if self.m == 0:
            return 0.0
        m = abs(self.m)
        bl = m.bit_length()
        if bl > 64:
            sh = bl - 64
            m = (m >> sh) + 1
            e = self.e + sh
        else:
            e = self.e
        try:
            return math.ldexp(float(m), e)
        except OverflowError:
            return float("inf")


def exact_residual(A, n, X, B, ncol):
    """max_i |sum_j A[i,j] X[j,c] - B[i,c]| per column c, exactly (as floats rounded up), A n*n row-major,
    X, B n*ncol row-major."""
    dA = [dy(v) for v in A]
    dX = [dy(v) for v in X]
    dB = [dy(v) for v in B]
    out = []
    for c in range(ncol):
        worst = 0.0
        for i in range(n):
            acc = Dy()
            for j in range(n):
                ma, ea = dA[i * n + j]
                mx, ex = dX[j * ncol + c]
                acc.add(ma * mx, ea + ex)
            mb, eb = dB[i * ncol + c]
            acc.add(-mb, eb)
            worst = max(worst, acc.absfloat())
        out.append(worst)
    return out


def exact_matmul_resid(L, U, PA, n):
    """max row sum of |L*U - PA| exactly"""
    dL = [dy(v) for v in L]
    dU = [dy(v) for v in U]
    dP = [dy(v) for v in PA]
    worst = 0.0
    for i in range(n):
        row = 0.0
        for j in range(n):
            acc = Dy()
            for k in range(n):
                ml, el = dL[i * n + k]
                if ml == 0:
                    continue
                mu, eu = dU[k * n + j]
                acc.add(ml * mu, el + eu)
            mp, ep = dP[i * n + j]
            acc.add(-mp, ep)
            row += acc.absfloat()
        worst = max(worst, row)
    return worst


def inf_norm(A, n, m=None):
    m = n if m is None else m
    return max((sum(abs(A[i * m + j]) for j in range(m)) for i in range(n)), default=0.0)


def col(B, n, ncol, c):
    return [B[i * ncol + c] for i in range(n)]


def finite(xs):
    return all(math.isfinite(x) for x in xs)


def isqrt_exact(k):
    r = math.isqrt(k)
    return r if r * r == k else None


def cond_inf(A, n):
    import numpy as np
    M = np.array(A, dtype=float).reshape(n, n)
    try:
        with np.errstate(all="ignore"):
            c = float(np.linalg.cond(M, np.inf))
    except Exception:
        return float("inf")
    return c if c == c else float("inf")


# ---------------------------------------------------------------- block parser for composite replies
def blocks(toks, ints_at=()):
    """`P` | `len t1 .. tlen` sequence -> list of None | list of tokens"""
    out, i = [], 0
    while i < len(toks):
        if toks[i] == "P":
            out.append(None)
            i += 1
        else:
            k = int(toks[i])
            out.append(toks[i + 1:i + 1 + k])
            i += 1 + k
    return out


# ---------------------------------------------------------------- matrix generators (row-major lists)
def g_dense(rng, n):
    s = 10.0 ** rng.randint(-3, 3) if rng.chance(0.3) else 1.0
    return [rng.normal() * s for _ in range(n * n)]


def g_int(rng, n):
    """integer entries, nonsingular (checked exactly)"""
    for _ in range(50):
        A = [float(rng.randint(-9, 9)) for _ in range(n * n)]
        if rng.chance(0.5):
            for i in range(n):
                A[i * n + i] += float(rng.choice([-1, 1]) * rng.randint(5, 12))
        if bareiss_det([int(x) for x in A], n) != 0:
            return A
    return [float(i == j) * 3.0 for i in range(n) for j in range(n)]


def g_spd(rng, n, delta=None):
    G = [[rng.normal() for _ in range(n)] for _ in range(n)]
    d = delta if delta is not None else rng.choice([1.0, 0.1, 1e-2, 1e-3])
    A = [0.0] * (n * n)
    for i in range(n):
        for j in range(i, n):
            v = math.fsum(G[k][i] * G[k][j] for k in range(n)) + (d if i == j else 0.0)
            A[i * n + j] = v
            A[j * n + i] = v
    return A


def g_symindef(rng, n):
    """symmetric, positive diagonal, clearly indefinite: a 2x2 principal block [[d, t],[t, d]] with t > d"""
    A = [0.0] * (n * n)
    for i in range(n):
        for j in range(i, n):
            v = rng.normal() if i != j else abs(rng.normal()) + 0.1
            A[i * n + j] = v
            A[j * n + i] = v
    if n >= 2:
        p = rng.randint(0, n - 2)
        q = rng.randint(p + 1, n - 1)
        t = (max(A[p * n + p], A[q * n + q]) + 1.0 + abs(rng.normal())) * rng.choice([-1.0, 1.0])
        A[p * n + q] = t
        A[q * n + p] = t
    return A


def g_symindef_int(rng, n):
    for _ in range(50):
        A = [0.0] * (n * n)
        for i in range(n):
            for j in range(i, n):
                v = float(rng.randint(-6, 6)) if i != j else float(rng.randint(1, 6))
                A[i * n + j] = v
                A[j * n + i] = v
        if n >= 2:
            p = rng.randint(0, n - 2)
            q = rng.randint(p + 1, n - 1)
            t = float((max(A[p * n + p], A[q * n + q]) + rng.randint(1, 4)) * rng.choice([-1, 1]))
            A[p * n + q] = t
            A[q * n + p] = t
        if bareiss_det([int(x) for x in A], n) != 0:
            return A
    return A


def g_diagdom(rng, n, sym=False):
    A = [rng.normal() for _ in range(n * n)]
    if sym:
        for i in range(n):
            for j in range(i):
                A[i * n + j] = A[j * n + i]
    for i in range(n):
        s = sum(abs(A[i * n + j]) for j in range(n) if j != i)
        sg = 1.0 if sym else rng.choice([-1.0, 1.0])
        A[i * n + i] = sg * (s + 0.5 + abs(rng.normal()))
    return A


def g_tri(rng, n):
    """row-permuted, column-scaled triangular matrix with a safe diagonal"""
    upper = rng.chance(0.5)
    T = [0.0] * (n * n)
    for i in range(n):
        for j in range(n):
            if (j > i and upper) or (j < i and not upper):
                T[i * n + j] = rng.normal() / 4
        T[i * n + i] = rng.choice([-1.0, 1.0]) * rng.uniform(0.5, 2.0)
    perm = rng.shuffle(list(range(n)))
    sc = [2.0 ** rng.randint(-8, 8) for _ in range(n)]
    return [T[perm[i] * n + j] * sc[j] for i in range(n) for j in range(n)]


def _householder_apply(rng, M, n, left):
    v = [rng.normal() for _ in range(n)]
    nv = math.sqrt(sum(x * x for x in v)) or 1.0
    v = [x / nv for x in v]
    if left:
        for j in range(n):
            d = 2 * sum(v[i] * M[i * n + j] for i in range(n))
            for i in range(n):
                M[i * n + j] -= d * v[i]
    else:
        for i in range(n):
            d = 2 * sum(M[i * n + j] * v[j] for j in range(n))
            for j in range(n):
                M[i * n + j] -= d * v[j]


def g_graded(rng, n, maxlog=10, spd=False):
    """Q1 diag(s) Q2 with singular values graded from 1 down to 10^-k, k <= maxlog (cond ~ 10^k)"""
    k = rng.uniform(1, maxlog)
    s = [10.0 ** (-k * i / max(n - 1, 1)) for i in range(n)]
    M = [s[i] if i == j else 0.0 for i in range(n) for j in range(n)]
    if spd:
        for _ in range(2):
            st = rng.s
            _householder_apply(rng, M, n, True)
            rng.s = st
            _householder_apply(rng, M, n, False)
        for i in range(n):
            for j in range(i):
                M[i * n + j] = M[j * n + i]
        return M
    for _ in range(2):
        _householder_apply(rng, M, n, True)
        _householder_apply(rng, M, n, False)
    return M


def g_tinypivot(rng, n):
    A = [rng.normal() for _ in range(n * n)]
    A[0] = rng.choice([1e-12, 1e-15, 1e-18, 0.0, 1e-300]) * rng.choice([-1.0, 1.0])
    if n >= 3 and rng.chance(0.5):
        A[n + 1] = A[n] * A[1] / A[0] if A[0] not in (0.0,) and abs(A[0]) > 1e-200 else 0.0  # second pivot cancels
    if n == 1:
        A[0] = rng.normal() or 1.0
    return A


def g_scaled(rng, n):
    """dense at an extreme uniform scale (exercises the absolute symmetry tolerance)"""
    s = 10.0 ** rng.randint(-22, -12) if rng.chance(0.7) else 10.0 ** rng.randint(8, 20)
    A = [rng.normal() * s for _ in range(n * n)]
    if rng.chance(0.7):
        for i in range(n):
            A[i * n + i] = abs(A[i * n + i]) + s * 0.5
    return A



def g_advpivot(rng, n):
    """Adversarial for any weakened pivot search, harmless for true partial pivoting: a well-conditioned
    O(1) matrix in which a leading pivot column has a tiny diagonal entry (1e-12..1e-6), its maximum O(1)
    at a middle row (or: tied maxima / maximum in the last row), and rows below the maximum whose entry in
    that column is slightly larger than the diagonal but << 1 (1e-9..1e-4) while the rest of the row is O(1).
    Choosing one of those rows as pivot gives multipliers ~1/entry and unbounded element growth."""
    n = max(n, 3)
    A = [rng.normal() for _ in range(n * n)]
    for i in range(n):                       # keep it comfortably conditioned away from the pivot columns
        A[i * n + i] += rng.choice([-1.0, 1.0]) * 2.0
    variant = rng.choice(["mid", "mid", "mid", "ties", "last", "second", "two"])
    cols = [0]
    if variant == "second":
        for i in range(1, n):
            A[i * n] = 0.0
        A[0] = rng.choice([-1.0, 1.0]) * rng.uniform(1.0, 2.0)
        cols = [1]
    elif variant == "two" and n >= 5:
        cols = [0, 1]
    prev_m = None
    for c in cols:
        rows = list(range(c, n))             # rows taking part in the search of column c
        d = rng.choice([-1.0, 1.0]) * 10.0 ** rng.uniform(-12, -6)
        big = rng.choice([-1.0, 1.0]) * rng.uniform(1.0, 2.0)
        if variant == "last":
            m = n - 1
        else:
            m = rng.randint(c + 1, n - 2) if n - 2 >= c + 1 else c + 1
        for r in rows:
            A[r * n + c] = rng.uniform(-0.9, 0.9) * abs(big) * rng.choice([1.0, 0.3, 1e-2])
        A[c * n + c] = d
        A[m * n + c] = big
        if variant == "ties":
            for r in rows[1:]:
                if r != m and rng.chance(0.4):
                    A[r * n + c] = abs(big) * rng.choice([-1.0, 1.0])
        below = [r for r in rows if r > m]
        for k, r in enumerate(below):
            if r == n - 1 or rng.chance(0.6):
                e = 10.0 ** rng.uniform(-9, -4)
                A[r * n + c] = rng.choice([-1.0, 1.0]) * max(e, 10.0 * abs(d))
        if prev_m is not None:
            A[prev_m * n + c] = 0.0          # the first elimination step leaves this column alone
        prev_m = m
    return A


def g_arrow_spd(rng, n):
    """SPD arrowhead with the dense row/column FIRST: exact zeros elsewhere off the diagonal, complete fill-in in L"""
    if n == 1:
        return [rng.uniform(0.5, 2.0)]
    v = [rng.normal() or 1.0 for _ in range(n - 1)]
    D = [rng.uniform(0.5, 2.0) for _ in range(n - 1)]
    A = [0.0] * (n * n)
    A[0] = math.fsum(v[i] * v[i] / D[i] for i in range(n - 1)) + rng.uniform(0.5, 2.0)
    for i in range(1, n):
        A[i] = v[i - 1]
        A[i * n] = v[i - 1]
        A[i * n + i] = D[i - 1]
    return A


def g_band_spd(rng, n):
    """SPD with nonzeros only on the diagonal and at offsets 1 and k (fill-in appears at the offsets in between)"""
    k = rng.randint(2, max(2, min(6, n - 1)))
    A = [0.0] * (n * n)
    for i in range(n):
        for off in (1, k):
            j = i - off
            if j >= 0:
                v = rng.normal() or 0.5
                A[i * n + j] = v
                A[j * n + i] = v
    for i in range(n):
        A[i * n + i] = sum(abs(A[i * n + j]) for j in range(n) if j != i) + rng.uniform(0.05, 1.0)
    return A


def g_block_spd(rng, n):
    """block-diagonal dense SPD blocks (exact zero off-diagonal blocks) coupled through a sparse first row"""
    A = [0.0] * (n * n)
    start = 0
    while start < n:
        sz = min(n - start, rng.randint(1, 5))
        S = g_spd(rng, sz, rng.choice([1.0, 0.1]))
        for i in range(sz):
            for j in range(sz):
                A[(start + i) * n + start + j] = S[i * sz + j]
        start += sz
    for j in range(1, n):
        if A[j] == 0.0 and rng.chance(0.5):
            w = rng.normal() / 2
            A[j] = w
            A[j * n] = w
            A[0] += abs(w)
            A[j * n + j] += abs(w)
    return A


SCALE_EXPS = [-1000, -800, -600, -540, -400, 400, 500, 520, 600, 900]


def g_extreme_base(rng, n):
    """O(1) base matrix of the extreme-scale class: integer or well-conditioned dense; variants with a zero
    leading entry and with rows permuted so that several row swaps are needed"""
    n = max(2, min(n, 12))
    kind = rng.choice(["int", "int", "dense", "permdom"])
    if kind == "int":
        A = g_int(rng, n)
    elif kind == "dense":
        A = [rng.normal() for _ in range(n * n)]
        for i in range(n):
            A[i * n + i] += rng.choice([-1.0, 1.0]) * 2.0
    else:
        D = g_diagdom(rng, n)
        perm = rng.shuffle(list(range(n)))
        A = [D[perm[i] * n + j] for i in range(n) for j in range(n)]
    if rng.chance(0.4):
        A[0] = 0.0
        if all(A[i * n] == 0.0 for i in range(n)):
            A[(n - 1) * n] = 3.0
    if all(v == int(v) for v in A) and bareiss_det([int(v) for v in A], n) == 0:
        for i in range(n):
            A[i * n + i] += 13.0
        if rng.chance(0.4) and n >= 2:           # keep a zero leading entry, still nonsingular
            A[0], A[n] = 0.0, (A[n] or 5.0)
    return A


def g_extreme(rng, n):
    """base matrix times an exact power of two 2^k, |k| in 400..1000: every entry finite and normal"""
    A = g_extreme_base(rng, n)
    k = rng.choice(SCALE_EXPS)
    return [math.ldexp(v, k) for v in A]


def g_psd_singular(rng, n):
    """A = B B^T, B integer lower triangular with a zero on the diagonal (usually the LAST entry): singular,
    positive semi-definite, NOT positive definite; all Cholesky arithmetic on it is exact"""
    B = [[0] * n for _ in range(n)]
    for i in range(n):
        for j in range(i):
            B[i][j] = rng.randint(-3, 3)
        B[i][i] = rng.randint(1, 4)
    z = n - 1 if rng.chance(0.7) else rng.randint(0, n - 1)
    B[z][z] = 0
    return [float(sum(B[i][k] * B[j][k] for k in range(n))) for i in range(n) for j in range(n)]


def exact_chol_verdict(A, n):
    """Run the Cholesky-Banachiewicz sweep in exact rational arithmetic.  'reject' / 'accept' when every
    intermediate value is a small dyadic rational (so the f64 sweep performs exactly the same arithmetic
    and must reach the same verdict); None when some value is not exactly representable (no claim)."""
    if not all(v == int(v) and abs(v) < 2 ** 20 for v in A) or n > 32:
        return None
    if any(A[i * n + j] != A[j * n + i] for i in range(n) for j in range(i)):
        return None
    L = [[Fraction(0)] * n for _ in range(n)]

    def small(q):
        d = q.denominator
        return d & (d - 1) == 0 and d <= 2 ** 20 and abs(q.numerator) < 2 ** 40

    for i in range(n):
        for j in range(i + 1):
            s = sum(L[j][k] * L[i][k] for k in range(j))
            if i == j:
                piv = Fraction(int(A[i * n + i])) - s
                if piv <= 0:
                    return "reject"
                num, den = math.isqrt(piv.numerator), math.isqrt(piv.denominator)
                if num * num != piv.numerator or den * den != piv.denominator:
                    return None
                L[i][i] = Fraction(num, den)
            else:
                L[i][j] = (Fraction(int(A[i * n + j])) - s) / L[j][j]
            if not small(L[i][j]):
                return None
    return "accept"


CLASSES = {
    "extreme": g_extreme, "psd_singular": g_psd_singular,
    "advpivot": g_advpivot, "arrow_spd": g_arrow_spd, "band_spd": g_band_spd, "block_spd": g_block_spd,
    "dense": g_dense, "int": g_int, "spd": g_spd, "symindef": g_symindef, "diagdom": g_diagdom,
    "diagdom_sym": lambda r, n: g_diagdom(r, n, True), "tri": g_tri, "graded": g_graded,
    "graded_spd": lambda r, n: g_graded(r, n, 8, True), "tinypivot": g_tinypivot, "scaled": g_scaled,
}


def bareiss_det(A, n):
    """exact determinant of an integer matrix (fraction-free elimination)"""
    M = [A[i * n:(i + 1) * n] for i in range(n)]
    sign, prev = 1, 1
    for k in range(n - 1):
        if M[k][k] == 0:
            sw = next((i for i in range(k + 1, n) if M[i][k] != 0), None)
            if sw is None:
                return 0
            M[k], M[sw] = M[sw], M[k]
            sign = -sign
        for i in range(k + 1, n):
            for j in range(k + 1, n):
                M[i][j] = (M[i][j] * M[k][k] - M[i][k] * M[k][j]) // prev
        prev = M[k][k]
    return sign * M[n - 1][n - 1] if n > 0 else 1


def order(rng, tier):
    r = rng.random()
    if r < 0.45:
        return rng.randint(1, 6)
    if r < 0.8:
        return rng.randint(7, 17)
    return rng.randint(18, 32)


def rhs(rng, A, n, ncol, cls):
    if cls == "int":
        X = [float(rng.randint(-9, 9)) for _ in range(n * ncol)]
        return [float(sum(int(A[i * n + j]) * int(X[j * ncol + c]) for j in range(n))) for i in range(n) for c in range(ncol)]
    s = max(abs(v) for v in A) if cls in ("scaled", "extreme") else 1.0
    return [rng.normal() * s for _ in range(n * ncol)]


# ---------------------------------------------------------------- generic strata (tools/GENERIC_STRATA.md)
BOUNDARY_N = [1, 2, 3, 4, 7, 8, 9, 15, 16, 17, 24, 25, 31, 32]
SPECIALS = [0.0, -0.0, 1.0, -1.0, 2.0, 3.0, 0.5, 1.5, -2.5, 1.0 / 3.0, 2.0 / 3.0, 1.0 + 2.0 ** -52, 1.0 - 2.0 ** -53,
            2.0 - 2.0 ** -52, 1024.0, 2.0 ** -10, 4.0, -3.0, 7.0, 0.1]


def g_special(rng, n):
    """entries from exact special values, about half of them exact zeros (+0 and -0), possibly a zero diagonal,
    made non-singular and moderately conditioned by a +-4 on a random permutation pattern"""
    for _ in range(20):
        A = [rng.choice(SPECIALS) if rng.chance(0.5) else rng.choice([0.0, -0.0]) for _ in range(n * n)]
        perm = rng.shuffle(list(range(n)))
        if rng.chance(0.3):
            perm = [n - 1 - i for i in range(n)]       # anti-diagonal: every diagonal entry may stay zero
        for i in range(n):
            A[i * n + perm[i]] += rng.choice([-4.0, 4.0]) * (1.0 + 0.5 * (i % 3))
        if cond_inf(A, n) < 1e6:
            return A
    return [4.0 if i == j else 0.0 for i in range(n) for j in range(n)]


def special_rhs(rng, n, ncol):
    pool = SPECIALS + [1e-290, -1e-290, 1e200, 5.0, -7.0]
    col_scale = [rng.choice([1.0, 1.0, 1e-290, 1e200]) for _ in range(ncol)]
    return [(rng.choice(SPECIALS) or 0.0) * col_scale[c] if rng.chance(0.7) else rng.normal() * col_scale[c]
            for _ in range(n) for c in range(ncol)]


def eps_band_matrices(rng):
    """SPD-looking matrices whose (i,j)/(j,i) pair differs by exactly 0.25, 0.5, 1, 1.25, 2 x EPSILON (the
    is_symmetric threshold), and ones with a diagonal entry of 0, -0, +-1e-300 (the `<= 0` test)"""
    out = []
    for k in (1, 2, 4, 5, 8):
        n = rng.randint(2, 6)
        A = g_diagdom(rng, n, True)
        i, j = 0, n - 1
        A[i * n + j] = 0.25
        A[j * n + i] = 0.25 + k * 2.0 ** -54
        out.append((n, A))
    for d in (0.0, -0.0, 1e-300, -1e-300, 5e-324):
        n = rng.randint(2, 6)
        A = g_diagdom(rng, n, True)
        A[(n - 1) * n + n - 1] = d
        out.append((n, A))
    return out


def strata(rng, tier, lines, cover):
    def cnt(k):
        cover[k] = cover.get(k, 0) + 1

    for rep in range(1 if tier == "quick" else 4):
        # size boundaries x right-hand-side shapes with 1 < nsys != n, nsys > n, and a dimension of 1
        for n in BOUNDARY_N:
            for cls in ("dense", "spd"):
                A = CLASSES[cls](rng, n)
                opts = [2, 3, n + 1, 7, 8, 9] + ([n - 1] if n > 2 else []) + ([2 * n, 2 * n + 1] if n <= 9 else [])
                ncol = rng.choice([c for c in opts if c != n and c > 1])
                B = rhs(rng, A, n, ncol, cls)
                cnt("strata:order=%d" % n)
                cnt("strata:nsys>n" if ncol > n else "strata:nsys<n")
                lines.append("# strata size cls=%s n=%d ncol=%d" % (cls, n, ncol))
                lines.append("entries %s %s" % (vec(A), vec(B)))
                lines.append("solve_sys %s %s" % (vec(A), vec(B)))
                lines.append("msolve_m %d %d %s %d %d %s" % (n, n, vec(A), n, ncol, vec(B)))
                if cls == "dense":
                    lines.append("inverses %s" % vec(A))
                lines.append("r2c %s %d" % (vec(B), n))
                lines.append("c2r %s %d" % (vec(B), n))
                lines.append("r2c %s %d" % (vec(B), ncol))
        # exact special values, exact zeros on / off the diagonal with non-zero pivots
        for n in (1, 2, 3, 4, 5, 8, 9, 16, 17):
            A = g_special(rng, n)
            ncol = rng.choice([1, 2, 3, n + 2])
            B = special_rhs(rng, n, ncol)
            cnt("strata:special")
            lines.append("# strata special n=%d ncol=%d" % (n, ncol))
            lines.append("entries %s %s" % (vec(A), vec(B)))
            lines.append("inverses %s" % vec(A))
            lines.append("routes %s %s" % (vec(A), vec(col(B, n, ncol, 0))))
        # threshold bands of the routing predicate
        for n, A in eps_band_matrices(rng):
            b = [rng.normal() for _ in range(n)]
            cnt("strata:threshold")
            lines.append("issym %s" % vec(A))
            lines.append("ispd %s" % vec(A))
            lines.append("mis_sym %d %d %s" % (n, n, vec(A)))
            lines.append("mis_pd %d %d %s" % (n, n, vec(A)))
            lines.append("routes %s %s" % (vec(A), vec(b)))
            lines.append("entries %s %s" % (vec(A), vec(b)))
        # tiny-scale near-symmetric: one asymmetric pair below the absolute epsilon, in every block position
        for n in (2, 3, 4, 5, 6, 7, 8, 9, 10, 11, 12):
            for where in (("trail", "last") if n % 2 else ("lead", "trail", "cross")):
                A = g_tiny_nearsym(rng, n, where)
                ncol = rng.choice([1, 2, 3])
                s0 = max(abs(v) for v in A)
                B = [rng.normal() * s0 for _ in range(n * ncol)]
                cnt("strata:tiny-nearsym:" + where)
                lines.append("# strata tiny-nearsym n=%d where=%s" % (n, where))
                lines.append("entries %s %s" % (vec(A), vec(B)))
                lines.append("inverses %s" % vec(A))
                lines.append("routes %s %s" % (vec(A), vec(col(B, n, ncol, 0))))
                lines.append("solve %s %s" % (vec(A), vec(col(B, n, ncol, 0))))
                lines.append("solve_sys %s %s" % (vec(A), vec(B)))
                lines.append("invert %s" % vec(A))
                lines.append("ispd %s" % vec(A))
        # ill-conditioned A (cond up to 1e10) with B = A * X0 for a known integer X0
        for n in (3, 6, 10, 16, 24):
            for spd in (False, True):
                A = g_graded(rng, n, 10 if not spd else 8, spd)
                ncol = rng.choice([1, 2, n + 1])
                X0 = [float(rng.randint(-9, 9)) for _ in range(n * ncol)]
                B = [math.fsum(A[i * n + j] * X0[j * ncol + c] for j in range(n)) for i in range(n) for c in range(ncol)]
                cnt("strata:illcond")
                lines.append("# strata illcond n=%d ncol=%d spd=%d" % (n, ncol, spd))
                lines.append("entries %s %s" % (vec(A), vec(B)))
                lines.append("inverses %s" % vec(A))


def g_tiny_nearsym(rng, n, where=None, k=None):
    """SPD (well conditioned, entries <= 1) scaled by 2^-k so that EVERY entry is far below f64::EPSILON, then made
    asymmetric in ONE off-diagonal pair by changing the UPPER entry (the Cholesky sweep reads the lower triangle):
    relative asymmetry 1e-3..0.5, invisible to the absolute-epsilon is_symmetric test but decisive for the solution.
    The pair sits in the leading block, the trailing block (both indices >= n/2), at the last pair (n-2, n-1) or
    across the blocks.  Only the exact-symmetry gate keeps the slice solvers off the Cholesky route."""
    S = g_spd(rng, n, 1.0)
    mx = max(abs(v) for v in S)
    sh = math.frexp(mx)[1]
    k = k if k is not None else rng.choice(list(range(55, 71)) + [100, 300])
    A = [math.ldexp(v, -sh - k) for v in S]
    h = n // 2
    pairs = {
        "lead": [(i, j) for i in range(h) for j in range(i + 1, h)],
        "trail": [(i, j) for i in range(h, n) for j in range(i + 1, n)],
        "last": [(n - 2, n - 1)] if n >= 2 else [],
        "cross": [(i, j) for i in range(h) for j in range(h, n)],
    }
    where = where or rng.choice(["lead", "trail", "trail", "last", "cross"])
    cand = pairs.get(where) or pairs["trail"] or pairs["last"] or [(0, 1)]
    i, j = rng.choice(cand)
    rel = 10.0 ** rng.uniform(-3, math.log10(0.5)) * rng.choice([-1.0, 1.0])
    base = A[j * n + i]
    if abs(base) < 0.05 * math.sqrt(A[i * n + i] * A[j * n + j]):   # make the pair matter
        base = 0.25 * math.sqrt(A[i * n + i] * A[j * n + j])
        A[j * n + i] = base
    A[i * n + j] = base * (1.0 + rel)
    return A


# ---------------------------------------------------------------- corpus / generator
def _c01t_corpus():
    """round-9 seed C01t: asymmetric ONLY in the trailing block, at scale 2^-60 (an exact-symmetry test that skips the
    trailing rows sends these to Cholesky)"""
    out = []
    for n, x0 in ((4, [1.0, 3.0, 2.0, -4.0]), (3, [2.0, -1.0, 3.0])):
        M = [[4.0 if i == j else 1.0 for j in range(n)] for i in range(n)]
        M[n - 2][n - 1] = 1.5                      # upper entry of the last pair; the lower one stays 1
        A = [math.ldexp(M[i][j], -60) for i in range(n) for j in range(n)]
        b = [math.ldexp(sum(M[i][j] * x0[j] for j in range(n)), -60) for i in range(n)]
        out.append("routes %s %s" % (vec(A), vec(b)))
        out.append("entries %s %s" % (vec(A), vec(b)))
    return out


def corpus():
    one, two = f2h(1.0), f2h(2.0)
    a = "4 %s %s %s %s" % (one, two, two, one)   # [[1,2],[2,1]] — F01 witness
    b = "2 %s %s" % (one, one)
    # F37 witness: not symmetric, but every |a_ij - a_ji| <= EPSILON (entries ~1e-20) and positive diagonal
    t = vec([2.2198724448755063e-20, -1.4360677399537045e-20, 1.4900059831990305e-20, 2.0092295523237807e-20])
    tb = vec([-2.5309690365127324e-20, 2.836045621378219e-20])
    return ["solve %s %s" % (a, b), "solve_sys %s %s" % (a, b), "invert " + a, "routes %s %s" % (a, b),
            "entries %s %s" % (a, b), "inverses " + a,
            "solve %s %s" % (t, tb), "solve_sys %s %s" % (t, tb), "invert " + t, "entries %s %s" % (t, tb), "inverses " + t] + _c01t_corpus()


def gen(rng, tier):
    lines = []
    cover = {}
    N = 200 if tier == "quick" else 2500
    names = sorted(CLASSES)
    for it in range(N):
        cls = names[it % len(names)]
        n = order(rng, tier)
        if it < 64:
            n = 1 + it % 32
        if cls == "advpivot":
            n = rng.randint(3, 16)
        if cls == "extreme":
            n = rng.randint(2, 12)
        A = CLASSES[cls](rng, n)
        ncol = rng.randint(1, 6)
        B = rhs(rng, A, n, ncol, cls)
        b0 = col(B, n, ncol, 0)
        cover["class:" + cls] = cover.get("class:" + cls, 0) + 1
        cover["order:%d" % n] = cover.get("order:%d" % n, 0) + 1
        tag = "# cls=%s n=%d ncol=%d" % (cls, n, ncol)
        lines.append(tag)
        lines.append("entries %s %s" % (vec(A), vec(B)))
        lines.append("inverses %s" % vec(A))
        lines.append("routes %s %s" % (vec(A), vec(b0)))
        k = it % 6
        single = [
            "solve %s %s" % (vec(A), vec(b0)),
            "solve_sys %s %s" % (vec(A), vec(B)),
            "invert %s" % vec(A),
            "msolve_v %d %d %s %s" % (n, n, vec(A), vec(b0)),
            "msolve_m %d %d %s %d %d %s" % (n, n, vec(A), n, ncol, vec(B)),
            "minv %d %d %s" % (n, n, vec(A)),
        ]
        lines.append(single[k])
        lines.append(single[(k + 3) % 6])
        if it % 5 == 0:
            lines.append("ispd %s" % vec(A))
            lines.append("issym %s" % vec(A))
            lines.append("r2c %s %d" % (vec(B), n))
            lines.append("c2r %s %d" % (vec(B), n))
        if cls == "advpivot":
            # every Matrix and slice entry point sees the pivot-critical input
            for l in single:
                if l not in lines[-2:]:
                    lines.append(l)
            lines.append("mlu %d %d %s" % (n, n, vec(A)))
            lines.append("lu %s" % vec(A))
        if it % 7 == 0:
            lines.append("lu %s" % vec(A))
    strata(rng, tier, lines, cover)
    # shape errors and degenerate sizes: panics must agree with the model
    z = f2h(0.0)
    for l in ["solve 0 0", "solve_sys 0 0", "invert 0", "solve 3 %s %s %s 1 %s" % (z, z, z, z),
              "solve_sys 4 %s %s %s %s 3 %s %s %s" % (z, z, z, z, z, z, z), "invert 2 %s %s" % (z, z),
              "msolve_v 2 3 6 %s %s %s %s %s %s 2 %s %s" % (z, z, z, z, z, z, z, z),
              "msolve_v 2 2 4 %s %s %s %s 3 %s %s %s" % (z, z, z, z, z, z, z),
              "minv 2 3 6 %s %s %s %s %s %s" % (z, z, z, z, z, z), "r2c 3 %s %s %s 2" % (z, z, z), "c2r 0 0",
              "minv 0 0 0", "msolve_m 0 0 0 0 0 0", "msolve_v 0 0 0 0"]:
        lines.append(l)
    return lines, cover


# ---------------------------------------------------------------- oracle
STATS = {}


def _stat(k, v):
    if v == v and v > STATS.get(k, 0.0):
        STATS[k] = v


def check_solution(fails, i, key, what, A, n, X, B, ncol, in_scope):
    """the property on one returned solution X (n x ncol) of A X = B"""
    if X is None:
        if in_scope:
            fails.append(Failure(i, key, "%s panicked on a nonsingular system" % what))
        return False
    if len(X) != n * ncol:
        fails.append(Failure(i, key, "%s returned %d values, expected %d" % (what, len(X), n * ncol)))
        return False
    if not in_scope:
        return False
    if not finite(X):
        fails.append(Failure(i, key, "%s returned a non-finite value for a nonsingular system (order %d)" % (what, n)))
        return False
    nA = inf_norm(A, n)
    res = exact_residual(A, n, X, B, ncol)
    for c in range(ncol):
        scale = nA * max(abs(v) for v in col(X, n, ncol, c)) + max(abs(v) for v in col(B, n, ncol, c))
        if scale == 0.0:
            ratio = 0.0 if res[c] == 0.0 else float("inf")
        else:
            ratio = res[c] / (n * EPS * scale)
        _stat("resid:" + what.split()[0], ratio)
        if ratio > C_RESID:
            fails.append(Failure(i, key, "%s: residual of column %d is %.3g = %.3g * n*eps*(|A||x|+|b|) (order %d), bound factor %g"
                                 % (what, c, res[c], ratio, n, C_RESID)))
            return False
    return True


def near(fails, i, key, what, X, Y, n, ncol, cond):
    """route independence: two backward-stable answers agree to c*n*eps*cond relative to |X|"""
    if X is None or Y is None or not finite(X) or not finite(Y):
        return
    for c in range(ncol):
        xc, yc = col(X, n, ncol, c), col(Y, n, ncol, c)
        nx = max(max(abs(v) for v in xc), max(abs(v) for v in yc))
        d = max(abs(a - b) for a, b in zip(xc, yc))
        if nx == 0:
            continue
        ratio = d / (n * EPS * cond * nx)
        _stat("route:" + what, ratio)
        if ratio > C_ROUTE:
            fails.append(Failure(i, key, "%s differ by %.3g relative (%.3g * n*eps*cond, cond %.3g, order %d)" % (what, d / nx, ratio, cond, n)))
            return


def fl(toks):
    return None if toks is None else [h2f(t) for t in toks]


def scope(A, n):
    """inside the quantifier: finite, nonsingular, condition number (inf-norm) at most 1e11"""
    if n == 0 or not finite(A):
        return False, float("inf")
    c = cond_inf(A, n)
    return c <= 1e11, c


def oracle(lines, impl):
    fails = []
    for i, (l, rep) in enumerate(zip(lines, impl)):
        t = l.split()
        if not t or t[0].startswith("#"):
            continue
        op = t[0]
        st, toks = parse_reply(rep)
        if st in ("skip",):
            continue
        if st not in ("ok", "panic"):
            fails.append(Failure(i, op + ":reply", "unexpected reply %r" % rep[:80]))
            continue

        def rvec(pos):
            k = int(t[pos])
            return [h2f(x) for x in t[pos + 1:pos + 1 + k]], pos + 1 + k

        if op in ("solve", "solve_sys", "invert", "entries", "inverses", "routes"):
            A, p = rvec(1)
            n = isqrt_exact(len(A))
            if n is None or n == 0:
                continue
            ins, cond = scope(A, n)
            key = "%s:n=%d" % (op, n)
            if op in ("solve", "routes"):
                B, p = rvec(p)
                ncol = 1
                if len(B) != n:
                    continue
            elif op in ("solve_sys", "entries"):
                B, p = rvec(p)
                if len(B) % n or not B:
                    continue
                ncol = len(B) // n
            else:
                B = [1.0 if r == c else 0.0 for r in range(n) for c in range(n)]
                ncol = n
            if not finite(B):
                continue
            if op in ("solve", "solve_sys", "invert"):
                X = fl(toks[1:]) if st == "ok" else None
                check_solution(fails, i, key, op, A, n, X, B, ncol, ins)
            elif op == "entries":
                if st != "ok":
                    fails.append(Failure(i, key, "entries: request panicked"))
                    continue
                bl = blocks(toks)
                if len(bl) != 2 + 2 * ncol:
                    fails.append(Failure(i, key, "entries: %d blocks" % len(bl)))
                    continue
                sys_, cols_, mm, mv = bl[0], bl[1:1 + ncol], bl[1 + ncol], bl[2 + ncol:]
                okA = check_solution(fails, i, key, "solve_sys", A, n, fl(sys_), B, ncol, ins)
                check_solution(fails, i, key, "Matrix::solve(Matrix)", A, n, fl(mm), B, ncol, ins)
                for c in range(ncol):
                    bc = col(B, n, ncol, c)
                    check_solution(fails, i, key, "solve (column %d)" % c, A, n, fl(cols_[c]), bc, 1, ins)
                    check_solution(fails, i, key, "Matrix::solve(Vector) (column %d)" % c, A, n, fl(mv[c]), bc, 1, ins)
                    # the multi-RHS paths are the single-RHS path column by column: identical bits
                    if sys_ is not None and cols_[c] is not None and [sys_[r * ncol + c] for r in range(n)] != cols_[c]:
                        fails.append(Failure(i, key, "solve_sys column %d differs from solve on that column" % c))
                    if mm is not None and mv[c] is not None and [mm[r * ncol + c] for r in range(n)] != mv[c]:
                        fails.append(Failure(i, key, "Matrix::solve(Matrix) column %d differs from Matrix::solve(Vector)" % c))
                if ins and okA:
                    near(fails, i, key, "slice-vs-Matrix", fl(sys_), fl(mm), n, ncol, cond)
            elif op == "inverses":
                if st != "ok":
                    fails.append(Failure(i, key, "inverses: request panicked"))
                    continue
                bl = blocks(toks)
                if len(bl) != 4:
                    fails.append(Failure(i, key, "inverses: %d blocks" % len(bl)))
                    continue
                inv, ssI, minv, msI = bl
                ok1 = check_solution(fails, i, key, "invert_matrix", A, n, fl(inv), B, n, ins)
                check_solution(fails, i, key, "Matrix::inv", A, n, fl(minv), B, n, ins)
                if inv != ssI:
                    fails.append(Failure(i, key, "invert_matrix differs from solve_sys against the identity"))
                if minv != msI:
                    fails.append(Failure(i, key, "Matrix::inv differs from Matrix::solve against the identity"))
                if ins and ok1:
                    near(fails, i, key, "invert-vs-Matrix::inv", fl(inv), fl(minv), n, n, cond)
            elif op == "routes":
                if st != "ok":
                    fails.append(Failure(i, key, "routes: request panicked"))
                    continue
                bl = blocks(toks)
                if len(bl) != 3:
                    fails.append(Failure(i, key, "routes: %d blocks" % len(bl)))
                    continue
                sv, lu_, ch = bl
                ok1 = check_solution(fails, i, key, "solve", A, n, fl(sv), B, 1, ins)
                ok2 = check_solution(fails, i, key, "lu+lu_solve", A, n, fl(lu_), B, 1, ins)
                if ins and ok1 and ok2:
                    near(fails, i, key, "solve-vs-LU-route", fl(sv), fl(lu_), n, 1, cond)
                if exact_chol_verdict(A, n) == "reject":
                    # exactly representable sweep hits a pivot <= 0: no Cholesky factor, `solve` is the LU route
                    if ch is not None:
                        fails.append(Failure(i, key, "cholesky accepted a matrix whose exact sweep meets a pivot <= 0 (not positive definite)"))
                    if sv != lu_:
                        fails.append(Failure(i, key, "solve did not fall back to the LU route on a matrix that is not positive definite"))
                # the answer of `solve` is one of the two routes, bit for bit
                if sv is not None and sv != lu_ and sv != ch:
                    fails.append(Failure(i, key, "solve equals neither the LU route nor the Cholesky route"))
                if ch is not None and ins and exactly_symmetric(A, n) and ok1:
                    near(fails, i, key, "Cholesky-vs-LU-route", fl(ch), fl(lu_), n, 1, cond)
        elif op in ("msolve_v", "msolve_m", "minv"):
            r, c = int(t[1]), int(t[2])
            A, p = rvec(3)
            if r != c or r * c != len(A) or r == 0:
                if st != "panic" and not (r == c and r * c == len(A)):
                    fails.append(Failure(i, op + ":shape", "%s accepted a %dx%d matrix with %d entries" % (op, r, c, len(A))))
                continue
            n = r
            ins, cond = scope(A, n)
            key = "%s:n=%d" % (op, n)
            if op == "msolve_v":
                B, p = rvec(p)
                ncol = 1
                if len(B) != n:
                    if st != "panic":
                        fails.append(Failure(i, op + ":shape", "msolve_v accepted a right-hand side of length %d for order %d" % (len(B), n)))
                    continue
                X = fl(toks[1:]) if st == "ok" else None
            elif op == "msolve_m":
                br, bc_ = int(t[p]), int(t[p + 1])
                B, p = rvec(p + 2)
                if br != n or br * bc_ != len(B) or bc_ == 0:
                    continue
                ncol = bc_
                X = fl(toks[3:]) if st == "ok" else None
            else:
                B = [1.0 if a == b else 0.0 for a in range(n) for b in range(n)]
                ncol = n
                X = fl(toks[3:]) if st == "ok" else None
            if finite(B):
                check_solution(fails, i, key, op, A, n, X, B, ncol, ins)
        elif op in ("r2c", "c2r"):
            a, p = rvec(1)
            nr = int(t[p])
            if nr == 0 or len(a) % nr:
                if st != "panic":
                    fails.append(Failure(i, op + ":shape", "%s accepted %d entries with %d rows" % (op, len(a), nr)))
                continue
            ncn = len(a) // nr
            got = toks[1:] if st == "ok" else None
            src = t[2:2 + len(a)]
            if op == "r2c":
                exp = [src[(k % nr) * ncn + k // nr] for k in range(len(a))]
            else:
                exp = [src[(k % ncn) * nr + k // ncn] for k in range(len(a))]
            if got != exp:
                fails.append(Failure(i, op, "%s of a %dx%d array is not the transposed layout" % (op, nr, ncn)))
        elif op in ("ispd", "issym"):
            a, p = rvec(1)
            n = isqrt_exact(len(a))
            if n is None:
                if st != "panic":
                    fails.append(Failure(i, op + ":shape", "%s accepted a non-square array" % op))
                continue
            sym = all(not (abs(a[r * n + c] - a[c * n + r]) > EPS) for r in range(n) for c in range(r, n))
            exp = sym if op == "issym" else (sym and all(not (a[r * n + r] <= 0) for r in range(n)))
            if st != "ok" or toks != ["1" if exp else "0"]:
                fails.append(Failure(i, op, "%s returned %s, expected %d" % (op, rep[:20], exp)))
        elif op in ("mis_sym", "mis_pd"):
            r, c = int(t[1]), int(t[2])
            a, p = rvec(3)
            if r * c != len(a) or st != "ok":
                continue
            sym = r == c and all(not (abs(a[x * r + y] - a[y * r + x]) > EPS) for x in range(r) for y in range(x, r))
            exp = sym if op == "mis_sym" else (sym and all(not (a[x * r + x] <= 0) for x in range(r)))
            if toks != ["1" if exp else "0"]:
                fails.append(Failure(i, op, "%s returned %s, expected %d" % (op, rep[:20], exp)))
    dump_stats("C01")
    return fails


def exactly_symmetric(A, n):
    return all(A[i * n + j] == A[j * n + i] for i in range(n) for j in range(i))


def dump_stats(pid):
    try:
        os.makedirs(os.path.join(OUT, pid), exist_ok=True)
        with open(os.path.join(OUT, pid, "oracle_stats.json"), "w") as f:
            json.dump(STATS, f, indent=1, sort_keys=True)
    except Exception:
        pass


def nontrivial(line, reply):
    t = line.split()
    if not t or t[0].startswith("#") or reply.startswith("#"):
        return None
    if t[0] in ("msolve_v", "msolve_m", "minv"):
        return "%s %s" % (t[0], t[1])
    return "%s %s %s" % (t[0], t[1], t[int(t[1]) + 2] if len(t) > int(t[1]) + 2 else "")

# --- deep theorems (second pass; modules written in their own files, wired here by the lead)
PROOF_MODULES = PROOF_MODULES + ['Compute.Props.C11Lu', 'Compute.Props.Rounding']
REQUIRED_THEOREMS = REQUIRED_THEOREMS + ['Cv.C11Lu.luSolve_spec', 'Cv.C11Lu.luSolve_some', 'Cv.C11Lu.lu_pivots_ne_zero_of_nonsingular', 'Cv.C11Lu.lu_solve_nonsingular', 'Cv.C11Lu.matrix_solve_correct', 'Cv.C11Lu.matrix_solveV_correct', 'Cv.C11Lu.matrix_inv_correct', 'Cv.Rounding.forwardSubstitution_backward_error', 'Cv.Rounding.backwardSubstitution_backward_error', 'Cv.Rounding.forwardSubstitution_residual', 'Cv.Rounding.backwardSubstitution_residual', 'Cv.Rounding.choleskySolve_backward_error']
_np = list(NOT_PROVED)
_np[0] = 'floating-point rounding of the factorisations (LU / Cholesky backward error) and hence the end-to-end residual bound: decided per run by the exact-arithmetic oracle; the triangular solves DO have proved backward-error bounds in the standard model (Props/Rounding: (T+dT)x = b, |dT| <= gamma_n |T|)'
_np[1] = 'cholesky_correct (L*L^T = A) and the Cholesky route of `solve` (Props/C01Solve, in progress); the LU route IS proved: P*A = L*U, luSolve solves A x = b for non-singular A, Matrix::solve / inv correct (Props/C11Lu)'
_np[2] = None
NOT_PROVED = [x for x in _np if x is not None]

# --- deep theorems (2: solve correctness)
PROOF_MODULES = PROOF_MODULES + ['Compute.Props.C01Solve', 'Compute.Props.C01SolveApps']
REQUIRED_THEOREMS = REQUIRED_THEOREMS + ['Cv.C01Solve.luSolveCorrect', 'Cv.C01Solve.solve_correct', 'Cv.C01Solve.route_independence', 'Cv.C01Solve.solveWith_route_independent', 'Cv.C01Solve.solve_eq_inv_mulVec', 'Cv.C01Solve.solveSys_correct', 'Cv.C01Solve.invertMatrix_correct', 'Cv.C01Solve.invertMatrix_two_sided', 'Cv.C01Solve.solve_total', 'Cv.C01Solve.solveSys_total', 'Cv.C01Solve.invertMatrix_total', 'Cv.C01Solve.solve_total_real']
_np = list(NOT_PROVED)
_np = [(None if 'cholesky_correct (L*L^T = A) and the Cholesky route' in str(x) else x) for x in _np]
NOT_PROVED = [x for x in _np if x is not None]

# --- deep theorems (RoundingLU)
PROOF_MODULES = PROOF_MODULES + ['Compute.Props.RoundingLU', 'Compute.Lemmas.FactorRounding', 'Compute.Lemmas.FactorRoundingLu', 'Compute.Lemmas.FactorRoundingLuStruct', 'Compute.Lemmas.FactorRoundingLuSolveStruct']
REQUIRED_THEOREMS = REQUIRED_THEOREMS + ['Cv.RoundingLU.solve_backward_error', 'Cv.RoundingLU.choleskyRoute_backward_error', 'Cv.RoundingLU.luRoute_backward_error', 'Cv.RoundingLU.luRoute_residual', 'Cv.RoundingLU.choleskyRoute_residual', 'Cv.RoundingLU.luRoute_backward_error_norm', 'Cv.RoundingLU.f64_note']
NOT_PROVED = [x for x in NOT_PROVED if not any(k in str(x) for k in ('floating-point rounding of the factorisations',))]
NOT_PROVED = NOT_PROVED + ["the end-to-end floating-point residual bound in terms of ||A|| (the property's form) needs the growth factor of partial pivoting, which is not bounded by a theorem; PROVED in the standard model (Props/RoundingLU): whatever `solve` returns satisfies (A+dA)x = b with |dA| <= gamma_(3n)|L||U| (LU route, also norm-wise gamma_(3n) n ||U||) resp. gamma_(3n+1)|L||L^T| (Cholesky route), with residual corollaries; trusted link: IEEE binary64 arithmetic and sqrt obey fl(x) = x(1+d), |d| <= 2^-53, absent overflow/underflow"]

# --- source tie, in-place mutation / nested loops / decision trees (tools/rs2lean.py mut=True: regenerated from /repo/src into
# Generated/SrcC11Mut.lean and proved equal to the hand model in Props/SrcTieC11Mut.lean)
from . import srctie
srctie.wire_mut(globals(), 'C11')

# --- source tie, whole solve routes (translator pass 4: solve, solve_sys, invert_matrix regenerated from utils.rs into Generated/SrcC01Mut.lean,
# proved equal to Model/Solve.lean in Props/SrcTieC01Mut.lean)
from . import srctie
srctie.wire_mut(globals(), 'C01')

# --- deep theorems (Rounding6: end-to-end residual / backward-error bounds in the standard model, wired by the lead)
PROOF_MODULES = PROOF_MODULES + [m for m in ['Compute.Lemmas.Rounding6', 'Compute.Props.Rounding6'] if m not in PROOF_MODULES]
REQUIRED_THEOREMS = REQUIRED_THEOREMS + ['Cv.Rounding6.luRoute_residual_norm', 'Cv.Rounding6.luRoute_residual_growth', 'Cv.Rounding6.chol_weight_le', 'Cv.Rounding6.choleskyRoute_residual_norm', 'Cv.Rounding6.invertMatrix_residual']
NOT_PROVED = list(NOT_PROVED) + ["in the property's norm-wise form (Props/Rounding6), per component: LU route |b - A x|_i <= gamma_(3n) rho ||A|| ||x|| with rho = || |L||U| || / ||A|| explicit and NOT bounded; Cholesky route |b - A x|_i <= gamma_(3n+1) n/(1-gamma_(n+1)) max a_ii ||x|| unconditionally (no growth quantity)"]

# --- review round (property owner): Matrix entry points total + backward error transported; claims tightened
PROOF_MODULES = PROOF_MODULES + [m for m in ['Compute.Props.C01Review'] if m not in PROOF_MODULES]
REQUIRED_THEOREMS = REQUIRED_THEOREMS + [t for t in [
    'Cv.C01Review.matrix_solveV_total', 'Cv.C01Review.matrix_solve_total', 'Cv.C01Review.matrix_inv_total',
    'Cv.C01Review.matrix_solveV_none', 'Cv.C01Review.matrix_solveM_no_columns', 'Cv.C01Review.matrix_inv_order_zero',
    'Cv.C01Review.matrix_solveV_routes_slice', 'Cv.C01Review.matrix_solveV_backward_error',
    'Cv.C01Solve.cholesky_posDef', 'Cv.C01.ratSqrt_witness'] if t not in REQUIRED_THEOREMS]
NOT_PROVED = list(NOT_PROVED) + [
    "the rounding theorems (solve_backward_error, luRoute_*, choleskyRoute_*, matrix_solveV_backward_error) hold for n >= 2 under (3n+1)u < 1, "
    "PROVIDED no computed pivot is zero and every operation obeys fl(x) = x(1+d), |d| <= u, i.e. no overflow and no underflow (FlModel quantifies "
    "over all reals, which no binary64 run satisfies globally; in the model x/0 rounds to 0 where the code yields inf/NaN); at the extreme "
    "power-of-two scales of the generator (|k| up to 1000) and for subnormal intermediates these hypotheses fail and only the oracle decides",
    "FINITENESS of the returned values / absence of overflow: no theorem; decided per run by the oracle only (every generated in-scope system must give finite values)",
    "rounding theorems are stated for solve, invert_matrix (Props/Rounding6) and Matrix::solve with a Vector (Props/C01Review); solve_sys and Matrix::solve with a Matrix "
    "inherit them column by column only through solveSys_column / matrix_solve_correct (no separately stated rounded theorem); Matrix::inv likewise",
    "is_square: the Rust code takes an f32 square root; the model uses the exact integer square root. They agree for every length below 2^24 "
    "(at 2^24+1 Rust answers Ok(4096) and the model panics); every theorem that quantifies over the length is about the model, i.e. holds for the code only for fewer than 2^24 elements",
]
TRUSTED = list(TRUSTED) + [
    "standard model of floating-point arithmetic (Lemmas/FlModel: fl(a op b) = (a op b)(1+d), |d| <= u for + - * / and FlSqrt for sqrt) as the link between the rounding theorems and IEEE binary64 - valid only without overflow/underflow",
    "oracle scope: residual and agreement bounds are enforced for cond_inf <= 1e11 (the property quantifies to 1e10); route / entry-point agreement tolerance is 500 n eps cond (about 3.5e-2 relative at cond 1e10, n = 32), residual tolerance 200 n eps (|A||X|+|B|)",
    "source tie covers the slice-level routines only (substitutions, lu, lu_solve, try_cholesky, cholesky_solve, and the routing glue / per-column loops of solve, solve_sys, invert_matrix); "
    "the predicates is_symmetric / is_positive_definite / is_exactly_symmetric / is_square / is_matrix and every Matrix method (Matrix::lu, Solve::lu_solve, Solve<Matrix>::{lu_solve, solve}, Matrix::inv) are hand-modelled and tied by run-time bit-exact correspondence only",
]

# --- review repairs in the Rounding layer (renamed stdmodel_* theorems, underflow-aware variants, genuine FlModel instance; wired by the lead)
PROOF_MODULES = PROOF_MODULES + [m for m in ['Compute.Lemmas.FlModelGrid', 'Compute.Props.RoundingGrid'] if m not in PROOF_MODULES]
REQUIRED_THEOREMS = REQUIRED_THEOREMS + [t for t in ['Cv.RoundingGrid.Step.HG_solve', 'Cv.FlModel.grid_abs_sub_le', 'Cv.FlModel.grid_idem', 'Cv.FlModel.grid_mono', 'Cv.FlModel.grid_rnd_one', 'Cv.FlModel.grid_rnd_natCast', 'Cv.FlModel.grid_rnd_dyadic', 'Cv.FlModel.f64grid_u', 'Cv.FlModel.f64grid_mono'] if t not in REQUIRED_THEOREMS]
NOT_PROVED = list(NOT_PROVED) + ['FlModel has a genuine instance, FlModel.grid p (radix 2, p digits, round to nearest, unbounded exponent; f64grid has u = 2^-53), proved to satisfy the standard model and to be idempotent and monotone, with integers <= 2^p and dyadics exact (Lemmas/FlModelGrid); headline rounding theorems are instantiated on it (Props/RoundingGrid); overflow and underflow remain outside the model']

# --- FINAL (second review round, property owner): complete literal lists; supersedes every earlier NOT_PROVED / TRUSTED / ASSUMPTIONS edit above
PROOF_MODULES = PROOF_MODULES + [m for m in ['Compute.Props.C01Review2'] if m not in PROOF_MODULES]
REQUIRED_THEOREMS = REQUIRED_THEOREMS + [t for t in [
    'Cv.C01Review.solveSys_column_backward_error', 'Cv.C01Review.invertMatrix_column',
    'Cv.C01Review.rowToColMajor_eq_shape', 'Cv.C01Review.colToRowMajor_eq_shape',
    'Cv.C01Review.rowToColMajor_src', 'Cv.C01Review.colToRowMajor_src',
    'Cv.C01Review.matrix_solveV_nonsquare', 'Cv.C11Lu.lu_correct', 'Cv.C11Lu.lu_correct_ordered'] if t not in REQUIRED_THEOREMS]
NOT_PROVED = [
    "a bound on the growth factor of partial pivoting, hence the residual in the ||A||-form of the property: NOT proved. What IS proved, in the standard model and ONLY under the provisos of the next "
    "bullet: whatever solve returns satisfies (A+dA)x = b with |dA| <= gamma_(3n)|L||U| (LU route; norm-wise gamma_(3n) n ||U||) resp. gamma_(3n+1)|L||L^T| (Cholesky route), with residual corollaries; "
    "per component in norm-wise form (Props/Rounding6): LU route |b - A x|_i <= gamma_(3n) rho ||A|| ||x|| with rho = || |L||U| || / ||A|| explicit and NOT bounded, Cholesky route "
    "|b - A x|_i <= gamma_(3n+1) n/(1-gamma_(n+1)) max a_ii ||x|| with no growth quantity",
    "PROVISOS of every rounding theorem (solve_backward_error, luRoute_*, choleskyRoute_*, matrix_solveV_backward_error, solveSys_column_backward_error, Rounding6.*): n >= 2, (3n+1)u < 1, "
    "NO COMPUTED PIVOT IS ZERO on the LU route (in the model x/0 rounds to 0 where the code yields inf/NaN), and every operation obeys fl(x) = x(1+d), |d| <= u, i.e. no overflow and no underflow. "
    "The model has a genuine instance (FlModel.grid: radix 2, p digits, round to nearest, UNBOUNDED exponent; Lemmas/FlModelGrid, Props/RoundingGrid), so the hypotheses are satisfiable, but binary64 "
    "satisfies them only while no intermediate overflows or becomes subnormal; at the extreme power-of-two scales of the generator (|k| up to 1000) only the oracle decides",
    "FINITENESS of the returned values / absence of overflow: no theorem; decided per run by the oracle only (every generated in-scope system must give finite values)",
    "which entry points carry a rounded theorem: solve (RoundingLU.solve_backward_error), invert_matrix (Rounding6.invertMatrix_residual), Matrix::solve with a Vector (C01Review.matrix_solveV_backward_error), "
    "and solve_sys / invert_matrix COLUMN BY COLUMN (C01Review.solveSys_column_backward_error, invertMatrix_column: each returned column is exactly what solve returns on that column, at every scalar type). "
    "Matrix::solve with a Matrix right-hand side and Matrix::inv have NO rounded theorem (their column-splitting lemmas colsM_spec / matrix_solve_correct are stated over fields only); for them the reduction to "
    "Matrix::solve with a Vector rests on the oracle clause that every column of the Matrix result is bit-identical to Matrix::solve on that column",
    "result = Mathlib A^-1 b resp. A^-1 is proved for the slice entry points (solve, solve_sys, invert_matrix) only; for the Matrix entry points the proved statement is A.x = b, A.X = B, A.X = I (which determines the result uniquely for non-singular A, but the identification with Mathlib's inverse is not stated)",
    "is_square: the Rust code takes an f32 square root; the model uses the exact integer square root. They agree for every length below 2^24 (at 2^24+1 Rust answers Ok(4096) and the model panics); "
    "every theorem that quantifies over the length is about the model, i.e. holds for the code only for fewer than 2^24 elements",
]
TRUSTED = [
    "is_square modelled with an exact integer square root (f32 sqrt is exact below 2^24 elements)",
    "standard model of floating-point arithmetic (Lemmas/FlModel: fl(a op b) = (a op b)(1+d), |d| <= u for + - * / and FlSqrt for sqrt) as the link between the rounding theorems and IEEE binary64 - valid only without overflow/underflow",
    "numpy condition-number estimate (inf-norm), used only to decide whether an input is inside the oracle's scope: the property quantifies to cond 1e10, the generators produce up to 1e10, and the oracle enforces "
    "its bounds for every input with cond_inf <= 1e11 (one decade of slack for the estimate); residual tolerance 200 n eps (|A||X|+|B|), route / entry-point agreement tolerance 500 n eps cond "
    "(about 3.5e-2 relative at cond 1e10, n = 32)",
    "source tie covers the slice-level routines only: substitutions, lu, lu_solve, try_cholesky, cholesky_solve, the routing glue / per-column loops of solve, solve_sys, invert_matrix, and "
    "row_to_col_major / col_to_row_major (regenerated under C15 against Cv.Shape.*, bridged to the Cv.LA.* functions solve_sys calls by C01Review.rowToColMajor_src / colToRowMajor_src); the predicates "
    "is_symmetric / is_positive_definite / is_exactly_symmetric / is_square / is_matrix and every Matrix method (Matrix::lu, Solve::lu_solve, Solve<Matrix>::{lu_solve, solve}, Matrix::inv) are hand-modelled "
    "and tied by run-time bit-exact correspondence only",
]
ASSUMPTIONS = ["default cargo features (no blas/lapack)", "matrix element count < 2^24"]


# --- round 9 (property owner): the routing predicates `is_symmetric` / `is_exactly_symmetric` are outside the translator subset
# (early `return false` in a bool function), so their LOOP BOUNDS and comparison are extracted here with a narrow pattern and emitted
# as Generated/SrcC01Pred.lean; Props/SrcTieC01Pred.lean proves the generated predicates equal to the model (a changed bound breaks it).
import re as _re


def _rs_fn(src, name):
    m = _re.search(r"fn %s\s*\(m: &\[f64\]\) -> bool \{" % name, src)
    if not m:
        raise ValueError("fn %s not found" % name)
    i, depth = m.end(), 1
    while depth and i < len(src):
        depth += {"{": 1, "}": -1}.get(src[i], 0)
        i += 1
    body = _re.sub(r"//[^\n]*", "", src[m.end():i - 1])
    return " ".join(body.split())


def _rs_nat(e):
    """usize expression over i, n, literals with + * / ( ) only -> Lean Nat expression"""
    e = e.strip()
    if not _re.fullmatch(r"[in0-9+*/() ]+", e):
        raise ValueError("bound %r outside the supported subset" % e)
    return "(" + e + ")"


def _pred_extract(repo):
    from . import common as _c
    src = open(os.path.join(repo, "src/linalg/utils.rs")).read()
    pat = (r"let n = is_square\(m\)\.unwrap\(\); for i in (.+?)\.\.(.+?) \{ for j in (.+?)\.\.(.+?) \{ if (.+?) \{ return false; \} \} \} true")
    out = []
    try:
        for name, lean, cond_rs, cond_lean in (
            ("is_symmetric", "isSymmetric", "(m[i * n + j] - m[j * n + i]).abs() > f64::EPSILON",
             "!(decide ((Cv.LA.eps : α) < Cv.Transc.abs (Cv.LA.rd m (i * n + j) - Cv.LA.rd m (j * n + i))))"),
            ("is_exactly_symmetric", "isExactlySymmetric", "m[i * n + j] != m[j * n + i]",
             "!(Cv.LA.rd m (i * n + j) != Cv.LA.rd m (j * n + i))")):
            body = _rs_fn(src, name)
            m = _re.fullmatch(pat, body)
            if not m:
                raise ValueError("%s: body no longer has the shape `for i { for j { if c { return false } } } true`: %s" % (name, body[:160]))
            lo1, hi1, lo2, hi2, cond = (x.strip() for x in m.groups())
            if cond != cond_rs:
                raise ValueError("%s: comparison changed to `%s`" % (name, cond))
            out.append("-- src/linalg/utils.rs :: %s   (for i in %s..%s, for j in %s..%s, early `return false` = `List.all`)\n"
                       "def %s (m : List α) : Option Bool := do\n  let n ← Cv.LA.isSquare m.length\n"
                       "  pure ((List.range' %s (%s - %s)).all fun i => (List.range' %s (%s - %s)).all fun j =>\n    %s)\n"
                       % (name, lo1, hi1, lo2, hi2, lean, _rs_nat(lo1), _rs_nat(hi1), _rs_nat(lo1), _rs_nat(lo2), _rs_nat(hi2), _rs_nat(lo2), cond_lean))
    except ValueError as e:
        raise _c.SourceDrift("C01 predicates: %s" % e, {})
    text = ("import Compute.Model.Solve\n/- GENERATED by tools/cv/c01.py (_pred_extract) from src/linalg/utils.rs on every run: loop bounds and comparison of the\n"
            "routing predicates.  Do not edit. -/\nnamespace Cv.Src.C01Pred\n"
            "variable {α : Type} [Add α] [Sub α] [Mul α] [Div α] [Zero α] [One α] [NatCast α]\n"
            "  [LT α] [DecidableLT α] [LE α] [DecidableLE α] [BEq α] [Cv.Transc α]\n\n" + "\n".join(out) + "\nend Cv.Src.C01Pred\n")
    return {"Compute/Generated/SrcC01Pred.lean": text}


_old_extract = globals().get("EXTRACT") or (lambda repo: {})


def EXTRACT(repo):
    from . import common as _c
    files, notes = {}, []
    for fn in (_old_extract, _pred_extract):
        try:
            files.update(fn(repo))
        except _c.SourceDrift as e:
            files.update(e.files)
            notes.append(str(e))
    if notes:
        raise _c.SourceDrift(" || ".join(notes), files)
    return files


PROOF_MODULES = PROOF_MODULES + [m for m in ['Compute.Props.SrcTieC01Pred', 'Compute.Props.C01Sym'] if m not in PROOF_MODULES]
REQUIRED_THEOREMS = REQUIRED_THEOREMS + [t for t in [
    'Cv.SrcTie.C01Pred.isExactlySymmetric_src', 'Cv.SrcTie.C01Pred.isSymmetric_src',
    'Cv.C01Sym.isExactlySymmetric_iff', 'Cv.C01Sym.isExactlySymmetric_total', 'Cv.C01Sym.route_asymmetric_is_lu'] if t not in REQUIRED_THEOREMS]
TRUSTED = [(x.replace("the predicates is_symmetric / is_positive_definite / is_exactly_symmetric / is_square / is_matrix",
                      "the loop bounds and comparisons of is_symmetric / is_exactly_symmetric are extracted from the Rust text by a narrow pattern and proved equal to the model "
                      "(Props/SrcTieC01Pred; their early `return false` is read as List.all); is_positive_definite (diagonal loop) / is_square / is_matrix")
            if isinstance(x, str) else x) for x in TRUSTED]
