import Compute.Model.Rng
/-
Range and counting lemmas about the generator model `Model/Rng.lean` (no Mathlib).
-/
namespace Cv.Rng

theorem toNat_ofNat_lt {n : Nat} (h : n < 2 ^ 64) : (UInt64.ofNat n).toNat = n := by
  simp [UInt64.toNat_ofNat', Nat.mod_eq_of_lt h]

/-- `mulHi` is the quotient of the exact product by `2^64`. -/
theorem mulHi_toNat (a b : UInt64) : (mulHi a b).toNat = a.toNat * b.toNat / 2 ^ 64 := by
  unfold mulHi
  apply toNat_ofNat_lt
  have ha := a.toNat_lt
  have hb := b.toNat_lt
  apply Nat.div_lt_of_lt_mul
  exact Nat.mul_lt_mul'' ha hb

/-- The high word of `r·m` is below `m` (for `m > 0`). -/
theorem mulHi_lt (r m : UInt64) (hm : 0 < m.toNat) : (mulHi r m).toNat < m.toNat := by
  rw [mulHi_toNat]
  apply Nat.div_lt_of_lt_mul
  exact Nat.mul_lt_mul_of_pos_right r.toNat_lt hm

theorem f53_lt (g : Rng) : (g.f53).1 < 2 ^ 53 := by
  simp only [f53, u64]
  rw [UInt64.toNat_shiftRight]
  have h := (wyMix (g.s + wyInc)).toNat_lt
  have : (11 : UInt64).toNat % 64 = 11 := by decide
  rw [this, Nat.shiftRight_eq_div_pow]
  omega


/-! ### Lemire's bounded draw -/

/-- Rejection threshold of Lemire's method: `2^64 mod m` (computed as `(-m) mod m`). -/
def lemireT (m : UInt64) : UInt64 := (0 - m) % m

/-- A raw word `r` is accepted for bound `m` iff the low word of `r·m` is not below the threshold. -/
def lemireAccept (m r : UInt64) : Prop := ¬ (r * m < lemireT m)

theorem lemireT_toNat (m : UInt64) (hm : 0 < m.toNat) : (lemireT m).toNat = 2 ^ 64 % m.toNat := by
  unfold lemireT
  rw [UInt64.toNat_mod, UInt64.toNat_sub]
  have h := m.toNat_lt
  have h0 : (0 : UInt64).toNat = 0 := rfl
  have h1 : (2 ^ 64 - m.toNat) % 2 ^ 64 = 2 ^ 64 - m.toNat := Nat.mod_eq_of_lt (by omega)
  rw [h0, Nat.add_zero, h1]
  have h2 : 2 ^ 64 % m.toNat = ((2 ^ 64 - m.toNat) + m.toNat) % m.toNat := by
    congr 1; omega
  rw [h2, Nat.add_mod_right]

theorem lemireT_lt (m : UInt64) (hm : 0 < m.toNat) : (lemireT m).toNat < m.toNat := by
  rw [lemireT_toNat m hm]; exact Nat.mod_lt _ hm

theorem lemireLoop_spec {m t : UInt64} {fuel : Nat} {g g' : Rng} {v : UInt64}
    (h : lemireLoop m t fuel g = some (v, g')) : ∃ r : UInt64, ¬ (r * m < t) ∧ v = mulHi r m := by
  induction fuel generalizing g with
  | zero => simp [lemireLoop] at h
  | succ k ih =>
    simp only [lemireLoop] at h
    split at h
    · exact ih h
    · rename_i hr
      simp only [Option.some.injEq, Prod.mk.injEq] at h
      exact ⟨_, hr, h.1.symm⟩

/-- Every value returned by `u64LessThan` is the high word `mulHi r m` of an *accepted* raw word `r`. -/
theorem u64LessThan_spec {fuel : Nat} {m : UInt64} {g g' : Rng} {v : UInt64}
    (h : u64LessThan fuel m g = some (v, g')) : ∃ r : UInt64, lemireAccept m r ∧ v = mulHi r m := by
  simp only [u64LessThan] at h
  split at h
  · split at h
    · exact lemireLoop_spec h
    · rename_i _ hr
      simp only [Option.some.injEq, Prod.mk.injEq] at h
      exact ⟨_, hr, h.1.symm⟩
  · rename_i hr
    simp only [Option.some.injEq, Prod.mk.injEq] at h
    refine ⟨_, ?_, h.1.symm⟩
    intro hlt
    apply hr
    rw [UInt64.lt_iff_toNat_lt] at hlt ⊢
    by_cases hm : 0 < m.toNat
    · exact Nat.lt_trans hlt (lemireT_lt m hm)
    · have hm0 : m.toNat = 0 := by omega
      have : (lemireT m).toNat = 0 := by
        unfold lemireT; rw [UInt64.toNat_mod, hm0, Nat.mod_zero, UInt64.toNat_sub, hm0]; rfl
      omega

/-- Range of the bounded draw: for `m > 0` every returned value is `< m`. -/
theorem u64LessThan_lt {fuel : Nat} {m : UInt64} {g g' : Rng} {v : UInt64}
    (h : u64LessThan fuel m g = some (v, g')) (hm : 0 < m) : v < m := by
  obtain ⟨r, _, rfl⟩ := u64LessThan_spec h
  rw [UInt64.lt_iff_toNat_lt] at hm ⊢
  exact mulHi_lt r m hm

theorem lemireLoop_fuel_mono {m t : UInt64} {f f' : Nat} {g : Rng} {r : UInt64 × Rng}
    (h : lemireLoop m t f g = some r) (hf : f ≤ f') : lemireLoop m t f' g = some r := by
  induction f generalizing g f' with
  | zero => simp [lemireLoop] at h
  | succ k ih =>
    obtain ⟨k', rfl⟩ : ∃ k', f' = k' + 1 := ⟨f' - 1, by omega⟩
    simp only [lemireLoop] at h ⊢
    split
    · rename_i hr; rw [if_pos hr] at h; exact ih h (by omega)
    · rename_i hr; rw [if_neg hr] at h; exact h

/-- More fuel never changes a successful bounded draw (value and next state). -/
theorem u64LessThan_fuel_mono {f f' : Nat} {m : UInt64} {g : Rng} {r : UInt64 × Rng}
    (h : u64LessThan f m g = some r) (hf : f ≤ f') : u64LessThan f' m g = some r := by
  simp only [u64LessThan] at h ⊢
  split
  · rename_i h1; rw [if_pos h1] at h
    split
    · rename_i h2; rw [if_pos h2] at h; exact lemireLoop_fuel_mono h hf
    · rename_i h2; rw [if_neg h2] at h; exact h
  · rename_i h1; rw [if_neg h1] at h; exact h


end Cv.Rng
