import Compute.Drv.Common
import Compute.Model.Scalar
import Compute.Model.Interp
/-
Driver for C16.  Request: `interp <chk|unc> <panic|fill l r|extrap> <xvec> <yvec> <tvec>`.
Reply: `= <vec>` or `! panic`.
-/
open Cv

def c16Mode : P (ExtrapMode Float) := do
  let m ← tok
  match m with
  | "panic" => pure .panic
  | "extrap" => pure .extrapolate
  | "fill" => do let l ← pFloat; let r ← pFloat; pure (.fill l r)
  | _ => failure

def c16Step (args : List String) : String :=
  match args with
  | "interp" :: variant :: rest =>
    if variant != "chk" && variant != "unc" then badOp else
    withArgs (do
      let m ← c16Mode
      let x ← pVec; let y ← pVec; let t ← pVec
      pure (m, x, y, t)) rest fun (m, x, y, t) =>
      let r := if variant == "chk" then interpChecked x y t m else interpUnchecked x y t m
      match r with
      | none => panicked
      | some v => ok (showVec v)
  | "interp_alias" :: variant :: rest =>
    -- x and tgt are windows of one buffer in the executor; the model sees the values only (aliasing is invisible)
    if variant != "chk" && variant != "unc" then badOp else
    withArgs (do
      let m ← c16Mode
      let xa ← pNat; let n ← pNat; let tb ← pNat; let k ← pNat
      let buf ← pVec; let y ← pVec
      pure (m, xa, n, tb, k, buf, y)) rest fun (m, xa, n, tb, k, buf, y) =>
      if xa + n > buf.length ∨ tb + k > buf.length then badOp else
      let x := (buf.drop xa).take n
      let t := (buf.drop tb).take k
      let r := if variant == "chk" then interpChecked x y t m else interpUnchecked x y t m
      match r with
      | none => panicked
      | some v => ok (showVec v)
  | _ => badOp

def main (args : List String) : IO UInt32 := mainWith () (fun _ t => ((), c16Step t)) args
